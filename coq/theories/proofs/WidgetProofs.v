(* WidgetProofs.v — lemmas about Widget.v (draw / write of simpleline.render.widgets.Widget), used by props/C15.v.
   Everything is stated cell-wise: [cell b i j] is the character shown at row i, column j (None = no such cell). *)
From SL Require Import Tac.
From SL Require Import Widget.
From Coq Require Import Sorted.
Import ListNotations.

(* ------------------------------------------------------------------ observations of a buffer *)
Definition cell (b : buffer) (i j : nat) : option char :=
  match nth_error b i with Some l => nth_error l j | None => None end.

(* length of row i, 0 when the row does not exist *)
Definition row_len (b : buffer) (i : nat) : nat :=
  match nth_error b i with Some l => length l | None => 0 end.

(* row i, [] when the row does not exist (proof-side helper) *)
Definition row (b : buffer) (i : nat) : line := nth i b [].

Lemma cell_row b i j : cell b i j = nth_error (row b i) j.
Proof.
  unfold cell, row. destruct (nth_error b i) as [l|] eqn:E.
  - erewrite nth_error_nth; eauto.
  - apply nth_error_None in E. rewrite nth_overflow by lia. destruct j; reflexivity.
Qed.

Lemma row_len_row b i : row_len b i = length (row b i).
Proof.
  unfold row_len, row. destruct (nth_error b i) as [l|] eqn:E.
  - erewrite nth_error_nth; eauto.
  - apply nth_error_None in E. rewrite nth_overflow by lia. reflexivity.
Qed.

Lemma row_nil i : row [] i = [].
Proof. destruct i; reflexivity. Qed.

Lemma cell_some_lt b i j v : cell b i j = Some v -> j < row_len b i.
Proof.
  rewrite cell_row, row_len_row. intros H. apply nth_error_Some. congruence.
Qed.

Lemma cell_none_ge b i j : cell b i j = None <-> row_len b i <= j.
Proof. rewrite cell_row, row_len_row. apply nth_error_None. Qed.

(* ------------------------------------------------------------------ list helpers *)
Lemma nth_error_firstn_lt {A} : forall n (l : list A) j, j < n -> nth_error (firstn n l) j = nth_error l j.
Proof.
  induction n as [|n IH]; intros l j H; [lia|].
  destruct l as [|a l]; [reflexivity|]. destruct j as [|j]; [reflexivity|].
  cbn. apply IH. lia.
Qed.

Lemma nth_error_skipn_add {A} : forall n (l : list A) j, nth_error (skipn n l) j = nth_error l (n + j).
Proof.
  induction n as [|n IH]; intros l j; [reflexivity|].
  destruct l as [|a l]; [destruct j; reflexivity|]. cbn. apply IH.
Qed.

Lemma nth_error_repeat_lt {A} (a : A) : forall n j, j < n -> nth_error (repeat a n) j = Some a.
Proof.
  induction n as [|n IH]; intros j H; [lia|]. destruct j as [|j]; [reflexivity|]. cbn. apply IH. lia.
Qed.

Lemma nth_repeat_nil : forall n i, nth i (repeat ([] : line) n) ([] : line) = [].
Proof. induction n as [|n IH]; intros [|i]; cbn; auto. Qed.

(* a padded line: the old cells, then blanks up to the new length *)
Lemma nth_error_pad (l : line) n j :
  nth_error (l ++ repeat SP n) j =
  if j <? length l then nth_error l j else if j <? length l + n then Some SP else None.
Proof.
  destruct (j <? length l) eqn:E1.
  - apply nth_error_app1. lia.
  - rewrite nth_error_app2 by lia. destruct (j <? length l + n) eqn:E2.
    + apply nth_error_repeat_lt. lia.
    + apply nth_error_None. rewrite repeat_length. lia.
Qed.

(* ------------------------------------------------------------------ put_line *)
Lemma put_line_length tl c s : length (put_line tl c s) = Nat.max (length tl) (c + length s).
Proof.
  unfold put_line. repeat rewrite ?app_length, ?firstn_length, ?skipn_length, ?repeat_length. lia.
Qed.

Lemma put_line_nth tl c s j :
  nth_error (put_line tl c s) j =
    if j <? c then (if j <? length tl then nth_error tl j else Some SP)
    else if j <? c + length s then nth_error s (j - c)
    else nth_error tl j.
Proof.
  unfold put_line.
  set (n := c + length s - length tl).
  assert (Hf : length (firstn c (tl ++ repeat SP n)) = c).
  { rewrite firstn_length, app_length, repeat_length. lia. }
  destruct (j <? c) eqn:E1.
  - rewrite nth_error_app1 by lia. rewrite nth_error_firstn_lt by lia.
    rewrite nth_error_pad. destruct (j <? length tl) eqn:E2; [reflexivity|].
    destruct (j <? length tl + n) eqn:E3; [reflexivity|]. lia.
  - rewrite nth_error_app2 by lia. rewrite Hf.
    destruct (j <? c + length s) eqn:E2.
    + apply nth_error_app1. lia.
    + rewrite nth_error_app2 by lia. rewrite nth_error_skipn_add, nth_error_pad.
      replace (c + length s + (j - c - length s)) with j by lia.
      destruct (j <? length tl) eqn:E3; [reflexivity|].
      destruct (j <? length tl + n) eqn:E4; [lia|].
      symmetry. apply nth_error_None. lia.
Qed.

(* ------------------------------------------------------------------ overlay / draw_at, row-wise *)
Lemma overlay_length : forall src b c, length (overlay b c src) = Nat.max (length b) (length src).
Proof.
  induction src as [|s src IH]; intros b c; cbn [overlay length]; [lia|].
  destruct b as [|l b]; cbn [length]; rewrite IH; cbn [length]; lia.
Qed.

Lemma row_cons_S (l : line) b i : row (l :: b) (S i) = row b i.
Proof. reflexivity. Qed.

Lemma overlay_row : forall src b c i,
  row (overlay b c src) i = if i <? length src then put_line (row b i) c (row src i) else row b i.
Proof.
  induction src as [|s src IH]; intros b c i; cbn [overlay length].
  - reflexivity.
  - destruct b as [|l b]; destruct i as [|i]; try reflexivity.
    + rewrite row_cons_S, IH. change (S i <? S (length src)) with (i <? length src).
      rewrite ?row_cons_S, ?row_nil. reflexivity.
    + rewrite row_cons_S, IH. change (S i <? S (length src)) with (i <? length src).
      rewrite ?row_cons_S. reflexivity.
Qed.

Lemma draw_at_length : forall r b c src, length (draw_at b r c src) = Nat.max (length b) (r + length src).
Proof.
  induction r as [|r IH]; intros b c src; cbn [draw_at].
  - rewrite overlay_length. lia.
  - destruct b as [|l b]; cbn [length]; rewrite IH; cbn [length]; lia.
Qed.

Lemma draw_at_row : forall r b c src i,
  row (draw_at b r c src) i =
  if (r <=? i) && (i <? r + length src) then put_line (row b i) c (row src (i - r)) else row b i.
Proof.
  induction r as [|r IH]; intros b c src i; cbn [draw_at].
  - rewrite overlay_row. rewrite Nat.sub_0_r. cbn [Nat.leb andb Nat.add]. reflexivity.
  - destruct b as [|l b]; destruct i as [|i]; try reflexivity.
    + rewrite row_cons_S, IH.
      change (S r <=? S i) with (r <=? i). change (S i <? S r + length src) with (i <? r + length src).
      change (S i - S r) with (i - r). rewrite ?row_nil. reflexivity.
    + rewrite row_cons_S, IH.
      change (S r <=? S i) with (r <=? i). change (S i <? S r + length src) with (i <? r + length src).
      change (S i - S r) with (i - r). rewrite ?row_cons_S. reflexivity.
Qed.

(* ------------------------------------------------------------------ draw, cell-wise *)
(* the specification of one cell after  T.draw(S, r, c)  *)
Definition in_rows (r : nat) (src : buffer) (i : nat) : bool := (r <=? i) && (i <? r + length src).
Definition in_rect (r c : nat) (src : buffer) (i j : nat) : bool :=
  in_rows r src i && (c <=? j) && (j <? c + row_len src (i - r)).

Definition draw_cell_spec (T : buffer) (r c : nat) (src : buffer) (i j : nat) : option char :=
  if in_rect r c src i j then cell src (i - r) (j - c)
  else match cell T i j with
       | Some ch => Some ch
       | None => if in_rows r src i && (j <? c) then Some SP else None
       end.

Lemma draw_cells T r c block src i j :
  cell (fst (draw T r c block src)) i j = draw_cell_spec T r c src i j.
Proof.
  unfold draw, draw_cell_spec, in_rect, in_rows. cbn [fst].
  rewrite !cell_row, draw_at_row, !row_len_row.
  destruct ((r <=? i) && (i <? r + length src)) eqn:Erow; cbn [andb].
  - rewrite put_line_nth.
    destruct (j <? c) eqn:E1.
    + replace (c <=? j) with false by lia. cbn [andb].
      destruct (j <? length (row T i)) eqn:E2.
      * destruct (nth_error (row T i) j) eqn:E3; [reflexivity|].
        apply nth_error_None in E3. lia.
      * replace (nth_error (row T i) j) with (@None char); [reflexivity|].
        symmetry. apply nth_error_None. lia.
    + replace (c <=? j) with true by lia. cbn [andb].
      destruct (j <? c + length (row src (i - r))) eqn:E2; [reflexivity|].
      destruct (nth_error (row T i) j); reflexivity.
  - destruct (nth_error (row T i) j); reflexivity.
Qed.

Lemma draw_inside T r c block src i j :
  r <= i -> i < r + length src -> c <= j -> j < c + row_len src (i - r) ->
  cell (fst (draw T r c block src)) i j = cell src (i - r) (j - c).
Proof.
  intros H1 H2 H3 H4. rewrite draw_cells. unfold draw_cell_spec, in_rect, in_rows.
  replace (r <=? i) with true by lia. replace (i <? r + length src) with true by lia.
  replace (c <=? j) with true by lia. replace (j <? c + row_len src (i - r)) with true by lia.
  reflexivity.
Qed.

(* a cell outside the drawn rectangle that existed keeps its character *)
Lemma draw_outside_kept T r c block src i j ch :
  ~ (r <= i < r + length src /\ c <= j < c + row_len src (i - r)) ->
  cell T i j = Some ch ->
  cell (fst (draw T r c block src)) i j = Some ch.
Proof.
  intros H1 H2. rewrite draw_cells. unfold draw_cell_spec.
  destruct (in_rect r c src i j) eqn:E.
  - exfalso. apply H1. unfold in_rect, in_rows in E. lia.
  - rewrite H2. reflexivity.
Qed.

(* blanks are added exactly between the old end of a drawn row and the start column *)
Lemma draw_padding T r c block src i j :
  r <= i -> i < r + length src -> row_len T i <= j -> j < c ->
  cell (fst (draw T r c block src)) i j = Some SP.
Proof.
  intros H1 H2 H3 H4. rewrite draw_cells. unfold draw_cell_spec, in_rect, in_rows.
  replace (c <=? j) with false by lia. rewrite andb_false_r. cbn [andb].
  apply cell_none_ge in H3. rewrite H3.
  replace (r <=? i) with true by lia. replace (i <? r + length src) with true by lia.
  replace (j <? c) with true by lia. reflexivity.
Qed.

(* every other cell stays absent *)
Lemma draw_absent T r c block src i j :
  ~ (r <= i < r + length src /\ j < c + row_len src (i - r)) ->
  cell T i j = None ->
  cell (fst (draw T r c block src)) i j = None.
Proof.
  intros H1 H2. rewrite draw_cells. unfold draw_cell_spec.
  destruct (in_rect r c src i j) eqn:E.
  - exfalso. apply H1. unfold in_rect, in_rows in E. lia.
  - rewrite H2. destruct (in_rows r src i && (j <? c)) eqn:E2; [|reflexivity].
    exfalso. apply H1. unfold in_rows in E2. lia.
Qed.

Lemma draw_height T r c block src :
  length (fst (draw T r c block src)) = Nat.max (length T) (r + length src).
Proof. apply draw_at_length. Qed.

Lemma draw_row_len T r c block src i :
  row_len (fst (draw T r c block src)) i =
  if in_rows r src i then Nat.max (row_len T i) (c + row_len src (i - r)) else row_len T i.
Proof.
  unfold draw, in_rows. cbn [fst]. rewrite !row_len_row, draw_at_row.
  destruct ((r <=? i) && (i <? r + length src)); [|reflexivity].
  apply put_line_length.
Qed.

Lemma draw_cursor T r c block src :
  snd (draw T r c block src) = (r + length src, if block then c else 0).
Proof. reflexivity. Qed.

(* ------------------------------------------------------------------ write: one typewriter step *)
Lemma ensure_row_length b x : length (ensure_row b x) = Nat.max (length b) (S x).
Proof. unfold ensure_row. rewrite app_length, repeat_length. lia. Qed.

Lemma ensure_row_row b x i : row (ensure_row b x) i = row b i.
Proof.
  unfold ensure_row, row. destruct (i <? length b) eqn:E.
  - apply app_nth1. lia.
  - rewrite app_nth2 by lia. rewrite nth_repeat_nil. symmetry. apply nth_overflow. lia.
Qed.

Lemma ensure_row_cell b x i j : cell (ensure_row b x) i j = cell b i j.
Proof. rewrite !cell_row, ensure_row_row. reflexivity. Qed.

Lemma set_in_line_nth l y ch j :
  nth_error (set_in_line l y ch) j =
  if j =? y then Some ch
  else if j <? length l then nth_error l j
  else if j <? y then Some SP else None.
Proof.
  unfold set_in_line. set (n := S y - length l).
  assert (Hf : length (firstn y (l ++ repeat SP n)) = y).
  { rewrite firstn_length, app_length, repeat_length. lia. }
  destruct (j =? y) eqn:E1.
  - rewrite nth_error_app2 by lia. rewrite Hf. replace (j - y) with 0 by lia. reflexivity.
  - destruct (j <? y) eqn:E2.
    + rewrite nth_error_app1 by lia. rewrite nth_error_firstn_lt by lia. rewrite nth_error_pad.
      destruct (j <? length l) eqn:E3; [reflexivity|].
      destruct (j <? length l + n) eqn:E4; [reflexivity|]. lia.
    + rewrite nth_error_app2 by lia. rewrite Hf.
      destruct (j - y) as [|k] eqn:E3; [lia|]. cbn [nth_error].
      rewrite nth_error_skipn_add, nth_error_pad. replace (S y + k) with j by lia.
      destruct (j <? length l) eqn:E4; [reflexivity|].
      destruct (j <? length l + n) eqn:E5; [lia|reflexivity].
Qed.

Lemma set_cell_length : forall x b y ch, length (set_cell b x y ch) = length b.
Proof.
  induction x as [|x IH]; intros [|l b] y ch; cbn [set_cell length]; try reflexivity.
  rewrite IH. reflexivity.
Qed.

Lemma set_cell_row : forall x b y ch i, x < length b ->
  row (set_cell b x y ch) i = if i =? x then set_in_line (row b x) y ch else row b i.
Proof.
  induction x as [|x IH]; intros [|l b] y ch i H; cbn [length] in H; try lia; cbn [set_cell].
  - destruct i as [|i]; reflexivity.
  - destruct i as [|i]; [reflexivity|].
    rewrite !row_cons_S, IH by lia. reflexivity.
Qed.

(* saving ch at (x, y) after _increase_x/y_buffer_size: that cell gets ch, old cells stay, row x is
   blank-padded up to y, nothing else appears *)
Lemma step_cell b x y ch i j :
  cell (set_cell (ensure_row b x) x y ch) i j =
  if (i =? x) && (j =? y) then Some ch
  else match cell b i j with
       | Some v => Some v
       | None => if (i =? x) && (j <? y) then Some SP else None
       end.
Proof.
  rewrite !cell_row. rewrite set_cell_row by (rewrite ensure_row_length; lia).
  rewrite !ensure_row_row.
  destruct (i =? x) eqn:E1; cbn [andb].
  - apply Nat.eqb_eq in E1. subst i. rewrite set_in_line_nth.
    destruct (j =? y) eqn:E2; [reflexivity|].
    destruct (j <? length (row b x)) eqn:E3.
    + destruct (nth_error (row b x) j) eqn:E4; [reflexivity|]. apply nth_error_None in E4. lia.
    + replace (nth_error (row b x) j) with (@None char); [reflexivity|].
      symmetry. apply nth_error_None. lia.
  - destruct (nth_error (row b i) j); reflexivity.
Qed.

Lemma step_length b x y ch : length (set_cell (ensure_row b x) x y ch) = Nat.max (length b) (S x).
Proof. rewrite set_cell_length. apply ensure_row_length. Qed.

(* ------------------------------------------------------------------ the path of the typewriter (no buffer) *)
Definition wrap_col (col : nat) (block : bool) : nat := if block then col else 0.

(* `width is not None and y >= col + width`, y already incremented *)
Definition at_margin (width : option nat) (col y1 : nat) : bool :=
  match width with Some w => col + w <=? y1 | None => false end.

(* positions written, one per non-newline character, in text order *)
Fixpoint path (text : list char) (x y col : nat) (width : option nat) (block : bool) : list (nat * nat) :=
  match text with
  | [] => []
  | ch :: rest =>
    if (ch =? NL)%N then path rest (S x) (wrap_col col block) col width block
    else (x, y) :: (if at_margin width col (S y)
                    then path rest (S x) (wrap_col col block) col width block
                    else path rest x (S y) col width block)
  end.

(* where the cursor ends up *)
Fixpoint path_end (text : list char) (x y col : nat) (width : option nat) (block : bool) : nat * nat :=
  match text with
  | [] => (x, y)
  | ch :: rest =>
    if (ch =? NL)%N then path_end rest (S x) (wrap_col col block) col width block
    else if at_margin width col (S y)
         then path_end rest (S x) (wrap_col col block) col width block
         else path_end rest x (S y) col width block
  end.

(* number of rows the typewriter makes sure exist: the row of every character written and the row
   entered by every newline (a wrap at the margin alone does not create the next row) *)
Fixpoint need_rows (text : list char) (x y col : nat) (width : option nat) (block : bool) : nat :=
  match text with
  | [] => 0
  | ch :: rest =>
    if (ch =? NL)%N then Nat.max (S (S x)) (need_rows rest (S x) (wrap_col col block) col width block)
    else Nat.max (S x) (if at_margin width col (S y)
                        then need_rows rest (S x) (wrap_col col block) col width block
                        else need_rows rest x (S y) col width block)
  end.

(* the characters that are written (everything but newlines), in order *)
Definition visible (text : list char) : list char := filter (fun ch => negb (ch =? NL)%N) text.

Lemma typewriter_cons ch rest b x y col width block :
  typewriter (ch :: rest) b x y col width block =
  if (ch =? NL)%N then typewriter rest (ensure_row b (S x)) (S x) (wrap_col col block) col width block
  else if at_margin width col (S y)
       then typewriter rest (set_cell (ensure_row b x) x y ch) (S x) (wrap_col col block) col width block
       else typewriter rest (set_cell (ensure_row b x) x y ch) x (S y) col width block.
Proof. destruct width; reflexivity. Qed.

Lemma path_length : forall text x y col width block,
  length (path text x y col width block) = length (visible text).
Proof.
  induction text as [|ch rest IH]; intros x y col width block; [reflexivity|].
  cbn [path visible filter]. destruct (ch =? NL)%N eqn:E; cbn [negb].
  - apply IH.
  - cbn [length]. f_equal. destruct (at_margin width col (S y)); apply IH.
Qed.

(* reading order *)
Definition pos_lt (p q : nat * nat) : Prop := fst p < fst q \/ (fst p = fst q /\ snd p < snd q).
Definition pos_le (p q : nat * nat) : Prop := fst p < fst q \/ (fst p = fst q /\ snd p <= snd q).

Lemma path_ge : forall text x y col width block p,
  In p (path text x y col width block) -> pos_le (x, y) p.
Proof.
  induction text as [|ch rest IH]; intros x y col width block p H; [destruct H|].
  cbn [path] in H. unfold pos_le in *. cbn [fst snd] in *.
  destruct (ch =? NL)%N eqn:E.
  - apply IH in H. cbn [fst snd] in H. lia.
  - destruct H as [H|H].
    + subst p. cbn [fst snd]. lia.
    + destruct (at_margin width col (S y)); apply IH in H; cbn [fst snd] in H; lia.
Qed.

Lemma path_sorted : forall text x y col width block,
  StronglySorted pos_lt (path text x y col width block).
Proof.
  induction text as [|ch rest IH]; intros x y col width block; [constructor|].
  cbn [path]. destruct (ch =? NL)%N eqn:E; [apply IH|].
  constructor.
  - destruct (at_margin width col (S y)); apply IH.
  - apply Forall_forall. intros p H.
    destruct (at_margin width col (S y)); apply path_ge in H;
      unfold pos_le, pos_lt in *; cbn [fst snd] in *; lia.
Qed.

Lemma sorted_NoDup : forall l, StronglySorted pos_lt l -> NoDup l.
Proof.
  induction l as [|p l IH]; intros H; [constructor|].
  inversion H as [|? ? H1 H2]; subst. constructor; [|auto].
  intros Hin. rewrite Forall_forall in H2. apply H2 in Hin. unfold pos_lt in Hin. lia.
Qed.

Lemma path_NoDup text x y col width block : NoDup (path text x y col width block).
Proof. apply sorted_NoDup, path_sorted. Qed.

(* a position never comes back: nothing after the current character is at (x, y) *)
Lemma path_next_fresh_wrap text x y x' y' col width block :
  pos_lt (x, y) (x', y') -> ~ In (x, y) (path text x' y' col width block).
Proof.
  intros H Hin. apply path_ge in Hin. unfold pos_lt, pos_le in *. cbn [fst snd] in *. lia.
Qed.

(* ------------------------------------------------------------------ typewriter, cell-wise *)
Lemma typewriter_kept : forall text b x y col width block i j v,
  ~ In (i, j) (path text x y col width block) ->
  cell b i j = Some v ->
  cell (fst (typewriter text b x y col width block)) i j = Some v.
Proof.
  induction text as [|ch rest IH]; intros b x y col width block i j v Hn Hc; [exact Hc|].
  rewrite typewriter_cons. cbn [path] in Hn.
  destruct (ch =? NL)%N eqn:E.
  - apply IH; [exact Hn|]. rewrite ensure_row_cell. exact Hc.
  - assert (Hb1 : cell (set_cell (ensure_row b x) x y ch) i j = Some v).
    { rewrite step_cell, Hc.
      destruct ((i =? x) && (j =? y)) eqn:E2; [|reflexivity].
      exfalso. apply Hn. left. f_equal; lia. }
    destruct (at_margin width col (S y)); apply IH; auto; intros Hin; apply Hn; right; exact Hin.
Qed.

Lemma typewriter_written : forall text b x y col width block k p ch,
  nth_error (path text x y col width block) k = Some p ->
  nth_error (visible text) k = Some ch ->
  cell (fst (typewriter text b x y col width block)) (fst p) (snd p) = Some ch.
Proof.
  induction text as [|c rest IH]; intros b x y col width block k p ch Hp Hv.
  { destruct k; discriminate. }
  rewrite typewriter_cons. cbn [path] in Hp. cbn [visible filter] in Hv.
  destruct (c =? NL)%N eqn:E; cbn [negb] in Hv.
  - eapply IH; eauto.
  - destruct k as [|k]; cbn [nth_error] in Hp, Hv.
    + injection Hp as <-. injection Hv as <-. cbn [fst snd].
      assert (Hb1 : cell (set_cell (ensure_row b x) x y c) x y = Some c).
      { rewrite step_cell, !Nat.eqb_refl. reflexivity. }
      destruct (at_margin width col (S y)); apply typewriter_kept; auto;
        apply path_next_fresh_wrap; unfold pos_lt; cbn [fst snd]; lia.
    + destruct (at_margin width col (S y)); eapply IH; eauto.
Qed.

Lemma typewriter_padding : forall text b x y col width block i j j',
  ~ In (i, j) (path text x y col width block) ->
  cell b i j = None ->
  In (i, j') (path text x y col width block) -> j < j' ->
  cell (fst (typewriter text b x y col width block)) i j = Some SP.
Proof.
  induction text as [|ch rest IH]; intros b x y col width block i j j' Hn Hc Hin Hlt; [destruct Hin|].
  rewrite typewriter_cons. cbn [path] in Hn, Hin.
  destruct (ch =? NL)%N eqn:E.
  - eapply IH; eauto. rewrite ensure_row_cell. exact Hc.
  - assert (Hne : (i =? x) && (j =? y) = false).
    { destruct ((i =? x) && (j =? y)) eqn:E2; [|reflexivity].
      exfalso. apply Hn. left. f_equal; lia. }
    pose proof (step_cell b x y ch i j) as Hs. rewrite Hne, Hc in Hs.
    destruct ((i =? x) && (j <? y)) eqn:E3.
    + (* padded by this very step; kept afterwards *)
      destruct (at_margin width col (S y)); apply typewriter_kept; auto;
        intros Hin2; apply Hn; right; exact Hin2.
    + destruct Hin as [Hin|Hin]; [injection Hin as -> ->; lia|].
      destruct (at_margin width col (S y)); eapply IH; eauto; intros Hin2; apply Hn; right; exact Hin2.
Qed.

Lemma typewriter_absent : forall text b x y col width block i j,
  ~ In (i, j) (path text x y col width block) ->
  cell b i j = None ->
  (forall j', In (i, j') (path text x y col width block) -> j' < j) ->
  cell (fst (typewriter text b x y col width block)) i j = None.
Proof.
  induction text as [|ch rest IH]; intros b x y col width block i j Hn Hc Hall; [exact Hc|].
  rewrite typewriter_cons. cbn [path] in Hn, Hall.
  destruct (ch =? NL)%N eqn:E.
  - apply IH; auto. rewrite ensure_row_cell. exact Hc.
  - assert (Hne : (i =? x) && (j =? y) = false).
    { destruct ((i =? x) && (j =? y)) eqn:E2; [|reflexivity].
      exfalso. apply Hn. left. f_equal; lia. }
    pose proof (step_cell b x y ch i j) as Hs. rewrite Hne, Hc in Hs.
    destruct ((i =? x) && (j <? y)) eqn:E3.
    + exfalso. assert (i = x) by lia. subst i. specialize (Hall y (or_introl eq_refl)). lia.
    + destruct (at_margin width col (S y)); apply IH; auto;
        try (intros Hin2; apply Hn; right; exact Hin2);
        intros j' Hin2; apply Hall; right; exact Hin2.
Qed.

Lemma typewriter_height : forall text b x y col width block,
  length (fst (typewriter text b x y col width block)) =
  Nat.max (length b) (need_rows text x y col width block).
Proof.
  induction text as [|ch rest IH]; intros b x y col width block; [cbn; lia|].
  rewrite typewriter_cons. cbn [need_rows].
  destruct (ch =? NL)%N eqn:E.
  - rewrite IH, ensure_row_length. lia.
  - destruct (at_margin width col (S y)); rewrite IH, step_length; lia.
Qed.

Lemma typewriter_cursor : forall text b x y col width block,
  snd (typewriter text b x y col width block) = path_end text x y col width block.
Proof.
  induction text as [|ch rest IH]; intros b x y col width block; [reflexivity|].
  rewrite typewriter_cons. cbn [path_end].
  destruct (ch =? NL)%N eqn:E; [apply IH|].
  destruct (at_margin width col (S y)); apply IH.
Qed.

(* ------------------------------------------------------------------ shape of the path *)
Lemma sorted_nth : forall (l : list (nat * nat)) k1 k2 p1 p2,
  StronglySorted pos_lt l -> k1 < k2 ->
  nth_error l k1 = Some p1 -> nth_error l k2 = Some p2 -> pos_lt p1 p2.
Proof.
  induction l as [|p l IH]; intros k1 k2 p1 p2 Hs Hlt H1 H2; [destruct k1; discriminate|].
  inversion Hs as [|? ? Hs' Hall]; subst.
  destruct k2 as [|k2]; [lia|]. cbn [nth_error] in H2.
  destruct k1 as [|k1]; cbn [nth_error] in H1.
  - injection H1 as <-. rewrite Forall_forall in Hall. apply Hall. eapply nth_error_In; eauto.
  - apply (IH k1 k2 p1 p2); auto. lia.
Qed.

Lemma path_increasing text x y col width block k1 k2 p1 p2 :
  k1 < k2 ->
  nth_error (path text x y col width block) k1 = Some p1 ->
  nth_error (path text x y col width block) k2 = Some p2 ->
  pos_lt p1 p2.
Proof. intros. eapply sorted_nth; eauto. apply path_sorted. Qed.

(* never at or beyond the margin col + w ... *)
Lemma path_right_bound : forall text x y col w block i j,
  1 <= w -> y < col + w ->
  In (i, j) (path text x y col (Some w) block) -> j < col + w.
Proof.
  induction text as [|ch rest IH]; intros x y col w block i j Hw Hy Hin; [destruct Hin|].
  cbn [path] in Hin.
  assert (Hwc : wrap_col col block < col + w) by (destruct block; cbn; lia).
  destruct (ch =? NL)%N eqn:E.
  - eapply IH; eauto.
  - destruct Hin as [Hin|Hin]; [injection Hin as <- <-; exact Hy|].
    unfold at_margin in Hin. destruct (col + w <=? S y) eqn:E2.
    + eapply IH; eauto.
    + eapply IH; [exact Hw| |exact Hin]. lia.
Qed.

(* ... and in block mode never left of the start column *)
Lemma path_left_bound : forall text x y col width i j,
  col <= y ->
  In (i, j) (path text x y col width true) -> col <= j.
Proof.
  induction text as [|ch rest IH]; intros x y col width i j Hy Hin; [destruct Hin|].
  cbn [path wrap_col] in Hin.
  destruct (ch =? NL)%N eqn:E.
  - eapply IH; [|exact Hin]. lia.
  - destruct Hin as [Hin|Hin]; [injection Hin as <- <-; exact Hy|].
    destruct (at_margin width col (S y)); (eapply IH; [|exact Hin]); lia.
Qed.

(* block mode, no newline in the text: the k-th character is at row x + k / w, column col + k mod w
   (stated from any start column y inside the block) *)
Lemma path_block_closed_form : forall text x y col w k,
  1 <= w -> col <= y -> y < col + w ->
  Forall (fun ch => (ch =? NL)%N = false) text ->
  k < length text ->
  nth_error (path text x y col (Some w) true) k =
  Some (x + (y - col + k) / w, col + (y - col + k) mod w).
Proof.
  induction text as [|ch rest IH]; intros x y col w k Hw Hy1 Hy2 Hall Hk; cbn [length] in Hk; [lia|].
  inversion Hall as [|? ? Hch Hrest]; subst.
  cbn [path wrap_col]. rewrite Hch.
  destruct k as [|k]; cbn [nth_error].
  - rewrite Nat.add_0_r. rewrite Nat.div_small by lia. rewrite Nat.mod_small by lia.
    f_equal. f_equal; lia.
  - unfold at_margin. destruct (col + w <=? S y) eqn:E.
    + rewrite IH by (auto; lia).
      replace (y - col + S k) with (col - col + k + 1 * w) by lia.
      rewrite Nat.div_add by lia. rewrite Nat.mod_add by lia. f_equal. f_equal; lia.
    + rewrite IH by (auto; lia).
      replace (S y - col + k) with (y - col + S k) by lia. reflexivity.
Qed.

(* ------------------------------------------------------------------ Widget.write *)
Lemma write_buffer b cur text row col width block :
  fst (write b cur text row col width block) = fst (typewriter text b row col col width block).
Proof. destruct text; reflexivity. Qed.

Lemma write_written b cur text row col width block k p ch :
  nth_error (path text row col col width block) k = Some p ->
  nth_error (visible text) k = Some ch ->
  cell (fst (write b cur text row col width block)) (fst p) (snd p) = Some ch.
Proof. rewrite write_buffer. apply typewriter_written. Qed.

Lemma write_kept b cur text row col width block i j v :
  ~ In (i, j) (path text row col col width block) ->
  cell b i j = Some v ->
  cell (fst (write b cur text row col width block)) i j = Some v.
Proof. rewrite write_buffer. apply typewriter_kept. Qed.

Lemma write_padding b cur text row col width block i j j' :
  ~ In (i, j) (path text row col col width block) ->
  cell b i j = None ->
  In (i, j') (path text row col col width block) -> j < j' ->
  cell (fst (write b cur text row col width block)) i j = Some SP.
Proof. rewrite write_buffer. apply typewriter_padding. Qed.

Lemma write_absent b cur text row col width block i j :
  ~ In (i, j) (path text row col col width block) ->
  cell b i j = None ->
  (forall j', In (i, j') (path text row col col width block) -> j' < j) ->
  cell (fst (write b cur text row col width block)) i j = None.
Proof. rewrite write_buffer. apply typewriter_absent. Qed.

Lemma write_height b cur text row col width block :
  length (fst (write b cur text row col width block)) =
  Nat.max (length b) (need_rows text row col col width block).
Proof. rewrite write_buffer. apply typewriter_height. Qed.

Lemma write_cursor b cur text row col width block :
  text <> [] ->
  snd (write b cur text row col width block) = path_end text row col col width block.
Proof. destruct text; [congruence|]. intros _. apply typewriter_cursor. Qed.

Lemma write_wraps text row col w block i j :
  1 <= w ->
  In (i, j) (path text row col col (Some w) block) ->
  j < col + w /\ (block = true -> col <= j).
Proof.
  intros Hw Hin. split.
  - eapply path_right_bound; eauto. lia.
  - intros ->. eapply path_left_bound; [|exact Hin]. lia.
Qed.

Lemma write_block_reading_order text row col w k :
  1 <= w ->
  Forall (fun ch => (ch =? NL)%N = false) text ->
  k < length text ->
  nth_error (path text row col col (Some w) true) k = Some (row + k / w, col + k mod w).
Proof.
  intros Hw Hall Hk. rewrite path_block_closed_form by (auto; lia).
  rewrite Nat.sub_diag. reflexivity.
Qed.

(* non-block mode, no newline: the lines are col + w wide and continue at column 0 *)
Lemma path_nonblock_closed_form : forall text x y col w k,
  1 <= w -> y < col + w ->
  Forall (fun ch => (ch =? NL)%N = false) text ->
  k < length text ->
  nth_error (path text x y col (Some w) false) k =
  Some (x + (y + k) / (col + w), (y + k) mod (col + w)).
Proof.
  induction text as [|ch rest IH]; intros x y col w k Hw Hy Hall Hk; cbn [length] in Hk; [lia|].
  inversion Hall as [|? ? Hch Hrest]; subst.
  cbn [path wrap_col]. rewrite Hch.
  destruct k as [|k]; cbn [nth_error].
  - rewrite Nat.add_0_r. rewrite Nat.div_small by lia. rewrite Nat.mod_small by lia.
    f_equal. f_equal; lia.
  - unfold at_margin. destruct (col + w <=? S y) eqn:E.
    + rewrite IH by (auto; lia).
      replace (y + S k) with (0 + k + 1 * (col + w)) by lia.
      rewrite Nat.div_add by lia. rewrite Nat.mod_add by lia. f_equal. f_equal; lia.
    + rewrite IH by (auto; lia).
      replace (S y + k) with (y + S k) by lia. reflexivity.
Qed.

Lemma write_nonblock_reading_order text row col w k :
  1 <= w ->
  Forall (fun ch => (ch =? NL)%N = false) text ->
  k < length text ->
  nth_error (path text row col col (Some w) false) k =
  Some (row + (col + k) / (col + w), (col + k) mod (col + w)).
Proof. intros Hw Hall Hk. apply path_nonblock_closed_form; auto. lia. Qed.

(* no width: everything goes on one row until a newline *)
Lemma path_nowidth_closed_form : forall text x y col block k,
  Forall (fun ch => (ch =? NL)%N = false) text ->
  k < length text ->
  nth_error (path text x y col None block) k = Some (x, y + k).
Proof.
  induction text as [|ch rest IH]; intros x y col block k Hall Hk; cbn [length] in Hk; [lia|].
  inversion Hall as [|? ? Hch Hrest]; subst.
  cbn [path at_margin]. rewrite Hch.
  destruct k as [|k]; cbn [nth_error].
  - f_equal. f_equal. lia.
  - rewrite IH by (auto; lia). f_equal. f_equal. lia.
Qed.

(* a newline: the rest of the text continues on the next row, at the start column (block) or column 0 *)
Lemma path_app : forall t1 t2 x y col width block,
  path (t1 ++ t2) x y col width block =
  path t1 x y col width block ++
  path t2 (fst (path_end t1 x y col width block)) (snd (path_end t1 x y col width block)) col width block.
Proof.
  induction t1 as [|ch t1 IH]; intros t2 x y col width block; [reflexivity|].
  cbn [app path path_end]. destruct (ch =? NL)%N eqn:E; [apply IH|].
  cbn [app]. f_equal. destruct (at_margin width col (S y)); apply IH.
Qed.

Lemma path_newline t1 t2 x y col width block :
  path (t1 ++ NL :: t2) x y col width block =
  path t1 x y col width block ++
  path t2 (S (fst (path_end t1 x y col width block))) (if block then col else 0) col width block.
Proof. rewrite path_app. reflexivity. Qed.
