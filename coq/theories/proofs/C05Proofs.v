(* C05Proofs.v — "a modal screen blocks its caller and shields everything beneath it" (worker s3).
   The acceptors [chk_C05_shield_gen] (= chk_C05_gen of ScreenMon.v without its T_INPUT clause) and
   [chk_C05_below] (every stack primitive leaves what is beneath an open modal frame in place) accept the
   trace of every session of the screen-layer model (ScreenSem.app_run_all); the strict form (a modal push
   returns only after its frame was closed) under the trace hypothesis [no_f13].
   Method: a fuel-indexed Hoare judgement [run n s p Q] for handler programs with rules for the program
   constructors ([run_seq], [run_try], [run_rd], [run_wr], [run_emit], [run_while], [run_api]); an
   invariant [InvG] linking the world rebuilt from the trace ([SW]) to the concrete state (ideal stack =
   [st_stack], no operation pending, fresh entry ids, frames' current entries on the stack; and, as long
   as [no_f13] holds of the trace: the open frames are the modal entries of the stack in order, and
   whenever the stop flag is cleared the innermost frame is closed); a relation [Rel] between the states
   before and after a call (the modal frames are the same, in the same order, none re-opened: calls are
   balanced); [loop_step]: every call of the loop keeps them if the handlers do; [handlers_ok]: every
   handler of [screen_code] keeps them if the loop's calls (with less fuel) do; [loop_ok] by induction. *)
From SL Require Import Tac.
From RecordUpdate Require Import RecordUpdate.
From SL Require Import PyInt LoopSem ScreenSem ScreenMon.
Import ListNotations.

(* the acceptor that is proved: chk_C05_gen without the T_INPUT clause *)
Definition chk_C05_shield_gen (strict : bool) (w : sworld) (e : event) : bool :=
  match e with
  | EUser tag a _ =>
    if (tag =? T_SETUP)%nat || (tag =? T_REFRESH)%nat || (tag =? T_SHOW)%nat || (tag =? T_SETUP_BEGIN)%nat
    then negb (shielded w (nth0 a 0))
    else if (tag =? T_MODAL_RETURN)%nat then
      match find (fun f => (mf_orig f =? nth0 a 0)%nat) (sw_modal w) with
      | Some f => mf_closed f || negb strict
      | None => false
      end
    else true
  | _ => true
  end.
Definition chk_C05_shield := chk_C05_shield_gen true.
Definition chk_C05_shield_partial := chk_C05_shield_gen false.

Definition chk_C05_input (w : sworld) (e : event) : bool :=
  match e with EUser tag a _ => if (tag =? T_INPUT)%nat then scr_visible w (nth0 a 0) else true | _ => true end.

Lemma chk_C05_gen_split strict w e : chk_C05_gen strict w e = chk_C05_shield_gen strict w e && chk_C05_input w e.
Proof.
  destruct e; try reflexivity. cbn [chk_C05_gen chk_C05_shield_gen chk_C05_input].
  destruct ((tag =? T_SETUP)%nat || (tag =? T_REFRESH)%nat || (tag =? T_SHOW)%nat || (tag =? T_SETUP_BEGIN)%nat) eqn:E1.
  - destruct (tag =? T_INPUT)%nat eqn:E2; [|rewrite andb_true_r; reflexivity].
    apply Nat.eqb_eq in E2; subst tag. discriminate E1.
  - destruct (tag =? T_INPUT)%nat eqn:E2; [|rewrite andb_true_r; reflexivity].
    apply Nat.eqb_eq in E2; subst tag. reflexivity.
Qed.

(* ---- setup() with commands of its own (sc_setup_cmds) ----
   [setup_cmds_ok]: a setup() that runs commands never reports failure (a failing one makes the scheduler discard
   whatever entry is then on top and, for a modal entry, stop its loop: the strict form is false then, see the report).
   [relax_setup specs chk]: the acceptor [chk] without its clauses for the RETURN of such a setup() (T_SETUP) and for
   the refresh() of a screen with such a setup(): the entry need not be the top of the stack any more, and that it
   is not beneath an open modal frame is not proved here.  The entry of such a setup() (T_SETUP_BEGIN) is checked. *)
Definition has_cmds (sp : screen_spec) : bool := match sc_setup_cmds sp with [] => false | _ => true end.
Definition setup_cmds_ok (specs : nat -> screen_spec) : Prop :=
  forall s n, has_cmds (specs s) = true -> nth_last (sc_setup (specs s)) n = true.
Lemma plain_setup_cmds_ok specs : plain_setup specs -> setup_cmds_ok specs.
Proof. intros H s n E. unfold has_cmds in E. rewrite (H s) in E. discriminate E. Qed.
(* the hypothesis decided on a table of screens *)
Definition setup_cmds_okb (l : list screen_spec) : bool :=
  forallb (fun sp => negb (has_cmds sp) || forallb (fun b : bool => b) (sc_setup sp)) l.
Lemma forallb_id_nth_last l n : forallb (fun b : bool => b) l = true -> nth_last l n = true.
Proof.
  intros H. unfold nth_last. destruct l as [|a l']; [reflexivity|]. set (l := a :: l') in *. clearbody l.
  assert (HL : last l true = true).
  { clear -H. induction l as [|x r IH]; [reflexivity|]. cbn [forallb] in H. apply andb_true_iff in H. destruct H as [Hx H].
    cbn [last]. destruct r; [exact Hx|apply IH, H]. }
  destruct (nth_in_or_default n l (last l true)) as [Hin|E]; [|rewrite E; exact HL].
  rewrite forallb_forall in H. apply (H _ Hin).
Qed.
Lemma setup_cmds_okb_ok l : setup_cmds_okb l = true -> setup_cmds_ok (fun n => nth n l default_spec).
Proof.
  intros H s n HC. cbv beta in *. destruct (nth_in_or_default s l default_spec) as [Hin|E].
  - unfold setup_cmds_okb in H. rewrite forallb_forall in H. specialize (H _ Hin). rewrite HC in H. cbn [negb orb] in H.
    apply forallb_id_nth_last, H.
  - rewrite E in HC. discriminate HC.
Qed.
Definition relax_setup (specs : nat -> screen_spec) (chk : sworld -> event -> bool) (w : sworld) (e : event) : bool :=
  match e with
  | EUser tag a _ => if ((tag =? T_SETUP)%nat || (tag =? T_REFRESH)%nat) && has_cmds (specs (nth0 a 1)) then true else chk w e
  | _ => chk w e
  end.
Lemma relax_setup_of specs chk w e : chk w e = true -> relax_setup specs chk w e = true.
Proof. intros H. destruct e; cbn [relax_setup]; auto. destruct (_ && _); auto. Qed.
Lemma relax_setup_plain specs chk : plain_setup specs -> forall w e, relax_setup specs chk w e = chk w e.
Proof. intros H w e. destruct e; cbn [relax_setup]; auto. unfold has_cmds. rewrite (H _). rewrite andb_false_r. reflexivity. Qed.

(* ---- the hypothesis of the strict form, decided on the trace: no force_quit, and no nested loop is
   entered while the stop flag is cleared (finding F13) ---- *)
Record hst := { h_ok : bool; h_rl : bool }.
Definition hyp_step (h : hst) (e : event) : hst :=
  match e with
  | EForceQuit => {| h_ok := false; h_rl := false |}
  | ENewLoopEnter _ => {| h_ok := h_ok h && h_rl h; h_rl := h_rl h |}
  | EClosePop _ => {| h_ok := h_ok h; h_rl := false |}
  | ENewLoopReturn _ | ERunEnter => {| h_ok := h_ok h; h_rl := true |}
  | _ => h
  end.
Definition hyp_of (t : list event) : hst := fold_left hyp_step t {| h_ok := true; h_rl := true |}.
Definition no_f13 (t : list event) : bool := h_ok (hyp_of t).

Lemma hyp_step_mono h e : h_ok (hyp_step h e) = true -> h_ok h = true.
Proof. destruct e; cbn; auto; try discriminate. intros H; apply andb_true_iff in H; tauto. Qed.

Lemma srun_mon_snoc chk t : forall w i e,
  srun_mon chk w (t ++ [e]) i = None <-> srun_mon chk w t i = None /\ chk (fold_left sworld_step t w) e = true.
Proof.
  induction t as [|x r IH]; intros w i e; cbn [app srun_mon fold_left].
  - destruct (chk w e); split; auto; try discriminate. intros [_ H]; discriminate H.
  - destruct (chk w x); [apply IH|]. split; [discriminate|]. intros [H _]; discriminate H.
Qed.

Lemma sok_iff chk typed t : sok chk typed t = true <-> srun_mon chk (sworld0 typed) t 0 = None.
Proof. unfold sok. destruct (srun_mon chk (sworld0 typed) t 0); split; congruence. Qed.

Definition bal (o : outcome) : bool := match o with ONormal | OThrow XError => true | _ => false end.

Definition is_user (e : event) : bool := match e with EUser _ _ _ => true | _ => false end.

Definition vsame (w w' : sworld) : Prop :=
  sw_stack w' = sw_stack w /\ sw_modal w' = sw_modal w /\ sw_replaced w' = sw_replaced w /\
  (sw_expect w' = sw_expect w \/ sw_expect w' = []).

Lemma step_loop_vsame w e : is_user e = false -> vsame w (sworld_step w e).
Proof.
  intros N. destruct e; try discriminate N; cbn [sworld_step]; unfold vsame;
  repeat match goal with
         | |- context [if ?b then _ else _] => destruct b
         | |- context [match ?x with _ => _ end] => destruct x
         end; cbn; auto.
Qed.

Definition inert_tag (tag : nat) : bool :=
  negb ((tag =? T_OP)%nat || (tag =? T_STACK)%nat || (tag =? T_MODAL_RETURN)%nat).

Lemma step_inert_vsame w tag a text : inert_tag tag = true -> vsame w (user_step w tag a text).
Proof.
  unfold inert_tag. intros N. apply negb_true_iff in N. apply orb_false_iff in N. destruct N as [N N3].
  apply orb_false_iff in N. destruct N as [N1 N2].
  unfold user_step. rewrite N1, N2, N3. unfold vsame.
  repeat match goal with
         | |- context [if ?b then _ else _] => destruct b
         | |- context [match ?x with _ => _ end] => destruct x
         end; cbn; auto.
Qed.

Definition e_of (d : sdata) : entry := {| en_id := sd_id d; en_scr := sd_scr d; en_args := sd_args d; en_modal := sd_modal d |}.
Definition sargs (k : nat) (d : sdata) : list nat := [k; sd_id d; sd_scr d; sd_args d; b2n (sd_modal d)].

Lemma b2n_eqb b : (b2n b =? 1)%nat = b. Proof. destruct b; reflexivity. Qed.

Lemma us_op w k scr ar text : let w' := user_step w T_OP [k; scr; ar] text in
  sw_stack w' = sw_stack w /\ sw_modal w' = sw_modal w /\ sw_replaced w' = sw_replaced w /\
  sw_expect w' =
    let nonempty := match sw_stack w with [] => false | _ => true end in
    if (k =? O_SCHEDULE)%nat then [XAddFirst scr ar]
    else if (k =? O_PUSH)%nat then [XAppend scr ar (Some false)]
    else if (k =? O_PUSH_MODAL)%nat then [XAppend scr ar (Some true)]
    else if (k =? O_REPLACE)%nat then (if nonempty then [XPop false; XAppend scr ar None] else [])
    else (if nonempty then [XPop true] else []).
Proof. cbn. repeat split. Qed.

Definition close_cur (id : nat) (l : list mframe) : list mframe :=
  map (fun f => if (mf_cur f =? id)%nat then f <| mf_closed := true |> else f) l.
Definition rename_cur (old new : nat) (l : list mframe) : list mframe :=
  map (fun f => if (mf_cur f =? old)%nat then f <| mf_cur := new |> else f) l.

Lemma us_append w d text : let w' := user_step w T_STACK (sargs K_APPEND d) text in
  sw_stack w' = e_of d :: sw_stack w /\ sw_expect w' = tl (sw_expect w) /\ sw_replaced w' = None /\
  sw_modal w' = match sw_replaced w with
                | Some old => rename_cur old (sd_id d) (sw_modal w)
                | None => if sd_modal d then {| mf_orig := sd_id d; mf_cur := sd_id d; mf_closed := false |} :: sw_modal w
                          else sw_modal w
                end.
Proof.
  unfold sargs. cbn. rewrite b2n_eqb. fold (e_of d).
  destruct (sw_replaced w) eqn:R; cbn; [repeat split|].
  destruct d as [i sc ar m]; cbn. destruct m; cbn; rewrite ?R; repeat split.
Qed.

Lemma us_addfirst w d text : let w' := user_step w T_STACK (sargs K_ADD_FIRST d) text in
  sw_stack w' = sw_stack w ++ [e_of d] /\ sw_expect w' = tl (sw_expect w) /\ sw_replaced w' = sw_replaced w /\
  sw_modal w' = sw_modal w.
Proof. unfold sargs. cbn. rewrite b2n_eqb. fold (e_of d). repeat split. Qed.

Lemma us_pop w d text : let w' := user_step w T_STACK (sargs K_POP d) text in
  sw_stack w' = tl (sw_stack w) /\
  match sw_expect w with
  | XPop true :: r => sw_expect w' = r /\ sw_replaced w' = sw_replaced w /\ sw_modal w' = close_cur (sd_id d) (sw_modal w)
  | XPop false :: r => sw_expect w' = r /\ sw_replaced w' = Some (sd_id d) /\ sw_modal w' = sw_modal w
  | _ => sw_expect w' = sw_expect w /\ sw_replaced w' = sw_replaced w /\ sw_modal w' = close_cur (sd_id d) (sw_modal w)
  end.
Proof.
  unfold sargs. cbn. destruct (sw_expect w) as [|[[|]| |] r] eqn:E; cbn; rewrite ?E; repeat split.
Qed.

Lemma us_modal_return w id scr text : let w' := user_step w T_MODAL_RETURN [id; scr] text in
  sw_stack w' = sw_stack w /\ sw_expect w' = sw_expect w /\ sw_replaced w' = sw_replaced w /\
  sw_modal w' = remove_first (fun f => (mf_orig f =? id)%nat) (sw_modal w).
Proof. cbn. repeat split. Qed.

(* ---- lists of frames ---- *)
Definition openf (f : mframe) : bool := negb (mf_closed f).
Definition ofc (l : list mframe) : list nat := map mf_cur (filter openf l).
Definition mei (st : list entry) : list nat := map en_id (filter en_modal st).
Definition head_closed (l : list mframe) : Prop := match l with [] => True | f :: _ => mf_closed f = true end.
Definition frame_le (f f' : mframe) : Prop := mf_orig f = mf_orig f' /\ (mf_closed f = true -> mf_closed f' = true).

Lemma frame_le_refl f : frame_le f f. Proof. split; auto. Qed.
Lemma frames_le_refl l : Forall2 frame_le l l.
Proof. induction l; constructor; auto using frame_le_refl. Qed.
Lemma frames_le_trans l1 : forall l2 l3, Forall2 frame_le l1 l2 -> Forall2 frame_le l2 l3 -> Forall2 frame_le l1 l3.
Proof.
  induction l1 as [|a r IH]; intros l2 l3 H12 H23.
  - inversion H12; subst. inversion H23; subst. constructor.
  - inversion H12 as [|a' b l l' Hab Hr]; subst. inversion H23 as [|b' c m m' Hbc Hr']; subst. constructor.
    + destruct Hab as [E1 C1], Hbc as [E2 C2]. split; [congruence|auto].
    + eapply IH; eauto.
Qed.
Lemma frames_le_map (g : mframe -> mframe) l : (forall f, frame_le f (g f)) -> Forall2 frame_le l (map g l).
Proof. intros H. induction l; cbn; constructor; auto. Qed.
Lemma frames_le_close id l : Forall2 frame_le l (close_cur id l).
Proof. apply frames_le_map. intros f. destruct (mf_cur f =? id)%nat; [split; cbn; auto|apply frame_le_refl]. Qed.
Lemma frames_le_rename o n l : Forall2 frame_le l (rename_cur o n l).
Proof. apply frames_le_map. intros f. destruct (mf_cur f =? o)%nat; [split; cbn; auto|apply frame_le_refl]. Qed.

Definition Relw (b : bool) (w w' : sworld) : Prop :=
  exists new old', sw_modal w' = new ++ old' /\ Forall2 frame_le (sw_modal w) old' /\ (b = true -> new = []).

Lemma Relw_refl b w : Relw b w w.
Proof. exists [], (sw_modal w). split; [reflexivity|split; [apply frames_le_refl|auto]]. Qed.
Lemma Relw_modal b w w' : Forall2 frame_le (sw_modal w) (sw_modal w') -> Relw b w w'.
Proof. intros H. exists [], (sw_modal w'). split; [reflexivity|split; auto]. Qed.
Lemma Relw_trans b1 b2 w w1 w2 : Relw b1 w w1 -> Relw b2 w1 w2 -> Relw (b1 && b2) w w2.
Proof.
  intros (n1 & o1 & E1 & F1 & B1) (n2 & o2 & E2 & F2 & B2). rewrite E1 in F2.
  apply Forall2_app_inv_l in F2. destruct F2 as (o2a & o2b & Fa & Fb & ->).
  exists (n2 ++ o2a), o2b. split; [rewrite E2, app_assoc; reflexivity|]. split; [eapply frames_le_trans; eauto|].
  intros B. apply andb_true_iff in B. destruct B as [T1 T2]. rewrite (B2 T2). rewrite (B1 T1) in Fa. inversion Fa. reflexivity.
Qed.
Lemma Relw_weaken b w w' : Relw true w w' -> Relw b w w'.
Proof. intros (n & o & E & F & B). exists n, o. split; [exact E|split; [exact F|intros _; auto]]. Qed.
Lemma Relw_trans_l b w w1 w2 : Relw true w w1 -> Relw b w1 w2 -> Relw b w w2.
Proof. intros H1 H2. exact (Relw_trans true b _ _ _ H1 H2). Qed.
Lemma Relw_trans_r b w w1 w2 : Relw b w w1 -> Relw true w1 w2 -> Relw b w w2.
Proof. intros H1 H2. pose proof (Relw_trans b true _ _ _ H1 H2) as H. rewrite andb_true_r in H. exact H. Qed.
Lemma Relw_head_closed w w' : Relw true w w' -> head_closed (sw_modal w) -> head_closed (sw_modal w').
Proof.
  intros (n & o & E & F & B) H. rewrite (B eq_refl) in E. cbn in E. rewrite E.
  destruct F as [|f f' l l' [_ Hc] _]; cbn in *; auto.
Qed.

Lemma ofc_close id l : ofc (close_cur id l) = filter (fun c => negb (c =? id)%nat) (ofc l).
Proof.
  unfold ofc, close_cur, openf. induction l as [|f r IH]; cbn; [reflexivity|].
  destruct (mf_cur f =? id)%nat eqn:E; cbn.
  - destruct (mf_closed f); cbn; rewrite ?E; cbn; exact IH.
  - destruct (mf_closed f); cbn; rewrite ?E; cbn; [exact IH|f_equal; exact IH].
Qed.
Lemma ofc_rename o n l : ofc (rename_cur o n l) = map (fun c => if (c =? o)%nat then n else c) (ofc l).
Proof.
  unfold ofc, rename_cur, openf. induction l as [|f r IH]; cbn; [reflexivity|].
  destruct (mf_cur f =? o)%nat eqn:E; cbn; destruct (mf_closed f); cbn; rewrite ?E; try exact IH; f_equal; exact IH.
Qed.
Lemma ofc_remove_closed p l f : find p l = Some f -> mf_closed f = true -> ofc (remove_first p l) = ofc l.
Proof.
  unfold ofc. induction l as [|x r IH]; cbn; [discriminate|].
  destruct (p x) eqn:P.
  - intros H C. injection H as ->. unfold openf at 2. rewrite C. reflexivity.
  - intros H C. cbn. destruct (openf x); cbn; [f_equal|]; apply IH; assumption.
Qed.
Lemma filter_noop {A} (p : A -> bool) l : (forall x, In x l -> p x = true) -> filter p l = l.
Proof. induction l as [|a r IH]; cbn; intros H; [reflexivity|]. rewrite (H a (or_introl eq_refl)). f_equal. apply IH. auto. Qed.
Lemma map_noop {A} (g : A -> A) l : (forall x, In x l -> g x = x) -> map g l = l.
Proof. induction l as [|a r IH]; cbn; intros H; [reflexivity|]. rewrite (H a (or_introl eq_refl)). f_equal. apply IH. auto. Qed.
Lemma mei_in x st : In x (mei st) -> In x (map en_id st).
Proof.
  unfold mei. intros H. apply in_map_iff in H. destruct H as (e & <- & He). apply filter_In in He. apply in_map, He.
Qed.
Lemma mei_app st e : en_modal e = false -> mei (st ++ [e]) = mei st.
Proof. intros H. unfold mei. rewrite filter_app. cbn. rewrite H. rewrite app_nil_r. reflexivity. Qed.
Lemma map_e_of_id l : map en_id (map e_of l) = map sd_id l.
Proof. rewrite map_map. reflexivity. Qed.


(* ================================================================ what lies beneath a modal frame *)
(* [below w f]: the entries strictly beneath the current entry of frame [f] (in the middle of a replace,
   when the entry has just been popped: the whole stack) *)
Definition entry_eqb (a b : entry) : bool :=
  (en_id a =? en_id b)%nat && (en_scr a =? en_scr b)%nat && (en_args a =? en_args b)%nat && Bool.eqb (en_modal a) (en_modal b).
Fixpoint is_prefix (a b : list entry) : bool :=
  match a, b with
  | [], _ => true
  | x :: r, y :: r' => entry_eqb x y && is_prefix r r'
  | _ :: _, [] => false
  end.
Fixpoint beneath (st : list entry) (id : nat) : list entry :=
  match st with [] => [] | e :: r => if (en_id e =? id)%nat then r else beneath r id end.
Definition below (w : sworld) (f : mframe) : list entry :=
  match sw_replaced w with
  | Some old => if (old =? mf_cur f)%nat then sw_stack w else beneath (sw_stack w) (mf_cur f)
  | None => beneath (sw_stack w) (mf_cur f)
  end.
(* every stack primitive leaves what is beneath an open modal frame in place: for every frame open before
   the event and still open after it, the entries beneath its current entry (it or what replaced it) are the
   same, in the same order, with possibly more entries at the very bottom (add_first) *)
Definition chk_C05_below (w : sworld) (e : event) : bool :=
  match e with
  | EUser tag a _ =>
    if (tag =? T_STACK)%nat then
      let w' := sworld_step w e in
      forallb (fun f => mf_closed f ||
                 match find (fun f' => (mf_orig f' =? mf_orig f)%nat) (sw_modal w') with
                 | Some f' => mf_closed f' || is_prefix (below w f) (below w' f')
                 | None => true
                 end) (sw_modal w)
    else true
  | _ => true
  end.

Lemma entry_eqb_refl a : entry_eqb a a = true.
Proof. unfold entry_eqb. rewrite !Nat.eqb_refl, eqb_reflx. reflexivity. Qed.
Lemma is_prefix_app a x : is_prefix a (a ++ x) = true.
Proof. induction a as [|e r IH]; cbn; [reflexivity|]. rewrite entry_eqb_refl, IH. reflexivity. Qed.
Lemma is_prefix_refl a : is_prefix a a = true.
Proof. rewrite <- (app_nil_r a) at 2. apply is_prefix_app. Qed.

Lemma beneath_cons_ne e st id : en_id e <> id -> beneath (e :: st) id = beneath st id.
Proof. intros H. cbn. apply Nat.eqb_neq in H. rewrite H. reflexivity. Qed.
Lemma beneath_cons_eq e st : beneath (e :: st) (en_id e) = st.
Proof. cbn. rewrite Nat.eqb_refl. reflexivity. Qed.
Lemma beneath_app st x id : In id (map en_id st) -> beneath (st ++ x) id = beneath st id ++ x.
Proof.
  induction st as [|e r IH]; cbn; [tauto|]. destruct (en_id e =? id)%nat eqn:E; [reflexivity|].
  intros [H|H]; [apply Nat.eqb_neq in E; contradiction|apply IH, H].
Qed.

Lemma find_orig_map (g : mframe -> mframe) l f : (forall x, mf_orig (g x) = mf_orig x) -> NoDup (map mf_orig l) -> In f l ->
  find (fun f' => (mf_orig f' =? mf_orig f)%nat) (map g l) = Some (g f).
Proof.
  intros Hg. induction l as [|x r IH]; cbn; intros N H; [destruct H|]. inversion N as [|? ? Nx Nr]; subst.
  rewrite Hg. destruct H as [->|H]; [rewrite Nat.eqb_refl; reflexivity|].
  destruct (mf_orig x =? mf_orig f)%nat eqn:E; [|apply IH; assumption].
  apply Nat.eqb_eq in E. exfalso. apply Nx. rewrite E. apply in_map, H.
Qed.
Lemma find_orig_self l f : NoDup (map mf_orig l) -> In f l -> find (fun f' => (mf_orig f' =? mf_orig f)%nat) l = Some f.
Proof. intros N H. rewrite <- (map_id l) at 1. apply (find_orig_map (fun x => x)); auto. Qed.

Lemma chk_below_not_stack w tag a t : (tag =? T_STACK)%nat = false -> chk_C05_below w (EUser tag a t) = true.
Proof. intros H. cbn [chk_C05_below]. rewrite H. reflexivity. Qed.

Lemma chk_below_intro w a t :
  (forall f, In f (sw_modal w) -> mf_closed f = false ->
     exists f', find (fun f' => (mf_orig f' =? mf_orig f)%nat) (sw_modal (user_step w T_STACK a t)) = Some f' /\
                (mf_closed f' = true \/ exists x, below (user_step w T_STACK a t) f' = below w f ++ x)) ->
  chk_C05_below w (EUser T_STACK a t) = true.
Proof.
  intros H. cbn [chk_C05_below sworld_step]. rewrite Nat.eqb_refl. cbv zeta. apply forallb_forall. intros f Hf.
  destruct (mf_closed f) eqn:C; [reflexivity|]. cbn [orb].
  destruct (H f Hf C) as (f' & -> & [C'|[x E]]); [rewrite C'; reflexivity|].
  rewrite E, is_prefix_app. apply orb_true_r.
Qed.

(* the frames' side of the invariant *)
Definition frames_on (w : sworld) : Prop :=
  forall f, In f (sw_modal w) -> mf_closed f = false -> In (mf_cur f) (map en_id (sw_stack w)).

Lemma below_append_new w d t :
  sw_replaced w = None -> NoDup (map mf_orig (sw_modal w)) -> frames_on w ->
  ~ In (sd_id d) (map en_id (sw_stack w)) -> ~ In (sd_id d) (map mf_orig (sw_modal w)) ->
  chk_C05_below w (EUser T_STACK (sargs K_APPEND d) t) = true.
Proof.
  intros R N On Fr Fo. apply chk_below_intro. intros f Hf C.
  destruct (us_append w d t) as (P1 & P2 & P3 & P4). rewrite R in P4.
  exists f. split.
  - rewrite P4. destruct (sd_modal d); [|apply find_orig_self; assumption]. cbn [find mf_orig].
    destruct (sd_id d =? mf_orig f)%nat eqn:E; [|apply find_orig_self; assumption].
    apply Nat.eqb_eq in E. exfalso. apply Fo. rewrite E. apply in_map, Hf.
  - right. exists []. rewrite app_nil_r. unfold below. rewrite P3, R, P1.
    apply beneath_cons_ne. cbn [e_of en_id]. intros E. apply Fr. rewrite E. apply On; assumption.
Qed.

Lemma below_append_repl w d t old :
  sw_replaced w = Some old -> NoDup (map mf_orig (sw_modal w)) ->
  (forall f, In f (sw_modal w) -> mf_closed f = false -> mf_cur f = old \/ In (mf_cur f) (map en_id (sw_stack w))) ->
  ~ In (sd_id d) (map en_id (sw_stack w)) -> ~ In old (map en_id (sw_stack w)) ->
  chk_C05_below w (EUser T_STACK (sargs K_APPEND d) t) = true.
Proof.
  intros R N On Fr Fo. apply chk_below_intro. intros f Hf C.
  destruct (us_append w d t) as (P1 & P2 & P3 & P4). rewrite R in P4.
  exists (if (mf_cur f =? old)%nat then f <| mf_cur := sd_id d |> else f). split.
  - rewrite P4. unfold rename_cur.
    apply (find_orig_map (fun f0 => if (mf_cur f0 =? old)%nat then f0 <| mf_cur := sd_id d |> else f0)); auto.
    intros x. destruct (mf_cur x =? old)%nat; reflexivity.
  - right. exists []. rewrite app_nil_r. unfold below at 1. rewrite P3, P1. unfold below. rewrite R.
    destruct (mf_cur f =? old)%nat eqn:E.
    + apply Nat.eqb_eq in E. cbn [mf_cur set]. rewrite E, Nat.eqb_refl. apply (beneath_cons_eq (e_of d)).
    + rewrite (Nat.eqb_sym old), E. apply beneath_cons_ne. cbn [e_of en_id]. intros E'.
      destruct (On f Hf C) as [X|X]; [apply Nat.eqb_neq in E; contradiction|]. apply Fr. rewrite E'. exact X.
Qed.

Lemma below_addfirst w d t :
  sw_replaced w = None -> NoDup (map mf_orig (sw_modal w)) -> frames_on w ->
  chk_C05_below w (EUser T_STACK (sargs K_ADD_FIRST d) t) = true.
Proof.
  intros R N On. apply chk_below_intro. intros f Hf C.
  destruct (us_addfirst w d t) as (P1 & P2 & P3 & P4).
  exists f. split; [rewrite P4; apply find_orig_self; assumption|].
  right. exists [e_of d]. unfold below. rewrite P3, R, P1. apply beneath_app. apply On; assumption.
Qed.

Lemma below_pop w d t e r :
  sw_replaced w = None -> NoDup (map mf_orig (sw_modal w)) -> frames_on w ->
  sw_stack w = e :: r -> en_id e = sd_id d ->
  chk_C05_below w (EUser T_STACK (sargs K_POP d) t) = true.
Proof.
  intros R N On St Ed. apply chk_below_intro. intros f Hf C.
  destruct (us_pop w d t) as (Q1 & Q2). rewrite St in Q1. cbn [tl] in Q1.
  assert (CL : forall f0, mf_orig (if (mf_cur f0 =? sd_id d)%nat then f0 <| mf_closed := true |> else f0) = mf_orig f0)
    by (intros f0; destruct (mf_cur f0 =? sd_id d)%nat; reflexivity).
  assert (NE : mf_cur f <> sd_id d -> beneath r (mf_cur f) = beneath (sw_stack w) (mf_cur f)).
  { intros X. rewrite St. symmetry. apply beneath_cons_ne. congruence. }
  destruct (sw_expect w) as [|[[|]| |] rest].
  - (* the discard after a failed setup *)
    destruct Q2 as (Q2 & Q3 & Q4).
    exists (if (mf_cur f =? sd_id d)%nat then f <| mf_closed := true |> else f). split.
    + rewrite Q4. unfold close_cur. apply (find_orig_map _ _ _ CL); assumption.
    + destruct (mf_cur f =? sd_id d)%nat eqn:E; [left; reflexivity|right]. apply Nat.eqb_neq in E.
      exists []. rewrite app_nil_r. unfold below. rewrite Q3, R, Q1. apply NE, E.
  - destruct Q2 as (Q2 & Q3 & Q4).
    exists (if (mf_cur f =? sd_id d)%nat then f <| mf_closed := true |> else f). split.
    + rewrite Q4. unfold close_cur. apply (find_orig_map _ _ _ CL); assumption.
    + destruct (mf_cur f =? sd_id d)%nat eqn:E; [left; reflexivity|right]. apply Nat.eqb_neq in E.
      exists []. rewrite app_nil_r. unfold below. rewrite Q3, R, Q1. apply NE, E.
  - (* the pop of a replace *)
    destruct Q2 as (Q2 & Q3 & Q4). exists f. split; [rewrite Q4; apply find_orig_self; assumption|].
    right. exists []. rewrite app_nil_r. unfold below. rewrite Q3, R, Q1.
    destruct (sd_id d =? mf_cur f)%nat eqn:E.
    + apply Nat.eqb_eq in E. rewrite St, <- E, <- Ed. symmetry. apply beneath_cons_eq.
    + apply NE. apply Nat.eqb_neq in E. congruence.
  - destruct Q2 as (Q2 & Q3 & Q4).
    exists (if (mf_cur f =? sd_id d)%nat then f <| mf_closed := true |> else f). split.
    + rewrite Q4. unfold close_cur. apply (find_orig_map _ _ _ CL); assumption.
    + destruct (mf_cur f =? sd_id d)%nat eqn:E; [left; reflexivity|right]. apply Nat.eqb_neq in E.
      exists []. rewrite app_nil_r. unfold below. rewrite Q3, R, Q1. apply NE, E.
  - destruct Q2 as (Q2 & Q3 & Q4).
    exists (if (mf_cur f =? sd_id d)%nat then f <| mf_closed := true |> else f). split.
    + rewrite Q4. unfold close_cur. apply (find_orig_map _ _ _ CL); assumption.
    + destruct (mf_cur f =? sd_id d)%nat eqn:E; [left; reflexivity|right]. apply Nat.eqb_neq in E.
      exists []. rewrite app_nil_r. unfold below. rewrite Q3, R, Q1. apply NE, E.
Qed.

Section Screen.
Variable specs : nat -> screen_spec.
Hypothesis Hcok : setup_cmds_ok specs.
Variable typed : list (option str).
Notation st := (lstate sstate).
Notation code := (screen_code specs).
Implicit Types s : st.

Definition SWt (t : list event) : sworld := fold_left sworld_step (rev t) (sworld0 typed).
Definition SW s : sworld := SWt (trace s).
Definition Ht (t : list event) : hst := hyp_of (rev t).
Definition HH s : hst := Ht (trace s).

Lemma SW_emit e s : SW (emit e s) = sworld_step (SW s) e.
Proof. unfold SW, SWt, emit. cbn. rewrite fold_left_app. reflexivity. Qed.
Lemma HH_emit e s : HH (emit e s) = hyp_step (HH s) e.
Proof. unfold HH, Ht, hyp_of, emit. cbn. rewrite fold_left_app. reflexivity. Qed.

Definition accb (chk : sworld -> event -> bool) (t : list event) : Prop :=
  srun_mon chk (sworld0 typed) (rev t) 0 = None.
Lemma accb_cons chk e t : accb chk (e :: t) <-> accb chk t /\ chk (SWt t) e = true.
Proof. unfold accb, SWt. cbn [rev]. apply srun_mon_snoc. Qed.

Definition chkP := relax_setup specs (chk_C05_shield_gen false).
Definition chkS := relax_setup specs (chk_C05_shield_gen true).

(* what holds at every moment, even when the fuel runs out in the middle of an operation *)
Definition At (t : list event) : Prop :=
  accb chkP t /\ (h_ok (Ht t) = true -> accb chkS t) /\ accb chk_C05_below t.
Definition A s : Prop := At (trace s).

Lemma A_emit_relaxed e s : A s -> chkP (SW s) e = true ->
  (h_ok (HH s) = true -> h_ok (hyp_step (HH s) e) = true -> chkS (SW s) e = true) ->
  chk_C05_below (SW s) e = true -> A (emit e s).
Proof.
  intros (A1 & A2 & A3) C1 C2 C3. unfold A, At, emit. cbn [trace set]. split; [|split].
  - apply accb_cons. split; assumption.
  - intros Hh. change (Ht (e :: trace s)) with (HH (emit e s)) in Hh. rewrite HH_emit in Hh.
    pose proof (hyp_step_mono _ _ Hh) as Hh0. apply accb_cons. split; [apply A2, Hh0|apply C2; assumption].
  - apply accb_cons. split; assumption.
Qed.
Lemma A_emit e s : A s -> chk_C05_shield_gen false (SW s) e = true ->
  (h_ok (HH s) = true -> h_ok (hyp_step (HH s) e) = true -> chk_C05_shield_gen true (SW s) e = true) ->
  chk_C05_below (SW s) e = true -> A (emit e s).
Proof.
  intros HA C1 C2 C3. apply A_emit_relaxed; [exact HA|apply relax_setup_of, C1| |exact C3].
  intros H1 H2. apply relax_setup_of, C2; assumption.
Qed.

Lemma A_emit_loop e s : is_user e = false -> A s -> A (emit e s).
Proof.
  intros N HA. apply A_emit; [exact HA|destruct e; try reflexivity; discriminate| |destruct e; try reflexivity; discriminate].
  intros _ _. destruct e; try reflexivity; discriminate.
Qed.

Lemma A_trace s s' : trace s' = trace s -> A s -> A s'.
Proof. unfold A. intros ->. auto. Qed.

(* ================================================================ symbolic execution of handler code *)
Definition run (n : nat) s (p : sprog) (Q : outcome -> st -> Prop) : Prop :=
  A s -> forall fuel o s', fuel <= n -> exec code fuel (CProg p) s = (o, s') -> A s' /\ (o <> OFuel -> Q o s').

Lemma run_conseq n s p (Q Q' : outcome -> st -> Prop) :
  run n s p Q -> (forall o s', Q o s' -> Q' o s') -> run n s p Q'.
Proof. intros R HQ HA fuel o s' Hf E. destruct (R HA fuel o s' Hf E) as [A' Q1]. split; auto. Qed.

Ltac fuel0 fuel E HA :=
  destruct fuel as [|fuel]; [cbn in E; injection E as <- <-; split; [exact HA|congruence]|].

Lemma run_ret n s (Q : outcome -> st -> Prop) : Q ONormal s -> run n s PRet Q.
Proof. intros HQ HA fuel o s' Hf E. fuel0 fuel E HA. cbn in E. injection E as <- <-. split; auto. Qed.

Lemma run_throw n s x (Q : outcome -> st -> Prop) : Q (OThrow x) s -> run n s (PThrow x) Q.
Proof. intros HQ HA fuel o s' Hf E. fuel0 fuel E HA. cbn in E. injection E as <- <-. split; auto. Qed.

Lemma run_seq n s p q (Q : outcome -> st -> Prop) :
  run n s p (fun o s1 => match o with ONormal => run n s1 q Q | _ => Q o s1 end) -> run n s (p ;; q) Q.
Proof.
  intros R HA fuel o s' Hf E. fuel0 fuel E HA. cbn [exec] in E.
  destruct (exec code fuel (CProg p) s) as [o1 s1] eqn:E1.
  destruct (R HA fuel o1 s1 ltac:(lia) E1) as [A1 Q1].
  destruct o1 as [|x| |].
  - apply (Q1 ltac:(congruence) A1 fuel o s' ltac:(lia) E).
  - injection E as <- <-. split; [exact A1|intros _; apply Q1; congruence].
  - injection E as <- <-. split; [exact A1|intros _; apply Q1; congruence].
  - injection E as <- <-. split; [exact A1|congruence].
Qed.

Lemma run_try n s p h (Q : outcome -> st -> Prop) :
  run n s p (fun o s1 => match o with OThrow XError => run n s1 h Q | _ => Q o s1 end) -> run n s (PTry p h) Q.
Proof.
  intros R HA fuel o s' Hf E. fuel0 fuel E HA. cbn [exec] in E.
  destruct (exec code fuel (CProg p) s) as [o1 s1] eqn:E1.
  destruct (R HA fuel o1 s1 ltac:(lia) E1) as [A1 Q1].
  destruct o1 as [|[| |]| |].
  - injection E as <- <-. split; [exact A1|intros _; apply Q1; congruence].
  - injection E as <- <-. split; [exact A1|intros _; apply Q1; congruence].
  - apply (Q1 ltac:(congruence) A1 fuel o s' ltac:(lia) E).
  - injection E as <- <-. split; [exact A1|intros _; apply Q1; congruence].
  - injection E as <- <-. split; [exact A1|intros _; apply Q1; congruence].
  - injection E as <- <-. split; [exact A1|congruence].
Qed.

Lemma run_st n s g (Q : outcome -> st -> Prop) :
  run n (s <| ust := fst (g (ust s)) |>) (snd (g (ust s))) Q -> run n s (PSt g) Q.
Proof.
  intros R HA fuel o s' Hf E. fuel0 fuel E HA. cbn [exec] in E.
  destruct (g (ust s)) as [u' p'] eqn:G. cbn [fst snd] in R.
  apply (R ltac:(eapply A_trace; [|exact HA]; reflexivity) fuel o s' ltac:(lia) E).
Qed.

Lemma ust_eta s : s <| ust := ust s |> = s.
Proof. destruct s; reflexivity. Qed.

Lemma run_rd n s k (Q : outcome -> st -> Prop) : run n s (k (ust s)) Q -> run n s (rd k) Q.
Proof. intros R. unfold rd. apply run_st. cbn [fst snd]. rewrite ust_eta. exact R. Qed.

Lemma run_wr n s g (Q : outcome -> st -> Prop) : Q ONormal (s <| ust := g (ust s) |>) -> run n s (wr g) Q.
Proof. intros HQ. unfold wr. apply run_st. cbn [fst snd]. apply run_ret, HQ. Qed.

Lemma run_emit n s e (Q : outcome -> st -> Prop) :
  (A s -> A (emit (user_event e) s)) -> Q ONormal (emit (user_event e) s) -> run n s (PEmit e) Q.
Proof.
  intros HA' HQ HA fuel o s' Hf E. fuel0 fuel E HA. cbn [exec] in E. injection E as <- <-. split; auto.
Qed.

Lemma run_while n c b (I : st -> Prop) (Q : outcome -> st -> Prop) :
  (forall s1, I s1 -> c (ust s1) = true -> run n s1 b (fun o s2 => match o with ONormal => I s2 | _ => Q o s2 end)) ->
  (forall s1, I s1 -> c (ust s1) = false -> Q ONormal s1) ->
  forall s, I s -> run n s (PWhile c b) Q.
Proof.
  intros Hb Hx s HI HA fuel. revert s HI HA.
  induction fuel as [|fuel IH]; intros s HI HA o s' Hf E.
  { cbn in E; injection E as <- <-; split; [exact HA|congruence]. }
  cbn [exec] in E. destruct (c (ust s)) eqn:C.
  - destruct (exec code fuel (CProg b) s) as [o1 s1] eqn:E1.
    destruct (Hb s HI C HA fuel o1 s1 ltac:(lia) E1) as [A1 Q1].
    destruct o1 as [|x| |].
    + apply (IH s1 (Q1 ltac:(congruence)) A1 o s' ltac:(lia) E).
    + injection E as <- <-. split; [exact A1|intros _; apply Q1; congruence].
    + injection E as <- <-. split; [exact A1|intros _; apply Q1; congruence].
    + injection E as <- <-. split; [exact A1|congruence].
  - injection E as <- <-. split; [exact HA|intros _; apply Hx; assumption].
Qed.


(* ================================================================ the invariant *)
Record Base s : Prop := {
  b_stack : sw_stack (SW s) = map e_of (st_stack (ust s));
  b_expect : sw_expect (SW s) = [];
  b_repl : sw_replaced (SW s) = None;
  b_ids : Forall (fun d => sd_id d < st_next_sd (ust s)) (st_stack (ust s));
  b_nodup : NoDup (map sd_id (st_stack (ust s)));
  b_on : frames_on (SW s);
  b_origs : NoDup (map mf_orig (sw_modal (SW s)));
  b_orig_lt : Forall (fun f => mf_orig f < st_next_sd (ust s)) (sw_modal (SW s)) }.

(* ... and what holds as long as the hypothesis of the strict form does *)
Record Strict (g : bool) s : Prop := {
  s_fq : force_quit s = false;
  s_rl : run_loop s = false -> h_rl (HH s) = false;
  s_J : ofc (sw_modal (SW s)) = mei (sw_stack (SW s));
  s_G : g = true -> run_loop s = false -> head_closed (sw_modal (SW s)) }.

Definition InvG (g : bool) s : Prop := Base s /\ (h_ok (HH s) = true -> Strict g s).
Notation Inv := (InvG true).

Definition Rel (b : bool) s s' : Prop :=
  Relw b (SW s) (SW s') /\ (h_ok (HH s') = true -> h_ok (HH s) = true).

Lemma Rel_refl b s : Rel b s s.
Proof. split; [apply Relw_refl|auto]. Qed.
Lemma Rel_trans_l b s s1 s2 : Rel true s s1 -> Rel b s1 s2 -> Rel b s s2.
Proof. intros [R1 M1] [R2 M2]. split; [eapply Relw_trans_l; eauto|auto]. Qed.
Lemma Rel_trans_r b s s1 s2 : Rel b s s1 -> Rel true s1 s2 -> Rel b s s2.
Proof. intros [R1 M1] [R2 M2]. split; [eapply Relw_trans_r; eauto|auto]. Qed.
Lemma Rel_weaken b s s' : Rel true s s' -> Rel b s s'.
Proof. intros [R M]. split; [apply Relw_weaken, R|exact M]. Qed.
Lemma Rel_trans_false b1 b2 s s1 s2 : Rel b1 s s1 -> Rel b2 s1 s2 -> Rel false s s2.
Proof.
  intros [R1 M1] [R2 M2]. split; [|auto]. pose proof (Relw_trans _ _ _ _ _ R1 R2) as (n & o & E & F & _).
  exists n, o. split; [exact E|split; [exact F|discriminate]].
Qed.

Lemma vsame_refl w : vsame w w. Proof. repeat split; auto. Qed.
Lemma vsame_trans w1 w2 w3 : vsame w1 w2 -> vsame w2 w3 -> vsame w1 w3.
Proof.
  intros (A1 & A2 & A3 & A4) (B1 & B2 & B3 & B4). repeat split; try congruence.
  destruct B4 as [B4|B4]; [|right; exact B4]. destruct A4 as [A4|A4]; [left|right]; congruence.
Qed.

(* a step that changes nothing the invariant looks at *)
Record Keep s s' : Prop := {
  k_v : vsame (SW s) (SW s'); k_h : HH s' = HH s; k_A : A s -> A s';
  k_u1 : st_stack (ust s') = st_stack (ust s); k_u2 : st_next_sd (ust s') = st_next_sd (ust s);
  k_rl : run_loop s' = run_loop s; k_fq : force_quit s' = force_quit s }.

Lemma Keep_refl s : Keep s s.
Proof. split; auto using vsame_refl. Qed.
Lemma Keep_trans s s1 s2 : Keep s s1 -> Keep s1 s2 -> Keep s s2.
Proof. intros [] []. split; try congruence; eauto using vsame_trans. Qed.
Lemma Keep_same s s' : trace s' = trace s -> ust s' = ust s -> run_loop s' = run_loop s -> force_quit s' = force_quit s -> Keep s s'.
Proof. intros T U R F. split; auto; unfold SW, HH, A; rewrite ?T, ?U; auto using vsame_refl. Qed.
Lemma Keep_wr s (g : sstate -> sstate) : st_stack (g (ust s)) = st_stack (ust s) -> st_next_sd (g (ust s)) = st_next_sd (ust s) ->
  Keep s (s <| ust := g (ust s) |>).
Proof. intros U1 U2. split; auto; try reflexivity. apply vsame_refl. Qed.

Definition neutral_ev (e : event) : bool :=
  match e with
  | EUser _ _ _ | EForceQuit | ENewLoopEnter _ | EClosePop _ | ENewLoopReturn _ | ERunEnter => false
  | _ => true
  end.
Lemma neutral_not_user e : neutral_ev e = true -> is_user e = false.
Proof. destruct e; cbn; congruence. Qed.
Lemma Keep_emit e s : neutral_ev e = true -> Keep s (emit e s).
Proof.
  intros N. split; try reflexivity.
  - rewrite SW_emit. apply step_loop_vsame, neutral_not_user, N.
  - rewrite HH_emit. destruct e; try discriminate N; reflexivity.
  - apply A_emit_loop, neutral_not_user, N.
Qed.
Lemma Keep_emit_r e s s1 : Keep s s1 -> neutral_ev e = true -> Keep s (emit e s1).
Proof. intros K N. eapply Keep_trans; [exact K|apply Keep_emit, N]. Qed.
Lemma Keep_same_r s s1 s2 : Keep s s1 -> trace s2 = trace s1 -> ust s2 = ust s1 -> run_loop s2 = run_loop s1 ->
  force_quit s2 = force_quit s1 -> Keep s s2.
Proof. intros K T U R F. eapply Keep_trans; [exact K|apply Keep_same; assumption]. Qed.

Lemma Base_transfer2 s s' : vsame (SW s) (SW s') -> st_stack (ust s') = st_stack (ust s) ->
  st_next_sd (ust s') = st_next_sd (ust s) -> Base s -> Base s'.
Proof.
  intros (V1 & V2 & V3 & V4) U1 U2 [B1 B2 B3 B4 B5 B6 B7 B8]. split; unfold frames_on; rewrite ?U1, ?U2, ?V1, ?V2, ?V3; auto.
  destruct V4 as [V4|V4]; congruence.
Qed.
Lemma Base_transfer s s' : vsame (SW s) (SW s') -> ust s' = ust s -> Base s -> Base s'.
Proof. intros V U. apply Base_transfer2; [exact V|rewrite U; reflexivity|rewrite U; reflexivity]. Qed.
Lemma Keep_inv g s s' : Keep s s' -> InvG g s -> InvG g s'.
Proof.
  intros [V Hh _ U1 U2 R F] [B S]. split; [eapply Base_transfer2; eauto|].
  rewrite Hh. intros Hok. destruct (S Hok) as [S1 S2 S3 S4]. destruct V as (V1 & V2 & _).
  split; rewrite ?Hh, ?R, ?F, ?V1, ?V2; auto.
Qed.
Lemma Keep_rel s s' : Keep s s' -> Rel true s s'.
Proof.
  intros [V Hh _ _ _ _ _]. destruct V as (_ & V2 & _). split; [|rewrite Hh; auto].
  apply Relw_modal. rewrite V2. apply frames_le_refl.
Qed.
Lemma Keep_modal s s' : Keep s s' -> sw_modal (SW s') = sw_modal (SW s).
Proof. intros [V _ _ _ _ _ _]. apply V. Qed.

Lemma Keep_new_signal s sp : Keep s (snd (new_signal s sp)).
Proof.
  unfold new_signal. cbn [snd]. apply Keep_emit_r; [|reflexivity]. apply Keep_same; reflexivity.
Qed.
Lemma Keep_do_enqueue s sg : Keep s (do_enqueue s sg).
Proof.
  unfold do_enqueue. destruct (force_quit s); [apply Keep_emit; reflexivity|].
  apply Keep_emit_r; [|reflexivity]. apply Keep_same; reflexivity.
Qed.
Lemma Keep_do_get_some s sg s1 : do_get s = inl (Some (sg, s1)) -> Keep s s1.
Proof.
  unfold do_get. destruct (q_pop (get_q s (active s))) as [[[[p c] sg'] q']|].
  - intros H. injection H as <- <-. apply Keep_same; reflexivity.
  - destruct (ext s); [discriminate|]. destruct (new_signal _ _). discriminate.
Qed.
Lemma Keep_do_get_ext s s1 : do_get s = inr s1 -> Keep s s1.
Proof.
  unfold do_get. destruct (q_pop (get_q s (active s))) as [[[[p c] sg'] q']|]; [discriminate|].
  destruct (ext s) as [|sp r]; [discriminate|].
  pose proof (Keep_new_signal (s <| ext := r |>) sp) as K.
  destruct (new_signal (s <| ext := r |>) sp) as [sg s0]. cbn [snd] in K.
  intros H. injection H as <-.
  eapply Keep_trans; [|apply Keep_do_enqueue]. apply Keep_emit_r; [|reflexivity].
  eapply Keep_trans; [|exact K]. apply Keep_same; reflexivity.
Qed.

(* loop events that move the stop flag: the base part is never concerned *)
Lemma Base_loop_emit e s s1 : is_user e = false -> trace s1 = trace s -> ust s1 = ust s -> Base s -> Base (emit e s1).
Proof.
  intros N T U B. eapply Base_transfer; [| |exact B]; [|exact U].
  rewrite SW_emit. unfold SW. rewrite T. apply step_loop_vsame, N.
Qed.
Lemma SW_loop_emit_modal e s s1 : is_user e = false -> trace s1 = trace s ->
  sw_modal (SW (emit e s1)) = sw_modal (SW s) /\ sw_stack (SW (emit e s1)) = sw_stack (SW s).
Proof.
  intros N T. rewrite SW_emit. unfold SW. rewrite T. destruct (step_loop_vsame (SWt (trace s)) e N) as (V1 & V2 & _). auto.
Qed.
Lemma HH_emit' e s s1 : trace s1 = trace s -> HH (emit e s1) = hyp_step (HH s) e.
Proof. intros T. rewrite HH_emit. unfold HH. rewrite T. reflexivity. Qed.
Lemma A_loop_emit e s s1 : is_user e = false -> trace s1 = trace s -> A s -> A (emit e s1).
Proof. intros N T HA. apply A_emit_loop; [exact N|]. eapply A_trace; eauto. Qed.
Lemma Rel_loop_emit e s s1 : is_user e = false -> trace s1 = trace s -> Rel true s (emit e s1).
Proof.
  intros N T. destruct (SW_loop_emit_modal e s s1 N T) as [M _]. split.
  - apply Relw_modal. rewrite M. apply frames_le_refl.
  - rewrite (HH_emit' _ _ _ T). apply hyp_step_mono.
Qed.

(* ================================================================ the loop's own calls *)
Definition PreC (c : call sstate) s : Prop :=
  match c with
  | CApi (ANewLoop _) => InvG false s
  | CApi ACloseLoop => Inv s /\ (h_ok (HH s) = true -> head_closed (sw_modal (SW s)))
  | CProg _ => False
  | _ => Inv s
  end.
Definition balc (c : call sstate) (o : outcome) : bool := match c with CRun => false | _ => bal o end.
Definition Spec (c : call sstate) (o : outcome) s' : Prop :=
  match c with
  | CMainloop => o <> OThrow XError /\
                 (o = ONormal -> (force_quit s' = false -> run_loop s' = true) /\
                                 (h_ok (HH s') = true -> head_closed (sw_modal (SW s'))))
  | CProcLoop | CProcessSignal _ _ => o <> OThrow XError
  | CApi (ANewLoop _) => o <> OThrow XError /\
                 (o = ONormal -> (force_quit s' = false -> run_loop s' = true) /\
                                 (h_ok (HH s') = true -> head_closed (sw_modal (SW s'))))
  | _ => True
  end.
Definition PostC (c : call sstate) s (o : outcome) s' : Prop := Inv s' /\ Rel (balc c o) s s' /\ Spec c o s'.
Definition Res (c : call sstate) s (o : outcome) s' : Prop := A s' /\ (o <> OFuel -> PostC c s o s').

Definition LoopOK (n : nat) : Prop :=
  forall fuel c s o s', fuel <= n -> A s -> PreC c s -> exec code fuel c s = (o, s') -> Res c s o s'.
Definition HOK (n : nat) : Prop :=
  forall hid sg data s, Inv s -> run n s (code hid sg data) (fun o s' => Inv s' /\ Rel (bal o) s s').

Lemma LoopOK_0 : LoopOK 0.
Proof.
  intros fuel c s o s' Hf HA HP E. assert (fuel = 0) as -> by lia. cbn in E. injection E as <- <-.
  split; [exact HA|congruence].
Qed.

(* a sub-call's abnormal outcome is passed on *)
Lemma Res_pass c c2 s s2 o s3 : Res c2 s2 o s3 -> c <> CRun -> c2 <> CRun -> Rel true s s2 -> o <> ONormal ->
  (Spec c2 o s3 -> Spec c o s3) -> Res c s o s3.
Proof.
  intros [HA HP] NR NR2 R N SP. split; [exact HA|]. intros NF. destruct (HP NF) as (I & R2 & S2).
  split; [exact I|split; [|apply SP, S2]].
  assert (balc c o = balc c2 o) as -> by (destruct c, c2; try reflexivity; congruence).
  eapply Rel_trans_l; eauto.
Qed.

Ltac spec_pass :=
  let X := fresh "X" in intros X; cbn [Spec] in *; try exact I; try tauto; try (split; [tauto|intros; congruence]).
Ltac spec_fin := cbn [Spec] in *; first [exact I | assumption | discriminate | tauto].

Ltac inj E := injection E as <- <-.

Lemma loop_step n : LoopOK n -> HOK n -> LoopOK (S n).
Proof.
  intros IH HK fuel c s o s' Hf HA HP E.
  destruct (Nat.eq_dec fuel (S n)) as [->|Hne]; [|apply (IH fuel c s o s'); auto; lia].
  assert (IH' : forall c2 s2 o2 s3, exec code n c2 s2 = (o2, s3) -> A s2 -> PreC c2 s2 -> Res c2 s2 o2 s3)
    by (intros; eapply IH; eauto).
  destruct c; cbn [exec] in E.
  - (* CRun *)
    cbn [PreC] in HP. destruct HP as [B St].
    set (s0 := emit ERunEnter _) in E.
    assert (A0 : A s0) by (apply (A_loop_emit ERunEnter s); [reflexivity|reflexivity|exact HA]).
    assert (H0 : HH s0 = hyp_step (HH s) ERunEnter) by (apply HH_emit'; reflexivity).
    assert (M0 : sw_modal (SW s0) = sw_modal (SW s) /\ sw_stack (SW s0) = sw_stack (SW s))
      by (apply SW_loop_emit_modal; reflexivity).
    assert (I0 : Inv s0).
    { split; [apply (Base_loop_emit ERunEnter s); auto|]. rewrite H0. cbn [hyp_step h_ok h_rl].
      intros Hok. destruct (St Hok) as [S1 S2 S3 S4]. destruct M0 as [M1 M2].
      split; [reflexivity|cbn; discriminate|rewrite M1, M2; exact S3|cbn; discriminate]. }
    assert (R0 : Rel true s s0) by (apply (Rel_loop_emit ERunEnter s); reflexivity).
    destruct (exec code n CMainloop s0) as [o1 s1] eqn:E1.
    destruct (IH' _ _ _ _ E1 A0 I0) as [A1 P1].
    assert (FIN : forall s2, Keep s1 s2 -> o1 <> OFuel -> Res CRun s ONormal s2).
    { intros s2 K NF. destruct (P1 NF) as (I1 & R1 & _). split; [apply (k_A _ _ K), A1|]. intros _.
      split; [eapply Keep_inv; eauto|split; [|exact I]]. cbn [balc].
      eapply Rel_trans_false; [exact R0|]. eapply Rel_trans_r; [exact R1|apply Keep_rel, K]. }
    assert (K2 : Keep s1 (emit ERunReturn (match quit_cb s1 with Some a => emit (EQuitCb a) s1 | None => s1 end))).
    { apply Keep_emit_r; [|reflexivity]. destruct (quit_cb s1); [apply Keep_emit; reflexivity|apply Keep_refl]. }
    destruct o1 as [|[| |]| |]; inj E; try (apply FIN; [exact K2|congruence]).
    + split; [exact A1|]. intros _. destruct (P1 ltac:(congruence)) as (I1 & R1 & _).
      split; [exact I1|split; [|exact I]]. eapply Rel_trans_false; eauto.
    + split; [exact A1|]. intros _. destruct (P1 ltac:(congruence)) as (I1 & R1 & _).
      split; [exact I1|split; [|exact I]]. eapply Rel_trans_false; eauto.
    + split; [exact A1|]. intros _. destruct (P1 ltac:(congruence)) as (I1 & R1 & _).
      split; [exact I1|split; [|exact I]]. eapply Rel_trans_false; eauto.
    + split; [exact A1|congruence].
  - (* CMainloop *)
    cbn [PreC] in HP.
    destruct (run_loop s) eqn:RL.
    + destruct (exec code n CProcLoop s) as [o1 s1] eqn:E1.
      pose proof (IH' _ _ _ _ E1 HA HP) as R1.
      destruct o1 as [|x| |]; try (inj E; eapply Res_pass; [exact R1|discriminate|discriminate|apply Rel_refl|discriminate|spec_pass]).
      * destruct R1 as [A1 P1]. destruct (P1 ltac:(congruence)) as (I1 & R1 & _).
        destruct (IH' _ _ _ _ E A1 I1) as [A2 P2]. split; [exact A2|]. intros NF. destruct (P2 NF) as (I2 & R2 & S2).
        split; [exact I2|split; [eapply Rel_trans_l; eauto|exact S2]].
    + set (sx := if force_quit s then s else _) in E. inj E. destruct HP as [B St].
      assert (T : trace sx = trace s) by (unfold sx; destruct (force_quit s); reflexivity).
      assert (U : ust sx = ust s) by (unfold sx; destruct (force_quit s); reflexivity).
      assert (F : force_quit sx = force_quit s) by (unfold sx; destruct (force_quit s) eqn:F0; cbn; exact F0).
      assert (Ew : SW sx = SW s) by (unfold SW; rewrite T; reflexivity).
      assert (Eh : HH sx = HH s) by (unfold HH; rewrite T; reflexivity).
      assert (RLx : force_quit s = false -> run_loop sx = true) by (intros F0; unfold sx; rewrite F0; reflexivity).
      split; [eapply A_trace; eauto|]. intros _. split; [|split].
      * split; [apply (Base_transfer s sx); [rewrite Ew; apply vsame_refl|exact U|exact B]|].
        rewrite Eh. intros Hok. destruct (St Hok) as [S1 S2 S3 S4].
        split; rewrite ?Ew, ?F, ?(RLx S1); auto; discriminate.
      * cbn [balc bal]. split; [rewrite Ew; apply Relw_refl|rewrite Eh; auto].
      * cbn [Spec]. split; [discriminate|]. intros _. split.
        -- rewrite F. exact RLx.
        -- rewrite Eh, Ew. intros Hok. destruct (St Hok) as [S1 S2 S3 S4]. apply S4; auto.
  - (* CProcLoop *)
    cbn [PreC] in HP.
    destruct (run_loop s) eqn:RL.
    2:{ inj E. split; [exact HA|]. intros _. split; [exact HP|split; [apply Rel_refl|spec_fin]]. }
    destruct (do_get s) as [[[sg s1]|]|s1] eqn:G.
    + pose proof (Keep_do_get_some _ _ _ G) as K1.
      set (s2 := emit _ s1) in E.
      assert (K2 : Keep s s2) by (apply Keep_emit_r; [exact K1|reflexivity]).
      destruct (exec code n (CProcessSignal sg 0) s2) as [o1 s3] eqn:E1.
      pose proof (IH' _ _ _ _ E1 (k_A _ _ K2 HA) (Keep_inv _ _ _ K2 HP)) as R1.
      destruct o1 as [|x| |]; try (inj E; eapply Res_pass; [exact R1|discriminate|discriminate|apply Keep_rel, K2|discriminate|spec_pass]).
      * destruct R1 as [A1 P1]. destruct (P1 ltac:(congruence)) as (I1 & R1 & _).
        destruct (IH' _ _ _ _ E A1 I1) as [A2 P2]. split; [exact A2|]. intros NF. destruct (P2 NF) as (I2 & R2 & S2).
        split; [exact I2|split; [|spec_fin]]. eapply Rel_trans_l; [apply Keep_rel, K2|]. eapply Rel_trans_l; eauto.
    + inj E. split; [exact HA|]. intros _. split; [exact HP|split; [apply Rel_refl|spec_fin]].
    + pose proof (Keep_do_get_ext _ _ G) as K1.
      destruct (IH' _ _ _ _ E (k_A _ _ K1 HA) (Keep_inv _ _ _ K1 HP)) as [A2 P2]. split; [exact A2|].
      intros NF. destruct (P2 NF) as (I2 & R2 & S2). split; [exact I2|split; [|spec_fin]].
      eapply Rel_trans_l; [apply Keep_rel, K1|exact R2].
  - (* CProcWait *)
    cbn [PreC] in HP.
    destruct (run_loop s) eqn:RL.
    2:{ inj E. split; [exact HA|]. intros _. split; [exact HP|split; [apply Rel_refl|exact I]]. }
    destruct (do_get s) as [[[sg s1]|]|s1] eqn:G.
    + pose proof (Keep_do_get_some _ _ _ G) as K1.
      set (s2 := emit _ s1) in E.
      assert (K2 : Keep s s2) by (apply Keep_emit_r; [exact K1|reflexivity]).
      destruct (exec code n (CProcessSignal sg 0) s2) as [o1 s3] eqn:E1.
      pose proof (IH' _ _ _ _ E1 (k_A _ _ K2 HA) (Keep_inv _ _ _ K2 HP)) as R1.
      destruct o1 as [|x| |]; try (inj E; eapply Res_pass; [exact R1|discriminate|discriminate|apply Keep_rel, K2|discriminate|spec_pass]).
      * destruct R1 as [A1 P1]. destruct (P1 ltac:(congruence)) as (I1 & R1 & _).
        assert (R01 : Rel true s s3) by (eapply Rel_trans_l; [apply Keep_rel, K2|exact R1]).
        destruct (check_ticket (tickets s3) cls ticket) as [[[|] t']|].
        -- inj E. assert (K3 : Keep s3 (s3 <| tickets := t' |>)) by (apply Keep_same; reflexivity).
           split; [apply (k_A _ _ K3), A1|]. intros _. split; [eapply Keep_inv; eauto|split; [|exact I]].
           eapply Rel_trans_l; [exact R01|apply Keep_rel, K3].
        -- destruct (IH' _ _ _ _ E A1 I1) as [A2 P2]. split; [exact A2|]. intros NF. destruct (P2 NF) as (I2 & R2 & S2).
           split; [exact I2|split; [|exact I]]. eapply Rel_trans_l; eauto.
        -- inj E. split; [exact A1|]. intros _. split; [exact I1|split; [exact R01|exact I]].
    + inj E. split; [exact HA|]. intros _. split; [exact HP|split; [apply Rel_refl|exact I]].
    + pose proof (Keep_do_get_ext _ _ G) as K1.
      destruct (IH' _ _ _ _ E (k_A _ _ K1 HA) (Keep_inv _ _ _ K1 HP)) as [A2 P2]. split; [exact A2|].
      intros NF. destruct (P2 NF) as (I2 & R2 & S2). split; [exact I2|split; [|exact I]].
      eapply Rel_trans_l; [apply Keep_rel, K1|exact R2].
  - (* CProcIter *)
    cbn [PreC] in HP.
    destruct (negb (q_empty (get_q s (active s))) && run_loop s).
    2:{ inj E. split; [exact HA|]. intros _. split; [exact HP|split; [apply Rel_refl|exact I]]. }
    destruct (q_pop (get_q s (active s))) as [[[[p cnt] sg] q']|] eqn:P.
    2:{ inj E. split; [exact HA|]. intros _. split; [exact HP|split; [apply Rel_refl|exact I]]. }
    assert (GO : forall o s',
               (let s1 := set_q s (active s) q' in
                let s2 := emit (EDispatch (sg_id sg) (active s) (length (levels s))) s1 in
                let '(o, s3) := exec code n (CProcessSignal sg 0) s2 in
                match o with ONormal => exec code n (CProcIter (Some p)) s3 | _ => (o, s3) end) = (o, s') ->
               Res (CProcIter prio) s o s').
    { clear E. intros o0 s0' E. cbn zeta in E. set (s2 := emit _ _) in E.
      assert (K2 : Keep s s2) by (apply Keep_emit_r; [apply Keep_same; reflexivity|reflexivity]).
      destruct (exec code n (CProcessSignal sg 0) s2) as [o1 s3] eqn:E1.
      pose proof (IH' _ _ _ _ E1 (k_A _ _ K2 HA) (Keep_inv _ _ _ K2 HP)) as R1.
      destruct o1 as [|x| |]; try (inj E; eapply Res_pass; [exact R1|discriminate|discriminate|apply Keep_rel, K2|discriminate|spec_pass]).
      * destruct R1 as [A1 P1]. destruct (P1 ltac:(congruence)) as (I1 & R1 & _).
        destruct (IH' _ _ _ _ E A1 I1) as [A2 P2]. split; [exact A2|]. intros NF. destruct (P2 NF) as (I2 & R2 & S2).
        split; [exact I2|split; [|exact I]]. eapply Rel_trans_l; [apply Keep_rel, K2|]. eapply Rel_trans_l; eauto. }
    destruct prio as [p0|]; [|apply GO in E; exact E].
    destruct (p =? p0)%Z; [apply GO in E; exact E|].
    inj E. set (s2 := emit _ _).
    assert (K2 : Keep s s2) by (apply Keep_emit_r; [apply Keep_same; reflexivity|reflexivity]).
    split; [apply (k_A _ _ K2), HA|]. intros _. split; [eapply Keep_inv; eauto|split; [apply Keep_rel, K2|exact I]].
  - (* CProcessSignal *)
    cbn [PreC] in HP.
    set (s0 := if (idx =? 0)%nat then _ else s) in E.
    assert (K0 : Keep s s0) by (unfold s0; destruct (idx =? 0)%nat; [apply Keep_same; reflexivity|apply Keep_refl]).
    clearbody s0.
    assert (DONE : forall e, neutral_ev e = true -> forall o, o <> OThrow XError -> Res (CProcessSignal sg idx) s o (emit e s0)).
    { intros e N o0 NX. assert (K : Keep s (emit e s0)) by (apply Keep_emit_r; assumption).
      split; [apply (k_A _ _ K), HA|]. intros _. split; [eapply Keep_inv; eauto|split; [|exact NX]].
      apply Rel_weaken, Keep_rel, K. }
    destruct (handlers_of s0 (sg_cls sg)) as [hs|].
    2:{ destruct (sg_cls sg =? CLS_EXCEPTION)%nat; inj E; (eapply DONE; [reflexivity|discriminate]). }
    destruct (force_quit s0); [inj E; (eapply DONE; [reflexivity|discriminate])|].
    destruct (nth_error hs idx) as [[hid data]|]; [|inj E; (eapply DONE; [reflexivity|discriminate])].
    set (s1 := emit _ s0) in E.
    assert (K1 : Keep s s1) by (apply Keep_emit_r; [exact K0|reflexivity]).
    destruct (exec code n (CProg (code hid sg data)) s1) as [o1 s2] eqn:E1.
    destruct (HK hid sg data s1 (Keep_inv _ _ _ K1 HP) (k_A _ _ K1 HA) n o1 s2 (le_n _) E1) as [A2 Q2].
    destruct o1 as [|[| |]| |].
    + destruct (Q2 ltac:(congruence)) as [I2 R2].
      set (s3 := emit _ s2) in E. assert (K3 : Keep s2 s3) by (apply Keep_emit; reflexivity).
      destruct (IH' _ _ _ _ E (k_A _ _ K3 A2) (Keep_inv _ _ _ K3 I2)) as [A4 P4]. split; [exact A4|].
      intros NF. destruct (P4 NF) as (I4 & R4 & S4). split; [exact I4|split; [|exact S4]].
      eapply Rel_trans_l; [apply Keep_rel, K1|]. eapply Rel_trans_l; [exact R2|]. eapply Rel_trans_l; [apply Keep_rel, K3|exact R4].
    + destruct (Q2 ltac:(congruence)) as [I2 R2]. inj E.
      assert (K3 : Keep s2 (emit (EHandlerEnd hid (sg_id sg) (Some XExit)) s2)) by (apply Keep_emit; reflexivity).
      split; [apply (k_A _ _ K3), A2|]. intros _. split; [eapply Keep_inv; eauto|split; [|spec_fin]].
      eapply Rel_trans_l; [apply Keep_rel, K1|]. eapply Rel_trans_r; [exact R2|apply Keep_rel, K3].
    + destruct (Q2 ltac:(congruence)) as [I2 R2].
      set (s3 := emit _ s2) in E.
      pose proof (Keep_new_signal s3 exception_spec) as K4.
      destruct (new_signal s3 exception_spec) as [xs s4]. cbn [snd] in K4.
      assert (K5 : Keep s2 (do_enqueue s4 xs)).
      { apply (Keep_trans s2 s3); [apply Keep_emit; reflexivity|]. eapply Keep_trans; [exact K4|apply Keep_do_enqueue]. }
      destruct (IH' _ _ _ _ E (k_A _ _ K5 A2) (Keep_inv _ _ _ K5 I2)) as [A6 P6]. split; [exact A6|].
      intros NF. destruct (P6 NF) as (I6 & R6 & S6). split; [exact I6|split; [|exact S6]].
      eapply Rel_trans_l; [apply Keep_rel, K1|]. eapply Rel_trans_l; [exact R2|]. eapply Rel_trans_l; [apply Keep_rel, K5|exact R6].
    + destruct (Q2 ltac:(congruence)) as [I2 R2]. inj E.
      assert (K3 : Keep s2 (emit (EHandlerEnd hid (sg_id sg) (Some XSysExit)) s2)) by (apply Keep_emit; reflexivity).
      split; [apply (k_A _ _ K3), A2|]. intros _. split; [eapply Keep_inv; eauto|split; [|spec_fin]].
      eapply Rel_trans_l; [apply Keep_rel, K1|]. eapply Rel_trans_r; [exact R2|apply Keep_rel, K3].
    + destruct (Q2 ltac:(congruence)) as [I2 R2]. inj E.
      split; [exact A2|]. intros _. split; [exact I2|split; [|spec_fin]]. eapply Rel_trans_l; [apply Keep_rel, K1|exact R2].
    + inj E. split; [exact A2|congruence].
  - (* CApi *)
    destruct c.
    + (* AEnqueue *)
      cbn [PreC] in HP. pose proof (Keep_new_signal s sp) as K1.
      destruct (new_signal s sp) as [sg s1]. cbn [snd] in K1. inj E.
      assert (K : Keep s (do_enqueue s1 sg)) by (eapply Keep_trans; [exact K1|apply Keep_do_enqueue]).
      split; [apply (k_A _ _ K), HA|]. intros _. split; [eapply Keep_inv; eauto|split; [apply Keep_rel, K|exact I]].
    + (* AForceQuit *)
      cbn [PreC] in HP. inj E. destruct HP as [B St].
      set (s1 := s <| force_quit := true |> <| levels := [] |> <| run_loop := false |>).
      split; [apply (A_loop_emit EForceQuit s s1); [reflexivity|reflexivity|exact HA]|]. intros _. split; [|split; [|exact I]].
      * split; [apply (Base_loop_emit EForceQuit s s1); auto|]. rewrite (HH_emit' _ s) by reflexivity. cbn. discriminate.
      * apply (Rel_loop_emit EForceQuit s s1); reflexivity.
    + (* ANewLoop *)
      cbn [PreC] in HP. pose proof (Keep_new_signal s sp) as K1.
      destruct (new_signal s sp) as [sg s1]. cbn [snd] in K1.
      pose proof (Keep_inv _ _ _ K1 HP) as [B1 S1]. pose proof (k_A _ _ K1 HA) as A1.
      destruct (force_quit s1) eqn:FQ.
      { inj E. split; [exact A1|]. intros _. split; [|split; [apply Keep_rel, K1|]].
        - split; [exact B1|]. intros Hok. destruct (S1 Hok) as [X _ _ _]. congruence.
        - cbn [Spec]. split; [discriminate|]. intros _. split; [intros X; congruence|].
          intros Hok. destruct (S1 Hok) as [X _ _ _]. congruence. }
      set (s2e := emit (ENewLoopEnter _) _) in E.
      assert (A2 : A s2e) by (apply (A_loop_emit _ s1); [reflexivity|reflexivity|exact A1]).
      assert (H2 : HH s2e = hyp_step (HH s1) (ENewLoopEnter (length (qstore s1)))) by (apply HH_emit'; reflexivity).
      assert (M2e : sw_modal (SW s2e) = sw_modal (SW s1) /\ sw_stack (SW s2e) = sw_stack (SW s1))
        by (apply SW_loop_emit_modal; reflexivity).
      assert (RL2 : run_loop s2e = run_loop s1) by reflexivity.
      assert (FQ2 : force_quit s2e = force_quit s1) by reflexivity.
      assert (I2 : Inv s2e).
      { split; [apply (Base_loop_emit _ s1); auto|]. rewrite H2. cbn [hyp_step h_ok h_rl].
        intros Hok. apply andb_true_iff in Hok. destruct Hok as [Hok Hrl]. destruct (S1 Hok) as [X1 X2 X3 X4].
        destruct M2e as [M1 M2].
        assert (RL : run_loop s1 = true) by (destruct (run_loop s1); [reflexivity|rewrite X2 in Hrl; [discriminate|reflexivity]]).
        split; [rewrite FQ2; exact X1| |rewrite M1, M2; exact X3|]; rewrite RL2, RL; discriminate. }
      assert (R2 : Rel true s s2e) by (eapply Rel_trans_l; [apply Keep_rel, K1|apply (Rel_loop_emit _ s1); reflexivity]).
      pose proof (Keep_do_enqueue s2e sg) as K3.
      destruct (exec code n CMainloop (do_enqueue s2e sg)) as [o1 s4] eqn:E1.
      pose proof (IH' _ _ _ _ E1 (k_A _ _ K3 A2) (Keep_inv _ _ _ K3 I2)) as R4.
      assert (R3 : Rel true s (do_enqueue s2e sg)) by (eapply Rel_trans_l; [exact R2|apply Keep_rel, K3]).
      destruct o1 as [|x| |]; try (inj E; eapply Res_pass; [exact R4|discriminate|discriminate|exact R3|discriminate|spec_pass]).
      * set (s5 := emit (ENewLoopReturn _) s4) in E. inj E.
        destruct R4 as [A4 P4]. destruct (P4 ltac:(congruence)) as ([B4 S4] & R4 & SP4). cbn [Spec] in SP4.
        destruct SP4 as [_ SP4]. destruct (SP4 eq_refl) as [RL4 HC4].
        assert (H5 : HH s5 = hyp_step (HH s4) (ENewLoopReturn (length (qstore s1)))) by (apply HH_emit'; reflexivity).
        destruct (SW_loop_emit_modal (ENewLoopReturn (length (qstore s1))) s4 s4 eq_refl eq_refl) as [M1 M2]. fold s5 in M1, M2.
        assert (RL5 : run_loop s5 = run_loop s4) by reflexivity.
        assert (FQ5 : force_quit s5 = force_quit s4) by reflexivity.
        split; [apply (A_loop_emit _ s4 s4); [reflexivity|reflexivity|exact A4]|]. intros _. split; [|split].
        -- split; [apply (Base_loop_emit _ s4 s4); auto|]. rewrite H5. cbn [hyp_step h_ok h_rl]. intros Hok.
           destruct (S4 Hok) as [X1 X2 X3 X4]. pose proof (RL4 X1) as RL.
           split; [rewrite FQ5; exact X1| |rewrite M1, M2; exact X3|]; rewrite RL5, RL; discriminate.
        -- cbn [balc bal]. eapply Rel_trans_l; [exact R3|]. eapply Rel_trans_l; [exact R4|].
           apply (Rel_loop_emit _ s4 s4); reflexivity.
        -- cbn [Spec]. split; [discriminate|]. intros _. split; [rewrite FQ5, RL5; exact RL4|].
           rewrite H5, M1. cbn [hyp_step h_ok]. exact HC4.
    + (* ACloseLoop *)
      cbn [PreC] in HP. destruct HP as [HI HC].
      set (s0 := emit _ s) in E. assert (K0 : Keep s s0) by (apply Keep_emit; reflexivity).
      destruct (exec code n (CProcIter None) s0) as [o1 s1] eqn:E1.
      pose proof (IH' _ _ _ _ E1 (k_A _ _ K0 HA) (Keep_inv _ _ _ K0 HI)) as R1.
      destruct o1 as [|x| |]; try (inj E; eapply Res_pass; [exact R1|discriminate|discriminate|apply Keep_rel, K0|discriminate|spec_pass]).
      destruct R1 as [A1 P1]. destruct (P1 ltac:(congruence)) as (I1 & R1 & _). cbn [balc bal] in R1.
      set (s2 := emit (EProcReturn None 0) s1) in E. assert (K2 : Keep s1 s2) by (apply Keep_emit; reflexivity).
      assert (R02 : Rel true s s2).
      { eapply Rel_trans_l; [apply Keep_rel, K0|]. eapply Rel_trans_l; [exact R1|apply Keep_rel, K2]. }
      pose proof (k_A _ _ K2 A1) as A2. pose proof (Keep_inv _ _ _ K2 I1) as [B2 S2].
      destruct (rev (levels s2)) as [|top rest_rev] eqn:RV.
      { inj E. split; [exact A2|]. intros _. split; [split; assumption|split; [exact R02|exact I]]. }
      set (s4 := emit (EClosePop top) _) in E.
      assert (A4 : A s4) by (apply (A_loop_emit _ s2); [reflexivity|reflexivity|exact A2]).
      assert (H4 : HH s4 = hyp_step (HH s2) (EClosePop top)) by (apply HH_emit'; reflexivity).
      assert (M4 : sw_modal (SW s4) = sw_modal (SW s2) /\ sw_stack (SW s4) = sw_stack (SW s2))
        by (apply SW_loop_emit_modal; reflexivity).
      destruct M4 as [M1 M2].
      assert (FQ4 : force_quit s4 = force_quit s2) by reflexivity.
      assert (RL4 : run_loop s4 = run_loop s2) by reflexivity.
      assert (R04 : Rel true s s4) by (eapply Rel_trans_l; [exact R02|apply (Rel_loop_emit _ s2); reflexivity]).
      assert (B4 : Base s4) by (apply (Base_loop_emit _ s2); auto).
      assert (HC4 : h_ok (HH s4) = true -> head_closed (sw_modal (SW s4))).
      { intros Hok. destruct R04 as [Rw Mono]. apply (Relw_head_closed _ _ Rw). apply HC, Mono, Hok. }
      clearbody s4.
      destruct rest_rev as [|q r].
      * inj E. split; [exact A4|]. intros _. split; [|split; [apply Rel_weaken, R04|exact I]].
        split; [exact B4|]. intros Hok. pose proof Hok as Hok'. rewrite H4 in Hok'. cbn [hyp_step h_ok] in Hok'.
        destruct (S2 Hok') as [X1 X2 X3 X4].
        split; [rewrite FQ4; exact X1|intros _; rewrite H4; reflexivity|rewrite M1, M2; exact X3|intros _ _; apply HC4, Hok].
      * match type of E with (_, ?x) = _ => set (s5 := x) in E end. inj E.
        assert (W5 : SW s5 = SW s4) by reflexivity. assert (H5 : HH s5 = HH s4) by reflexivity.
        assert (FQ5 : force_quit s5 = force_quit s4) by reflexivity.
        split; [exact A4|]. intros _. split; [|split; [split; [rewrite W5; apply R04|rewrite H5; apply R04]|exact I]].
        split; [apply (Base_transfer s4 s5); [rewrite W5; apply vsame_refl|reflexivity|exact B4]|].
        rewrite H5. intros Hok. pose proof Hok as Hok'. rewrite H4 in Hok'. cbn [hyp_step h_ok] in Hok'.
        destruct (S2 Hok') as [X1 X2 X3 X4].
        split; [rewrite FQ5, FQ4; exact X1|intros _; rewrite H5, H4; reflexivity|rewrite W5, M1, M2; exact X3|intros _ _; rewrite W5; apply HC4, Hok].
    + (* AProcess *)
      cbn [PreC] in HP. destruct return_after as [cls|].
      * destruct (take_ticket (tickets s) cls) as [t tm].
        set (s1 := emit _ _) in E.
        assert (K1 : Keep s s1) by (apply Keep_emit_r; [apply Keep_same; reflexivity|reflexivity]).
        destruct (exec code n (CProcWait cls t) s1) as [o1 s2] eqn:E1.
        pose proof (IH' _ _ _ _ E1 (k_A _ _ K1 HA) (Keep_inv _ _ _ K1 HP)) as R1.
        destruct o1 as [|x| |]; try (inj E; eapply Res_pass; [exact R1|discriminate|discriminate|apply Keep_rel, K1|discriminate|spec_pass]).
        inj E. destruct R1 as [A2 P2]. destruct (P2 ltac:(congruence)) as (I2 & R2 & _).
        assert (K3 : Keep s2 (emit (EProcReturn (Some cls) t) s2)) by (apply Keep_emit; reflexivity).
        split; [apply (k_A _ _ K3), A2|]. intros _. split; [eapply Keep_inv; eauto|split; [|exact I]].
        eapply Rel_trans_l; [apply Keep_rel, K1|]. eapply Rel_trans_l; [exact R2|apply Keep_rel, K3].
      * set (s1 := emit _ _) in E.
        assert (K1 : Keep s s1) by (apply Keep_emit; reflexivity).
        destruct (exec code n (CProcIter None) s1) as [o1 s2] eqn:E1.
        pose proof (IH' _ _ _ _ E1 (k_A _ _ K1 HA) (Keep_inv _ _ _ K1 HP)) as R1.
        destruct o1 as [|x| |]; try (inj E; eapply Res_pass; [exact R1|discriminate|discriminate|apply Keep_rel, K1|discriminate|spec_pass]).
        inj E. destruct R1 as [A2 P2]. destruct (P2 ltac:(congruence)) as (I2 & R2 & _).
        assert (K3 : Keep s2 (emit (EProcReturn None 0) s2)) by (apply Keep_emit; reflexivity).
        split; [apply (k_A _ _ K3), A2|]. intros _. split; [eapply Keep_inv; eauto|split; [|exact I]].
        eapply Rel_trans_l; [apply Keep_rel, K1|]. eapply Rel_trans_l; [exact R2|apply Keep_rel, K3].
    + cbn [PreC] in HP. inj E. set (s1 := emit _ _).
      assert (K : Keep s s1) by (apply Keep_emit_r; [apply Keep_same; reflexivity|reflexivity]).
      split; [apply (k_A _ _ K), HA|]. intros _. split; [eapply Keep_inv; eauto|split; [apply Keep_rel, K|exact I]].
    + cbn [PreC] in HP. inj E. set (s1 := emit _ _).
      assert (K : Keep s s1) by (apply Keep_emit_r; [apply Keep_same; reflexivity|reflexivity]).
      split; [apply (k_A _ _ K), HA|]. intros _. split; [eapply Keep_inv; eauto|split; [apply Keep_rel, K|exact I]].
    + cbn [PreC] in HP. inj E. set (s1 := emit _ _).
      assert (K : Keep s s1) by (apply Keep_emit_r; [apply Keep_same; reflexivity|reflexivity]).
      split; [apply (k_A _ _ K), HA|]. intros _. split; [eapply Keep_inv; eauto|split; [apply Keep_rel, K|exact I]].
    + cbn [PreC] in HP. inj E. set (s1 := s <| ext := _ |>).
      assert (K : Keep s s1) by (apply Keep_same; reflexivity).
      split; [apply (k_A _ _ K), HA|]. intros _. split; [eapply Keep_inv; eauto|split; [apply Keep_rel, K|exact I]].
  - (* CProg *) destruct HP.
Qed.

(* ================================================================ the handlers' programs *)
Definition Post s (o : outcome) s' : Prop := Inv s' /\ Rel (bal o) s s'.
Definition std (n : nat) s (p : sprog) : Prop := run n s p (Post s).

Lemma SW_cons s s' e : trace s' = e :: trace s -> SW s' = sworld_step (SW s) e.
Proof. intros T. unfold SW, SWt. rewrite T. cbn [rev]. rewrite fold_left_app. reflexivity. Qed.
Lemma HH_cons s s' e : trace s' = e :: trace s -> HH s' = hyp_step (HH s) e.
Proof. intros T. unfold HH, Ht, hyp_of. rewrite T. cbn [rev]. rewrite fold_left_app. reflexivity. Qed.
Lemma HH_cons_user s s' tag a t : trace s' = EUser tag a t :: trace s -> HH s' = HH s.
Proof. intros T. rewrite (HH_cons _ _ _ T). reflexivity. Qed.

Lemma run_api n s a (Q : outcome -> st -> Prop) :
  LoopOK n -> PreC (CApi a) s -> (forall o s', PostC (CApi a) s o s' -> Q o s') -> run n s (PApi a) Q.
Proof.
  intros L HP HQ HA fuel o s' Hf E. destruct fuel as [|fuel]; [cbn in E; inj E; split; [exact HA|congruence]|].
  cbn [exec] in E. destruct (L fuel (CApi a) s o s' ltac:(lia) HA HP E) as [A' P']. split; auto.
Qed.

Definition simple_api (a : api) : Prop := match a with ANewLoop _ | ACloseLoop => False | _ => True end.
Lemma std_api n s a : LoopOK n -> simple_api a -> Inv s -> std n s (PApi a).
Proof.
  intros L SA HI. apply run_api; [exact L|destruct a; try exact HI; destruct SA|].
  intros o s' (I' & R' & _). split; [exact I'|]. destruct a; try exact R'; destruct SA.
Qed.

Lemma std_keep s s1 : Keep s s1 -> Inv s -> Post s ONormal s1.
Proof. intros K HI. split; [eapply Keep_inv; eauto|apply Keep_rel, K]. Qed.

Lemma run_regsource n s o (Q : outcome -> st -> Prop) :
  Q ONormal (emit (ERegSource o (active s)) (set_q s (active s) (q_add_source (get_q s (active s)) o))) ->
  run n s (PApi (ARegSource o)) Q.
Proof.
  intros HQ HA fuel o' s' Hf E. destruct fuel as [|fuel]; [cbn in E; inj E; split; [exact HA|congruence]|].
  cbn [exec] in E. destruct fuel as [|fuel]; [cbn in E; inj E; split; [exact HA|congruence]|].
  cbn [exec] in E. inj E. split; [|intros _; exact HQ].
  apply A_emit_loop; [reflexivity|]. eapply A_trace; [|exact HA]. reflexivity.
Qed.
Lemma Keep_regsource s o : Keep s (emit (ERegSource o (active s)) (set_q s (active s) (q_add_source (get_q s (active s)) o))).
Proof. apply Keep_emit_r; [apply Keep_same; reflexivity|reflexivity]. Qed.

Lemma std_ret n s : Inv s -> std n s PRet.
Proof. intros HI. apply run_ret. split; [exact HI|apply Rel_refl]. Qed.
Lemma std_throw n s x : Inv s -> std n s (PThrow x).
Proof. intros HI. apply run_throw. split; [exact HI|apply Rel_refl]. Qed.

Lemma run_seq_std n s p q (Q : outcome -> st -> Prop) :
  std n s p -> (forall s1, Inv s1 -> Rel true s s1 -> run n s1 q Q) ->
  (forall o s1, o <> ONormal -> Inv s1 -> Rel (bal o) s s1 -> Q o s1) -> run n s (p ;; q) Q.
Proof.
  intros Hp Hq Hx. apply run_seq. eapply run_conseq; [exact Hp|]. intros o s1 [I1 R1].
  destruct o; try (apply Hx; [discriminate|exact I1|exact R1]). apply Hq; assumption.
Qed.
Lemma std_post_l s s1 o s2 : Rel true s s1 -> Post s1 o s2 -> Post s o s2.
Proof. intros R [I2 R2]. split; [exact I2|eapply Rel_trans_l; eauto]. Qed.

Lemma std_seq n s p q : std n s p -> (forall s1, Inv s1 -> std n s1 q) -> std n s (p ;; q).
Proof.
  intros Hp Hq. apply run_seq_std; [exact Hp| |].
  - intros s1 I1 R1. eapply run_conseq; [apply Hq, I1|]. intros o s2 P2. eapply std_post_l; eauto.
  - intros o s1 _ I1 R1. split; assumption.
Qed.
Lemma std_try n s p h : std n s p -> (forall s1, Inv s1 -> std n s1 h) -> std n s (PTry p h).
Proof.
  intros Hp Hh. apply run_try. eapply run_conseq; [exact Hp|]. intros o s1 [I1 R1].
  destruct o as [|[| |]| |]; try (split; assumption).
  eapply run_conseq; [apply Hh, I1|]. intros o s2 P2. eapply std_post_l; eauto.
Qed.
Lemma std_rd n s k : std n s (k (ust s)) -> std n s (rd k).
Proof. apply run_rd. Qed.

Lemma Inv_ust g s s' : trace s' = trace s -> st_stack (ust s') = st_stack (ust s) -> st_next_sd (ust s') = st_next_sd (ust s) ->
  run_loop s' = run_loop s -> force_quit s' = force_quit s -> InvG g s -> InvG g s'.
Proof.
  intros T U1 U2 RL FQ [[B1 B2 B3 B4 B5] St].
  assert (Ew : SW s' = SW s) by (unfold SW; rewrite T; reflexivity).
  assert (Eh : HH s' = HH s) by (unfold HH; rewrite T; reflexivity).
  split; [split; rewrite ?Ew, ?U1, ?U2; assumption|]. rewrite Eh. intros Hok. destruct (St Hok) as [S1 S2 S3 S4].
  split; rewrite ?Ew, ?Eh, ?RL, ?FQ; assumption.
Qed.
Lemma Rel_same_trace s s' : trace s' = trace s -> Rel true s s'.
Proof. intros T. unfold Rel, SW, HH. rewrite T. split; [apply Relw_refl|auto]. Qed.

Lemma std_wr n s g : (forall u, st_stack (g u) = st_stack u) -> (forall u, st_next_sd (g u) = st_next_sd u) ->
  Inv s -> std n s (wr g).
Proof.
  intros G1 G2 HI. apply run_wr. split.
  - eapply Inv_ust; [| | | | |exact HI]; try reflexivity; cbn; auto.
  - apply Rel_same_trace. reflexivity.
Qed.

(* events that concern neither the stack nor the frames *)
Definition inert2 (tag : nat) : bool :=
  inert_tag tag && negb ((tag =? T_SETUP)%nat || (tag =? T_REFRESH)%nat || (tag =? T_SHOW)%nat || (tag =? T_SETUP_BEGIN)%nat).
Lemma chk_inert2 b w tag a t : inert2 tag = true -> chk_C05_shield_gen b w (EUser tag a t) = true.
Proof.
  unfold inert2, inert_tag. intros H. apply andb_true_iff in H. destruct H as [H1 H2].
  apply negb_true_iff in H1, H2. apply orb_false_iff in H1. destruct H1 as [_ H1].
  cbn [chk_C05_shield_gen]. rewrite H2, H1. reflexivity.
Qed.
Lemma Keep_user tag a t s : inert2 tag = true -> Keep s (emit (EUser tag a t) s).
Proof.
  intros H. pose proof H as H'. unfold inert2 in H'. apply andb_true_iff in H'. destruct H' as [H1 _].
  split; [| | |reflexivity|reflexivity|reflexivity|reflexivity].
  - rewrite SW_emit. apply step_inert_vsame, H1.
  - rewrite HH_emit. reflexivity.
  - intros HA. apply A_emit; [exact HA|apply chk_inert2, H|intros _ _; apply chk_inert2, H|].
    apply chk_below_not_stack. unfold inert_tag in H1. apply negb_true_iff in H1. apply orb_false_iff in H1.
    destruct H1 as [H1 _]. apply orb_false_iff in H1. apply H1.
Qed.
Lemma std_evt n s tag a t : inert2 tag = true -> Inv s -> std n s (evt tag a t).
Proof.
  intros H HI. unfold evt. apply run_emit.
  - apply (k_A _ _ (Keep_user tag a t s H)).
  - apply std_keep. exact (Keep_user tag a t s H). exact HI.
Qed.
Lemma std_ev n s tag a : inert2 tag = true -> Inv s -> std n s (ev tag a).
Proof. apply std_evt. Qed.

Lemma std_while n s c b : (forall s1, Inv s1 -> std n s1 b) -> Inv s -> std n s (PWhile c b).
Proof.
  intros Hb HI. apply (run_while n c b (fun s1 => Inv s1 /\ Rel true s s1)).
  - intros s1 [I1 R1] _. eapply run_conseq; [apply Hb, I1|]. intros o s2 [I2 R2].
    destruct o; (split; [exact I2|eapply Rel_trans_l; eauto]).
  - intros s1 [I1 R1] _. split; assumption.
  - split; [exact HI|apply Rel_refl].
Qed.

Ltac sstep L :=
  lazymatch goal with
  | |- std _ _ (PSeq _ _) => apply std_seq; [|let s1 := fresh "s" in let I1 := fresh "HI" in intros s1 I1]
  | |- std _ _ (PTry _ _) => apply std_try; [|let s1 := fresh "s" in let I1 := fresh "HI" in intros s1 I1]
  | |- std _ _ (rd _) => apply std_rd; cbv beta zeta
  | |- std _ _ (wr _) => apply std_wr; [intros; reflexivity|intros; reflexivity|assumption]
  | |- std _ _ (ev _ _) => apply std_ev; [reflexivity|assumption]
  | |- std _ _ (evt _ _ _) => apply std_evt; [reflexivity|assumption]
  | |- std _ _ PRet => apply std_ret; assumption
  | |- std _ _ (PThrow _) => apply std_throw; assumption
  | |- std _ _ (PApi _) => apply std_api; [exact L|exact I|assumption]
  | |- std _ _ (PWhile _ _) => apply std_while; [let s1 := fresh "s" in let I1 := fresh "HI" in intros s1 I1|assumption]
  | |- std _ _ (if ?b then _ else _) => destruct b
  | |- std _ _ (match ?x with _ => _ end) => destruct x
  end.

Section Progs.
Variable n : nat.
Hypothesis L : LoopOK n.

Lemma std_sched_redraw s : Inv s -> std n s sched_redraw.
Proof. intros HI. unfold sched_redraw. sstep L. Qed.
Lemma std_raise s : Inv s -> std n s raise_exception_signal.
Proof. intros HI. unfold raise_exception_signal. sstep L. Qed.

Lemma std_start_thread s req : Inv s -> std n s (start_thread req).
Proof. intros HI. unfold start_thread. repeat sstep L. Qed.

Lemma std_start_input_thread s req chk : Inv s -> std n s (start_input_thread req chk).
Proof. intros HI. unfold start_input_thread. repeat first [apply std_start_thread; assumption|sstep L]. Qed.

Lemma std_emit_ready s req data ok : Inv s -> std n s (emit_ready req data ok).
Proof. intros HI. unfold emit_ready. repeat sstep L. Qed.

Lemma std_emit_failed_all reqs : forall s, Inv s -> std n s (emit_failed_all reqs).
Proof.
  induction reqs as [|r rest IH]; intros s HI; cbn [emit_failed_all]; [sstep L|].
  sstep L; [apply std_emit_ready; assumption|apply IH; assumption].
Qed.

Lemma std_input_received_handler s sg : Inv s -> std n s (input_received_handler sg).
Proof.
  intros HI. unfold input_received_handler.
  repeat first [apply std_emit_ready; assumption|apply std_emit_failed_all; assumption|sstep L].
Qed.

Lemma std_new_input_handler s src owner cb k :
  (forall m s1, Inv s1 -> std n s1 (k m)) -> Inv s -> std n s (new_input_handler src owner cb k).
Proof. intros Hk HI. unfold new_input_handler. repeat first [apply Hk; assumption|sstep L]. Qed.

Lemma std_handler_get_input s m skip : Inv s -> std n s (handler_get_input m skip).
Proof. intros HI. unfold handler_get_input. repeat first [apply std_start_input_thread; assumption|sstep L]. Qed.

Lemma std_get_input_blocking s scr : Inv s -> std n s (get_input_blocking specs scr).
Proof.
  intros HI. unfold get_input_blocking. sstep L; [repeat sstep L|].
  apply std_new_input_handler; [|assumption]. intros m sx Ix.
  repeat first [apply std_handler_get_input; assumption|sstep L].
Qed.

Lemma std_handler_ask s self h skip : Inv s -> std n s (handler_ask self h skip).
Proof.
  intros HI. unfold handler_ask. sstep L. destruct (hlookup h (st_hobj (ust s))).
  - apply std_handler_get_input; assumption.
  - apply std_new_input_handler; [|assumption]. intros m sx Ix.
    repeat first [apply std_handler_get_input; assumption|sstep L].
Qed.

Lemma std_handler_wait s h : Inv s -> std n s (handler_wait h).
Proof.
  intros HI. unfold handler_wait. sstep L. destruct (hlookup h (st_hobj (ust s))); repeat sstep L.
Qed.

Lemma std_get_input s scr args : Inv s -> std n s (get_input specs scr args).
Proof.
  intros HI. unfold get_input. sstep L; [sstep L|].
  sstep L; [repeat sstep L|]. sstep L; [sstep L|].
  apply std_new_input_handler; [|assumption]. intros m sx Ix.
  repeat first [apply std_handler_get_input; assumption|sstep L].     (* the request's arguments are bound first (fix of F15) *)
Qed.

End Progs.

(* ================================================================ the stack operations *)
Definition plain_tag (tag : nat) : bool :=
  negb ((tag =? T_SETUP)%nat || (tag =? T_REFRESH)%nat || (tag =? T_SHOW)%nat || (tag =? T_SETUP_BEGIN)%nat ||
        (tag =? T_MODAL_RETURN)%nat).
Lemma chk_plain b w tag a t : plain_tag tag = true -> chk_C05_shield_gen b w (EUser tag a t) = true.
Proof.
  unfold plain_tag. intros H. apply negb_true_iff in H. apply orb_false_iff in H. destruct H as [H1 H2].
  cbn [chk_C05_shield_gen]. rewrite H1, H2. reflexivity.
Qed.
Lemma A_user_plain tag a t s : plain_tag tag = true -> (tag =? T_STACK)%nat = false -> A s -> A (emit (EUser tag a t) s).
Proof.
  intros H H2 HA. apply A_emit; [exact HA|apply chk_plain, H|intros _ _; apply chk_plain, H|apply chk_below_not_stack, H2].
Qed.
Lemma A_user_stack a t s : chk_C05_below (SW s) (EUser T_STACK a t) = true -> A s -> A (emit (EUser T_STACK a t) s).
Proof. intros H HA. apply A_emit; [exact HA|reflexivity|intros _ _; reflexivity|exact H]. Qed.

Lemma run_ev_seq n s tag a q (Q : outcome -> st -> Prop) :
  plain_tag tag = true -> (tag =? T_STACK)%nat = false -> run n (emit (EUser tag a []) s) q Q -> run n s (ev tag a ;; q) Q.
Proof. intros H H2 R. apply run_seq. unfold ev. apply run_emit; [apply A_user_plain; assumption|exact R]. Qed.
Lemma run_stack_seq n s a q (Q : outcome -> st -> Prop) :
  chk_C05_below (SW s) (EUser T_STACK a []) = true -> run n (emit (EUser T_STACK a []) s) q Q -> run n s (ev T_STACK a ;; q) Q.
Proof. intros H R. apply run_seq. unfold ev. apply run_emit; [apply A_user_stack, H|exact R]. Qed.
Lemma run_stack_last n s a (Q : outcome -> st -> Prop) :
  chk_C05_below (SW s) (EUser T_STACK a []) = true -> Q ONormal (emit (EUser T_STACK a []) s) -> run n s (ev T_STACK a) Q.
Proof. intros H HQ. unfold ev. apply run_emit; [apply A_user_stack, H|exact HQ]. Qed.
Lemma run_wr_seq n s g q (Q : outcome -> st -> Prop) :
  run n (s <| ust := g (ust s) |>) q Q -> run n s (wr g ;; q) Q.
Proof. intros R. apply run_seq. apply run_wr. exact R. Qed.

Lemma SWt_cons e t : SWt (e :: t) = sworld_step (SWt t) e.
Proof. unfold SWt. cbn [rev]. rewrite fold_left_app. reflexivity. Qed.
Lemma Ht_cons_user tag a t tr : Ht (EUser tag a t :: tr) = Ht tr.
Proof. unfold Ht, hyp_of. cbn [rev]. rewrite fold_left_app. reflexivity. Qed.

Definition frame_of (d : sdata) : mframe := {| mf_orig := sd_id d; mf_cur := sd_id d; mf_closed := false |}.

Lemma mei_cons e st : mei (e :: st) = if en_modal e then en_id e :: mei st else mei st.
Proof. unfold mei. cbn. destruct (en_modal e); reflexivity. Qed.
Lemma nodup_not_in_mei e st : NoDup (map en_id (e :: st)) -> ~ In (en_id e) (mei st).
Proof. cbn. intros N H. inversion N; subst. apply mei_in in H. contradiction. Qed.
Lemma filter_neq_noop id l : ~ In id l -> filter (fun c => negb (c =? id)%nat) l = l.
Proof.
  intros H. apply filter_noop. intros x Hx. apply negb_true_iff, Nat.eqb_neq. intros ->. contradiction.
Qed.
Lemma map_ren_noop o nw l : ~ In o l -> map (fun c => if (c =? o)%nat then nw else c) l = l.
Proof.
  intros H. apply map_noop. intros x Hx. destruct (x =? o)%nat eqn:E; [|reflexivity]. apply Nat.eqb_eq in E; subst. contradiction.
Qed.

Lemma J_close l e st : ofc l = mei (e :: st) -> NoDup (map en_id (e :: st)) -> ofc (close_cur (en_id e) l) = mei st.
Proof.
  intros J N. pose proof (nodup_not_in_mei _ _ N) as NI. rewrite ofc_close, J, mei_cons.
  destruct (en_modal e); cbn [filter]; rewrite ?Nat.eqb_refl; cbn [negb]; apply filter_neq_noop, NI.
Qed.
Lemma J_rename l e e' st : ofc l = mei (e :: st) -> NoDup (map en_id (e :: st)) -> en_modal e' = en_modal e ->
  ofc (rename_cur (en_id e) (en_id e') l) = mei (e' :: st).
Proof.
  intros J N M. pose proof (nodup_not_in_mei _ _ N) as NI. rewrite ofc_rename, J, !mei_cons, M.
  destruct (en_modal e); cbn [map]; rewrite ?Nat.eqb_refl; [f_equal|]; apply map_ren_noop, NI.
Qed.
Lemma head_closed_close id l rest : ofc l = id :: rest -> head_closed (close_cur id l).
Proof.
  destruct l as [|f r]; [discriminate|]. unfold ofc, openf. cbn [filter close_cur map head_closed].
  destruct (mf_closed f) eqn:C; cbn [negb map].
  - intros _. destruct (mf_cur f =? id)%nat; [reflexivity|exact C].
  - intros H. injection H as -> _. rewrite Nat.eqb_refl. reflexivity.
Qed.
Lemma head_closed_le l l' : Forall2 frame_le l l' -> head_closed l -> head_closed l'.
Proof. intros F H. destruct F as [|f f' r r' [_ C] _]; cbn in *; auto. Qed.

Lemma Forall_lt_S (l : list sdata) m : Forall (fun d => sd_id d < m) l -> Forall (fun d => sd_id d < S m) l.
Proof. intros F. eapply Forall_impl; [|exact F]. cbn. intros; lia. Qed.
Lemma fresh_not_in (l : list sdata) m : Forall (fun d => sd_id d < m) l -> ~ In m (map sd_id l).
Proof. intros F H. apply in_map_iff in H. destruct H as (d & E & Hd). rewrite Forall_forall in F. apply F in Hd. lia. Qed.

Lemma NoDup_app_snoc (l : list nat) c : NoDup l -> ~ In c l -> NoDup (l ++ [c]).
Proof.
  induction l as [|x r IH]; cbn; intros N H; [constructor; [tauto|constructor]|].
  inversion N; subst. constructor; [rewrite in_app_iff; cbn; intuition|apply IH; tauto].
Qed.
Lemma e_of_modal d : en_modal (e_of d) = sd_modal d. Proof. reflexivity. Qed.
Lemma e_of_id d : en_id (e_of d) = sd_id d. Proof. reflexivity. Qed.

Lemma map_orig_rename o nw l : map mf_orig (rename_cur o nw l) = map mf_orig l.
Proof. unfold rename_cur. rewrite map_map. apply map_ext. intros f. destruct (mf_cur f =? o)%nat; reflexivity. Qed.
Lemma map_orig_close id l : map mf_orig (close_cur id l) = map mf_orig l.
Proof. unfold close_cur. rewrite map_map. apply map_ext. intros f. destruct (mf_cur f =? id)%nat; reflexivity. Qed.
Lemma Forall_orig_map (g : mframe -> mframe) (P : nat -> Prop) l :
  (forall f, mf_orig (g f) = mf_orig f) -> Forall (fun f => P (mf_orig f)) l -> Forall (fun f => P (mf_orig f)) (map g l).
Proof. intros Hg F. induction F; cbn; constructor; auto. rewrite Hg. assumption. Qed.
Lemma Forall_orig_lt_S (l : list mframe) m : Forall (fun f => mf_orig f < m) l -> Forall (fun f => mf_orig f < S m) l.
Proof. intros F. eapply Forall_impl; [|exact F]. cbn. intros; lia. Qed.
Lemma orig_fresh (l : list mframe) m : Forall (fun f => mf_orig f < m) l -> ~ In m (map mf_orig l).
Proof. intros F H. apply in_map_iff in H. destruct H as (f & E & Hf). rewrite Forall_forall in F. apply F in Hf. lia. Qed.

(* the world after the announcement of an operation *)
Lemma OP_view s sm k x y : trace sm = EUser T_OP [k; x; y] [] :: trace s ->
  sw_stack (SW sm) = sw_stack (SW s) /\ sw_modal (SW sm) = sw_modal (SW s) /\ sw_replaced (SW sm) = sw_replaced (SW s) /\
  sw_expect (SW sm) = sw_expect (user_step (SW s) T_OP [k; x; y] []).
Proof.
  intros T. assert (E : SW sm = user_step (SW s) T_OP [k; x; y] []) by (unfold SW; rewrite T, SWt_cons; reflexivity).
  rewrite E. destruct (us_op (SW s) k x y []) as (O1 & O2 & O3 & O4). auto.
Qed.
Lemma frames_on_eq w w' : sw_stack w' = sw_stack w -> sw_modal w' = sw_modal w -> frames_on w -> frames_on w'.
Proof. unfold frames_on. intros -> ->. auto. Qed.

(* ---- what lies beneath the frames at the stack primitives ---- *)
Lemma Below_push s sm k sc a d : Inv s -> trace sm = EUser T_OP [k; sc; a] [] :: trace s -> sd_id d = st_next_sd (ust s) ->
  chk_C05_below (SW sm) (EUser T_STACK (sargs K_APPEND d) []) = true.
Proof.
  intros [[B1 B2 B3 B4 B5 B6 B7 B8] _] T D. destruct (OP_view s sm k sc a T) as (V1 & V2 & V3 & _).
  apply below_append_new; rewrite ?V1, ?V2, ?V3; auto.
  - eapply frames_on_eq; eauto.
  - rewrite B1, map_e_of_id, D. apply fresh_not_in, B4.
  - rewrite D. apply orig_fresh, B8.
Qed.
Lemma Below_schedule s sm sc a d : Inv s -> trace sm = EUser T_OP [O_SCHEDULE; sc; a] [] :: trace s ->
  chk_C05_below (SW sm) (EUser T_STACK (sargs K_ADD_FIRST d) []) = true.
Proof.
  intros [[B1 B2 B3 B4 B5 B6 B7 B8] _] T. destruct (OP_view s sm _ sc a T) as (V1 & V2 & V3 & _).
  apply below_addfirst; rewrite ?V1, ?V2, ?V3; auto. eapply frames_on_eq; eauto.
Qed.
Lemma Below_op_pop s sm k x y top r : Inv s -> st_stack (ust s) = top :: r -> trace sm = EUser T_OP [k; x; y] [] :: trace s ->
  chk_C05_below (SW sm) (EUser T_STACK (sargs K_POP top) []) = true.
Proof.
  intros [[B1 B2 B3 B4 B5 B6 B7 B8] _] U0 T. destruct (OP_view s sm k x y T) as (V1 & V2 & V3 & _).
  apply (below_pop _ _ _ (e_of top) (map e_of r)); rewrite ?V1, ?V2, ?V3; auto.
  - eapply frames_on_eq; eauto.
  - rewrite B1, U0. reflexivity.
Qed.
Lemma Below_fail_pop s sm top r : Inv s -> st_stack (ust s) = top :: r -> trace sm = trace s ->
  chk_C05_below (SW sm) (EUser T_STACK (sargs K_POP top) []) = true.
Proof.
  intros [[B1 B2 B3 B4 B5 B6 B7 B8] _] U0 T. assert (E : SW sm = SW s) by (unfold SW; rewrite T; reflexivity). rewrite E.
  apply (below_pop _ _ _ (e_of top) (map e_of r)); auto. rewrite B1, U0. reflexivity.
Qed.
Lemma Below_replace_append s sm sc a top r d : Inv s -> st_stack (ust s) = top :: r ->
  trace sm = EUser T_STACK (sargs K_POP top) [] :: EUser T_OP [O_REPLACE; sc; a] [] :: trace s ->
  sd_id d = st_next_sd (ust s) ->
  chk_C05_below (SW sm) (EUser T_STACK (sargs K_APPEND d) []) = true.
Proof.
  intros [[B1 B2 B3 B4 B5 B6 B7 B8] _] U0 T D.
  assert (E : SW sm = user_step (user_step (SW s) T_OP [O_REPLACE; sc; a] []) T_STACK (sargs K_POP top) [])
    by (unfold SW; rewrite T, !SWt_cons; reflexivity).
  destruct (us_op (SW s) O_REPLACE sc a []) as (O1 & O2 & O3 & O4). set (w1 := user_step (SW s) T_OP [O_REPLACE; sc; a] []) in *.
  destruct (us_pop w1 top []) as (Q1 & Q2). set (w2 := user_step w1 T_STACK (sargs K_POP top) []) in *.
  rewrite U0 in B1, B4, B5. cbn [map] in B1, B5.
  assert (E4 : sw_expect w1 = [XPop false; XAppend sc a None]) by (rewrite O4, B1; reflexivity).
  rewrite E4 in Q2. destruct Q2 as (Q2 & Q3 & Q4). rewrite O1, B1 in Q1. cbn [tl] in Q1. rewrite O2 in Q4.
  pose proof (Forall_inv_tail B4) as Br. apply NoDup_cons_iff in B5. destruct B5 as [Nt Nr].
  rewrite E. apply (below_append_repl w2 d [] (sd_id top)); rewrite ?Q1, ?Q4; auto.
  - intros f Hf C. specialize (B6 f Hf C). rewrite B1 in B6. cbn [map e_of en_id] in B6. destruct B6 as [X|X]; [left; auto|right; exact X].
  - rewrite map_e_of_id, D. apply fresh_not_in, Br.
  - rewrite map_e_of_id. exact Nt.
Qed.

(* ---- push / push_modal up to the append ---- *)
Lemma Inv_push s s' k sc a m :
  (k = O_PUSH /\ m = false) \/ (k = O_PUSH_MODAL /\ m = true) ->
  let d := {| sd_id := st_next_sd (ust s); sd_scr := sc; sd_args := a; sd_modal := m |} in
  trace s' = EUser T_STACK (sargs K_APPEND d) [] :: EUser T_OP [k; sc; a] [] :: trace s ->
  st_stack (ust s') = d :: st_stack (ust s) -> st_next_sd (ust s') = S (st_next_sd (ust s)) ->
  run_loop s' = run_loop s -> force_quit s' = force_quit s -> Inv s ->
  InvG (negb m) s' /\ sw_modal (SW s') = (if m then [frame_of d] else []) ++ sw_modal (SW s) /\ HH s' = HH s.
Proof.
  intros HK d T U1 U2 RL FQ [[B1 B2 B3 B4 B5 B6 B7 B8] St].
  assert (Eh : HH s' = HH s) by (unfold HH; rewrite T, !Ht_cons_user; reflexivity).
  assert (EW : SW s' = user_step (user_step (SW s) T_OP [k; sc; a] []) T_STACK (sargs K_APPEND d) [])
    by (unfold SW; rewrite T, !SWt_cons; reflexivity).
  destruct (us_op (SW s) k sc a []) as (O1 & O2 & O3 & O4). set (w1 := user_step (SW s) T_OP [k; sc; a] []) in *.
  destruct (us_append w1 d []) as (P1 & P2 & P3 & P4). set (w2 := user_step w1 T_STACK (sargs K_APPEND d) []) in *.
  assert (E4 : sw_expect w1 = [XAppend sc a (Some m)]) by (rewrite O4; destruct HK as [[-> ->]|[-> ->]]; reflexivity).
  rewrite O3, B3, O2 in P4. rewrite E4 in P2. cbn [tl] in P2. rewrite O1 in P1.
  assert (EM : sw_modal w2 = (if m then [frame_of d] else []) ++ sw_modal (SW s)) by (rewrite P4; destruct m; reflexivity).
  split; [|split; [rewrite EW; exact EM|exact Eh]]. split.
  - split; unfold frames_on; rewrite ?EW, ?P1, ?P2, ?P3, ?U1, ?U2, ?EM.
    + cbn [map]. rewrite B1. reflexivity.
    + reflexivity.
    + reflexivity.
    + constructor; [cbn; lia|apply Forall_lt_S, B4].
    + cbn [map]. constructor; [apply fresh_not_in, B4|exact B5].
    + intros f Hf C. cbn [map]. apply in_app_or in Hf. destruct Hf as [Hf|Hf].
      * destruct m; [|destruct Hf]. destruct Hf as [<-|[]]. left. reflexivity.
      * right. apply B6; assumption.
    + rewrite map_app. destruct m; cbn [map app]; [|exact B7]. constructor; [apply orig_fresh, B8|exact B7].
    + apply Forall_app. split; [destruct m; constructor; [cbn; lia|constructor]|apply Forall_orig_lt_S, B8].
  - rewrite Eh. intros Hok. destruct (St Hok) as [S1 S2 S3 S4].
    split; rewrite ?Eh, ?RL, ?FQ, ?EW; auto.
    + rewrite EM, P1, mei_cons. cbn [e_of en_modal en_id sd_modal sd_id d]. destruct m; cbn [app]; [|exact S3].
      change (ofc (frame_of d :: sw_modal (SW s))) with (sd_id d :: ofc (sw_modal (SW s))). rewrite S3. reflexivity.
    + intros G. destruct m; [discriminate G|]. rewrite EM. cbn [app]. auto.
Qed.

(* ---- replace ---- *)
Lemma Inv_replace s s' sc a top r :
  st_stack (ust s) = top :: r ->
  let d := {| sd_id := st_next_sd (ust s); sd_scr := sc; sd_args := a; sd_modal := sd_modal top |} in
  trace s' = EUser T_STACK (sargs K_APPEND d) [] :: EUser T_STACK (sargs K_POP top) [] ::
             EUser T_OP [O_REPLACE; sc; a] [] :: trace s ->
  st_stack (ust s') = d :: r -> st_next_sd (ust s') = S (st_next_sd (ust s)) ->
  run_loop s' = run_loop s -> force_quit s' = force_quit s -> Inv s -> Inv s' /\ Rel true s s'.
Proof.
  intros U0 d T U1 U2 RL FQ [[B1 B2 B3 B4 B5 B6 B7 B8] St].
  assert (Eh : HH s' = HH s) by (unfold HH; rewrite T, !Ht_cons_user; reflexivity).
  assert (EW : SW s' = user_step (user_step (user_step (SW s) T_OP [O_REPLACE; sc; a] []) T_STACK (sargs K_POP top) [])
                                 T_STACK (sargs K_APPEND d) [])
    by (unfold SW; rewrite T, !SWt_cons; reflexivity).
  unfold Rel. rewrite Eh, EW.
  destruct (us_op (SW s) O_REPLACE sc a []) as (O1 & O2 & O3 & O4). set (w1 := user_step (SW s) T_OP [O_REPLACE; sc; a] []) in *.
  destruct (us_pop w1 top []) as (Q1 & Q2). set (w2 := user_step w1 T_STACK (sargs K_POP top) []) in *.
  destruct (us_append w2 d []) as (P1 & P2 & P3 & P4). set (w3 := user_step w2 T_STACK (sargs K_APPEND d) []) in *.
  rewrite U0 in B1, B4, B5. cbn [map] in B1, B5.
  assert (E4 : sw_expect w1 = [XPop false; XAppend sc a None]) by (rewrite O4, B1; reflexivity).
  rewrite E4 in Q2. destruct Q2 as (Q2 & Q3 & Q4). rewrite Q3, Q4, O2 in P4. rewrite Q2 in P2. cbn [tl] in P2.
  rewrite Q1, O1, B1 in P1. cbn [tl] in P1.
  pose proof (Forall_inv_tail B4) as Br. pose proof (proj1 (NoDup_cons_iff _ _) B5) as [Nt Nr].
  split; [|split; [apply Relw_modal; rewrite P4; apply frames_le_rename|auto]]. split.
  - split; unfold frames_on; rewrite ?EW; fold w1 w2 w3; rewrite ?P1, ?P2, ?P3, ?P4, ?U1, ?U2.
    + reflexivity.
    + reflexivity.
    + reflexivity.
    + constructor; [cbn; lia|apply Forall_lt_S, Br].
    + cbn [map]. constructor; [apply fresh_not_in, Br|exact Nr].
    + intros f' Hf' C'. unfold rename_cur in Hf'. apply in_map_iff in Hf'. destruct Hf' as (f & <- & Hf).
      cbv beta in *. cbn [map e_of en_id]. destruct (mf_cur f =? sd_id top)%nat eqn:E.
      * left. reflexivity.
      * right. pose proof C' as C.
        specialize (B6 f Hf C). rewrite B1 in B6. cbn [map e_of en_id] in B6. apply Nat.eqb_neq in E.
        destruct B6 as [X|X]; [congruence|exact X].
    + rewrite map_orig_rename. exact B7.
    + apply Forall_orig_lt_S. unfold rename_cur. apply (Forall_orig_map _ (fun o => o < st_next_sd (ust s))); [|exact B8].
      intros f. destruct (mf_cur f =? sd_id top)%nat; reflexivity.
  - rewrite Eh. intros Hok. destruct (St Hok) as [S1 S2 S3 S4].
    split; rewrite ?Eh, ?RL, ?FQ, ?EW; fold w1 w2 w3; auto.
    + rewrite P4, P1. rewrite B1 in S3.
      apply (J_rename (sw_modal (SW s)) (e_of top) (e_of d) (map e_of r)); [exact S3| |reflexivity].
      cbn [map]. rewrite map_e_of_id. exact B5.
    + intros G RL0. rewrite P4. eapply head_closed_le; [apply frames_le_rename|apply S4; assumption].
Qed.

(* ---- schedule ---- *)
Lemma Inv_schedule s s' sc a :
  let d := {| sd_id := st_next_sd (ust s); sd_scr := sc; sd_args := a; sd_modal := false |} in
  trace s' = EUser T_STACK (sargs K_ADD_FIRST d) [] :: EUser T_OP [O_SCHEDULE; sc; a] [] :: trace s ->
  st_stack (ust s') = st_stack (ust s) ++ [d] -> st_next_sd (ust s') = S (st_next_sd (ust s)) ->
  run_loop s' = run_loop s -> force_quit s' = force_quit s -> Inv s -> Inv s' /\ Rel true s s'.
Proof.
  intros d T U1 U2 RL FQ [[B1 B2 B3 B4 B5 B6 B7 B8] St].
  assert (Eh : HH s' = HH s) by (unfold HH; rewrite T, !Ht_cons_user; reflexivity).
  assert (EW : SW s' = user_step (user_step (SW s) T_OP [O_SCHEDULE; sc; a] []) T_STACK (sargs K_ADD_FIRST d) [])
    by (unfold SW; rewrite T, !SWt_cons; reflexivity).
  unfold Rel. rewrite Eh, EW.
  destruct (us_op (SW s) O_SCHEDULE sc a []) as (O1 & O2 & O3 & O4). set (w1 := user_step (SW s) T_OP [O_SCHEDULE; sc; a] []) in *.
  destruct (us_addfirst w1 d []) as (P1 & P2 & P3 & P4). set (w2 := user_step w1 T_STACK (sargs K_ADD_FIRST d) []) in *.
  assert (E4 : sw_expect w1 = [XAddFirst sc a]) by (rewrite O4; reflexivity).
  rewrite E4 in P2. cbn [tl] in P2. rewrite O1 in P1. rewrite O3 in P3. rewrite O2 in P4.
  split; [|split; [apply Relw_modal; rewrite P4; apply frames_le_refl|auto]]. split.
  - split; unfold frames_on; rewrite ?EW; fold w1 w2; rewrite ?P1, ?P2, ?P3, ?P4, ?U1, ?U2; auto.
    + rewrite map_app, B1. reflexivity.
    + apply Forall_app. split; [apply Forall_lt_S, B4|constructor; [cbn; lia|constructor]].
    + rewrite map_app. cbn [map]. apply NoDup_app_snoc; [exact B5|apply fresh_not_in, B4].
    + intros f Hf C. rewrite map_app, in_app_iff. left. apply B6; assumption.
    + apply Forall_orig_lt_S, B8.
  - rewrite Eh. intros Hok. destruct (St Hok) as [S1 S2 S3 S4].
    split; rewrite ?Eh, ?RL, ?FQ, ?EW; fold w1 w2; rewrite ?P4, ?P1; auto. rewrite mei_app by reflexivity. exact S3.
Qed.

(* ---- the pops that close an entry: close_screen, and the discard after a failed setup ---- *)
Lemma Inv_pop_core s s' w1 top r :
  st_stack (ust s) = top :: r -> Inv s ->
  sw_stack w1 = sw_stack (SW s) -> sw_modal w1 = sw_modal (SW s) -> sw_replaced w1 = sw_replaced (SW s) ->
  (sw_expect w1 = [XPop true] \/ sw_expect w1 = []) ->
  SW s' = user_step w1 T_STACK (sargs K_POP top) [] -> HH s' = HH s ->
  st_stack (ust s') = r -> st_next_sd (ust s') = st_next_sd (ust s) -> run_loop s' = run_loop s -> force_quit s' = force_quit s ->
  Inv s' /\ Rel true s s' /\ (sd_modal top = true -> h_ok (HH s') = true -> head_closed (sw_modal (SW s'))).
Proof.
  intros U0 [[B1 B2 B3 B4 B5 B6 B7 B8] St] V1 V2 V3 V4 EW Eh U1 U2 RL FQ.
  destruct (us_pop w1 top []) as (Q1 & Q2). set (w2 := user_step w1 T_STACK (sargs K_POP top) []) in *.
  assert (Q : sw_expect w2 = [] /\ sw_replaced w2 = sw_replaced w1 /\ sw_modal w2 = close_cur (sd_id top) (sw_modal w1)).
  { destruct V4 as [V4|V4]; rewrite V4 in Q2; exact Q2. }
  destruct Q as (Q2' & Q3 & Q4). clear Q2.
  rewrite U0 in B1, B4, B5. cbn [map] in B1, B5.
  pose proof (Forall_inv_tail B4) as Br. pose proof (proj2 (proj1 (NoDup_cons_iff _ _) B5)) as Nr.
  rewrite V1, B1 in Q1. cbn [tl] in Q1. rewrite V3, B3 in Q3. rewrite V2 in Q4.
  unfold Rel. rewrite Eh, EW. split; [|split].
  - split.
    + split; unfold frames_on; rewrite ?EW; fold w2; rewrite ?Q1, ?Q2', ?Q3, ?Q4, ?U1, ?U2; auto.
      * intros f' Hf' C'. unfold close_cur in Hf'. apply in_map_iff in Hf'. destruct Hf' as (f & <- & Hf).
        cbv beta in *. destruct (mf_cur f =? sd_id top)%nat eqn:E; [discriminate C'|].
        specialize (B6 f Hf C'). rewrite B1 in B6. cbn [map e_of en_id] in B6. apply Nat.eqb_neq in E.
        destruct B6 as [X|X]; [congruence|exact X].
      * rewrite map_orig_close. exact B7.
      * unfold close_cur. apply (Forall_orig_map _ (fun o => o < st_next_sd (ust s))); [|exact B8].
        intros f. destruct (mf_cur f =? sd_id top)%nat; reflexivity.
    + rewrite Eh. intros Hok. destruct (St Hok) as [S1 S2 S3 S4].
      split; rewrite ?Eh, ?RL, ?FQ, ?EW; auto.
      * rewrite Q4, Q1. rewrite B1 in S3.
        apply (J_close (sw_modal (SW s)) (e_of top) (map e_of r)); [exact S3|]. cbn [map]. rewrite map_e_of_id. exact B5.
      * intros G RL0. rewrite Q4. eapply head_closed_le; [apply frames_le_close|apply S4; assumption].
  - split; [apply Relw_modal; rewrite Q4; apply frames_le_close|auto].
  - intros M Hok. destruct (St Hok) as [S1 S2 S3 S4]. rewrite Q4. rewrite B1, mei_cons in S3. cbn [e_of en_modal en_id] in S3.
    rewrite M in S3. eapply head_closed_close; exact S3.
Qed.

Lemma Inv_close_pop s s' x top r :
  st_stack (ust s) = top :: r ->
  trace s' = EUser T_STACK (sargs K_POP top) [] :: EUser T_OP [O_CLOSE; x; 0] [] :: trace s ->
  st_stack (ust s') = r -> st_next_sd (ust s') = st_next_sd (ust s) -> run_loop s' = run_loop s -> force_quit s' = force_quit s ->
  Inv s ->
  Inv s' /\ Rel true s s' /\ (sd_modal top = true -> h_ok (HH s') = true -> head_closed (sw_modal (SW s'))).
Proof.
  intros U0 T U1 U2 RL FQ HI.
  destruct (us_op (SW s) O_CLOSE x 0 []) as (O1 & O2 & O3 & O4).
  apply (Inv_pop_core s s' (user_step (SW s) T_OP [O_CLOSE; x; 0] []) top r); auto.
  - left. rewrite O4. destruct HI as [[B1 _ _ _ _ _ _ _] _]. rewrite B1, U0. reflexivity.
  - unfold SW. rewrite T, !SWt_cons. reflexivity.
  - unfold HH. rewrite T, !Ht_cons_user. reflexivity.
Qed.

Lemma Inv_fail_pop s s' top r :
  st_stack (ust s) = top :: r ->
  trace s' = EUser T_STACK (sargs K_POP top) [] :: trace s ->
  st_stack (ust s') = r -> st_next_sd (ust s') = st_next_sd (ust s) -> run_loop s' = run_loop s -> force_quit s' = force_quit s ->
  Inv s ->
  Inv s' /\ Rel true s s' /\ (sd_modal top = true -> h_ok (HH s') = true -> head_closed (sw_modal (SW s'))).
Proof.
  intros U0 T U1 U2 RL FQ HI.
  apply (Inv_pop_core s s' (SW s) top r); auto.
  - right. apply HI.
  - unfold SW. rewrite T, !SWt_cons. reflexivity.
  - unfold HH. rewrite T, !Ht_cons_user. reflexivity.
Qed.

(* ---- an operation on an empty stack only announces itself ---- *)
Lemma Keep_op_empty s k x y : st_stack (ust s) = [] -> (k = O_REPLACE \/ k = O_CLOSE) -> Inv s ->
  Keep s (emit (EUser T_OP [k; x; y] []) s).
Proof.
  intros U0 HK [[B1 B2 B3 B4 B5 B6 B7 B8] _]. destruct (us_op (SW s) k x y []) as (O1 & O2 & O3 & O4).
  split; [| | |reflexivity|reflexivity|reflexivity|reflexivity].
  - rewrite SW_emit. cbn [sworld_step]. repeat split; auto. right. rewrite O4, B1, U0.
    destruct HK as [-> | ->]; reflexivity.
  - rewrite HH_emit. reflexivity.
  - apply A_user_plain; reflexivity.
Qed.

(* ---- the return of a modal push ---- *)
Lemma A_modal_return s5 id sc f' rest : A s5 -> sw_modal (SW s5) = f' :: rest -> mf_orig f' = id ->
  (h_ok (HH s5) = true -> mf_closed f' = true) -> A (emit (EUser T_MODAL_RETURN [id; sc] []) s5).
Proof.
  intros HA M O C. apply A_emit; [exact HA| | |reflexivity].
  - cbn. rewrite M. cbn [find]. rewrite O, Nat.eqb_refl. apply orb_true_r.
  - intros Hok _. cbn. rewrite M. cbn [find]. rewrite O, Nat.eqb_refl. rewrite (C Hok). reflexivity.
Qed.

Lemma Inv_modal_return s5 s' id sc f' rest :
  trace s' = EUser T_MODAL_RETURN [id; sc] [] :: trace s5 -> ust s' = ust s5 -> run_loop s' = run_loop s5 ->
  force_quit s' = force_quit s5 -> Inv s5 -> sw_modal (SW s5) = f' :: rest -> mf_orig f' = id ->
  (h_ok (HH s5) = true -> mf_closed f' = true) -> (force_quit s5 = false -> run_loop s5 = true) ->
  Inv s' /\ sw_modal (SW s') = rest /\ HH s' = HH s5.
Proof.
  intros T U RL FQ [[B1 B2 B3 B4 B5 B6 B7 B8] St] M O C RA.
  assert (Eh : HH s' = HH s5) by (unfold HH; rewrite T, !Ht_cons_user; reflexivity).
  assert (EW : SW s' = user_step (SW s5) T_MODAL_RETURN [id; sc] []) by (unfold SW; rewrite T, !SWt_cons; reflexivity).
  destruct (us_modal_return (SW s5) id sc []) as (R1 & R2 & R3 & R4).
  rewrite M in R4. cbn [remove_first] in R4. rewrite O, Nat.eqb_refl in R4.
  split; [|split; [rewrite EW; exact R4|exact Eh]]. split.
  - unfold frames_on in B6. rewrite M in B6, B7, B8.
    split; unfold frames_on; rewrite ?EW, ?R1, ?R2, ?R3, ?R4, ?U; auto.
    + intros f Hf Cf. apply B6; [right; exact Hf|exact Cf].
    + cbn [map] in B7. apply NoDup_cons_iff in B7. apply B7.
    + apply (Forall_inv_tail B8).
  - rewrite Eh. intros Hok. destruct (St Hok) as [S1 S2 S3 S4].
    assert (RL5 : run_loop s5 = true) by auto.
    split; rewrite ?Eh, ?RL, ?FQ, ?EW, ?RL5; auto; try discriminate.
    rewrite R4, R1. rewrite M in S3. unfold ofc in S3. cbn [filter] in S3. unfold openf at 1 in S3.
    rewrite (C Hok) in S3. exact S3.
Qed.

(* ---- setup / refresh / show concern the top entry ---- *)
Lemma shielded_top w e r id : sw_stack w = e :: r -> en_id e = id -> shielded w id = false.
Proof.
  intros E I. unfold shielded. rewrite E. cbn [pos_of]. rewrite I, Nat.eqb_refl.
  induction (sw_modal w) as [|f l IH]; cbn [existsb]; [reflexivity|]. rewrite IH, orb_false_r.
  destruct (negb (mf_closed f)); [|reflexivity]. cbn [andb].
  destruct (if (id =? mf_cur f)%nat then Some 0 else pos_of (mf_cur f) r 1); reflexivity.
Qed.

Definition top_tag (tag : nat) : Prop := tag = T_SETUP \/ tag = T_REFRESH \/ tag = T_SHOW.
Lemma Keep_top_event s tag a t d r : top_tag tag -> Inv s -> st_stack (ust s) = d :: r -> nth0 a 0 = sd_id d ->
  Keep s (emit (EUser tag a t) s).
Proof.
  intros HT [[B1 _ _ _ _ _ _ _] _] U0 N.
  assert (C : forall b, chk_C05_shield_gen b (SW s) (EUser tag a t) = true).
  { intros b. cbn [chk_C05_shield_gen].
    assert (((tag =? T_SETUP)%nat || (tag =? T_REFRESH)%nat || (tag =? T_SHOW)%nat) = true) as ->
      by (destruct HT as [->|[->| ->]]; reflexivity).
    rewrite N. rewrite (shielded_top (SW s) (e_of d) (map e_of r) (sd_id d)); [reflexivity| |reflexivity].
    rewrite B1, U0. reflexivity. }
  split; [| | |reflexivity|reflexivity|reflexivity|reflexivity].
  - rewrite SW_emit. apply step_inert_vsame. destruct HT as [->|[->| ->]]; reflexivity.
  - rewrite HH_emit. reflexivity.
  - intros HA. apply A_emit; [exact HA|apply C|intros _ _; apply C|].
    apply chk_below_not_stack. destruct HT as [->|[->| ->]]; reflexivity.
Qed.

(* the entry of a setup() with commands: the top entry *)
Lemma Keep_begin_event s a t d r : Inv s -> st_stack (ust s) = d :: r -> nth0 a 0 = sd_id d ->
  Keep s (emit (EUser T_SETUP_BEGIN a t) s).
Proof.
  intros [[B1 _ _ _ _ _ _ _] _] U0 N.
  assert (C : forall b, chk_C05_shield_gen b (SW s) (EUser T_SETUP_BEGIN a t) = true).
  { intros b. change (chk_C05_shield_gen b (SW s) (EUser T_SETUP_BEGIN a t)) with (negb (shielded (SW s) (nth0 a 0))).
    rewrite N. rewrite (shielded_top (SW s) (e_of d) (map e_of r) (sd_id d)); [reflexivity| |reflexivity].
    rewrite B1, U0. reflexivity. }
  split; [| | |reflexivity|reflexivity|reflexivity|reflexivity].
  - rewrite SW_emit. apply step_inert_vsame. reflexivity.
  - rewrite HH_emit. reflexivity.
  - intros HA. apply A_emit; [exact HA|apply C|intros _ _; apply C|].
    apply chk_below_not_stack. reflexivity.
Qed.
(* the return of a setup() with commands, and the refresh() of a screen with such a setup(): not checked *)
Lemma Keep_exempt_event s tag a t : tag = T_SETUP \/ tag = T_REFRESH -> has_cmds (specs (nth0 a 1)) = true ->
  Keep s (emit (EUser tag a t) s).
Proof.
  intros HT HC.
  assert (C : forall chk, relax_setup specs chk (SW s) (EUser tag a t) = true).
  { intros chk. cbn [relax_setup]. rewrite HC. destruct HT as [->| ->]; reflexivity. }
  split; [| | |reflexivity|reflexivity|reflexivity|reflexivity].
  - rewrite SW_emit. apply step_inert_vsame. destruct HT as [->| ->]; reflexivity.
  - rewrite HH_emit. reflexivity.
  - intros HA. apply A_emit_relaxed; [exact HA|apply C|intros _ _; apply C|].
    apply chk_below_not_stack. destruct HT as [->| ->]; reflexivity.
Qed.

Section scmd_ind2.
  Variable P : scmd -> Prop.
  Hypothesis H1 : forall (x a : nat), P (SPush x a).
  Hypothesis H2 : forall (x a : nat), P (SPushModal x a).
  Hypothesis H3 : forall (x a : nat), P (SReplace x a).
  Hypothesis H4 : forall (x a : nat), P (SSchedule x a).
  Hypothesis H5 : P SCloseSig. Hypothesis H6 : P SCloseNow. Hypothesis H7 : P SRedrawSig. Hypothesis H8 : P SSchedRedraw.
  Hypothesis H9 : P SRaise. Hypothesis H10 : P SExit. Hypothesis H11 : P SForceQuit. Hypothesis H12 : P SGetUserInput.
  Hypothesis H13 : forall b, P (SSetInputRequired b).
  Hypothesis H14 : forall a, P (SSetAnswer a).
  Hypothesis H15 : forall m, P (SMark m).
  Hypothesis H16 : forall k t e, Forall P t -> Forall P e -> P (SIfCount k t e).
  Hypothesis H17 : P SSysExit.
  Hypothesis H18 : forall (x : nat), P (SRedrawOther x).
  Hypothesis H19 : forall (x : nat), P (SCloseOther x).
  Hypothesis H20 : forall b, P (SSetTypeAhead b).
  Hypothesis H21 : forall h b, P (SHandlerAsk h b).
  Hypothesis H22 : forall h, P (SHandlerWait h).
  Hypothesis H23 : forall (c k : nat), P (SConnect c k).
  Hypothesis H24 : forall (c : nat) (p : Z), P (SEmit c p).
  Hypothesis H25 : P SProcess.
  Fixpoint scmd_ind2 (c : scmd) : P c :=
    match c with
    | SPush x a => H1 x a | SPushModal x a => H2 x a | SReplace x a => H3 x a | SSchedule x a => H4 x a
    | SCloseSig => H5 | SCloseNow => H6 | SRedrawSig => H7 | SSchedRedraw => H8 | SRaise => H9 | SExit => H10
    | SForceQuit => H11 | SSysExit => H17 | SRedrawOther x => H18 x | SCloseOther x => H19 x | SGetUserInput => H12 | SSetTypeAhead b => H20 b | SHandlerAsk h b => H21 h b | SHandlerWait h => H22 h | SConnect c k => H23 c k | SEmit c p => H24 c p | SProcess => H25 | SSetInputRequired b => H13 b | SSetAnswer a => H14 a | SMark m => H15 m
    | SIfCount k t e =>
      H16 k t e
          ((fix go (l : list scmd) : Forall P l :=
              match l with [] => Forall_nil _ | x :: r => Forall_cons _ (scmd_ind2 x) (go r) end) t)
          ((fix go (l : list scmd) : Forall P l :=
              match l with [] => Forall_nil _ | x :: r => Forall_cons _ (scmd_ind2 x) (go r) end) e)
    end.
End scmd_ind2.

Section Progs2.
Variable n : nat.
Hypothesis L : LoopOK n.

Lemma Rel_of_modal_eq b s s' new : sw_modal (SW s') = new ++ sw_modal (SW s) -> (b = true -> new = []) -> HH s' = HH s -> Rel b s s'.
Proof.
  intros M B Eh. split; [|rewrite Eh; auto]. exists new, (sw_modal (SW s)). split; [exact M|split; [apply frames_le_refl|exact B]].
Qed.

Lemma ust_emit (e : event) s : ust (emit e s) = ust s. Proof. reflexivity. Qed.

Section Cmds.
Variable cn : sprog.
Hypothesis Hcn : forall s, Inv s -> std n s cn.
Variables self cnt : nat.

Lemma std_push s sc a : Inv s -> std n s (do_scmd specs cn self cnt (SPush sc a)).
Proof.
  intros HI. cbn [do_scmd]. apply run_ev_seq; [reflexivity|reflexivity|]. unfold new_sd. apply run_rd. cbv beta zeta.
  apply run_wr_seq. apply run_wr_seq. unfold ev_stack.
  apply run_stack_seq; [apply (Below_push s _ O_PUSH sc a); [exact HI|reflexivity|reflexivity]|].
  set (s4 := emit _ _).
  destruct (Inv_push s s4 O_PUSH sc a false (or_introl (conj eq_refl eq_refl)) eq_refl eq_refl eq_refl eq_refl eq_refl HI)
    as (I4 & M4 & H4).
  assert (R4 : Rel true s s4) by (eapply Rel_of_modal_eq; [exact M4|reflexivity|exact H4]).
  clearbody s4. eapply run_conseq; [apply (std_sched_redraw n L), I4|]. intros o s' P. eapply std_post_l; eauto.
Qed.

Lemma std_push_modal s sc a : Inv s -> std n s (do_scmd specs cn self cnt (SPushModal sc a)).
Proof.
  intros HI. cbn [do_scmd]. apply run_ev_seq; [reflexivity|reflexivity|]. unfold new_sd. apply run_rd. cbv beta zeta.
  apply run_wr_seq. apply run_wr_seq. unfold ev_stack.
  apply run_stack_seq; [apply (Below_push s _ O_PUSH_MODAL sc a); [exact HI|reflexivity|reflexivity]|].
  set (s4 := emit _ _).
  destruct (Inv_push s s4 O_PUSH_MODAL sc a true (or_intror (conj eq_refl eq_refl)) eq_refl eq_refl eq_refl eq_refl eq_refl HI)
    as (I4 & M4 & H4).
  set (d := {| sd_id := st_next_sd (ust s); sd_scr := sc; sd_args := a; sd_modal := true |}) in *.
  assert (R4 : Rel false s s4) by (eapply Rel_of_modal_eq; [exact M4|discriminate|exact H4]).
  change (sd_id {| sd_id := st_next_sd (ust (emit (EUser T_OP [O_PUSH_MODAL; sc; a] []) s)); sd_scr := sc; sd_args := a; sd_modal := true |})
    with (sd_id d).
  clearbody s4. cbn [negb] in I4.
  apply run_seq. apply run_api; [exact L|exact I4|]. intros o s5 (I5 & R5 & SP5).
  cbn [Spec] in SP5. destruct SP5 as [NX SP5]. cbn [balc] in R5.
  assert (ABN : bal o = false -> Post s o s5).
  { intros Bo. split; [exact I5|]. rewrite Bo. eapply Rel_trans_false; eauto. }
  destruct o as [|[| |]| |]; try (apply ABN; reflexivity); [|congruence].
  destruct (SP5 eq_refl) as [RA HC]. destruct R5 as [(new & old' & E5 & F5 & Bn) Mono].
  rewrite (Bn eq_refl) in E5. cbn [app] in E5. rewrite M4 in F5. cbn [app] in F5.
  destruct old' as [|f' rest']; [inversion F5|]. assert (F5' : frame_le (frame_of d) f' /\ Forall2 frame_le (sw_modal (SW s)) rest') by (inversion F5; auto).
  clear F5. destruct F5' as [[Of Cf] Fr].
  cbn [frame_of mf_orig] in Of.
  assert (CL : h_ok (HH s5) = true -> mf_closed f' = true) by (intros Hok; specialize (HC Hok); rewrite E5 in HC; exact HC).
  unfold ev. apply run_emit; cbn [user_event].
  - intros HA. eapply A_modal_return; eauto.
  - set (s6 := emit _ s5).
    destruct (Inv_modal_return s5 s6 (sd_id d) sc f' rest' eq_refl eq_refl eq_refl eq_refl I5 E5 (eq_sym Of) CL RA) as (I6 & M6 & H6).
    split; [exact I6|]. split.
    + apply Relw_modal. rewrite M6. exact Fr.
    + rewrite H6. intros Hok. rewrite <- H4. apply Mono, Hok.
Qed.

Lemma std_replace s sc a : Inv s -> std n s (do_scmd specs cn self cnt (SReplace sc a)).
Proof.
  intros HI. cbn [do_scmd]. apply run_ev_seq; [reflexivity|reflexivity|]. apply run_rd. cbv beta. rewrite ust_emit.
  destruct (st_stack (ust s)) as [|top r] eqn:U0.
  - apply run_throw. pose proof (Keep_op_empty s O_REPLACE sc a U0 (or_introl eq_refl) HI) as K.
    split; [eapply Keep_inv; eauto|apply Keep_rel, K].
  - apply run_wr_seq. unfold ev_stack.
    apply run_stack_seq; [apply (Below_op_pop s _ O_REPLACE sc a top r); [exact HI|exact U0|reflexivity]|].
    unfold new_sd. apply run_rd. cbv beta zeta.
    apply run_wr_seq. apply run_wr_seq.
    apply run_stack_seq; [apply (Below_replace_append s _ sc a top r); [exact HI|exact U0|reflexivity|reflexivity]|].
    set (s4 := emit _ _).
    destruct (Inv_replace s s4 sc a top r U0 eq_refl eq_refl eq_refl eq_refl eq_refl HI) as (I4 & R4).
    clearbody s4. eapply run_conseq; [apply (std_sched_redraw n L), I4|]. intros o s' P. eapply std_post_l; eauto.
Qed.

Lemma std_schedule s sc a : Inv s -> std n s (do_scmd specs cn self cnt (SSchedule sc a)).
Proof.
  intros HI. cbn [do_scmd]. apply run_ev_seq; [reflexivity|reflexivity|]. unfold new_sd. apply run_rd. cbv beta zeta.
  apply run_wr_seq. apply run_wr_seq. unfold ev_stack.
  apply run_stack_seq; [apply (Below_schedule s _ sc a); [exact HI|reflexivity]|].
  set (s4 := emit _ _).
  destruct (Inv_schedule s s4 sc a eq_refl eq_refl eq_refl eq_refl eq_refl HI) as (I4 & R4).
  clearbody s4. eapply run_conseq; [|intros o s' P; eapply std_post_l; [exact R4|exact P]].
  match goal with |- run ?m ?x ?p (Post ?x) => change (std m x p) end.
  repeat first [apply (std_sched_redraw n L); assumption|sstep L].
Qed.

Lemma std_do_scmd : forall c s, Inv s -> std n s (do_scmd specs cn self cnt c).
Proof.
  induction c using scmd_ind2; intros s HI.
  - apply std_push, HI.
  - apply std_push_modal, HI.
  - apply std_replace, HI.
  - apply std_schedule, HI.
  - cbn [do_scmd]. sstep L.
  - cbn [do_scmd]. apply Hcn, HI.
  - cbn [do_scmd]. sstep L.
  - cbn [do_scmd]. apply (std_sched_redraw n L), HI.
  - cbn [do_scmd]. sstep L.
  - cbn [do_scmd]. sstep L.
  - cbn [do_scmd]. sstep L.
  - cbn [do_scmd]. apply (std_get_input_blocking n L), HI.
  - cbn [do_scmd]. sstep L.
  - cbn [do_scmd]. sstep L.
  - cbn [do_scmd]. sstep L.
  - cbn [do_scmd]. destruct (cnt <? k)%nat.
    + revert s HI. induction H as [|x r Hx Hr IH]; intros s HI; [sstep L|].
      sstep L; [apply Hx, HI|apply IH; assumption].
    + revert s HI. induction H0 as [|x r Hx Hr IH]; intros s HI; [sstep L|].
      sstep L; [apply Hx, HI|apply IH; assumption].
  - cbn [do_scmd]. sstep L.
  - cbn [do_scmd]. sstep L.
  - cbn [do_scmd]. sstep L.
  - cbn [do_scmd]. sstep L.
  - cbn [do_scmd]. apply (std_handler_ask n L), HI.
  - cbn [do_scmd]. apply (std_handler_wait n L), HI.
  - cbn [do_scmd]. sstep L.
  - cbn [do_scmd]. sstep L.
  - cbn [do_scmd]. sstep L.
Qed.

Lemma std_do_scmds : forall l s, Inv s -> std n s (do_scmds specs cn self cnt l).
Proof.
  induction l as [|x r IH]; intros s HI; cbn [do_scmds]; [sstep L|].
  sstep L; [apply std_do_scmd, HI|apply IH; assumption].
Qed.
End Cmds.
End Progs2.

Section Progs3.
Variable n : nat.
Hypothesis L : LoopOK n.

Ltac fold_std := match goal with |- run ?m ?x ?p (Post ?x) => change (std m x p) end.

Lemma run_seq_std' s0 s p q :
  Rel true s0 s -> std n s p -> (forall s1, Inv s1 -> Rel true s s1 -> run n s1 q (Post s0)) -> run n s (p ;; q) (Post s0).
Proof.
  intros R0 Hp Hq. apply run_seq_std; [exact Hp|exact Hq|].
  intros o s1 _ I1 R1. split; [exact I1|eapply Rel_trans_l; eauto].
Qed.
Lemma run_std_post s0 s p : Rel true s0 s -> std n s p -> run n s p (Post s0).
Proof. intros R0 Hp. eapply run_conseq; [exact Hp|]. intros o s1 P. eapply std_post_l; eauto. Qed.

Lemma std_call_closed s d : Inv s -> std n s (call_closed specs d).
Proof.
  intros HI. unfold call_closed.
  repeat first [apply (std_do_scmds n L); [intros; apply std_ev; [reflexivity|assumption]|assumption]|sstep L].
Qed.

Lemma std_close_loop_if s (m : bool) :
  Inv s -> (m = true -> h_ok (HH s) = true -> head_closed (sw_modal (SW s))) -> std n s (if m then PApi ACloseLoop else PRet).
Proof.
  intros HI HC. destruct m; [|sstep L]. apply run_api; [exact L|split; [exact HI|apply HC; reflexivity]|].
  intros o s' (I' & R' & _). split; assumption.
Qed.

Lemma HC_transfer s3 s5 (m : bool) : Rel true s3 s5 ->
  (m = true -> h_ok (HH s3) = true -> head_closed (sw_modal (SW s3))) ->
  (m = true -> h_ok (HH s5) = true -> head_closed (sw_modal (SW s5))).
Proof. intros [Rw Mono] HC M Hok. apply (Relw_head_closed _ _ Rw). apply HC; auto. Qed.

Lemma std_close_screen s cf : Inv s -> std n s (close_screen specs cf).
Proof.
  intros HI. unfold close_screen. apply run_ev_seq; [reflexivity|reflexivity|]. apply run_rd. cbv beta. rewrite ust_emit.
  destruct (st_stack (ust s)) as [|top r] eqn:U0.
  - apply run_throw.
    pose proof (Keep_op_empty s O_CLOSE (match cf with Some c => S c | None => 0 end) 0 U0 (or_intror eq_refl) HI) as K.
    split; [eapply Keep_inv; eauto|apply Keep_rel, K].
  - apply run_wr_seq. unfold ev_stack.
    apply run_stack_seq; [apply (Below_op_pop s _ O_CLOSE (match cf with Some c => S c | None => 0 end) 0 top r); [exact HI|exact U0|reflexivity]|].
    set (s3 := emit _ _).
    destruct (Inv_close_pop s s3 (match cf with Some c => S c | None => 0 end) top r U0 eq_refl eq_refl eq_refl eq_refl eq_refl HI)
      as (I3 & R3 & HC3).
    clearbody s3.
    apply (run_seq_std' s s3); [exact R3|apply std_call_closed, I3|]. intros s4 I4 R4.
    assert (R04 : Rel true s s4) by (eapply Rel_trans_l; eauto).
    apply (run_seq_std' s s4); [exact R04| |].
    { destruct cf as [c|]; [destruct (c =? sd_scr top)%nat|]; sstep L. }
    intros s5 I5 R5. assert (R05 : Rel true s s5) by (eapply Rel_trans_l; eauto).
    assert (R35 : Rel true s3 s5) by (eapply Rel_trans_l; eauto).
    apply (run_seq_std' s s5); [exact R05|apply std_close_loop_if; [exact I5|apply (HC_transfer s3 s5 _ R35 HC3)]|].
    intros s6 I6 R6. apply (run_std_post s s6); [eapply Rel_trans_l; eauto|].
    repeat first [apply (std_sched_redraw n L); assumption|sstep L].
Qed.

Lemma std_run_cmds s self cnt l : Inv s -> std n s (run_cmds specs self cnt l).
Proof. intros HI. unfold run_cmds. apply (std_do_scmds n L); [intros; apply std_close_screen; assumption|exact HI]. Qed.

(* ---- the callbacks that concern the top entry ---- *)
Lemma run_call_setup_plain s d r : Inv s -> st_stack (ust s) = d :: r ->
  run n s (call_setup_plain specs d) (fun o s' => o = ONormal /\ Keep s s').
Proof.
  intros HI U0. unfold call_setup_plain. apply run_rd. cbv beta zeta.
  apply run_wr_seq. set (s1 := s <| ust := _ |>).
  assert (K1 : Keep s s1) by (apply Keep_wr; reflexivity).
  assert (U1 : st_stack (ust s1) = d :: r) by exact U0.
  pose proof (Keep_top_event s1 T_SETUP [sd_id d; sd_scr d; sd_args d; b2n (nth_last (sc_setup (specs (sd_scr d))) (ss_n_setup (scr_of (ust s) (sd_scr d))))] []
                d r (or_introl eq_refl) (Keep_inv _ _ _ K1 HI) U1 eq_refl) as K2.
  apply run_seq. unfold ev. apply run_emit; [exact (k_A _ _ K2)|]. cbn [user_event].
  set (s2 := emit _ s1) in *. assert (K02 : Keep s s2) by (eapply Keep_trans; eauto). clearbody s2. clear K2 K1 U1. clearbody s1.
  destruct (nth_last (sc_setup (specs (sd_scr d))) (ss_n_setup (scr_of (ust s) (sd_scr d)))).
  - apply run_seq. apply run_wr_seq. set (s3 := s2 <| ust := _ |>).
    assert (K3 : Keep s s3) by (eapply Keep_trans; [exact K02|apply Keep_wr; reflexivity]). clearbody s3.
    apply run_regsource. set (s4 := emit _ _).
    assert (K4 : Keep s s4) by (eapply Keep_trans; [exact K3|apply Keep_regsource]). clearbody s4.
    apply run_wr. split; [reflexivity|]. eapply Keep_trans; [exact K4|apply Keep_wr; reflexivity].
  - apply run_seq. apply run_ret. apply run_wr. split; [reflexivity|].
    eapply Keep_trans; [exact K02|apply Keep_wr; reflexivity].
Qed.

(* a setup() with commands: entered for the top entry; its commands are a callback like refresh()'s (not in a try
   block); it reports success ([setup_cmds_ok]); the stack is whatever the commands left *)
Definition SetupPost (d : sdata) s (o : outcome) s' : Prop :=
  (o = ONormal /\ Keep s s') \/
  (Post s o s' /\ has_cmds (specs (sd_scr d)) = true /\ (o = ONormal -> st_rb (ust s') = true)).

Lemma run_call_setup s d r : Inv s -> st_stack (ust s) = d :: r ->
  run n s (call_setup specs d) (SetupPost d s).
Proof.
  intros HI U0. unfold call_setup. destruct (sc_setup_cmds (specs (sd_scr d))) as [|c0 cs] eqn:EC.
  { eapply run_conseq; [eapply run_call_setup_plain; eauto|]. intros o s' H. left. exact H. }
  assert (HC : has_cmds (specs (sd_scr d)) = true) by (unfold has_cmds; rewrite EC; reflexivity).
  unfold call_setup_cmds. apply run_rd. cbv beta zeta. rewrite (Hcok (sd_scr d) _ HC). cbv iota.
  apply run_wr_seq. set (s1 := s <| ust := _ |>).
  assert (K1 : Keep s s1) by (apply Keep_wr; reflexivity).
  assert (U1 : st_stack (ust s1) = d :: r) by exact U0.
  pose proof (Keep_begin_event s1 [sd_id d; sd_scr d; sd_args d] [] d r (Keep_inv _ _ _ K1 HI) U1 eq_refl) as K2.
  apply run_seq. unfold ev. apply run_emit; [exact (k_A _ _ K2)|]. cbn [user_event].
  set (s2 := emit _ s1) in *. assert (K02 : Keep s s2) by (eapply Keep_trans; eauto). clearbody s2. clear K2 K1 U1. clearbody s1.
  pose proof (Keep_inv _ _ _ K02 HI) as I2. pose proof (Keep_rel _ _ K02) as R02.
  apply run_seq_std; [apply std_run_cmds, I2| |].
  - intros s3 I3 R3.
    pose proof (Keep_exempt_event s3 T_SETUP [sd_id d; sd_scr d; sd_args d; b2n true] [] (or_introl eq_refl) HC) as K3.
    apply run_seq. unfold ev. apply run_emit; [exact (k_A _ _ K3)|]. cbn [user_event].
    set (s4 := emit _ s3) in *. clearbody s4.
    apply run_seq. apply run_wr_seq. set (s5 := s4 <| ust := _ |>).
    assert (K5 : Keep s3 s5) by (eapply Keep_trans; [exact K3|apply Keep_wr; reflexivity]). clearbody s5.
    apply run_regsource. set (s6 := emit _ _).
    assert (K6 : Keep s3 s6) by (eapply Keep_trans; [exact K5|apply Keep_regsource]). clearbody s6.
    apply run_wr. right. split; [|split; [exact HC|intros _; reflexivity]].
    assert (K7 : Keep s3 (s6 <| ust := (ust s6) <| st_rb := true |> |>))
      by (eapply Keep_trans; [exact K6|apply Keep_wr; reflexivity]).
    split; [eapply Keep_inv; [exact K7|exact I3]|].
    eapply Rel_trans_l; [exact R02|]. eapply Rel_trans_l; [exact R3|apply Keep_rel, K7].
  - intros o s3 NO I3 R3. right. split; [|split; [exact HC|intros E; congruence]].
    split; [exact I3|eapply Rel_trans_l; [exact R02|exact R3]].
Qed.

Lemma std_call_refresh s d r : Inv s -> st_stack (ust s) = d :: r -> std n s (call_refresh specs d).
Proof.
  intros HI U0. unfold call_refresh. apply run_rd. cbv beta zeta.
  apply run_wr_seq. set (s1 := s <| ust := _ |>).
  assert (K1 : Keep s s1) by (apply Keep_wr; reflexivity).
  assert (U1 : st_stack (ust s1) = d :: r) by exact U0.
  pose proof (Keep_top_event s1 T_REFRESH [sd_id d; sd_scr d; sd_args d] [] d r (or_intror (or_introl eq_refl))
                (Keep_inv _ _ _ K1 HI) U1 eq_refl) as K2.
  apply run_seq. unfold ev. apply run_emit; [exact (k_A _ _ K2)|]. cbn [user_event].
  set (s2 := emit _ s1) in *. assert (K02 : Keep s s2) by (eapply Keep_trans; eauto). clearbody s2.
  apply (run_std_post s s2); [apply Keep_rel, K02|]. apply std_run_cmds. eapply Keep_inv; eauto.
Qed.

Lemma std_ask_pages scr k : forall s, Inv s -> std n s (ask_pages specs scr k).
Proof.
  induction k as [|k IH]; intros s HI; cbn [ask_pages]; [sstep L|].
  sstep L; [apply (std_get_input_blocking n L), HI|apply IH; assumption].
Qed.

Lemma std_call_show_all s d d' r : Inv s -> st_stack (ust s) = d' :: r -> sd_id d' = sd_id d -> std n s (call_show_all specs d).
Proof.
  intros HI U0 E. unfold call_show_all. apply run_rd. cbv beta zeta.
  apply run_wr_seq. set (s1 := s <| ust := _ |>).
  assert (K1 : Keep s s1) by (apply Keep_wr; reflexivity).
  assert (U1 : st_stack (ust s1) = d' :: r) by exact U0.
  pose proof (Keep_top_event s1 T_SHOW [sd_id d; sd_scr d] [] d' r (or_intror (or_intror eq_refl))
                (Keep_inv _ _ _ K1 HI) U1 (eq_sym E)) as K2.
  apply run_seq. unfold ev. apply run_emit; [exact (k_A _ _ K2)|]. cbn [user_event].
  set (s2 := emit _ s1) in *. assert (K02 : Keep s s2) by (eapply Keep_trans; eauto). clearbody s2.
  apply (run_std_post s s2); [apply Keep_rel, K02|].
  assert (I2 : Inv s2) by (eapply Keep_inv; eauto).
  sstep L; [apply std_ask_pages, I2|apply std_run_cmds; assumption].
Qed.

Lemma std_draw_screen s d d' r : Inv s -> st_stack (ust s) = d' :: r -> sd_id d' = sd_id d -> std n s (draw_screen specs d).
Proof.
  intros HI U0 E. unfold draw_screen. apply std_try; [|intros; apply (std_raise n L); assumption].
  destruct (sc_no_separator (specs (sd_scr d))).
  - unfold std. apply run_seq. apply run_ret. fold_std. eapply std_call_show_all; eauto.
  - pose proof (Keep_user T_SEPARATOR [sd_scr d] [] s eq_refl) as K.
    apply run_seq. unfold ev. apply run_emit; [exact (k_A _ _ K)|]. cbn [user_event].
    apply (run_std_post s _ _ (Keep_rel _ _ K)).
    eapply std_call_show_all; [eapply Keep_inv; eauto| |exact E]. rewrite (k_u1 _ _ K). exact U0.
Qed.

Lemma std_process_input_result s act b : Inv s -> std n s (process_input_result specs act b).
Proof.
  intros HI. unfold process_input_result, with_top, push_screen_modal.
  repeat first [apply (std_sched_redraw n L); assumption | apply (std_get_input n L); assumption
               | apply std_close_screen; assumption
               | apply (std_push_modal n L); assumption | sstep L].
Qed.

Lemma std_call_input s scr key : Inv s -> std n s (call_input specs scr key).
Proof.
  intros HI. unfold call_input. apply std_rd. cbv beta zeta.
  destruct (match assoc_str key (sc_input (specs scr)) with
            | Some (c, r) => (c, r)
            | None => (fst (sc_input_default (specs scr)),
                       match snd (sc_input_default (specs scr)) with Some r => r | None => RKey key end)
            end) as [cmds rv].
  repeat first [apply std_run_cmds; assumption|sstep L].
Qed.

Lemma std_process_input s scr line : Inv s -> std n s (process_input specs scr line).
Proof.
  intros HI. unfold process_input.
  repeat first [apply std_call_input; assumption|apply (std_raise n L); assumption
               |apply std_process_input_result; assumption|sstep L].
Qed.

Lemma std_input_ready_handler s m sg : Inv s -> std n s (input_ready_handler specs m sg).
Proof.
  intros HI. unfold input_ready_handler.
  repeat first [apply std_process_input; assumption|sstep L].
Qed.

(* refresh() of a screen whose setup() runs commands: the entry need not be the top of the stack *)
Lemma std_call_refresh_cmds s d : Inv s -> has_cmds (specs (sd_scr d)) = true -> std n s (call_refresh specs d).
Proof.
  intros HI HC. unfold call_refresh. apply run_rd. cbv beta zeta.
  apply run_wr_seq. set (s1 := s <| ust := _ |>).
  assert (K1 : Keep s s1) by (apply Keep_wr; reflexivity).
  pose proof (Keep_exempt_event s1 T_REFRESH [sd_id d; sd_scr d; sd_args d] [] (or_intror eq_refl) HC) as K2.
  apply run_seq. unfold ev. apply run_emit; [exact (k_A _ _ K2)|]. cbn [user_event].
  set (s2 := emit _ s1) in *. assert (K02 : Keep s s2) by (eapply Keep_trans; eauto). clearbody s2.
  apply (run_std_post s s2); [apply Keep_rel, K02|]. apply std_run_cmds. eapply Keep_inv; eauto.
Qed.

Lemma std_process_screen s : Inv s -> std n s (process_screen specs).
Proof.
  intros HI. unfold process_screen, with_top. apply std_rd. cbv beta zeta.
  destruct (st_stack (ust s)) as [|top r] eqn:U0; [sstep L|].
  (* first part: ready or setup; the stack is left alone *)
  assert (P1 : run n s (rd (fun u => if ss_ready (scr_of u (sd_scr top)) then wr (fun u0 => u0 <| st_rb := true |>) else call_setup specs top))
                   (SetupPost top s)).
  { apply run_rd. cbv beta. destruct (ss_ready (scr_of (ust s) (sd_scr top))).
    - apply run_wr. left. split; [reflexivity|apply Keep_wr; reflexivity].
    - eapply run_call_setup; eauto. }
  apply run_seq. eapply run_conseq; [exact P1|]. intros o s1 [[-> K1]|([I1 R1] & HC & RB)].
  2:{ (* a setup() with commands returned: it succeeded; the stack is whatever it left *)
    clear P1. destruct o; try (split; assumption). cbn [bal] in R1.
    apply run_rd. cbv beta. rewrite (RB eq_refl). cbn [negb].
    apply run_seq. apply run_regsource. set (s2 := emit _ _).
    assert (K2 : Keep s1 s2) by apply Keep_regsource.
    pose proof (Keep_inv _ _ _ K2 I1) as I2. clearbody s2.
    apply (run_std_post s s2); [eapply Rel_trans_l; [exact R1|apply Keep_rel, K2]|].
    apply std_try; [|intros; apply (std_raise n L); assumption].
    sstep L; [apply std_call_refresh_cmds; assumption|].
    apply std_rd. cbv beta. destruct (st_stack (ust s0)) as [|top' r'] eqn:U3; [sstep L|].
    destruct (sd_id top' =? sd_id top)%nat eqn:E; [|sstep L]. apply Nat.eqb_eq in E.
    sstep L; [eapply std_draw_screen; eauto|].
    repeat first [apply (std_get_input n L); assumption|sstep L]. }
  pose proof (Keep_inv _ _ _ K1 HI) as I1. pose proof (Keep_rel _ _ K1) as R1.
  assert (U1 : st_stack (ust s1) = top :: r) by (rewrite (k_u1 _ _ K1); exact U0).
  clear P1. apply run_rd. cbv beta. destruct (negb (st_rb (ust s1))).
  - (* the setup failed: discard the entry *)
    apply run_seq. apply run_rd. cbv beta. rewrite U1. apply run_wr_seq. unfold ev_stack.
    apply run_stack_last; [apply (Below_fail_pop s1 _ top r); [exact I1|exact U1|reflexivity]|].
    set (s3 := emit _ _).
    destruct (Inv_fail_pop s1 s3 top r U1 eq_refl eq_refl eq_refl eq_refl eq_refl I1) as (I3 & R3 & HC3).
    clearbody s3. apply (run_std_post s s3); [eapply Rel_trans_l; eauto|].
    destruct (sd_modal top) eqn:M.
    + apply (std_close_loop_if s3 true I3). intros _. apply HC3. reflexivity.
    + apply (std_sched_redraw n L), I3.
  - apply run_seq. apply run_regsource. set (s2 := emit _ _).
    assert (K2 : Keep s1 s2) by apply Keep_regsource.
    assert (U2 : st_stack (ust s2) = top :: r) by (rewrite (k_u1 _ _ K2); exact U1).
    pose proof (Keep_inv _ _ _ K2 I1) as I2. clearbody s2.
    apply (run_std_post s s2); [eapply Rel_trans_l; [exact R1|apply Keep_rel, K2]|].
    apply std_try; [|intros; apply (std_raise n L); assumption].
    sstep L; [eapply std_call_refresh; eauto|].
    apply std_rd. cbv beta. destruct (st_stack (ust s0)) as [|top' r'] eqn:U3; [sstep L|].
    destruct (sd_id top' =? sd_id top)%nat eqn:E; [|sstep L]. apply Nat.eqb_eq in E.
    sstep L; [eapply std_draw_screen; eauto|].
    repeat first [apply (std_get_input n L); assumption|sstep L].
Qed.

Lemma handlers_ok : HOK n.
Proof.
  intros hid sg data s HI. change (std n s (screen_code specs hid sg data)). unfold screen_code.
  destruct (hid =? H_RENDER)%nat; [apply std_process_screen, HI|].
  destruct (hid =? H_CLOSE)%nat; [apply std_close_screen, HI|].
  destruct (hid =? H_RECEIVED)%nat; [apply (std_input_received_handler n L), HI|].
  destruct (10 <=? hid)%nat; [apply std_input_ready_handler, HI|].
  destruct (3 <=? hid)%nat; [|sstep L].
  (* a callback connected to one of the application's own signals: a command list, like input()'s *)
  unfold custom_handler. sstep L; [sstep L|apply std_run_cmds; assumption].
Qed.
End Progs3.

Theorem loop_ok : forall n, LoopOK n.
Proof. induction n as [|n IH]; [apply LoopOK_0|]. apply loop_step; [exact IH|apply handlers_ok, IH]. Qed.

(* ================================================================ whole sessions *)
Lemma Inv_init u : st_stack u = [] -> Inv (init_state u) /\ A (init_state u).
Proof.
  intros U. split; [split|].
  - split; cbn; rewrite ?U; auto; try constructor. intros f [].
  - intros _. split; cbn; auto; discriminate.
  - split; [reflexivity|split; [intros _; reflexivity|reflexivity]].
Qed.

Lemma Keep_top s : Keep s (emit ETop s).
Proof. apply Keep_emit. reflexivity. Qed.

Lemma std_app_initialize n s : Inv s -> std n s app_initialize.
Proof. intros HI. unfold app_initialize. pose proof (loop_ok n) as L. repeat sstep L. Qed.

Lemma app_session_ok fuel : forall acts s, Inv s -> A s -> A (snd (app_session specs fuel acts s)).
Proof.
  induction acts as [|a r IH]; intros s HI HA; cbn [app_session]; [exact HA|].
  pose proof (Keep_top s) as K0. pose proof (Keep_inv _ _ _ K0 HI) as I0. pose proof (k_A _ _ K0 HA) as A0.
  set (s0 := emit ETop s) in *. clearbody s0.
  assert (STEP : forall o s1, A s1 -> (o <> OFuel -> Inv s1) ->
            A (snd (match o with
                    | OBlocked | OFuel | OThrow XSysExit => ([o], s1)
                    | _ => let '(os, s2) := app_session specs fuel r s1 in (o :: os, s2)
                    end))).
  { intros o s1 A1 I1.
    assert (GO : o <> OFuel -> A (snd (let '(os, s2) := app_session specs fuel r s1 in (o :: os, s2)))).
    { intros NF. specialize (IH s1 (I1 NF) A1). destruct (app_session specs fuel r s1) as [os s2]. exact IH. }
    destruct o as [|[| |]| |]; try exact A1; apply GO; discriminate. }
  destruct a as [l|].
  - destruct (exec code fuel (CProg (run_cmds specs 0 0 l)) s0) as [o s1] eqn:E.
    destruct (std_run_cmds fuel (loop_ok fuel) s0 0 0 l I0 A0 fuel o s1 (le_n _) E) as [A1 P1].
    apply STEP; [exact A1|]. intros NF. apply (P1 NF).
  - destruct (st_stack (ust s)) as [|d l] eqn:U; [destruct (st_run_empty (ust s)) eqn:RE|].
    + destruct (exec code fuel CRun s0) as [o s1] eqn:E.
      destruct (loop_ok fuel fuel CRun s0 o s1 (le_n _) A0 I0 E) as [A1 P1].
      apply STEP; [exact A1|]. intros NF. apply (P1 NF).
    + apply (STEP (OThrow XError) s0); auto.
    + destruct (exec code fuel CRun s0) as [o s1] eqn:E.
      destruct (loop_ok fuel fuel CRun s0 o s1 (le_n _) A0 I0 E) as [A1 P1].
      apply STEP; [exact A1|]. intros NF. apply (P1 NF).
Qed.

Lemma app_run_all_ok specl typed' quit run_empty fuel acts :
  A (snd (app_run_all specs specl typed' quit run_empty fuel acts)).
Proof.
  unfold app_run_all. set (u := sstate0 specl typed' quit run_empty).
  destruct (Inv_init u eq_refl) as [I0 A0].
  destruct (exec code 20 (CProg app_initialize) (init_state u)) as [o s1] eqn:E.
  destruct (std_app_initialize 20 (init_state u) I0 A0 20 o s1 (le_n _) E) as [A1 P1].
  assert (NF : o <> OFuel).
  { assert (X : fst (exec code 20 (CProg app_initialize) (init_state u)) = ONormal) by reflexivity.
    rewrite E in X. cbn in X. rewrite X. discriminate. }
  apply app_session_ok; [apply (P1 NF)|exact A1].
Qed.
End Screen.

(* ================================================================ the theorems *)
(* every session: the shield clauses (setup/refresh/show never beneath an open modal frame) and the
   matching of returns to frames hold; under the trace hypothesis [no_f13] every return finds its
   frame closed *)
Lemma srun_mon_ext c1 c2 t : (forall w e, c1 w e = c2 w e) -> forall w i, srun_mon c1 w t i = srun_mon c2 w t i.
Proof. intros H. induction t as [|e r IH]; intros w i; cbn [srun_mon]; [reflexivity|]. rewrite H, IH. reflexivity. Qed.
Lemma sok_ext c1 c2 typed t : (forall w e, c1 w e = c2 w e) -> sok c1 typed t = sok c2 typed t.
Proof. intros H. unfold sok. rewrite (srun_mon_ext c1 c2 t H). reflexivity. Qed.

(* setup() may run commands, provided such a setup() never reports failure: the acceptors without their clauses for
   the return of such a setup() and the refresh() of its screen ([relax_setup]); the stack primitives: in full *)
Theorem C05_shield_session_cmds specs (Hcok : setup_cmds_ok specs) specl typed quit run_empty fuel acts :
  let t := rev (trace (snd (app_run_all specs specl typed quit run_empty fuel acts))) in
  sok (relax_setup specs chk_C05_shield_partial) typed t = true /\
  (no_f13 t = true -> sok (relax_setup specs chk_C05_shield) typed t = true) /\
  sok chk_C05_below typed t = true.
Proof.
  intros t. destruct (app_run_all_ok specs Hcok typed specl typed quit run_empty fuel acts) as (A1 & A2 & A3).
  split; [apply sok_iff; exact A1|]. split; [|apply sok_iff; exact A3]. intros H. apply sok_iff. apply A2. exact H.
Qed.

Theorem C05_shield_session specs (Hplain : plain_setup specs) specl typed quit run_empty fuel acts :
  let t := rev (trace (snd (app_run_all specs specl typed quit run_empty fuel acts))) in
  sok chk_C05_shield_partial typed t = true /\ (no_f13 t = true -> sok chk_C05_shield typed t = true) /\
  sok chk_C05_below typed t = true.
Proof.
  intros t.
  destruct (C05_shield_session_cmds specs (plain_setup_cmds_ok specs Hplain) specl typed quit run_empty fuel acts) as (H1 & H2 & H3).
  fold t in H1, H2, H3.
  rewrite (sok_ext _ _ typed t (relax_setup_plain specs chk_C05_shield_partial Hplain)) in H1.
  rewrite (sok_ext _ _ typed t (relax_setup_plain specs chk_C05_shield Hplain)) in H2.
  split; [exact H1|split; [exact H2|exact H3]].
Qed.

(* events other than the stack primitives leave the stack and every frame's current entry alone: the
   announcement of an operation changes nothing of them, the return of a modal push only removes its frame *)
Lemma step_not_stack w e :
  match e with EUser tag _ _ => tag <> T_STACK | _ => True end ->
  sw_stack (sworld_step w e) = sw_stack w /\ sw_replaced (sworld_step w e) = sw_replaced w /\
  (sw_modal (sworld_step w e) = sw_modal w \/
   exists id, sw_modal (sworld_step w e) = remove_first (fun f => (mf_orig f =? id)%nat) (sw_modal w)).
Proof.
  intros H. destruct e;
    try (match goal with |- context [sworld_step w ?e] => destruct (step_loop_vsame w e eq_refl) as (V1 & V2 & V3 & _) end; auto; fail).
  cbn [sworld_step]. destruct (tag =? T_OP)%nat eqn:E1.
  { apply Nat.eqb_eq in E1; subst tag. cbn. auto. }
  destruct (tag =? T_MODAL_RETURN)%nat eqn:E2.
  { apply Nat.eqb_eq in E2; subst tag. cbn. split; [reflexivity|split; [reflexivity|right; eauto]]. }
  assert (I : inert_tag tag = true).
  { unfold inert_tag. rewrite E1, E2. apply Nat.eqb_neq in H. rewrite H. reflexivity. }
  destruct (step_inert_vsame w tag args text I) as (V1 & V2 & V3 & _). auto.
Qed.

(* ---- the full acceptors are the proved part and the input clause ---- *)
Lemma srun_mon_and c1 c2 t : forall w i,
  srun_mon (fun w e => c1 w e && c2 w e) w t i = None <-> srun_mon c1 w t i = None /\ srun_mon c2 w t i = None.
Proof.
  induction t as [|e r IH]; intros w i; cbn [srun_mon]; [tauto|].
  destruct (c1 w e), (c2 w e); cbn [andb]; try (split; [discriminate|intros [X Y]; discriminate]).
  apply IH.
Qed.

Lemma sok_C05_gen_split strict typed t :
  sok (chk_C05_gen strict) typed t = sok (chk_C05_shield_gen strict) typed t && sok chk_C05_input typed t.
Proof.
  pose proof (srun_mon_and (chk_C05_shield_gen strict) chk_C05_input t (sworld0 typed) 0) as H.
  rewrite <- (srun_mon_ext (chk_C05_gen strict) _ t (chk_C05_gen_split strict)) in H.
  unfold sok. destruct (srun_mon (chk_C05_gen strict) (sworld0 typed) t 0) as [k|].
  - destruct (srun_mon (chk_C05_shield_gen strict) (sworld0 typed) t 0), (srun_mon chk_C05_input (sworld0 typed) t 0);
      try reflexivity. destruct H as [_ H]. discriminate (H (conj eq_refl eq_refl)).
  - destruct H as [H _]. destruct (H eq_refl) as [-> ->]. reflexivity.
Qed.

(* the monitors of ScreenMon.v on session traces: only the T_INPUT clause is left to be observed *)
Theorem C05_session_modulo_input specs (Hplain : plain_setup specs) specl typed quit run_empty fuel acts :
  let t := rev (trace (snd (app_run_all specs specl typed quit run_empty fuel acts))) in
  sok chk_C05_partial typed t = sok chk_C05_input typed t /\
  (no_f13 t = true -> sok chk_C05 typed t = sok chk_C05_input typed t).
Proof.
  intros t. destruct (C05_shield_session specs Hplain specl typed quit run_empty fuel acts) as (H1 & H2 & _). fold t in H1, H2.
  split.
  - unfold chk_C05_partial. rewrite sok_C05_gen_split. fold chk_C05_shield_partial. rewrite H1. reflexivity.
  - intros N. unfold chk_C05. rewrite sok_C05_gen_split. fold chk_C05_shield. rewrite (H2 N). reflexivity.
Qed.

(* ================================================================ the caller resumes: one unfolding *)
Section Eq.
Variable specs : nat -> screen_spec.
Notation code := (screen_code specs).
Notation st := (lstate sstate).

Lemma exec_seq f p q (s : st) : exec code (S f) (CProg (p ;; q)) s =
  let '(o, s1) := exec code f (CProg p) s in match o with ONormal => exec code f (CProg q) s1 | _ => (o, s1) end.
Proof. reflexivity. Qed.
Lemma exec_emit f e (s : st) : exec code (S f) (CProg (PEmit e)) s = (ONormal, emit (user_event e) s).
Proof. reflexivity. Qed.
Lemma exec_rd f k (s : st) : exec code (S f) (CProg (rd k)) s = exec code f (CProg (k (ust s))) (s <| ust := ust s |>).
Proof. reflexivity. Qed.
Lemma exec_wr f g (s : st) : exec code (S (S f)) (CProg (wr g)) s = (ONormal, s <| ust := g (ust s) |>).
Proof. reflexivity. Qed.
Lemma exec_api f a (s : st) : exec code (S f) (CProg (PApi a)) s = exec code f (CApi a) s.
Proof. reflexivity. Qed.

(* push_screen_modal inside a command list: the operation is announced, the entry appended, the nested loop
   run; when it returns normally the very next step is the T_MODAL_RETURN event and then the REST of the
   caller's commands, from the state the nested loop left; any other outcome is passed on unchanged *)
Lemma caller_resumes_eq f cn self cnt scr a rest (s : st) :
  let d := {| sd_id := st_next_sd (ust s); sd_scr := scr; sd_args := a; sd_modal := true |} in
  let s1 := emit (EUser T_STACK [K_APPEND; sd_id d; scr; a; 1] [])
                 ((emit (EUser T_OP [O_PUSH_MODAL; scr; a] []) s)
                    <| ust := (ust s) <| st_next_sd := S (st_next_sd (ust s)) |> <| st_stack := d :: st_stack (ust s) |> |>) in
  exec code (8 + f) (CProg (do_scmds specs cn self cnt (SPushModal scr a :: rest))) s =
  let '(o, s2) := exec code f (CApi (ANewLoop (render_spec None))) s1 in
  match o with
  | ONormal => exec code (7 + f) (CProg (do_scmds specs cn self cnt rest))
                    (emit (EUser T_MODAL_RETURN [sd_id d; scr] []) s2)
  | _ => (o, s2)
  end.
Proof.
  intros d s1. cbn [do_scmds do_scmd plus]. unfold new_sd, ev_stack, ev.
  rewrite exec_seq. rewrite exec_seq. rewrite exec_emit. rewrite exec_rd. cbv beta zeta.
  rewrite exec_seq, exec_wr. rewrite exec_seq, exec_wr. rewrite exec_seq, exec_emit. rewrite exec_seq, exec_api.
  destruct s as [qs lv ac hs tk rl fq qc ns ex tr u].
  match goal with |- context [exec code f (CApi _) ?x] => change x with s1 end.
  destruct (exec code f (CApi (ANewLoop (render_spec None))) s1) as [o s2].
  destruct o; reflexivity.
Qed.
End Eq.

(* ================================================================ example sessions (evaluated in props/C05.v) *)
Module C05Ex.
Definition k1 : str := [49%N]. Definition k2 : str := [50%N]. Definition kc : str := [99%N].
Definition kx : str := [120%N]. Definition ky : str := [121%N].
Definition scr (refresh show : list scmd) (inp : list (str * (list scmd * ret_val))) : screen_spec :=
  {| sc_setup := []; sc_refresh := refresh; sc_show := show; sc_closed := []; sc_input := inp;
     sc_input_default := ([], None); sc_prompt_none := false; sc_input_required := true;
     sc_no_separator := false; sc_skip_check := false; sc_pages := 0; sc_answer0 := AnsNoAttr; sc_custom := []; sc_setup_cmds := [] |}.
(* a screen that never asks for input *)
Definition quiet (refresh show : list scmd) : screen_spec :=
  {| sc_setup := []; sc_refresh := refresh; sc_show := show; sc_closed := []; sc_input := [];
     sc_input_default := ([], Some RProcessed); sc_prompt_none := false; sc_input_required := false;
     sc_no_separator := false; sc_skip_check := false; sc_pages := 0; sc_answer0 := AnsNoAttr; sc_custom := []; sc_setup_cmds := [] |}.
Definition session (specl : list screen_spec) (typed : list (option str)) (acts : list saction) : list outcome * list event :=
  let '(os, st) := app_run_all (fun n => nth n specl default_spec) specl typed None false 2000 acts in
  (os, rev (trace st)).
Definition start := [SACmds [SSchedule 0 0]; SARun].
Definition count_tag (tag : nat) (t : list event) : nat :=
  length (filter (fun e => match e with EUser g _ _ => (g =? tag)%nat | _ => false end) t).

(* 1. modal pushed from input(); inside it: a push, its close, a replace (the replacement takes the frame over), its close *)
Definition ex1_specs := [ scr [] [] [(k1, ([SPushModal 1 0], RProcessed))];
                          scr [] [] [(k1, ([SPush 2 0], RProcessed)); (k2, ([SReplace 3 7], RProcessed))];
                          scr [] [] []; scr [] [] [] ].
Definition ex1_typed := map Some [k1; k1; kc; k2; kc; kc].
Definition ex1 := session ex1_specs ex1_typed start.
(* 2. modal pushed from refresh() *)
Definition ex2_specs := [ scr [SIfCount 1 [SPushModal 1 0] []] [] [];
                          scr [] [] [(k1, ([SPush 2 0], RProcessed))]; scr [] [] [] ].
Definition ex2_typed := map Some [k1; kc; kc; kc].
Definition ex2 := session ex2_specs ex2_typed start.
(* 3. modal pushed from show_all() *)
Definition ex3_specs := [ scr [] [SIfCount 1 [SPushModal 1 0] []] [];
                          scr [] [] [(k1, ([SReplace 2 0], RProcessed))]; scr [] [] [] ].
Definition ex3_typed := map Some [k1; kc; kc].
Definition ex3 := session ex3_specs ex3_typed start.
(* 4. a modal from a modal from a modal, with a push and its close at depth 2 *)
Definition ex4_specs := [ scr [] [] [(k1, ([SPushModal 1 0], RRedraw))];
                          scr [] [] [(k1, ([SPushModal 2 0], RRedraw))];
                          scr [] [] [(k1, ([SPushModal 3 0], RRedraw)); (k2, ([SPush 4 0], RProcessed))];
                          scr [] [] []; scr [] [] [] ].
Definition ex4_typed := map Some [k1; k1; k2; kc; k1; kc; kc; kc; kc].
Definition ex4 := session ex4_specs ex4_typed start.

(* finding F13 at the screen level: input() of a modal screen closes it and pushes another modal screen *)
Definition f13_specs := [ scr [] [] [(k1, ([SPushModal 1 0], RRedraw))];
                          scr [] [] [(k1, ([SCloseNow; SPushModal 2 0], RProcessed))];
                          scr [] [] [] ].
Definition f13_typed := map Some [k1; k1; kc; kc].
Definition f13 := session f13_specs f13_typed start.

(* a hand-written trace: entry 0, a modal entry 1 on top of it, then a refresh of entry 0 *)
Definition bad_trace : list event :=
  [EUser T_STACK [K_APPEND; 0; 0; 0; 0] []; EUser T_STACK [K_APPEND; 1; 1; 0; 1] []; EUser T_REFRESH [0; 0; 0] []].

(* a hand-written trace in which the entry beneath a modal entry disappears while its frame is open:
   a replace of the modal entry that pops twice *)
Definition bad_below : list event :=
  [EUser T_STACK [K_APPEND; 0; 0; 0; 0] []; EUser T_STACK [K_APPEND; 1; 1; 0; 1] [];
   EUser T_OP [O_REPLACE; 2; 0] []; EUser T_STACK [K_POP; 1; 1; 0; 1] []; EUser T_STACK [K_POP; 0; 0; 0; 0] []].

(* finding F16: input() of a screen beneath an open modal screen.
   cx1: the same screen object twice on the stack, beneath and above the modal screen *)
Definition cx1_specs := [ quiet [SIfCount 1 [SPush 2 0] []] [];
                          quiet [SIfCount 1 [SPush 2 7] []] [];
                          {| sc_setup := []; sc_refresh := [SIfCount 1 [SPushModal 1 0] []]; sc_show := [SIfCount 1 [SCloseSig] []];
                             sc_closed := []; sc_input := []; sc_input_default := ([], Some RProcessed);
                             sc_prompt_none := false; sc_input_required := true; sc_no_separator := false;
                             sc_skip_check := false; sc_pages := 0; sc_answer0 := AnsNoAttr; sc_custom := []; sc_setup_cmds := [] |} ].
Definition cx1_typed := [Some kx].
Definition cx1 := session cx1_specs cx1_typed start.
(* cx2: no screen twice; force_quit, then a second App.run() *)
Definition cx2_specs := [ {| sc_setup := [];
                             sc_refresh := [SIfCount 1 [SRedrawSig] [SIfCount 2 [SForceQuit] [SIfCount 3 [SRedrawSig]
                                            [SIfCount 4 [SPushModal 1 0] []]]]];
                             sc_show := []; sc_closed := []; sc_input := []; sc_input_default := ([], Some RRedraw);
                             sc_prompt_none := false; sc_input_required := true; sc_no_separator := false;
                             sc_skip_check := false; sc_pages := 0; sc_answer0 := AnsNoAttr; sc_custom := []; sc_setup_cmds := [] |};
                          quiet [] [] ].
Definition cx2_typed := [Some kx; Some ky].
Definition cx2 := session cx2_specs cx2_typed [SACmds [SSchedule 0 0]; SARun; SARun].
End C05Ex.
