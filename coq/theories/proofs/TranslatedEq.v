(* TranslatedEq.v — the definitions regenerated from /repo's current source by tools/translate.py
   (gen/Translated.v) are equal to the hand-written model.  When the Python changes, these proofs break. *)
From SL Require Import Tac.
From SL Require Import PyInt KeyPattern LoopSem ScreenSem Prompt Paging gen.Translated.
Import ListNotations.

Lemma streq_single k c : t_streq k [c] = str1 c k.
Proof.
  unfold t_streq, str1. destruct k as [|x [|y r]]; cbn; try reflexivity.
  now rewrite andb_true_r.
Qed.

Lemma process_input_table rv : t_process_input rv = action_of rv.
Proof.
  unfold t_process_input, action_of.
  destruct rv as [ | | | |k| ]; try reflexivity.
  rewrite !streq_single.
  destruct (str1 114 k); [reflexivity|]. destruct (str1 99 k); [reflexivity|]. destruct (str1 113 k); reflexivity.
Qed.

Lemma threshold_exceeded c : t_threshold_exceeded c = (Nat.modulo c 5 =? 0)%nat.
Proof. reflexivity. Qed.

Lemma was_successful a : t_was_successful a = match a with AError => false | _ => true end.
Proof. reflexivity. Qed.

Lemma default_pattern_eq : t_default_pattern = default_pattern.
Proof. reflexivity. Qed.
Lemma get_widget_label_eq kp i : t_get_widget_label kp i = get_widget_label kp i.
Proof. reflexivity. Qed.
Lemma translate_eq kp s : t_translate_input_to_widget_id kp s = translate_input_to_widget_id kp s.
Proof. reflexivity. Qed.

Lemma exception_priority_eq : t_exception_priority = sp_prio exception_spec.
Proof. reflexivity. Qed.
Lemma default_priority_eq : t_default_priority = sp_prio (render_spec None).
Proof. reflexivity. Qed.

Lemma prompt_keys_eq :
  t_REFRESH = Prompt.REFRESH /\ t_CONTINUE = Prompt.CONTINUE /\ t_QUIT = Prompt.QUIT /\ t_HELP = Prompt.HELP /\
  t_DEFAULT_MESSAGE = Prompt.DEFAULT_MESSAGE /\ t_QUIT_DESCRIPTION = Prompt.QUIT_DESCRIPTION /\
  t_CONTINUE_DESCRIPTION = Prompt.CONTINUE_DESCRIPTION /\ t_REFRESH_DESCRIPTION = Prompt.REFRESH_DESCRIPTION /\
  t_HELP_DESCRIPTION = Prompt.HELP_DESCRIPTION.
Proof. repeat split; reflexivity. Qed.
