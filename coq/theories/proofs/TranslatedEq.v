(* TranslatedEq.v — the definitions regenerated from /repo's current source by tools/translate.py
   (gen/Translated.v) are equal to the hand-written model.  When the Python changes, these proofs break. *)
From SL Require Import QueueSources.
From SL Require Import Tac.
From SL Require Import PyInt KeyPattern LoopSem ScreenSem Prompt Paging ScreenOut gen.Translated.
From RecordUpdate Require Import RecordUpdate.
Import ListNotations.

Lemma streq_single k c : t_streq k [c] = str1 c k.
Proof.
  unfold t_streq, str1. destruct k as [|x [|y r]]; cbn; try reflexivity.
  now rewrite andb_true_r.
Qed.

Lemma process_input_table rv : t_process_input rv = action_of rv.
Proof.
  unfold t_process_input, action_of.
  destruct rv as [ | | | |k| ]; try reflexivity.
  rewrite !streq_single.
  destruct (str1 114 k); [reflexivity|]. destruct (str1 99 k); [reflexivity|]. destruct (str1 113 k); reflexivity.
Qed.

Lemma threshold_exceeded c : t_threshold_exceeded c = (Nat.modulo c 5 =? 0)%nat.
Proof. reflexivity. Qed.

Lemma was_successful a : t_was_successful a = match a with AError => false | _ => true end.
Proof. reflexivity. Qed.

Lemma default_pattern_eq : t_default_pattern = default_pattern.
Proof. reflexivity. Qed.
Lemma get_widget_label_eq kp i : t_get_widget_label kp i = get_widget_label kp i.
Proof. reflexivity. Qed.
Lemma translate_eq kp s : t_translate_input_to_widget_id kp s = translate_input_to_widget_id kp s.
Proof. reflexivity. Qed.

Lemma exception_priority_eq : t_exception_priority = sp_prio exception_spec.
Proof. reflexivity. Qed.
Lemma default_priority_eq : t_default_priority = sp_prio (render_spec None).
Proof. reflexivity. Qed.

Lemma prompt_keys_eq :
  t_REFRESH = Prompt.REFRESH /\ t_CONTINUE = Prompt.CONTINUE /\ t_QUIT = Prompt.QUIT /\ t_HELP = Prompt.HELP /\
  t_DEFAULT_MESSAGE = Prompt.DEFAULT_MESSAGE /\ t_QUIT_DESCRIPTION = Prompt.QUIT_DESCRIPTION /\
  t_CONTINUE_DESCRIPTION = Prompt.CONTINUE_DESCRIPTION /\ t_REFRESH_DESCRIPTION = Prompt.REFRESH_DESCRIPTION /\
  t_HELP_DESCRIPTION = Prompt.HELP_DESCRIPTION.
Proof. repeat split; reflexivity. Qed.

(* ================================================================== signals: every class, every creation site *)
Lemma sig_render_eq src : t_sig_RenderScreenSignal src t_sig_RenderScreenSignal_default_priority = render_spec src.
Proof. reflexivity. Qed.
Lemma sig_close_eq scr : t_sig_CloseScreenSignal (Some scr) t_sig_CloseScreenSignal_default_priority = close_spec scr.
Proof. reflexivity. Qed.
Lemma sig_exception_eq : t_sig_ExceptionSignal None = exception_spec.
Proof. reflexivity. Qed.
Lemma sig_ready_eq src h d ok :
  t_sig_InputReadySignal src h d t_sig_InputReadySignal_default_priority ok = ready_spec src h d ok.
Proof. reflexivity. Qed.
(* the model's received_spec carries the request id in sp_a (a ghost field: which reader thread); everything else *)
Lemma sig_received_eq req d :
  received_spec req d =
  let t := t_sig_InputReceivedSignal None d t_sig_InputReceivedSignal_default_priority in
  {| sp_cls := sp_cls t; sp_prio := sp_prio t; sp_src := sp_src t; sp_a := req; sp_b := sp_b t; sp_data := sp_data t |}.
Proof. reflexivity. Qed.

Lemma signal_priorities_eq :
  t_sig_RenderScreenSignal_default_priority = sp_prio (render_spec None) /\
  t_sig_CloseScreenSignal_default_priority = sp_prio (close_spec 0) /\
  t_sig_InputReadySignal_default_priority = sp_prio (ready_spec None 0 [] true) /\
  t_sig_InputReceivedSignal_default_priority = sp_prio (received_spec 0 []) /\
  t_sh_create_signal_default_priority = sp_prio (render_spec None) /\
  sp_prio (t_sig_ExceptionSignal None) = sp_prio exception_spec.
Proof. repeat split; reflexivity. Qed.

Lemma signal_sites_eq :
  (forall src h d, t_req_emit_input_ready_signal src h d = ready_spec src h d true) /\
  (forall src h, t_req_emit_failed_input_ready_signal src h = ready_spec src h [] false) /\
  (forall req d, received_spec req d =
     let t := t_req_run_signal d in
     {| sp_cls := sp_cls t; sp_prio := sp_prio t; sp_src := sp_src t; sp_a := req; sp_b := sp_b t; sp_data := sp_data t |}) /\
  (forall s, t_sh_redraw_signal s = render_spec (Some s)) /\
  (forall s, t_sh_close_signal s = close_spec s) /\
  t_sched_redraw_signal = render_spec None /\
  t_sched_push_screen_modal_signal = render_spec None /\
  t_exception_signal = exception_spec.
Proof. repeat split; reflexivity. Qed.

(* ================================================================== TicketMachine *)
(* the Python dicts of the ticket machine are the association lists of LoopSem.tmachine (insertion order).
   The model appends a fresh ticket and filters / maps a line; Python assigns, pops and assigns per key:
   the two agree when ticket ids are unique within a line and below the counter, which every reachable
   machine satisfies (tm_inv: holds initially, preserved by the three operations). *)
Definition tm_inv (tm : tmachine) : Prop :=
  forall line ts, In (line, ts) (tm_lines tm) ->
                  NoDup (map fst ts) /\ Forall (fun p => fst p < tm_counter tm) ts.

Lemma tm_init_eq : t_tm_init = tm_empty.
Proof. reflexivity. Qed.

Lemma tm_inv_empty : tm_inv tm_empty.
Proof. intros line ts []. Qed.

Lemma dict_get_line {V} (ls : list (nat * V)) l :
  t_dict_get l ls = match option_map snd (find (fun p => (fst p =? l)%nat) ls) with Some v => t_ok v | None => t_raise t_KeyError end.
Proof.
  induction ls as [|[l0 v] r IH]; cbn [t_dict_get find fst]; [reflexivity|].
  destruct (l0 =? l)%nat; [reflexivity|exact IH].
Qed.

Lemma dict_mem_line {V} (ls : list (nat * V)) l :
  t_dict_mem l ls = match find (fun p => (fst p =? l)%nat) ls with Some _ => true | None => false end.
Proof.
  induction ls as [|[l0 v] r IH]; cbn [t_dict_mem find fst]; [reflexivity|].
  destruct (l0 =? l)%nat; [reflexivity|exact IH].
Qed.

Lemma line_get_In ls l ts : line_get ls l = Some ts -> In (l, ts) ls.
Proof.
  unfold line_get. destruct (find (fun p => (fst p =? l)%nat) ls) as [[l0 t0]|] eqn:F; cbn; [|discriminate].
  intros E; injection E as ->. apply find_some in F. destruct F as [Hin Heq]. cbn in Heq.
  apply Nat.eqb_eq in Heq. subst l0. exact Hin.
Qed.

Lemma dict_set_line_some ls l f c ts :
  line_get ls l = Some ts -> t_dict_set l (f ts) ls = line_update ls l f c.
Proof.
  unfold line_get. induction ls as [|[l0 t0] r IH]; cbn [find fst t_dict_set line_update]; [discriminate|].
  destruct (l0 =? l)%nat eqn:E.
  - cbn. intros H; injection H as ->. reflexivity.
  - intros H. rewrite (IH H). reflexivity.
Qed.

Lemma dict_set_line_none ls l f :
  line_get ls l = None -> t_dict_set l (f []) ls = line_update ls l f true.
Proof.
  unfold line_get. induction ls as [|[l0 t0] r IH]; cbn [find fst t_dict_set line_update]; [reflexivity|].
  destruct (l0 =? l)%nat eqn:E; [discriminate|]. intros H. rewrite (IH H). reflexivity.
Qed.

Lemma line_update_none ls l f :
  line_get ls l = None -> line_update ls l f false = ls.
Proof.
  unfold line_get. induction ls as [|[l0 t0] r IH]; cbn [find fst line_update]; [reflexivity|].
  destruct (l0 =? l)%nat eqn:E; [discriminate|]. intros H. rewrite (IH H). reflexivity.
Qed.

(* inside one line *)
Lemma dict_set_fresh (ts : list (nat * bool)) id b :
  Forall (fun p => fst p < id) ts -> t_dict_set id b ts = ts ++ [(id, b)].
Proof.
  induction ts as [|[i x] r IH]; intros H; cbn [t_dict_set app]; [reflexivity|].
  inversion H as [|? ? Hlt Hr]; subst. cbn in Hlt.
  destruct (i =? id)%nat eqn:E; [apply Nat.eqb_eq in E; lia|]. rewrite (IH Hr). reflexivity.
Qed.

Lemma dict_del_filter (ts : list (nat * bool)) id :
  NoDup (map fst ts) -> t_dict_del id ts = filter (fun p => negb (fst p =? id)%nat) ts.
Proof.
  induction ts as [|[i x] r IH]; intros H; cbn [t_dict_del filter fst map]; [reflexivity|].
  inversion H as [|? ? Hni Hr]; subst.
  destruct (i =? id)%nat eqn:E; cbn [negb].
  - apply Nat.eqb_eq in E. subst i. symmetry.
    rewrite (proj2 (filter_ext_in_iff _ (fun _ => true) r)).
    + clear. induction r as [|a r IH]; cbn; [reflexivity|now rewrite IH].
    + intros [j y] Hin. cbn. destruct (j =? id)%nat eqn:E2; [|reflexivity].
      apply Nat.eqb_eq in E2. subst j. exfalso. apply Hni. change id with (fst (id, y)). now apply in_map.
  - rewrite (IH Hr). reflexivity.
Qed.

Lemma dict_set_mid (d r : list (nat * bool)) k v x :
  ~ In k (map fst d) -> t_dict_set k v (d ++ (k, x) :: r) = d ++ (k, v) :: r.
Proof.
  induction d as [|[i y] d' IH]; intros H; cbn [t_dict_set app].
  - rewrite Nat.eqb_refl. reflexivity.
  - cbn [map fst In] in H. destruct (i =? k)%nat eqn:E; [apply Nat.eqb_eq in E; tauto|].
    rewrite IH by tauto. reflexivity.
Qed.

Lemma fold_set_true_gen (rest done : list (nat * bool)) :
  NoDup (map fst (done ++ rest)) ->
  fold_left (fun acc k => t_dict_set k true acc) (map fst rest) (done ++ rest) =
  done ++ map (fun p => (fst p, true)) rest.
Proof.
  revert done. induction rest as [|[k x] r IH]; intros done H; cbn [map fold_left fst]; [reflexivity|].
  rewrite dict_set_mid.
  - change (done ++ (k, true) :: r) with (done ++ [(k, true)] ++ r). rewrite app_assoc.
    rewrite IH.
    + rewrite <- app_assoc. reflexivity.
    + rewrite <- app_assoc. cbn [app]. rewrite map_app in *. cbn [map fst] in *. exact H.
  - rewrite map_app in H. cbn [map fst] in H. apply NoDup_remove_2 in H. intros Hin. apply H. apply in_or_app. now left.
Qed.

Lemma fold_set_true (ts : list (nat * bool)) :
  NoDup (map fst ts) ->
  fold_left (fun acc k => t_dict_set k true acc) (t_dict_keys ts) ts = map (fun p => (fst p, true)) ts.
Proof. intros H. exact (fold_set_true_gen ts [] H). Qed.

Lemma tm_take_ticket_eq tm line :
  tm_inv tm -> t_tm_take_ticket tm line = t_ok (take_ticket tm line).
Proof.
  intros Hinv. destruct tm as [ls c]. unfold t_tm_take_ticket, take_ticket. cbn [tm_lines tm_counter].
  rewrite dict_mem_line, dict_get_line.
  destruct (line_get ls line) as [ts|] eqn:G; unfold line_get in G;
    destruct (find (fun p => (fst p =? line)%nat) ls) as [[l0 t0]|] eqn:F; cbn [option_map snd] in G; try discriminate.
  - injection G as ->. cbn [negb option_map snd t_bind].
    assert (Hl : line_get ls line = Some ts) by (unfold line_get; rewrite F; reflexivity).
    destruct (Hinv line ts (line_get_In _ _ _ Hl)) as [_ Hlt]. cbn [tm_counter] in Hlt.
    rewrite (dict_set_fresh ts c false Hlt).
    rewrite (dict_set_line_some ls line (fun ts => ts ++ [(c, false)]) true ts Hl).
    rewrite Nat.add_1_r. reflexivity.
  - cbn [negb t_bind].
    assert (Hl : line_get ls line = None) by (unfold line_get; rewrite F; reflexivity).
    change (t_dict_set c false []) with ((fun ts => ts ++ [(c, false)]) (@nil (nat * bool))).
    rewrite (dict_set_line_none ls line _ Hl).
    rewrite Nat.add_1_r. reflexivity.
Qed.

Lemma tm_check_ticket_eq tm line id :
  tm_inv tm ->
  t_tm_check_ticket tm line id =
  match check_ticket tm line id with Some r => t_ok r | None => t_raise t_KeyError end.
Proof.
  intros Hinv. destruct tm as [ls c]. unfold t_tm_check_ticket, check_ticket. cbn [tm_lines tm_counter].
  rewrite dict_get_line. fold (line_get ls line).
  destruct (line_get ls line) as [ts|] eqn:Hl; cbn [t_bind]; [|reflexivity].
  rewrite dict_get_line.
  destruct (find (fun p => (fst p =? id)%nat) ts) as [[i [|]]|] eqn:F; cbn [option_map snd t_bind]; try reflexivity.
  destruct (Hinv line ts (line_get_In _ _ _ Hl)) as [Hnd _].
  rewrite (dict_del_filter ts id Hnd).
  rewrite (dict_set_line_some ls line (filter (fun p => negb (fst p =? id)%nat)) false ts Hl). reflexivity.
Qed.

Lemma tm_mark_line_to_go_eq tm line :
  tm_inv tm -> t_tm_mark_line_to_go tm line = t_ok (mark_line_to_go tm line).
Proof.
  intros Hinv. destruct tm as [ls c]. unfold t_tm_mark_line_to_go, mark_line_to_go. cbn [tm_lines tm_counter].
  rewrite dict_mem_line, dict_get_line. fold (line_get ls line).
  destruct (line_get ls line) as [ts|] eqn:Hl; unfold line_get in Hl;
    destruct (find (fun p => (fst p =? line)%nat) ls) as [[l0 t0]|] eqn:F; cbn [option_map snd] in Hl; try discriminate.
  - injection Hl as ->. cbn [t_bind].
    assert (Hl : line_get ls line = Some ts) by (unfold line_get; rewrite F; reflexivity).
    destruct (Hinv line ts (line_get_In _ _ _ Hl)) as [Hnd _].
    rewrite (fold_set_true ts Hnd).
    rewrite (dict_set_line_some ls line (map (fun p => (fst p, true))) false ts Hl). reflexivity.
  - cbn [t_bind].
    assert (Hl' : line_get ls line = None) by (unfold line_get; rewrite F; reflexivity).
    unfold set. cbn. rewrite (line_update_none ls line _ Hl'). reflexivity.
Qed.

(* tm_inv is an invariant of the model's ticket machine *)
Lemma line_update_In ls line f cr l ts' :
  In (l, ts') (line_update ls line f cr) ->
  In (l, ts') ls \/ (exists ts, In (l, ts) ls /\ ts' = f ts) \/ ts' = f [].
Proof.
  induction ls as [|[l0 t0] r IH]; cbn [line_update].
  - destruct cr; cbn; [|tauto]. intros [E|[]]. injection E as <- <-. right; right; reflexivity.
  - destruct (l0 =? line)%nat.
    + cbn [In]. intros [E|H].
      * injection E as <- <-. right; left. exists t0. split; [now left|reflexivity].
      * left. now right.
    + cbn [In]. intros [E|H]; [left; now left|].
      destruct (IH H) as [H1|[[ts [H1 H2]]|H1]]; [left; now right| |right; right; exact H1].
      right; left. exists ts. split; [now right|exact H2].
Qed.

Lemma inv_line_step (P Q : list (nat * bool) -> Prop) ls line f cr :
  (forall l ts, In (l, ts) ls -> P ts) ->
  (forall ts, P ts -> Q ts) -> (forall ts, P ts -> Q (f ts)) -> Q (f []) ->
  forall l ts, In (l, ts) (line_update ls line f cr) -> Q ts.
Proof.
  intros HP HPQ Hf H0 l ts Hin.
  destruct (line_update_In _ _ _ _ _ _ Hin) as [H|[[t0 [H1 H2]]|H2]]; subst; [apply HPQ; eauto|apply Hf; eauto|exact H0].
Qed.

Lemma NoDup_snoc (l : list nat) c : NoDup l -> ~ In c l -> NoDup (l ++ [c]).
Proof.
  induction l as [|a r IH]; intros Hnd Hni; cbn [app]; [constructor; [intros []|constructor]|].
  inversion Hnd as [|? ? Ha Hr]; subst. constructor.
  - intros Hin. apply in_app_or in Hin. destruct Hin as [Hin|[E|[]]]; [tauto|]. subst. apply Hni. now left.
  - apply IH; [exact Hr|]. intros Hin. apply Hni. now right.
Qed.

Lemma tm_inv_take tm line : tm_inv tm -> tm_inv (snd (take_ticket tm line)).
Proof.
  intros Hinv. destruct tm as [ls c]. unfold take_ticket, set. cbn. unfold tm_inv. cbn [tm_lines tm_counter].
  apply (inv_line_step (fun ts => NoDup (map fst ts) /\ Forall (fun p => fst p < c) ts)); [exact Hinv| | |].
  - intros ts [Hnd Hlt]. split; [exact Hnd|]. eapply Forall_impl; [|exact Hlt]. cbn. intros; lia.
  - intros ts [Hnd Hlt]. split.
    + rewrite map_app. cbn [map fst]. apply NoDup_snoc; [exact Hnd|].
      intros Hin. apply in_map_iff in Hin. destruct Hin as [p [Hp Hin]].
      rewrite Forall_forall in Hlt. specialize (Hlt p Hin). lia.
    + apply Forall_app. split; [eapply Forall_impl; [|exact Hlt]; cbn; intros; lia|].
      constructor; [cbn; lia|constructor].
  - split; [cbn; constructor; [intros []|constructor]|constructor; [cbn; lia|constructor]].
Qed.

Lemma tm_inv_mark tm line : tm_inv tm -> tm_inv (mark_line_to_go tm line).
Proof.
  intros Hinv. destruct tm as [ls c]. unfold mark_line_to_go, set. cbn. unfold tm_inv. cbn [tm_lines tm_counter].
  apply (inv_line_step (fun ts => NoDup (map fst ts) /\ Forall (fun p => fst p < c) ts)); [exact Hinv|tauto| |].
  - intros ts [Hnd Hlt]. split.
    + rewrite map_map. cbn [fst]. exact Hnd.
    + rewrite Forall_map. cbn [fst]. exact Hlt.
  - split; constructor.
Qed.

Lemma tm_inv_check tm line id b tm' : tm_inv tm -> check_ticket tm line id = Some (b, tm') -> tm_inv tm'.
Proof.
  intros Hinv. destruct tm as [ls c]. unfold check_ticket. cbn [tm_lines].
  destruct (line_get ls line) as [ts|]; [|discriminate].
  destruct (find (fun p => (fst p =? id)%nat) ts) as [[i [|]]|]; [| |discriminate]; intros E; injection E as <- <-; [|exact Hinv].
  unfold set. cbn. unfold tm_inv. cbn [tm_lines tm_counter].
  apply (inv_line_step (fun ts => NoDup (map fst ts) /\ Forall (fun p => fst p < c) ts)); [exact Hinv|tauto| |].
  - intros t0 [Hnd Hlt]. split.
    + clear Hlt. induction t0 as [|[j y] r IH]; cbn [filter map fst]; [constructor|].
      inversion Hnd as [|? ? Hni Hr]; subst.
      destruct (negb (j =? id)%nat); [|exact (IH Hr)]. cbn [map fst]. constructor; [|exact (IH Hr)].
      intros Hin. apply Hni. apply in_map_iff in Hin. destruct Hin as [p [Hp Hin]]. apply filter_In in Hin.
      apply in_map_iff. exists p. tauto.
    + rewrite Forall_forall in *. intros p Hp. apply filter_In in Hp. apply Hlt. tauto.
  - split; constructor.
Qed.

(* ================================================================== ScreenStack / ScreenData / _get_last_screen *)
(* Python keeps the stack bottom first (list.append pushes, list.pop() pops the end); ScreenSem.st_stack is
   TOP FIRST: the representation function is [rev]. *)
Lemma ss_init_eq : t_ss_init = rev [].
Proof. reflexivity. Qed.
Lemma ss_empty_eq st : t_ss_empty (rev st) = t_ok (match st with [] => true | _ :: _ => false end).
Proof.
  unfold t_ss_empty. destruct st as [|d r]; [reflexivity|]. cbn [rev].
  destruct (rev r ++ [d]) eqn:E; [apply app_eq_nil in E; destruct E; discriminate|reflexivity].
Qed.
Lemma ss_size_eq st : t_ss_size (rev st) = t_ok (length st).
Proof. unfold t_ss_size. now rewrite rev_length. Qed.
Lemma ss_append_eq st d : t_ss_append (rev st) d = t_ok (rev (d :: st)).
Proof. reflexivity. Qed.
Lemma ss_add_first_eq st d : t_ss_add_first (rev st) d = t_ok (rev (st ++ [d])).
Proof. unfold t_ss_add_first, t_list_insert. cbn [firstn skipn app]. now rewrite rev_app_distr. Qed.
Lemma ss_pop_eq st :
  t_ss_pop (rev st) t_ss_pop_default_remove =
  match st with [] => t_raise t_ScreenStackEmptyException | top :: r => t_ok (top, rev r) end.
Proof.
  unfold t_ss_pop, t_ss_pop_default_remove, t_list_pop_last. rewrite rev_involutive.
  destruct st as [|top r]; reflexivity.
Qed.
Lemma ss_peek_eq st :
  t_ss_pop (rev st) false =
  match st with [] => t_raise t_ScreenStackEmptyException | top :: _ => t_ok (top, rev st) end.
Proof.
  unfold t_ss_pop, t_list_last. rewrite rev_involutive. destruct st as [|top r]; reflexivity.
Qed.
(* ScreenScheduler._get_last_screen = ScreenSem.with_top: ExitMainLoop on the empty stack, else the top, stack unchanged *)
Lemma get_last_screen_eq st :
  t_sched_get_last_screen (rev st) =
  match st with [] => t_raise t_ExitMainLoop | top :: _ => t_ok (top, rev st) end.
Proof.
  unfold t_sched_get_last_screen. rewrite ss_empty_eq. cbn [t_bind].
  destruct st as [|top r]; [reflexivity|]. rewrite ss_peek_eq. reflexivity.
Qed.
Lemma screen_data_eq :
  (forall id s a m, t_ScreenData id s a m = {| sd_id := id; sd_scr := s; sd_args := a; sd_modal := m |}) /\
  (forall id s a, t_sched_schedule_screen_data id s a = {| sd_id := id; sd_scr := s; sd_args := a; sd_modal := false |}) /\
  (forall id s a, t_sched_push_screen_data id s a = {| sd_id := id; sd_scr := s; sd_args := a; sd_modal := false |}) /\
  (forall id s a, t_sched_push_screen_modal_data id s a = {| sd_id := id; sd_scr := s; sd_args := a; sd_modal := true |}) /\
  t_ScreenData_default_args = 0.
Proof. repeat split; reflexivity. Qed.
(* which end of the stack schedule / push / push_modal use (ScreenSem.do_scmd: SSchedule appends at the bottom,
   SPush / SPushModal cons on top) *)
Lemma sched_stack_ops_eq st d :
  t_sched_schedule_screen_stack (rev st) d = t_ok (rev (st ++ [d])) /\
  t_sched_push_screen_stack (rev st) d = t_ok (rev (d :: st)) /\
  t_sched_push_screen_modal_stack (rev st) d = t_ok (rev (d :: st)).
Proof. repeat split; try reflexivity. apply ss_add_first_eq. Qed.

(* ================================================================== EventQueue / MainLoop.enqueue_signal *)
Lemma eq_init_eq : t_eq_init = empty_queue.
Proof. reflexivity. Qed.
Lemma eq_empty_eq q : t_eq_empty q = t_ok (q_empty q).
Proof. reflexivity. Qed.
Lemma eq_put_eq q sg : t_eq_put q sg = t_ok (q_put q sg).
Proof. reflexivity. Qed.
Lemma eq_enqueue_eq q sg : t_eq_enqueue q sg = t_ok (q_put q sg).
Proof. reflexivity. Qed.
Lemma eq_contains_source_eq q src : t_eq_contains_source q src = t_ok (q_contains_source q src).
Proof. reflexivity. Qed.
Lemma eq_remove_source_eq q o : t_eq_remove_source q o = q_remove_source q o.
Proof. unfold t_eq_remove_source, q_remove_source, t_set_mem. destruct q as [e c s]. cbn. destruct (existsb (Nat.eqb o) s); reflexivity. Qed.
Lemma eq_remove_source_keeps_pending q o q' :
  q_remove_source q o = Some q' -> eq_entries q' = eq_entries q /\ eq_counter q' = eq_counter q.
Proof.
  unfold q_remove_source. destruct q as [e c s]. cbn. destruct (existsb (Nat.eqb o) s); intros H; inversion H; subst; cbn; split; reflexivity.
Qed.
Lemma filter_out_not_mem o s : existsb (Nat.eqb o) (filter (fun x => negb (Nat.eqb o x)) s) = false.
Proof.
  induction s as [|a s IH]; cbn; [reflexivity|].
  destruct (Nat.eqb o a) eqn:E; cbn; [exact IH|]. rewrite E. cbn. exact IH.
Qed.
Lemma filter_out_other_mem o x s : x <> o ->
  existsb (Nat.eqb x) (filter (fun y => negb (Nat.eqb o y)) s) = existsb (Nat.eqb x) s.
Proof.
  intros Hx. induction s as [|a s IH]; cbn; [reflexivity|].
  destruct (Nat.eqb o a) eqn:E; cbn.
  - apply Nat.eqb_eq in E. subst a. destruct (Nat.eqb x o) eqn:E2; [apply Nat.eqb_eq in E2; contradiction|]. cbn. exact IH.
  - rewrite IH. reflexivity.
Qed.
Lemma eq_remove_source_removes q o q' :
  q_remove_source q o = Some q' ->
  q_contains_source q' (Some o) = false /\
  forall x, x <> o -> q_contains_source q' (Some x) = q_contains_source q (Some x).
Proof.
  unfold q_remove_source, q_contains_source. destruct q as [e c s]. cbn.
  destruct (existsb (Nat.eqb o) s); intros H; inversion H; subst; cbn. split.
  - apply filter_out_not_mem.
  - intros x Hx. apply filter_out_other_mem. exact Hx.
Qed.
Lemma eq_remove_source_refuses q o : q_contains_source q (Some o) = false -> q_remove_source q o = None.
Proof. unfold q_remove_source, q_contains_source. intros H. rewrite H. reflexivity. Qed.
Lemma eq_add_source_eq q o : t_eq_add_source q o = t_ok (q_add_source q o).
Proof. unfold t_eq_add_source, q_add_source, t_set_add, t_set_mem. destruct q as [e c s]. cbn. destruct (existsb (Nat.eqb o) s); reflexivity. Qed.
Lemma eq_enqueue_if_source_belongs_eq q sg src :
  t_eq_enqueue_if_source_belongs q sg src =
  t_ok (if q_contains_source q src then (true, q_put q sg) else (false, q)).
Proof.
  unfold t_eq_enqueue_if_source_belongs. destruct q as [e c s]. cbn [eq_entries eq_counter eq_sources].
  rewrite eq_contains_source_eq. cbn [t_bind].
  destruct (q_contains_source _ src); reflexivity.
Qed.

(* EventQueue.get / get_top_event_if_priority against LoopSem.q_pop and the inline code of CProcIter
   (an entry of another priority goes back with q_put_entry) *)
Lemma eq_get_eq q :
  t_eq_get q = match q_pop q with None => t_raise t_Blocked | Some ((_, _, sg), q') => t_ok (sg, q') end.
Proof.
  unfold t_eq_get, q_pop, t_pq_get. destruct q as [[|e r] c s]; cbn [eq_entries eq_counter eq_sources]; [reflexivity|].
  cbn [t_bind fst snd]. destruct (min_entry e r) as [[p cnt] sg]. reflexivity.
Qed.
Lemma eq_get_top_event_if_priority_eq q prio :
  t_eq_get_top_event_if_priority q prio =
  match q_pop q with
  | None => t_raise t_Blocked
  | Some ((p, cnt, sg), q') =>
    if (p =? prio)%Z then t_ok (Some sg, q') else t_ok (None, q_put_entry q' (p, cnt, sg))
  end.
Proof.
  unfold t_eq_get_top_event_if_priority, q_pop, t_pq_get. destruct q as [[|e r] c s]; cbn [eq_entries eq_counter eq_sources]; [reflexivity|].
  cbn [t_bind fst snd]. destruct (min_entry e r) as [[p cnt] sg]. cbn [fst snd].
  destruct (p =? prio)%Z; reflexivity.
Qed.

Lemma set_nth_same {A} (l : list A) n d : set_nth l n (nth n l d) = l.
Proof. revert n. induction l as [|a r IH]; intros [|n]; cbn; try reflexivity. now rewrite IH. Qed.

Section Routing.
  Context {U : Type}.
  (* for queue in reversed(self._event_queues): if queue.enqueue_if_source_belongs(signal, signal.source): return *)
  Lemma ml_enqueue_loop_eq (s : lstate U) l sg :
    t_ml_enqueue_loop (qstore s) l sg =
    t_ok (match route s l (sg_src sg) with
          | Some q => (true, set_nth (qstore s) q (q_put (get_q s q) sg))
          | None => (false, qstore s)
          end).
  Proof.
    induction l as [|q r IH]; cbn [t_ml_enqueue_loop route]; [reflexivity|].
    rewrite eq_enqueue_if_source_belongs_eq. cbn [t_bind]. unfold get_q at 1.
    destruct (q_contains_source (nth q (qstore s) empty_queue) (sg_src sg)); cbn [fst snd].
    - reflexivity.
    - rewrite set_nth_same. exact IH.
  Qed.

  (* MainLoop.enqueue_signal leaves the queues exactly as LoopSem.do_enqueue does *)
  Lemma ml_enqueue_signal_eq (s : lstate U) sg :
    t_ml_enqueue_signal (force_quit s) (qstore s) (levels s) (active s) sg = t_ok (qstore (do_enqueue s sg)).
  Proof.
    unfold t_ml_enqueue_signal, do_enqueue. destruct (force_quit s); [reflexivity|].
    rewrite ml_enqueue_loop_eq. cbn [t_bind].
    destruct (route s (rev (levels s)) (sg_src sg)) as [q|]; cbn [fst snd]; [reflexivity|].
    rewrite eq_enqueue_eq. reflexivity.
  Qed.
End Routing.

(* ================================================================== InputManager.process_input: the error counter *)
(* the model's update of ss_err in ScreenSem.process_input, and the arguments of process_input_result *)
Lemma error_counter_update_eq act (s : scrst) :
  match act with AError => s <| ss_err := S (ss_err s) |> | _ => s <| ss_err := 0 |> end =
  s <| ss_err := t_error_counter_update act (ss_err s) |>.
Proof. unfold t_error_counter_update. destruct act; cbn [t_was_successful]; try reflexivity. now rewrite Nat.add_1_r. Qed.
Lemma process_input_after_eq act c :
  t_process_input_after act c =
  let c' := match act with AError => S c | _ => 0 end in (c', (act, (Nat.modulo c' 5 =? 0)%nat)).
Proof.
  unfold t_process_input_after, t_error_counter_update.
  destruct act; cbn [t_was_successful]; try reflexivity. now rewrite Nat.add_1_r.
Qed.
Lemma is_input_expected_eq none c :
  t_is_input_expected none c = if none then (false, 0) else (true, c).
Proof. reflexivity. Qed.

(* ================================================================== ScreenScheduler.process_input_result *)
Lemma process_input_result_eq spec act sr : t_process_input_result spec act sr = process_input_result spec act sr.
Proof. destruct act; reflexivity. Qed.

(* ================================================================== Prompt: option methods and __str__ *)
Lemma prompt_init_eq m : t_prompt_init m = t_ok (Prompt.new_prompt m).
Proof. reflexivity. Qed.
Lemma prompt_defaults_eq :
  t_prompt_init_default_message = Some Prompt.DEFAULT_MESSAGE /\
  t_prompt_add_refresh_option_default_description = Prompt.REFRESH_DESCRIPTION /\
  t_prompt_add_continue_option_default_description = Prompt.CONTINUE_DESCRIPTION /\
  t_prompt_add_quit_option_default_description = Prompt.QUIT_DESCRIPTION /\
  t_prompt_add_help_option_default_description = Prompt.HELP_DESCRIPTION.
Proof. repeat split; reflexivity. Qed.
Lemma prompt_set_message_eq p m : t_prompt_set_message p m = t_ok (Prompt.set_message p m).
Proof. reflexivity. Qed.
Lemma prompt_add_option_eq p k d : t_prompt_add_option p k d = t_ok (Prompt.add_option p k d).
Proof. reflexivity. Qed.
Lemma prompt_update_option_eq p k d : t_prompt_update_option p k d = t_ok (Prompt.update_option p k d).
Proof. reflexivity. Qed.
Lemma prompt_add_special_eq p d :
  t_prompt_add_refresh_option p d = t_ok (Prompt.add_refresh_option p d) /\
  t_prompt_add_continue_option p d = t_ok (Prompt.add_continue_option p d) /\
  t_prompt_add_quit_option p d = t_ok (Prompt.add_quit_option p d) /\
  t_prompt_add_help_option p d = t_ok (Prompt.add_help_option p d).
Proof.
  destruct p as [m o].
  unfold t_prompt_add_refresh_option, t_prompt_add_continue_option, t_prompt_add_quit_option, t_prompt_add_help_option,
    Prompt.add_refresh_option, Prompt.add_continue_option, Prompt.add_quit_option, Prompt.add_help_option, Prompt.add_special.
  cbn [Prompt.p_message Prompt.p_options].
  change t_REFRESH with Prompt.REFRESH. change t_CONTINUE with Prompt.CONTINUE.
  change t_QUIT with Prompt.QUIT. change t_HELP with Prompt.HELP.
  repeat split.
  - destruct (Prompt.dict_mem o Prompt.REFRESH); reflexivity.
  - destruct (Prompt.dict_mem o Prompt.CONTINUE); reflexivity.
  - destruct (Prompt.dict_mem o Prompt.QUIT); reflexivity.
  - destruct (Prompt.dict_mem o Prompt.HELP); reflexivity.
Qed.
(* remove_option returns options.pop(key, None): the old description or None *)
Lemma prompt_remove_option_eq p k :
  t_prompt_remove_option p k = t_ok (Prompt.dict_get (Prompt.p_options p) k, Prompt.remove_option p k).
Proof. reflexivity. Qed.
Lemma prompt_str_eq p : t_prompt_str p = Prompt.prompt_str p.
Proof.
  destruct p as [[[|c r]|] [|o os]]; reflexivity.
Qed.

(* ================================================================== what a draw prints around the widget *)
Lemma concat_repeat_single {A} (c : A) n : List.concat (List.repeat [c] n) = List.repeat c n.
Proof. induction n as [|n IH]; cbn; [reflexivity|now rewrite IH]. Qed.
Lemma spacer_eq w : t_spacer w = ScreenOut.spacer w.
Proof.
  unfold t_spacer, ScreenOut.spacer, t_list_mul, t_str_mul, ScreenOut.rule. cbn [repeat concat app].
  unfold PyInt.str. rewrite (concat_repeat_single 61%N). cbn [Prompt.join TextWrap.join_nl]. reflexivity.
Qed.
Lemma continue_message_eq : t_continue_message = ScreenOut.continue_message /\ t_ENTER = ScreenOut.ENTER.
Proof. split; reflexivity. Qed.
Lemma prompt_height_eq : t_prompt_height = 2%Z.
Proof. reflexivity. Qed.
