(* ContainersFinal.v — C13: the hypotheses of the _partial theorems discharged with the width theorem
   of TextWidget.render (C11: proofs/TextWrapRender.v, render_width), for trees without a forced
   column width below the list under consideration. *)
From SL Require Import Tac.
From SL Require Import PyInt Widget TextWrap KeyPattern Containers
     proofs.TextWrapRender proofs.WidgetProofs
     proofs.ContainersProofs proofs.ContainersLayout proofs.ContainersGeom proofs.ContainersCells.
Import ListNotations.

(* texts, separators, centred widgets, list containers without forced width and spacing >= 0,
   windows — nested in any way *)
Definition plain_tree : wtree -> Prop := fit_tree (fun _ => True).

Lemma text_width_all t w b : True -> (0 < w)%Z -> render_text t w = ROk b -> (Z.of_nat (buf_width b) <= w)%Z.
Proof.
  intros _ Hw H. apply render_width in H.
  assert (Hb : buf_width b <= Z.to_nat w).
  { apply buf_width_le. eapply Forall_impl; [|exact H]. cbn beta. intros l Hl. lia. }
  lia.
Qed.

Lemma plain_tree_within_width t w b :
  plain_tree t -> (0 <= w)%Z -> render_tree t w = ROk b -> Forall (fun l : line => (Z.of_nat (length l) <= w)%Z) b.
Proof. apply (fit_tree_within_width (fun _ => True) text_width_all). Qed.

Lemma plain_items_width items :
  Forall plain_tree items ->
  forall it w' b', In it items -> (0 < w')%Z -> render_tree it w' = ROk b' -> (Z.of_nat (buf_width b') <= w')%Z.
Proof.
  intros Hall it w' b' Hin Hw H. rewrite Forall_forall in Hall.
  apply (fit_tree_width_fuel (fun _ => True) text_width_all (depth it) it (le_n _) (Hall it Hin) w' b'); [lia|exact H].
Qed.

Lemma label_width_all (kp : option key_pattern) :
  forall kp' i lb, kp = Some kp' -> label_buffer kp' i = ROk lb -> buf_width lb <= length (get_widget_label kp' i).
Proof.
  intros kp' i lb _ H. unfold label_buffer in H. cbv zeta in H.
  apply (text_width0 (fun _ => True) text_width_all) in H; [lia|exact I|lia].
Qed.

(* the one-level theorems for a list (forced width or not) whose items are plain trees *)
Lemma plain_list_width_bound kind columns items forced spacing kp w b :
  (0 <= spacing)%Z -> Forall plain_tree items ->
  render_tree (WList kind columns items forced spacing kp) w = ROk b ->
  b = [] \/
  ((0 < list_columns_width columns forced spacing w)%Z /\
   (Z.of_nat (buf_width b) <= columns * list_columns_width columns forced spacing w + (columns - 1) * spacing)%Z).
Proof.
  intros Hs Hall. apply list_width_bound; [exact Hs|now apply plain_items_width|apply label_width_all].
Qed.

Lemma plain_list_closed_form kind columns items forced spacing kp w b :
  (0 <= spacing)%Z -> Forall plain_tree items ->
  render_tree (WList kind columns items forced spacing kp) w = ROk b ->
  items <> [] ->
  let cw := list_columns_width columns forced spacing w in
  let omap := ordered_map kind (length items) (Z.to_nat columns) in
  exists rendered,
    render_all_items render_tree items 0 cw kp = ROk rendered /\
    Forall (item_fits (Z.to_nat cw)) rendered /\
    b = fold_left (draw_item rendered)
          (all_placements omap (lines_per_every_row omap (map item_height rendered)) 0 (Z.to_nat (cw + spacing))) [].
Proof.
  intros Hs Hall. apply render_list_closed_form; [exact Hs|now apply plain_items_width|apply label_width_all].
Qed.

Lemma plain_list_cells kind columns items forced spacing kp w b :
  (0 <= spacing)%Z -> Forall plain_tree items ->
  render_tree (WList kind columns items forced spacing kp) w = ROk b ->
  let cw := list_columns_width columns forced spacing w in
  let omap := ordered_map kind (length items) (Z.to_nat columns) in
  exists rendered,
    render_all_items render_tree items 0 cw kp = ROk rendered /\
    forall k r i, k < length omap -> nth_error (nth k omap []) r = Some i ->
      item_shown rendered b
        (i, (rowstart (lines_per_every_row omap (map item_height rendered)) r, k * Z.to_nat (cw + spacing))).
Proof.
  intros Hs Hall. apply render_list_cells; [exact Hs|now apply plain_items_width|apply label_width_all].
Qed.

(* labels render: the hypothesis of C13_refused_label holds for every pattern *)
Lemma label_renders kp' j : exists lb, label_buffer kp' j = ROk lb.
Proof.
  unfold label_buffer. cbv zeta.
  destruct (render_text_cases (simple_text (get_widget_label kp' j)) (Z.of_nat (length (get_widget_label kp' j))))
    as [[H _]|[[_ [H1 H2]]|[H1 H2]]].
  - eauto.
  - exfalso. cbn [t_text simple_text] in H1. destruct (get_widget_label kp' j); [congruence|cbn [length] in H2; lia].
  - rewrite render_text_eq by assumption. eauto.
Qed.

Lemma list_refused_label_total kind columns items forced spacing kp' w i :
  (0 < columns)%Z -> i < length items ->
  let cw := list_columns_width columns forced spacing w in
  (cw - Z.of_nat (length (get_widget_label kp' i)) <= 0)%Z ->
  (forall j it, j < i -> nth_error items j = Some it ->
     exists b, render_tree it (cw - Z.of_nat (length (get_widget_label kp' j)))%Z = ROk b) ->
  render_tree (WList kind columns items forced spacing (Some kp')) w = RValueError.
Proof.
  intros Hc Hi cw Hw Hok. apply (list_refused_label kind columns items forced spacing kp' w i Hc Hi Hw); [|exact Hok].
  intros j _. apply label_renders.
Qed.

Lemma render_tree_text t w : render_tree (WText t) w = render_text t w.
Proof. reflexivity. Qed.

Lemma text_renders_positive t w : (0 < w)%Z -> exists b, render_text t w = ROk b.
Proof.
  intros Hw. destruct (render_text_cases t w) as [[H _]|[[_ [_ H]]|[H1 H2]]]; [eauto|lia|].
  rewrite render_text_eq by assumption. eauto.
Qed.

(* a list of texts with numbering on is refused as soon as SOME label leaves no room *)
Lemma text_items_refused kp' ts : forall id cw,
  (exists i, i < length ts /\ (cw - Z.of_nat (length (get_widget_label kp' (id + i))) <= 0)%Z) ->
  render_all_items render_tree (map WText ts) id cw (Some kp') = RValueError.
Proof.
  induction ts as [|t ts IH]; intros id cw [i [Hi Hw]]; cbn [length] in Hi; [lia|].
  cbn [map render_all_items]. destruct (cw <=? 0)%Z eqn:Ecw; [reflexivity|].
  destruct (label_renders kp' id) as [lb Hlb]. rewrite Hlb. cbn [bind].
  destruct (cw - Z.of_nat (length (get_widget_label kp' id)) <=? 0)%Z eqn:Eiw; [reflexivity|].
  rewrite render_tree_text.
  destruct (text_renders_positive t (cw - Z.of_nat (length (get_widget_label kp' id)))%Z ltac:(lia)) as [b Hb].
  rewrite Hb. cbn [bind]. rewrite IH; [reflexivity|].
  destruct i as [|i]; [rewrite Nat.add_0_r in Hw; lia|].
  exists i. split; [lia|]. replace (S id + i) with (id + S i) by lia. exact Hw.
Qed.

Lemma text_list_refused kind columns ts forced spacing kp' w i :
  (0 < columns)%Z -> i < length ts ->
  (list_columns_width columns forced spacing w - Z.of_nat (length (get_widget_label kp' i)) <= 0)%Z ->
  render_tree (WList kind columns (map WText ts) forced spacing (Some kp')) w = RValueError.
Proof.
  intros Hc Hi Hw. rewrite render_tree_list. destruct (columns <=? 0)%Z eqn:E; [lia|]. cbv zeta.
  rewrite text_items_refused; [reflexivity|]. exists i. split; [exact Hi|exact Hw].
Qed.

(* ------------------------------------------------------------------ blank elsewhere / determined, plain items *)
From SL Require Import proofs.ContainersBlank.

Lemma plain_list_determined kind columns items forced spacing kp w b :
  (0 <= spacing)%Z -> Forall plain_tree items ->
  render_tree (WList kind columns items forced spacing kp) w = ROk b ->
  let cw := list_columns_width columns forced spacing w in
  let omap := ordered_map kind (length items) (Z.to_nat columns) in
  exists rendered,
    render_all_items render_tree items 0 cw kp = ROk rendered /\
    Forall (item_fits (Z.to_nat cw)) rendered /\
    let ps := all_placements omap (lines_per_every_row omap (map item_height rendered)) 0 (Z.to_nat (cw + spacing)) in
    let stamps := list_stamps rendered ps in
    length b = spec_height stamps /\
    (forall i j, cell b i j = spec_cell stamps i j) /\
    (forall i j s, In s stamps -> in_stamp s i j = true ->
                   cell b i j = cell (st_src s) (i - st_row s) (j - st_col s)) /\
    (forall i j, (forall s, In s stamps -> in_stamp s i j = false) ->
                 cell b i j = if existsb (fun s => pads s i j) stamps then Some SP else None).
Proof.
  intros Hs Hall. apply render_list_determined; [exact Hs|now apply plain_items_width|apply label_width_all].
Qed.

Lemma plain_list_blank_elsewhere kind columns items forced spacing kp w b :
  (0 <= spacing)%Z -> Forall plain_tree items ->
  render_tree (WList kind columns items forced spacing kp) w = ROk b ->
  let cw := list_columns_width columns forced spacing w in
  let omap := ordered_map kind (length items) (Z.to_nat columns) in
  exists rendered,
    render_all_items render_tree items 0 cw kp = ROk rendered /\
    let lpr := lines_per_every_row omap (map item_height rendered) in
    forall y x ch, cell b y x = Some ch ->
      (forall k r i, k < length omap -> nth_error (nth k omap []) r = Some i ->
         item_covers rendered (i, (rowstart lpr r, k * Z.to_nat (cw + spacing))) y x = false) ->
      ch = SP.
Proof.
  intros Hs Hall. apply render_list_blank_elsewhere; [exact Hs|now apply plain_items_width|apply label_width_all].
Qed.

Lemma plain_list_blank_outside_rects kind columns items forced spacing kp w b :
  (0 <= spacing)%Z -> Forall plain_tree items ->
  render_tree (WList kind columns items forced spacing kp) w = ROk b ->
  let cw := list_columns_width columns forced spacing w in
  let omap := ordered_map kind (length items) (Z.to_nat columns) in
  exists rendered,
    render_all_items render_tree items 0 cw kp = ROk rendered /\
    let lpr := lines_per_every_row omap (map item_height rendered) in
    forall y x ch, cell b y x = Some ch ->
      (forall k r i, k < length omap -> nth_error (nth k omap []) r = Some i ->
         ~ (rowstart lpr r <= y < rowstart lpr r + item_height (nth i rendered ([], None)) /\
            k * Z.to_nat (cw + spacing) <= x < k * Z.to_nat (cw + spacing) + Z.to_nat cw)) ->
      ch = SP.
Proof.
  intros Hs Hall. apply render_list_blank_outside_rects; [exact Hs|now apply plain_items_width|apply label_width_all].
Qed.
