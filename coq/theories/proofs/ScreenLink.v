(* ScreenLink.v -- the link between the screen-layer world [sworld] (rebuilt from the events, ScreenMon.v)
   and the concrete screen-layer state [sstate] (ScreenSem.v), and the proof machinery to carry it
   through [exec (screen_code specs)].

   Part A (generic, any user state U / handler table):
     - [acc_tr]: a trace all of whose events are accepted by a screen-layer acceptor; [acc_sok];
     - [wp n p s Q]: a weakest-precondition style statement about [exec code f (CProg p) s] for every
       fuel f <= n, with proof rules for every constructor of [prog];
     - [loop_inv]: a predicate J on [lstate U] that depends on the trace and the user state only, is kept
       by the loop's own events, and is kept by every handler body (for fuel <= n), is kept by every
       loop-level call (for fuel <= S n).  This is the "invariant rule" of the event loop: the loop-level
       part of the state evolves independently of [ust].
   Part B (screen layer): [SW], the core of the world ([cw], [core], [cstep]), the invariant [Inv]
     (ideal stack = concrete stack, ...), one lemma per method of the screen layer, [exec_inv]. *)
From SL Require Import Tac.
From RecordUpdate Require Import RecordUpdate.
From SL Require Import PyInt LoopSem ScreenSem ScreenMon.
Import ListNotations.

(* ================================================================ accepted traces *)
Definition world_of (typed : list (option str)) (t : list event) : sworld :=
  fold_left sworld_step t (sworld0 typed).

(* [tr] is newest first, like [trace s] *)
Fixpoint acc_tr (chk : sworld -> event -> bool) (typed : list (option str)) (tr : list event) : Prop :=
  match tr with
  | [] => True
  | e :: r => acc_tr chk typed r /\ chk (world_of typed (rev r)) e = true
  end.

Lemma srun_mon_snoc chk t : forall w idx e,
  srun_mon chk w (t ++ [e]) idx =
  match srun_mon chk w t idx with
  | Some k => Some k
  | None => if chk (fold_left sworld_step t w) e then None else Some (idx + length t)
  end.
Proof.
  induction t as [|a t IH]; intros w idx e; cbn [app srun_mon fold_left length].
  - rewrite Nat.add_0_r. reflexivity.
  - destruct (chk w a); [|reflexivity]. rewrite IH. rewrite Nat.add_succ_comm. reflexivity.
Qed.

Lemma acc_run chk typed tr : acc_tr chk typed tr -> srun_mon chk (sworld0 typed) (rev tr) 0 = None.
Proof.
  induction tr as [|e r IH]; cbn [acc_tr rev]; [reflexivity|].
  intros [Hr He]. rewrite srun_mon_snoc, (IH Hr). unfold world_of in He. rewrite He. reflexivity.
Qed.

Lemma acc_sok chk typed tr : acc_tr chk typed tr -> sok chk typed (rev tr) = true.
Proof. intros H. unfold sok. rewrite (acc_run _ _ _ H). reflexivity. Qed.

Lemma acc_weaken (chk chk' : sworld -> event -> bool) typed tr :
  (forall w e, chk w e = true -> chk' w e = true) -> acc_tr chk typed tr -> acc_tr chk' typed tr.
Proof. intros Hw. induction tr as [|e r IH]; cbn [acc_tr]; [auto|]. intros [Hr He]. split; auto. Qed.

(* ================================================================ Part A: generic rules *)
(* events the loop itself emits apart from EHandler / EHandlerEnd *)
Definition loop_event (e : event) : bool :=
  match e with
  | EHandler _ _ _ | EHandlerEnd _ _ _ | ETop | EUser _ _ _ | EMark _ => false
  | _ => true
  end.

(* the API calls that never run a handler *)
Definition simple_api (a : api) : bool :=
  match a with ANewLoop _ | ACloseLoop | AProcess _ => false | _ => true end.

Section Generic.
  Context {U : Type} (code : nat -> signal -> nat -> prog U).
  Implicit Types s : lstate U.

  Variable Acc : lstate U -> Prop.
  Hypothesis Acc_same : forall s s', trace s' = trace s -> Acc s -> Acc s'.

  Definition post (Q : outcome -> lstate U -> Prop) (o : outcome) (s' : lstate U) : Prop :=
    match o with OFuel | OBlocked => Acc s' | _ => Q o s' end.

  Lemma post_imp (Q Q' : outcome -> lstate U -> Prop) o s' :
    (forall o s', o <> OFuel -> o <> OBlocked -> Q o s' -> Q' o s') -> post Q o s' -> post Q' o s'.
  Proof. intros H. destruct o; cbn [post]; auto; apply H; discriminate. Qed.

  (* ---------------------------------------------------------------- wp *)
  Definition wp (n : nat) (p : prog U) (s : lstate U) (Q : outcome -> lstate U -> Prop) : Prop :=
    Acc s /\ forall f, f <= n -> forall o s', exec code f (CProg p) s = (o, s') -> post Q o s'.

  Definition K (n : nat) (q : prog U) (Q : outcome -> lstate U -> Prop) : outcome -> lstate U -> Prop :=
    fun o s1 => match o with ONormal => wp n q s1 Q | _ => Q o s1 end.
  Definition KT (n : nat) (h : prog U) (Q : outcome -> lstate U -> Prop) : outcome -> lstate U -> Prop :=
    fun o s1 => match o with OThrow XError => wp n h s1 Q | _ => Q o s1 end.

  Lemma wp_acc n p s Q : wp n p s Q -> Acc s.
  Proof using Acc_same. intros [H _]; exact H. Qed.

  Lemma wp_conseq n p s (Q Q' : outcome -> lstate U -> Prop) :
    wp n p s Q -> (forall o s', o <> OFuel -> o <> OBlocked -> Q o s' -> Q' o s') -> wp n p s Q'.
  Proof using Acc_same.
    intros [HA H] Himp. split; [exact HA|]. intros f Hf o s' E. eapply post_imp; [exact Himp|]. eapply H; eauto.
  Qed.

  Lemma wp_mono n m p s Q : m <= n -> wp n p s Q -> wp m p s Q.
  Proof using Acc_same. intros Hm [HA H]. split; [exact HA|]. intros f Hf. apply H. lia. Qed.

  Ltac fuel0 f E HA := destruct f as [|f]; [inversion E; subst; exact HA|]; cbn [exec] in E.

  Lemma wp_ret n s (Q : outcome -> lstate U -> Prop) : Acc s -> Q ONormal s -> wp n PRet s Q.
  Proof using Acc_same.
    intros HA HQ. split; [exact HA|]. intros f Hf o s' E. fuel0 f E HA. inversion E; subst. exact HQ.
  Qed.

  Lemma wp_throw n x s (Q : outcome -> lstate U -> Prop) : Acc s -> Q (OThrow x) s -> wp n (PThrow x) s Q.
  Proof using Acc_same.
    intros HA HQ. split; [exact HA|]. intros f Hf o s' E. fuel0 f E HA. inversion E; subst. exact HQ.
  Qed.

  Lemma wp_seq n p q s Q : wp n p s (K n q Q) -> wp n (PSeq p q) s Q.
  Proof using Acc_same.
    intros [HA H]. split; [exact HA|]. intros f Hf o s' E. fuel0 f E HA.
    destruct (exec code f (CProg p) s) as [o1 s1] eqn:E1.
    assert (Hf1 : f <= n) by lia. pose proof (H f Hf1 _ _ E1) as P1.
    destruct o1 as [|x| |]; cbn [post K] in P1; try (inversion E; subst; exact P1).
    destruct P1 as [_ P1]. exact (P1 f Hf1 _ _ E).
  Qed.

  Lemma wp_try n p h s Q : wp n p s (KT n h Q) -> wp n (PTry p h) s Q.
  Proof using Acc_same.
    intros [HA H]. split; [exact HA|]. intros f Hf o s' E. fuel0 f E HA.
    destruct (exec code f (CProg p) s) as [o1 s1] eqn:E1.
    assert (Hf1 : f <= n) by lia. pose proof (H f Hf1 _ _ E1) as P1.
    destruct o1 as [|[]| |]; cbn [post KT] in P1; try (inversion E; subst; exact P1).
    destruct P1 as [_ P1]. exact (P1 f Hf1 _ _ E).
  Qed.

  Lemma wp_st n (g : U -> U * prog U) s Q :
    wp n (snd (g (ust s))) (s <| ust := fst (g (ust s)) |>) Q -> wp n (PSt g) s Q.
  Proof using Acc_same.
    intros [HA H]. split; [eapply Acc_same; [|exact HA]; reflexivity|]. intros f Hf o s' E.
    destruct f as [|f]; [inversion E; subst; eapply Acc_same; [|exact HA]; reflexivity|]. cbn [exec] in E.
    destruct (g (ust s)) as [u' p']. cbn [fst snd] in H. apply (H f); [lia | exact E].
  Qed.

  Lemma wp_emit n e s (Q : outcome -> lstate U -> Prop) :
    Acc s -> Q ONormal (emit (user_event e) s) -> wp n (PEmit e) s Q.
  Proof using Acc_same.
    intros HA HQ. split; [exact HA|]. intros f Hf o s' E. fuel0 f E HA. inversion E; subst. exact HQ.
  Qed.

  (* while: an invariant *)
  Lemma wp_while n c b s (Q : outcome -> lstate U -> Prop) (Iv : lstate U -> Prop) :
    Iv s -> (forall s1, Iv s1 -> Acc s1) ->
    (forall s1, Iv s1 -> c (ust s1) = true ->
                wp n b s1 (fun o s2 => match o with ONormal => Iv s2 | _ => Q o s2 end)) ->
    (forall s1, Iv s1 -> c (ust s1) = false -> Q ONormal s1) ->
    wp n (PWhile c b) s Q.
  Proof using Acc_same.
    intros HI HIA Hb Hex. split; [auto|]. intros f. revert s HI.
    induction f as [|f IH]; intros s HI Hf o s' E.
    - inversion E; subst. cbn [post]. auto.
    - cbn [exec] in E. destruct (c (ust s)) eqn:Ec.
      + destruct (exec code f (CProg b) s) as [o1 s1] eqn:E1.
        assert (Hf1 : f <= n) by lia.
        destruct (Hb s HI Ec) as [_ P]. pose proof (P f Hf1 _ _ E1) as P1.
        destruct o1 as [|x| |]; cbn [post] in P1; try (inversion E; subst; exact P1).
        exact (IH s1 P1 Hf1 _ _ E).
      + inversion E; subst. cbn [post]. auto.
  Qed.

  (* using an API specification *)
  Definition api_spec_at (n : nat) (a : api) (s : lstate U) (Q : outcome -> lstate U -> Prop) : Prop :=
    forall f, f <= n -> forall o s', exec code f (CApi a) s = (o, s') -> post Q o s'.

  Lemma wp_api n a s Q : Acc s -> api_spec_at n a s Q -> wp n (PApi a) s Q.
  Proof using Acc_same.
    intros HA H. split; [exact HA|]. intros f Hf o s' E. fuel0 f E HA. apply (H f); [lia | exact E].
  Qed.

  (* ---------------------------------------------------------------- the loop-level invariant rule *)
  Section LoopInv.
    Variable J : lstate U -> Prop.
    Hypothesis J_acc : forall s, J s -> Acc s.
    Hypothesis J_same : forall s s', trace s' = trace s -> ust s' = ust s -> J s -> J s'.
    Hypothesis J_ev : forall e s, loop_event e = true -> J s -> J (emit e s).

    Lemma J_do_enqueue s sg : J s -> J (do_enqueue s sg).
    Proof.
      intros H. unfold do_enqueue. destruct (force_quit s); [apply J_ev; [reflexivity | exact H]|].
      apply J_ev; [reflexivity|]. eapply J_same; [| |exact H]; reflexivity.
    Qed.

    Lemma J_new_signal s sp : J s -> J (snd (new_signal s sp)).
    Proof.
      intros H. cbn [new_signal snd]. apply J_ev; [reflexivity|]. eapply J_same; [| |exact H]; reflexivity.
    Qed.

    Lemma J_do_get_some s sg s1 : J s -> do_get s = inl (Some (sg, s1)) -> J s1.
    Proof.
      intros H. unfold do_get. destruct (q_pop (get_q s (active s))) as [[[[p c] sg'] q']|].
      - intros E; inversion E; subst. eapply J_same; [| |exact H]; reflexivity.
      - destruct (ext s); discriminate.
    Qed.

    Lemma J_do_get_inr s s1 : J s -> do_get s = inr s1 -> J s1.
    Proof.
      intros H. unfold do_get. destruct (q_pop (get_q s (active s))) as [[[[p c] sg'] q']|]; [discriminate|].
      destruct (ext s) as [|sp r]; [discriminate|]. cbn [new_signal]. intros E; inversion E; subst; clear E.
      apply J_do_enqueue. apply J_ev; [reflexivity|]. apply J_ev; [reflexivity|].
      eapply J_same; [| |exact H]; reflexivity.
    Qed.

    (* a simple API call keeps J and ends normally *)
    Lemma simple_api_inv a s f o s' :
      simple_api a = true -> J s -> exec code f (CApi a) s = (o, s') ->
      post (fun o s' => o = ONormal /\ J s') o s'.
    Proof.
      intros Hs HJ E. destruct f as [|f]; [inversion E; subst; cbn [post]; auto|]. cbn [exec] in E.
      destruct a as [sp| |sp| |ra|o0|cls hid data|arg|sp]; try discriminate Hs.
      - cbn [new_signal] in E. inversion E; subst. cbn [post]. split; [reflexivity|].
        apply J_do_enqueue. apply (J_new_signal s sp HJ).
      - inversion E; subst. cbn [post]. split; [reflexivity|]. apply J_ev; [reflexivity|].
        eapply J_same; [| |exact HJ]; reflexivity.
      - inversion E; subst. cbn [post]. split; [reflexivity|]. apply J_ev; [reflexivity|].
        eapply J_same; [| |exact HJ]; reflexivity.
      - inversion E; subst. cbn [post]. split; [reflexivity|]. apply J_ev; [reflexivity|].
        eapply J_same; [| |exact HJ]; reflexivity.
      - inversion E; subst. cbn [post]. split; [reflexivity|]. apply J_ev; [reflexivity|].
        eapply J_same; [| |exact HJ]; reflexivity.
      - inversion E; subst. cbn [post]. split; [reflexivity|].
        eapply J_same; [| |exact HJ]; reflexivity.
    Qed.

    Variable n : nat.
    (* every handler body keeps J across its EHandler .. EHandlerEnd bracket, for fuel <= n *)
    Hypothesis J_handler : forall f hid sg data s o s', f <= n -> J s ->
      exec code f (CProg (code hid sg data)) (emit (EHandler hid (sg_id sg) data) s) = (o, s') ->
      match o with
      | ONormal => J (emit (EHandlerEnd hid (sg_id sg) None) s')
      | OThrow x => J (emit (EHandlerEnd hid (sg_id sg) (Some x)) s')
      | _ => Acc s'
      end.

    Definition is_prog (c : call U) : bool := match c with CProg _ => true | _ => false end.

    Ltac sub H o1 s1 E :=
      match type of H with
      | (let '(_, _) := exec ?cd ?f ?c ?s in _) = _ => destruct (exec cd f c s) as [o1 s1] eqn:E
      end.
    Ltac done_eq H := inversion H; subst; clear H.
    Ltac same HJ := eapply J_same; [| |exact HJ]; reflexivity.

    Lemma loop_inv : forall f c s o s', f <= S n -> is_prog c = false -> J s ->
      exec code f c s = (o, s') -> post (fun _ => J) o s'.
    Proof.
      induction f as [|f IH]; intros c s o s' Hf Hc HJ H.
      { inversion H; subst. cbn [post]. auto. }
      assert (Hf' : f <= S n) by lia.
      destruct c as [| | |cls ticket|prio|sg idx|a|p]; cbn [exec] in H; try discriminate Hc.
      - (* CRun *)
        sub H o1 s1 E1.
        assert (R1 : post (fun _ => J) o1 s1).
        { eapply (IH CMainloop); [exact Hf' | reflexivity | | exact E1]. apply J_ev; [reflexivity|]. same HJ. }
        assert (Kq : J s1 -> J (emit ERunReturn match quit_cb s1 with Some a => emit (EQuitCb a) s1 | None => s1 end)).
        { intros G. apply J_ev; [reflexivity|]. destruct (quit_cb s1); [apply J_ev; [reflexivity | exact G] | exact G]. }
        destruct o1 as [|[]| |]; done_eq H; cbn [post] in *; auto.
      - (* CMainloop *)
        destruct (run_loop s) eqn:Erl.
        + sub H o1 s1 E1. pose proof (IH CProcLoop _ _ _ Hf' eq_refl HJ E1) as R1.
          destruct o1 as [|[]| |]; try (done_eq H; exact R1).
          exact (IH CMainloop _ _ _ Hf' eq_refl R1 H).
        + done_eq H. cbn [post]. destruct (force_quit s); [exact HJ | same HJ].
      - (* CProcLoop *)
        destruct (run_loop s) eqn:Erl; [|done_eq H; exact HJ].
        destruct (do_get s) as [[[sg s1]|]|s1] eqn:Eg.
        + pose proof (J_do_get_some _ _ _ HJ Eg) as G1.
          sub H o1 s3 E1.
          assert (R1 : post (fun _ => J) o1 s3).
          { eapply (IH (CProcessSignal sg 0)); [exact Hf' | reflexivity | | exact E1]. apply J_ev; [reflexivity | exact G1]. }
          destruct o1 as [|[]| |]; try (done_eq H; exact R1).
          exact (IH CProcLoop _ _ _ Hf' eq_refl R1 H).
        + done_eq H. cbn [post]. auto.
        + exact (IH CProcLoop _ _ _ Hf' eq_refl (J_do_get_inr _ _ HJ Eg) H).
      - (* CProcWait *)
        destruct (run_loop s) eqn:Erl; [|done_eq H; exact HJ].
        destruct (do_get s) as [[[sg s1]|]|s1] eqn:Eg.
        + pose proof (J_do_get_some _ _ _ HJ Eg) as G1.
          sub H o1 s3 E1.
          assert (R1 : post (fun _ => J) o1 s3).
          { eapply (IH (CProcessSignal sg 0)); [exact Hf' | reflexivity | | exact E1]. apply J_ev; [reflexivity | exact G1]. }
          destruct o1 as [|[]| |]; try (done_eq H; exact R1).
          cbn [post] in R1.
          destruct (check_ticket (tickets s3) cls ticket) as [[[] t']|] eqn:Ec.
          * done_eq H. cbn [post]. same R1.
          * exact (IH (CProcWait cls ticket) _ _ _ Hf' eq_refl R1 H).
          * done_eq H. exact R1.
        + done_eq H. cbn [post]. auto.
        + exact (IH (CProcWait cls ticket) _ _ _ Hf' eq_refl (J_do_get_inr _ _ HJ Eg) H).
      - (* CProcIter *)
        destruct (negb (q_empty (get_q s (active s))) && run_loop s) eqn:Ec; [|done_eq H; exact HJ].
        destruct (q_pop (get_q s (active s))) as [[[[p cnt] sg] q']|] eqn:Ep; [|done_eq H; exact HJ].
        assert (Hgo : forall o s',
                   (let '(o, s3) := exec code f (CProcessSignal sg 0)
                                         (emit (EDispatch (sg_id sg) (active s) (length (levels s))) (set_q s (active s) q')) in
                    match o with ONormal => exec code f (CProcIter (Some p)) s3 | _ => (o, s3) end) = (o, s') ->
                   post (fun _ => J) o s').
        { clear H. intros o2 s2 H. sub H o1 s3 E1.
          assert (R1 : post (fun _ => J) o1 s3).
          { eapply (IH (CProcessSignal sg 0)); [exact Hf' | reflexivity | | exact E1]. apply J_ev; [reflexivity|]. same HJ. }
          destruct o1 as [|[]| |]; try (done_eq H; exact R1).
          exact (IH (CProcIter (Some p)) _ _ _ Hf' eq_refl R1 H). }
        destruct prio as [p0|]; [|exact (Hgo _ _ H)].
        destruct (p =? p0)%Z; [exact (Hgo _ _ H)|].
        done_eq H. cbn [post]. apply J_ev; [reflexivity|]. same HJ.
      - (* CProcessSignal *)
        set (s0 := if (idx =? 0)%nat then s <| tickets := mark_line_to_go (tickets s) (sg_cls sg) |> else s) in *.
        assert (G0 : J s0) by (unfold s0; destruct (idx =? 0)%nat; [same HJ | exact HJ]).
        clearbody s0.
        destruct (handlers_of s0 (sg_cls sg)) as [hs|] eqn:Eh.
        + destruct (force_quit s0) eqn:Efq.
          { done_eq H. cbn [post]. apply J_ev; [reflexivity | exact G0]. }
          destruct (nth_error hs idx) as [[hid data]|] eqn:En.
          2:{ done_eq H. cbn [post]. apply J_ev; [reflexivity | exact G0]. }
          sub H o1 s2 E1.
          assert (Hfn : f <= n) by lia.
          pose proof (J_handler f hid sg data s0 o1 s2 Hfn G0 E1) as R1.
          destruct o1 as [|[]| |].
          * exact (IH (CProcessSignal sg (S idx)) _ _ _ Hf' eq_refl R1 H).
          * done_eq H. exact R1.
          * cbn [new_signal] in H.
            refine (IH (CProcessSignal sg (S idx)) _ _ _ Hf' eq_refl _ H).
            apply J_do_enqueue. apply (J_new_signal _ exception_spec R1).
          * done_eq H. exact R1.
          * done_eq H. exact R1.
          * done_eq H. exact R1.
        + destruct (sg_cls sg =? CLS_EXCEPTION)%nat; done_eq H; cbn [post]; (apply J_ev; [reflexivity | exact G0]).
      - (* CApi *)
        destruct (simple_api a) eqn:Esa.
        { assert (E : exec code (S f) (CApi a) s = (o, s')) by exact H.
          pose proof (simple_api_inv a s (S f) o s' Esa HJ E) as R.
          destruct o as [|[]| |]; cbn [post] in *; try apply R; exact R. }
        destruct a as [sp| |sp| |[cls|]|o0|cls hid data|arg|sp]; try discriminate Esa.
        + (* execute_new_loop *)
          cbn [new_signal] in H.
          pose proof (J_new_signal s sp HJ) as G1. cbn [new_signal snd] in G1.
          match type of G1 with J ?x => set (s1 := x) in * end.
          destruct (force_quit s1) eqn:Efq; [done_eq H; exact G1|].
          sub H o1 s4 E1.
          assert (R1 : post (fun _ => J) o1 s4).
          { eapply (IH CMainloop); [exact Hf' | reflexivity | | exact E1]. apply J_do_enqueue.
            apply J_ev; [reflexivity|]. same G1. }
          destruct o1 as [|[]| |]; done_eq H; try exact R1.
          cbn [post] in *. apply J_ev; [reflexivity | exact R1].
        + (* close_loop *)
          sub H o1 s0 E1.
          assert (R1 : post (fun _ => J) o1 s0).
          { eapply (IH (CProcIter None)); [exact Hf' | reflexivity | | exact E1]. apply J_ev; [reflexivity | exact HJ]. }
          destruct o1 as [|[]| |]; try (done_eq H; exact R1).
          cbn [post] in R1.
          assert (G1 : J (emit (EProcReturn None 0) s0)) by (apply J_ev; [reflexivity | exact R1]).
          change (levels (emit (EProcReturn None 0) s0)) with (levels s0) in H.
          destruct (rev (levels s0)) as [|top rest_rev] eqn:El; [done_eq H; exact G1|].
          destruct rest_rev as [|q r]; done_eq H; cbn [post].
          * apply J_ev; [reflexivity|]. same G1.
          * match goal with |- J (?x <| active := _ |> <| run_loop := _ |>) => apply (J_same x); [reflexivity | reflexivity |] end.
            apply J_ev; [reflexivity|]. same G1.
        + (* process_signals(return_after=cls) *)
          destruct (take_ticket (tickets s) cls) as [t tm].
          sub H o1 s2 E1.
          assert (R1 : post (fun _ => J) o1 s2).
          { eapply (IH (CProcWait cls t)); [exact Hf' | reflexivity | | exact E1]. apply J_ev; [reflexivity|]. same HJ. }
          destruct o1 as [|[]| |]; done_eq H; try exact R1.
          cbn [post] in *. apply J_ev; [reflexivity | exact R1].
        + (* process_signals() *)
          sub H o1 s1 E1.
          assert (R1 : post (fun _ => J) o1 s1).
          { eapply (IH (CProcIter None)); [exact Hf' | reflexivity | | exact E1]. apply J_ev; [reflexivity | exact HJ]. }
          destruct o1 as [|[]| |]; done_eq H; try exact R1.
          cbn [post] in *. apply J_ev; [reflexivity | exact R1].
    Qed.
  End LoopInv.
End Generic.

(* ================================================================ Part B: the screen layer *)
Definition SW (typed : list (option str)) (s : lstate sstate) : sworld :=
  fold_left sworld_step (rev (trace s)) (sworld0 typed).

Lemma SW_emit typed e s : SW typed (emit e s) = sworld_step (SW typed s) e.
Proof. unfold SW, emit. cbn [trace set rev]. rewrite fold_left_app. reflexivity. Qed.

Lemma SW_same typed (s s' : lstate sstate) : trace s' = trace s -> SW typed s' = SW typed s.
Proof. unfold SW. intros ->. reflexivity. Qed.

(* ---------------------------------------------------------------- the core of the world *)
(* the part of [sworld] that C04 / C08 read, and that evolves on its own *)
Record cw := mkc {
  c_stack : list entry; c_expect : list sexp; c_popped : bool; c_failed : option nat;
  c_ready : list nat; c_cpend : option nat; c_pframes : list pframe }.

Definition core (w : sworld) : cw :=
  mkc (sw_stack w) (sw_expect w) (sw_popped_modal w) (sw_failed w) (sw_ready w) (sw_closed_pending w) (sw_pframes w).

Definition expect_of (kind x y : nat) (nonempty : bool) : list sexp :=
  if (kind =? O_SCHEDULE)%nat then [XAddFirst x y]
  else if (kind =? O_PUSH)%nat then [XAppend x y (Some false)]
  else if (kind =? O_PUSH_MODAL)%nat then [XAppend x y (Some true)]
  else if (kind =? O_REPLACE)%nat then (if nonempty then [XPop false; XAppend x y None] else [])
  else (if nonempty then [XPop true] else []).

Definition entry_of_args (a : list nat) : entry :=
  {| en_id := nth0 a 1; en_scr := nth0 a 2; en_args := nth0 a 3; en_modal := (nth0 a 4 =? 1)%nat |}.

Definition cuser (c : cw) (tag : nat) (a : list nat) : cw :=
  if (tag =? T_OP)%nat then
    mkc (c_stack c) (expect_of (nth0 a 0) (nth0 a 1) (nth0 a 2) match c_stack c with [] => false | _ => true end)
        (c_popped c) (c_failed c) (c_ready c) (c_cpend c) (c_pframes c)
  else if (tag =? T_STACK)%nat then
    let e := entry_of_args a in
    if (nth0 a 0 =? K_APPEND)%nat then
      mkc (e :: c_stack c) (tl (c_expect c)) (c_popped c) (c_failed c) (c_ready c) (c_cpend c) (c_pframes c)
    else if (nth0 a 0 =? K_ADD_FIRST)%nat then
      mkc (c_stack c ++ [e]) (tl (c_expect c)) (c_popped c) (c_failed c) (c_ready c) (c_cpend c) (c_pframes c)
    else
      match c_expect c with
      | XPop true :: r => mkc (tl (c_stack c)) r (en_modal e) None (c_ready c) (Some (en_id e)) (c_pframes c)
      | XPop false :: r => mkc (tl (c_stack c)) r (en_modal e) None (c_ready c) (c_cpend c) (c_pframes c)
      | _ => mkc (tl (c_stack c)) (c_expect c) (en_modal e) None (c_ready c) (c_cpend c) (c_pframes c)
      end
  else if (tag =? T_SETUP)%nat then
    if (nth0 a 3 =? 1)%nat
    then mkc (c_stack c) (c_expect c) (c_popped c) (c_failed c) (nth0 a 1 :: c_ready c) (c_cpend c) (c_pframes c)
    else mkc (c_stack c) (c_expect c) (c_popped c) (Some (nth0 a 0)) (c_ready c) (c_cpend c) (c_pframes c)
  else if (tag =? T_REFRESH)%nat then
    mkc (c_stack c) (c_expect c) (c_popped c) (c_failed c) (c_ready c) (c_cpend c)
        match c_pframes c with _ :: r => {| pf_state := 1; pf_id := nth0 a 0 |} :: r | [] => [] end
  else if (tag =? T_SHOW)%nat then
    mkc (c_stack c) (c_expect c) (c_popped c) (c_failed c) (c_ready c) (c_cpend c)
        match c_pframes c with _ :: r => {| pf_state := 2; pf_id := nth0 a 0 |} :: r | [] => [] end
  else if (tag =? T_CLOSED)%nat then
    mkc (c_stack c) (c_expect c) (c_popped c) (c_failed c) (c_ready c) None (c_pframes c)
  else if (tag =? T_SETUP_BEGIN)%nat then
    mkc (c_stack c) (c_expect c) (c_popped c) (c_failed c) (c_ready c) (c_cpend c)
        match c_pframes c with _ :: r => {| pf_state := 0; pf_id := S (nth0 a 0) |} :: r | [] => [] end
  else c.

Definition cstep (c : cw) (e : event) : cw :=
  match e with
  | EUser tag a _ => cuser c tag a
  | EHandler h _ _ =>
    if (h =? H_RENDER)%nat
    then mkc (c_stack c) (c_expect c) (c_popped c) (c_failed c) (c_ready c) (c_cpend c)
             ({| pf_state := 0; pf_id := 0 |} :: c_pframes c)
    else c
  | EHandlerEnd h _ _ =>
    mkc (c_stack c) [] (c_popped c) (c_failed c) (c_ready c) None
        (if (h =? H_RENDER)%nat then tl (c_pframes c) else c_pframes c)
  | ETop => mkc (c_stack c) [] (c_popped c) (c_failed c) (c_ready c) None []
  | _ => c
  end.

Lemma core_eta c : mkc (c_stack c) (c_expect c) (c_popped c) (c_failed c) (c_ready c) (c_cpend c) (c_pframes c) = c.
Proof. destruct c; reflexivity. Qed.

Lemma core_user w tag a text : core (user_step w tag a text) = cuser (core w) tag a.
Proof.
  destruct w as [w0 w1 w2 w3 w4 w5 w6 w7 w8 w9 w10 w11 w12 w13 w14 w15 w16 w17 w18 w19 w20 w21 w22].
  destruct (Nat.eqb_spec tag T_SETUP_BEGIN) as [->|Hne]; [destruct w6; reflexivity|].
  apply Nat.eqb_neq in Hne.
  unfold user_step, cuser, core, expect_of. cbv zeta. fold (entry_of_args a). rewrite !Hne.
  cbn [sw_stack sw_expect sw_popped_modal sw_failed sw_ready sw_closed_pending sw_pframes sw_modal sw_replaced
       sw_req sw_blocking sw_typed sw_line sw_istack sw_processing sw_handoff sw_received sw_fired sw_must_input
       sw_err sw_follow sw_prev_user set c_stack c_expect c_popped c_failed c_ready c_cpend c_pframes].
  repeat match goal with
         | |- context [if ?x then _ else _] => destruct x
         | |- context [match ?x with _ => _ end] => destruct x
         end; reflexivity.
Qed.

Lemma core_step w e : core (sworld_step w e) = cstep (core w) e.
Proof.
  destruct e; cbn [sworld_step cstep]; try reflexivity.
  - destruct (sw_follow w) as [[| [|[|?]] | | | | |]|]; try reflexivity; destruct (cls =? CLS_RENDER)%nat; reflexivity.
  - destruct (sw_follow w) as [[| [|[|?]] | | | | |]|]; reflexivity.
  - destruct (sw_follow w) as [[| [|[|?]] | | | | |]|]; reflexivity.
  - destruct (hid =? H_RENDER)%nat; [reflexivity|]. destruct (hid =? H_RECEIVED)%nat; [|reflexivity].
    destruct (sw_istack w); reflexivity.
  - destruct (hid =? H_RENDER)%nat; reflexivity.
  - apply core_user.
Qed.

(* the acceptors on the core *)
Definition ctop (c : cw) : option entry := match c_stack c with e :: _ => Some e | [] => None end.
Definition cin_setup_of (c : cw) (id : nat) : bool :=
  match c_pframes c with f :: _ => (pf_state f =? 0)%nat && (pf_id f =? S id)%nat | [] => false end.

Definition cchk04 (c : cw) (e : event) : bool :=
  match e with
  | EUser tag a _ =>
    if (tag =? T_STACK)%nat then
      let kind := nth0 a 0 in
      if (kind =? K_APPEND)%nat then
        match c_expect c with
        | XAppend s ar m :: _ =>
          (nth0 a 2 =? s)%nat && (nth0 a 3 =? ar)%nat &&
          Bool.eqb (nth0 a 4 =? 1)%nat (match m with Some b => b | None => c_popped c end) &&
          negb (existsb (fun x => (en_id x =? nth0 a 1)%nat) (c_stack c))
        | _ => false
        end
      else if (kind =? K_ADD_FIRST)%nat then
        match c_expect c with
        | XAddFirst s ar :: _ => (nth0 a 2 =? s)%nat && (nth0 a 3 =? ar)%nat && (nth0 a 4 =? 0)%nat
        | _ => false
        end
      else
        match ctop c with
        | Some t =>
          (en_id t =? nth0 a 1)%nat &&
          match c_expect c with
          | XPop _ :: _ => true
          | [] => match c_failed c with Some f => (f =? en_id t)%nat | None => false end
          | _ => false
          end
        | None => false
        end
    else if (tag =? T_OP)%nat then match c_expect c with [] => true | _ => false end
    else if (tag =? T_SETUP)%nat || (tag =? T_REFRESH)%nat || (tag =? T_SHOW)%nat || (tag =? T_SETUP_BEGIN)%nat then
      match ctop c with
      | Some t => (en_id t =? nth0 a 0)%nat && (en_scr t =? nth0 a 1)%nat
      | None => false
      end || (negb (tag =? T_SHOW)%nat && negb (tag =? T_SETUP_BEGIN)%nat && cin_setup_of c (nth0 a 0))
    else if (tag =? T_SEPARATOR)%nat then
      match ctop c with Some t => (en_scr t =? nth0 a 0)%nat | None => false end
    else true
  | _ => true
  end.

Definition cchk08 (c : cw) (e : event) : bool :=
  (match c_cpend c, e with
   | Some id, EUser tag a _ => (tag =? T_CLOSED)%nat && (nth0 a 0 =? id)%nat
   | _, _ => true end) &&
  match e with
  | EUser tag a _ =>
    let args_ok := match ctop c with Some t => (en_args t =? nth0 a 2)%nat | None => false end in
    if (tag =? T_SETUP)%nat then
      (negb (mem (nth0 a 1) (c_ready c)) && args_ok || cin_setup_of c (nth0 a 0)) &&
      match c_pframes c with f :: _ => (pf_state f =? 0)%nat | [] => false end
    else if (tag =? T_SETUP_BEGIN)%nat then
      negb (mem (nth0 a 1) (c_ready c)) && args_ok &&
      match c_pframes c with f :: _ => (pf_state f =? 0)%nat && (pf_id f =? 0)%nat | [] => false end &&
      match c_failed c with Some _ => false | None => true end
    else if (tag =? T_REFRESH)%nat then
      mem (nth0 a 1) (c_ready c) && (args_ok || cin_setup_of c (nth0 a 0)) &&
      match c_pframes c with f :: _ => (pf_state f =? 0)%nat | [] => false end
    else if (tag =? T_SHOW)%nat then
      match c_pframes c with f :: _ => (pf_state f =? 1)%nat && (pf_id f =? nth0 a 0)%nat | [] => false end
    else if (tag =? T_CLOSED)%nat then
      match c_cpend c with Some id => (id =? nth0 a 0)%nat | None => false end
    else if (tag =? T_STACK)%nat && (nth0 a 0 =? K_POP)%nat then
      match c_failed c with Some f => (f =? nth0 a 1)%nat | None => true end
    else match c_failed c with Some _ => false | None => true end
  | _ => true
  end.

Lemma chk04_core w e : chk_C04 w e = cchk04 (core w) e.
Proof. reflexivity. Qed.
Lemma chk08_core w e : chk_C08 w e = cchk08 (core w) e.
Proof. reflexivity. Qed.

(* both acceptors at once; [b] = with C08 (which needs well-formed screen ids, see [wf_session]) *)
Definition chkb (b : bool) (w : sworld) (e : event) : bool := chk_C04 w e && (if b then chk_C08 w e else true).
Definition cchk (b : bool) (c : cw) (e : event) : bool := cchk04 c e && (if b then cchk08 c e else true).
Lemma chkb_core b w e : chkb b w e = cchk b (core w) e.
Proof. reflexivity. Qed.

Lemma cstep_loop_event c e : loop_event e = true -> cstep c e = c.
Proof. destruct e; try discriminate; reflexivity. Qed.
Lemma cchk_not_user b c e : match e with EUser _ _ _ => False | _ => True end -> cchk b c e = true.
Proof. destruct e; intros H; try destruct H; unfold cchk, cchk08; cbn [cchk04]; destruct b, (c_cpend c); reflexivity. Qed.

(* ---------------------------------------------------------------- well-formed sessions *)
(* every screen pushed / scheduled has a slot in [st_scr] (in the Python every screen is an object of its own) *)
Fixpoint scmd_wf (n : nat) (c : scmd) : bool :=
  match c with
  | SPush s _ | SPushModal s _ | SReplace s _ | SSchedule s _ => (s <? n)%nat
  | SIfCount _ t e => forallb (scmd_wf n) t && forallb (scmd_wf n) e
  | _ => true
  end.
Definition spec_wf (n : nat) (sp : screen_spec) : bool :=
  forallb (scmd_wf n) (sc_refresh sp) && forallb (scmd_wf n) (sc_show sp) && forallb (scmd_wf n) (sc_closed sp) &&
  forallb (fun kv => forallb (scmd_wf n) (fst (snd kv))) (sc_input sp) &&
  forallb (scmd_wf n) (fst (sc_input_default sp)) &&
  forallb (forallb (scmd_wf n)) (sc_custom sp) &&
  forallb (scmd_wf n) (sc_setup_cmds sp).
Definition saction_wf (n : nat) (a : saction) : bool :=
  match a with SACmds l => forallb (scmd_wf n) l | SARun => true end.
Definition wf_session (specl : list screen_spec) (quit : option nat) (acts : list saction) : bool :=
  forallb (spec_wf (length specl)) specl &&
  match quit with Some q => (q <? length specl)%nat | None => true end &&
  forallb (saction_wf (length specl)) acts.

(* induction on commands, through the lists of SIfCount *)
Lemma scmd_ind' (P : scmd -> Prop) :
  (forall c, match c with SIfCount _ t e => Forall P t /\ Forall P e | _ => True end -> P c) -> forall c, P c.
Proof.
  intros H. fix IH 1. intros c. apply H. destruct c; try exact I.
  split.
  - induction t as [|x t IHt]; constructor; [apply IH | exact IHt].
  - induction e as [|x e IHe]; constructor; [apply IH | exact IHe].
Qed.

(* the hypothesis about setup() with commands: a setup() that can report failure does nothing else.  (A setup() that
   changes the stack and then reports failure makes the scheduler discard the wrong entry: C08_failed_setup_after_push_refuted) *)
Definition failing_setup_plain (specs : nat -> screen_spec) : Prop :=
  forall s, In false (sc_setup (specs s)) -> sc_setup_cmds (specs s) = [].

Lemma plain_setup_failing specs : plain_setup specs -> failing_setup_plain specs.
Proof. intros H s _. apply H. Qed.

Lemma last_In {A} (l : list A) d : l <> [] -> In (last l d) l.
Proof.
  intros H. rewrite (app_removelast_last d H) at 2. apply in_or_app. right. left. reflexivity.
Qed.

Lemma nth_last_false l n : nth_last l n = false -> In false l.
Proof.
  unfold nth_last. destruct l as [|a l']; [discriminate|]. intros H. rewrite <- H.
  destruct (Nat.lt_ge_cases n (length (a :: l'))) as [Hlt|Hge].
  - apply nth_In. exact Hlt.
  - rewrite nth_overflow by exact Hge. apply last_In. discriminate.
Qed.

Definition ent_of (d : sdata) : entry :=
  {| en_id := sd_id d; en_scr := sd_scr d; en_args := sd_args d; en_modal := sd_modal d |}.

Lemma b2n_eq1 m : (b2n m =? 1)%nat = m.
Proof. destruct m; reflexivity. Qed.

Section Screens.
  Variable typed : list (option str).
  Variable b : bool.                       (* true: C04 and C08; false: C04 only *)
  Variable specs : nat -> screen_spec.
  Hypothesis Hfsp : failing_setup_plain specs.
  Variable nscr : nat.
  Hypothesis Hwf : b = true -> forall x, spec_wf nscr (specs x) = true.

  Notation code := (screen_code specs).
  Implicit Types s : lstate sstate.
  Implicit Types u : sstate.

  Definition Acc (s : lstate sstate) : Prop := acc_tr (chkb b) typed (trace s).

  Lemma Acc_same s s' : trace s' = trace s -> Acc s -> Acc s'.
  Proof. unfold Acc. intros ->. auto. Qed.

  Lemma Acc_emit s e : Acc s -> cchk b (core (SW typed s)) e = true -> Acc (emit e s).
  Proof. intros HA Hc. unfold Acc, emit. cbn [trace set acc_tr]. split; [exact HA|]. rewrite chkb_core. exact Hc. Qed.

  Notation wp := (wp code Acc).
  Notation K := (K code Acc).
  Notation KT := (KT code Acc).

  (* ---------------------------------------------------------------- symbolic execution on (core, ust) *)
  Definition at_cu (c : cw) (u : sstate) (s : lstate sstate) : Prop :=
    Acc s /\ core (SW typed s) = c /\ ust s = u.
  Definition wpc (n : nat) (p : sprog) (c : cw) (u : sstate) (Q : outcome -> lstate sstate -> Prop) : Prop :=
    forall s, at_cu c u s -> wp n p s Q.
  Definition Qat (o : outcome) (c : cw) (u : sstate) (Q : outcome -> lstate sstate -> Prop) : Prop :=
    forall s, at_cu c u s -> Q o s.

  Lemma at_cu_same c u s s' : trace s' = trace s -> ust s' = ust s -> at_cu c u s -> at_cu c u s'.
  Proof.
    intros Ht Hu (HA & Hc & Hs). split; [|split].
    - eapply Acc_same; eauto.
    - rewrite (SW_same _ _ _ Ht). exact Hc.
    - congruence.
  Qed.

  Lemma at_cu_emit c u s e : cchk b c e = true -> at_cu c u s -> at_cu (cstep c e) u (emit e s).
  Proof.
    intros Hk (HA & Hc & Hs). split; [|split].
    - apply Acc_emit; [exact HA|]. rewrite Hc. exact Hk.
    - rewrite SW_emit, core_step, Hc. reflexivity.
    - exact Hs.
  Qed.

  Lemma at_cu_loop_event c u s e : loop_event e = true -> at_cu c u s -> at_cu c u (emit e s).
  Proof.
    intros He H. rewrite <- (cstep_loop_event c e He). apply at_cu_emit; [|exact H].
    apply cchk_not_user. destruct e; try discriminate He; exact I.
  Qed.

  Lemma wpc_ret n c u Q : Qat ONormal c u Q -> wpc n PRet c u Q.
  Proof. intros H s Hs. apply (wp_ret code Acc Acc_same); [exact (proj1 Hs) | exact (H s Hs)]. Qed.

  Lemma wpc_throw n x c u Q : Qat (OThrow x) c u Q -> wpc n (PThrow x) c u Q.
  Proof. intros H s Hs. apply (wp_throw code Acc Acc_same); [exact (proj1 Hs) | exact (H s Hs)]. Qed.

  Lemma wpc_seq n p q c u Q : wpc n p c u (K n q Q) -> wpc n (PSeq p q) c u Q.
  Proof. intros H s Hs. apply (wp_seq code Acc Acc_same). exact (H s Hs). Qed.

  Lemma wpc_try n p h c u Q : wpc n p c u (KT n h Q) -> wpc n (PTry p h) c u Q.
  Proof. intros H s Hs. apply (wp_try code Acc Acc_same). exact (H s Hs). Qed.

  Lemma wpc_st n (g : sstate -> sstate * sprog) c u Q :
    wpc n (snd (g u)) c (fst (g u)) Q -> wpc n (PSt g) c u Q.
  Proof.
    intros H s Hs. apply (wp_st code Acc Acc_same).
    assert (Hu : ust s = u) by exact (proj2 (proj2 Hs)). rewrite Hu. apply H.
    destruct Hs as (HA & Hc & _). split; [|split]; [eapply Acc_same; [|exact HA]; reflexivity | exact Hc | reflexivity].
  Qed.

  Lemma wpc_rd n (f : sstate -> sprog) c u Q : wpc n (f u) c u Q -> wpc n (rd f) c u Q.
  Proof. intros H. apply wpc_st. exact H. Qed.

  Lemma wpc_wr n (g : sstate -> sstate) c u Q : Qat ONormal c (g u) Q -> wpc n (wr g) c u Q.
  Proof. intros H. apply wpc_st. cbn [fst snd]. apply wpc_ret. exact H. Qed.

  Lemma wpc_emit n e c u Q :
    cchk b c (user_event e) = true -> Qat ONormal (cstep c (user_event e)) u Q -> wpc n (PEmit e) c u Q.
  Proof.
    intros Hk H s Hs. apply (wp_emit code Acc Acc_same); [exact (proj1 Hs)|]. apply H. apply at_cu_emit; assumption.
  Qed.

  Lemma wpc_api_simple n a c u Q : simple_api a = true -> Qat ONormal c u Q -> wpc n (PApi a) c u Q.
  Proof.
    intros Ha H s Hs. apply (wp_api code Acc Acc_same); [exact (proj1 Hs)|]. intros f Hf o s' E.
    pose proof (simple_api_inv code Acc (at_cu c u)) as L.
    specialize (L (fun s1 H1 => proj1 H1) (at_cu_same c u)
                  (fun e s1 He H1 => at_cu_loop_event c u s1 e He H1) a s f o s' Ha Hs E).
    eapply post_imp; [|exact L]. cbv beta. intros o1 s1 _ _ [-> H1]. apply H; exact H1.
  Qed.

  Lemma Qat_wpc n q c u Q : wpc n q c u Q -> Qat ONormal c u (K n q Q).
  Proof. intros H. exact H. Qed.

  Lemma wpc_conseq n p c u (Q Q' : outcome -> lstate sstate -> Prop) :
    wpc n p c u Q -> (forall o s', o <> OFuel -> o <> OBlocked -> Q o s' -> Q' o s') -> wpc n p c u Q'.
  Proof. intros H Hi s Hs. eapply (wp_conseq code Acc Acc_same); [exact (H s Hs) | exact Hi]. Qed.

  (* ---------------------------------------------------------------- the invariant *)
  Definition Lk (u : sstate) : Prop :=
    NoDup (map sd_id (st_stack u)) /\ Forall (fun d => sd_id d < st_next_sd u) (st_stack u).
  (* entries with an id below N that are on the stack were in l: ids are never reused *)
  Definition PP (N : nat) (l : list sdata) (u : sstate) : Prop :=
    N <= st_next_sd u /\ forall d, In d (st_stack u) -> sd_id d < N -> In d l.
  Definition PPs (Ps : list (nat * list sdata)) (u : sstate) : Prop := Forall (fun p => PP (fst p) (snd p) u) Ps.
  Definition RD (rdy : list nat) (u : sstate) : Prop :=
    b = true ->
    (forall x, mem x rdy = ss_ready (scr_of u x)) /\ length (st_scr u) = nscr /\
    Forall (fun d => sd_scr d < nscr) (st_stack u) /\ (forall q, st_quit u = Some q -> q < nscr).

  Definition G (Ps : list (nat * list sdata)) (rdy : list nat) (u : sstate) : Prop := Lk u /\ PPs Ps u /\ RD rdy u.

  Definition IC (Ps : list (nat * list sdata)) (pf : list pframe) (c : cw) (u : sstate) : Prop :=
    exists pm rdy, c = mkc (map ent_of (st_stack u)) [] pm None rdy None pf /\ G Ps rdy u.

  Definition Inv (Ps : list (nat * list sdata)) (pf : list pframe) (s : lstate sstate) : Prop :=
    Acc s /\ IC Ps pf (core (SW typed s)) (ust s).

  Definition QI (Ps : list (nat * list sdata)) (pf : list pframe) : outcome -> lstate sstate -> Prop :=
    fun _ s' => Inv Ps pf s'.

  Lemma Qat_QI o Ps pf c u : IC Ps pf c u -> Qat o c u (QI Ps pf).
  Proof. intros H s (HA & Hc & Hu). split; [exact HA|]. rewrite Hc, Hu. exact H. Qed.

  Definition QF (Ps : list (nat * list sdata)) (pf : list pframe) : outcome -> lstate sstate -> Prop :=
    fun _ s' => exists fr, Inv Ps (fr :: pf) s'.

  Lemma Qat_QF o Ps pf fr c u : IC Ps (fr :: pf) c u -> Qat o c u (QF Ps pf).
  Proof. intros H s Hs. exists fr. apply (Qat_QI o Ps (fr :: pf) c u H s Hs). Qed.

  Lemma Inv_at Ps pf s : Inv Ps pf s -> at_cu (core (SW typed s)) (ust s) s.
  Proof. intros [HA _]. split; [exact HA|]. split; reflexivity. Qed.

  (* calling a sub-program specified on [Inv] *)
  Definition spec (n : nat) (p : sprog) : Prop :=
    forall Ps pf s, Inv Ps pf s -> wp n p s (QI Ps pf).

  Lemma wpc_call n p Ps pf c u Q :
    spec n p -> IC Ps pf c u ->
    (forall o c' u', o <> OFuel -> o <> OBlocked -> IC Ps pf c' u' -> Qat o c' u' Q) ->
    wpc n p c u Q.
  Proof.
    intros Hsp HI Hk s Hs. eapply (wp_conseq code Acc Acc_same).
    - apply (Hsp Ps pf). destruct Hs as (HA & Hc & Hu). split; [exact HA|]. rewrite Hc, Hu. exact HI.
    - intros o s' Ho1 Ho2 [HA' HI']. apply (Hk o _ _ Ho1 Ho2 HI'). split; [exact HA'|]. split; reflexivity.
  Qed.

  Lemma spec_intro n p :
    (forall Ps pf c u, IC Ps pf c u -> wpc n p c u (QI Ps pf)) -> spec n p.
  Proof. intros H Ps pf s HI. apply (H Ps pf _ _ (proj2 HI)). apply (Inv_at Ps pf). exact HI. Qed.


  (* ---------------------------------------------------------------- quiet events *)
  Definition quiet_tag (tag : nat) : bool :=
    (tag =? T_PROMPT)%nat || (tag =? T_INPUT)%nat || (tag =? T_MODAL_RETURN)%nat || (tag =? T_REFUSED)%nat ||
    (tag =? T_READY)%nat || (tag =? T_GOT)%nat || (tag =? T_MARK)%nat || (tag =? T_ASK)%nat ||
    (tag =? T_REQ)%nat || (tag =? T_ACTION)%nat || (tag =? T_WAITED)%nat || (tag =? T_CUSTOM)%nat.

  Lemma quiet_tag_cases tag : quiet_tag tag = true ->
    tag = T_PROMPT \/ tag = T_INPUT \/ tag = T_MODAL_RETURN \/ tag = T_REFUSED \/ tag = T_READY \/ tag = T_GOT \/
    tag = T_MARK \/ tag = T_ASK \/ tag = T_REQ \/ tag = T_ACTION \/ tag = T_WAITED \/ tag = T_CUSTOM.
  Proof. unfold quiet_tag. rewrite !orb_true_iff, !Nat.eqb_eq. tauto. Qed.

  Lemma cstep_quiet c tag a t : quiet_tag tag = true -> cstep c (EUser tag a t) = c.
  Proof.
    intros H. apply quiet_tag_cases in H.
    repeat (destruct H as [H|H]; [subst tag; reflexivity|]). subst tag; reflexivity.
  Qed.

  Lemma cchk_quiet st pm rdy pf tag a t :
    quiet_tag tag = true -> cchk b (mkc st [] pm None rdy None pf) (EUser tag a t) = true.
  Proof.
    intros H. apply quiet_tag_cases in H.
    repeat (destruct H as [H|H]; [subst tag; destruct b; reflexivity|]). subst tag; destruct b; reflexivity.
  Qed.

  Lemma wpc_emit_quiet n tag a t st pm rdy pf u Q :
    quiet_tag tag = true ->
    Qat ONormal (mkc st [] pm None rdy None pf) u Q ->
    wpc n (PEmit (EUser tag a t)) (mkc st [] pm None rdy None pf) u Q.
  Proof.
    intros Hq H. apply wpc_emit; cbn [user_event].
    - apply cchk_quiet; exact Hq.
    - rewrite cstep_quiet by exact Hq. exact H.
  Qed.

  (* ---------------------------------------------------------------- the view of [ust] the invariant reads *)
  Definition uview_eq (u u' : sstate) : Prop :=
    st_stack u' = st_stack u /\ st_next_sd u' = st_next_sd u /\ st_quit u' = st_quit u /\
    length (st_scr u') = length (st_scr u) /\ forall x, ss_ready (scr_of u' x) = ss_ready (scr_of u x).

  Lemma uview_refl u : uview_eq u u.
  Proof. repeat split. Qed.

  Lemma Lk_view u u' : uview_eq u u' -> Lk u -> Lk u'.
  Proof. intros (E1 & E2 & _) [H1 H2]. unfold Lk. rewrite E1, E2. split; assumption. Qed.
  Lemma PP_view N l u u' : uview_eq u u' -> PP N l u -> PP N l u'.
  Proof. intros (E1 & E2 & _) [H1 H2]. unfold PP. rewrite E1, E2. split; assumption. Qed.
  Lemma PPs_view Ps u u' : uview_eq u u' -> PPs Ps u -> PPs Ps u'.
  Proof. intros E H. unfold PPs in *. eapply Forall_impl; [|exact H]. intros p. apply PP_view; exact E. Qed.
  Lemma RD_view rdy u u' : uview_eq u u' -> RD rdy u -> RD rdy u'.
  Proof.
    intros (E1 & E2 & E3 & E4 & E5) H Hb. destruct (H Hb) as (R1 & R2 & R3 & R4).
    rewrite E1, E3, E4. repeat split; auto. intros x. rewrite E5. apply R1.
  Qed.

  Lemma G_view Ps rdy u u' : uview_eq u u' -> G Ps rdy u -> G Ps rdy u'.
  Proof.
    intros E (H1 & H2 & H3). split; [|split].
    - eapply Lk_view; eauto.
    - eapply PPs_view; eauto.
    - eapply RD_view; eauto.
  Qed.

  Lemma IC_intro Ps pf st pm rdy u : st = map ent_of (st_stack u) -> G Ps rdy u -> IC Ps pf (mkc st [] pm None rdy None pf) u.
  Proof. intros -> H. exists pm, rdy. split; [reflexivity | exact H]. Qed.

  Lemma IC_view Ps pf st pm rdy u u' :
    uview_eq u u' -> st = map ent_of (st_stack u) -> G Ps rdy u -> IC Ps pf (mkc st [] pm None rdy None pf) u'.
  Proof.
    intros E -> H. apply IC_intro; [destruct E as (-> & _); reflexivity | eapply G_view; eauto].
  Qed.

  Lemma nth_upd_nth {A} (l : list A) : forall (k : nat) (f : A -> A) (x : nat) (d : A),
    nth x (upd_nth l k f) d = if (x =? k)%nat && (k <? length l)%nat then f (nth x l d) else nth x l d.
  Proof.
    induction l as [|a l IH]; intros k f x d.
    - cbn [upd_nth]. destruct k, x; cbn; try reflexivity; rewrite ?andb_false_r; reflexivity.
    - destruct k as [|k]; cbn [upd_nth].
      + destruct x; reflexivity.
      + destruct x as [|x]; [reflexivity|]. cbn [nth]. rewrite IH. cbn [length]. reflexivity.
  Qed.
  Lemma length_upd_nth {A} (l : list A) : forall (k : nat) (f : A -> A), length (upd_nth l k f) = length l.
  Proof. induction l as [|a l IH]; intros [|k] f; cbn [upd_nth length]; auto. Qed.

  Lemma ready_upd_scr_keep u sc f x :
    (forall t, ss_ready (f t) = ss_ready t) -> ss_ready (scr_of (upd_scr sc f u) x) = ss_ready (scr_of u x).
  Proof.
    intros Hf. unfold scr_of, upd_scr. cbn [st_scr set]. rewrite nth_upd_nth.
    destruct ((x =? sc)%nat && (sc <? length (st_scr u))%nat); [apply Hf | reflexivity].
  Qed.


  (* ---------------------------------------------------------------- tactics *)
  Ltac qstep :=
    lazymatch goal with
    | |- Qat ONormal ?c ?u (K ?n ?q ?Q) => change (wpc n q c u Q)
    | |- Qat (OThrow ?x) ?c ?u (K ?n ?q ?Q) => change (Qat (OThrow x) c u Q); qstep
    | |- Qat ONormal ?c ?u (KT ?n ?h ?Q) => change (Qat ONormal c u Q); qstep
    | |- Qat (OThrow XError) ?c ?u (KT ?n ?h ?Q) => change (wpc n h c u Q)
    | |- Qat (OThrow XExit) ?c ?u (KT ?n ?h ?Q) => change (Qat (OThrow XExit) c u Q); qstep
    | |- Qat (OThrow XSysExit) ?c ?u (KT ?n ?h ?Q) => change (Qat (OThrow XSysExit) c u Q); qstep
    | |- Qat _ _ _ (QI _ _) => apply Qat_QI
    | |- Qat _ _ _ (QF _ _) => eapply Qat_QF
    | |- _ => idtac
    end.

  Ltac wstep :=
    lazymatch goal with
    | |- wpc _ (PSeq _ _) _ _ _ => apply wpc_seq
    | |- wpc _ (PTry _ _) _ _ _ => apply wpc_try
    | |- wpc _ (PSt _) _ _ _ => apply wpc_st; cbn [fst snd]
    | |- wpc _ (rd _) _ _ _ => apply wpc_rd
    | |- wpc _ (wr _) _ _ _ => apply wpc_wr; cbv beta; qstep
    | |- wpc _ PRet _ _ _ => apply wpc_ret; qstep
    | |- wpc _ (PThrow _) _ _ _ => apply wpc_throw; qstep
    | |- wpc _ (ev ?t _) _ _ _ => unfold ev at 1; wstep
    | |- wpc _ (evt ?t _ _) _ _ _ => unfold evt at 1; wstep
    | |- wpc _ (PEmit (EUser _ _ _)) _ _ _ => apply wpc_emit_quiet; [reflexivity | qstep]
    | |- wpc _ (PApi _) _ _ _ => apply wpc_api_simple; [reflexivity | qstep]
    | |- wpc _ sched_redraw _ _ _ => unfold sched_redraw; wstep
    | |- wpc _ raise_exception_signal _ _ _ => unfold raise_exception_signal; wstep
    end.

  Ltac ic_open H pm rdy HG := destruct H as (pm & rdy & -> & HG).

  Ltac view_solve :=
    unfold uview_eq; cbn [st_stack st_next_sd st_quit st_scr set upd_ih upd_scr];
    repeat split; try reflexivity;
    rewrite ?length_upd_nth; try reflexivity;
    intros; repeat (rewrite ready_upd_scr_keep by reflexivity); try reflexivity;
    unfold scr_of; cbn [st_scr set upd_scr upd_ih]; repeat rewrite nth_upd_nth;
    repeat match goal with |- context [if ?c then _ else _] => destruct c end; reflexivity.

  Ltac ic_view HG := eapply IC_view; [view_solve | reflexivity | exact HG].

  (* ---------------------------------------------------------------- stack updates keep G *)
  Definition same_rest (u u' : sstate) : Prop :=
    st_quit u' = st_quit u /\ length (st_scr u') = length (st_scr u) /\
    forall x, ss_ready (scr_of u' x) = ss_ready (scr_of u x).

  (* ids are never reused: u' extends u *)
  Definition ext (u u' : sstate) : Prop :=
    st_next_sd u <= st_next_sd u' /\ forall d, In d (st_stack u') -> sd_id d < st_next_sd u -> In d (st_stack u).

  Lemma PPs_ext Ps u u' : ext u u' -> PPs Ps u -> PPs Ps u'.
  Proof.
    intros [E1 E2] H. unfold PPs in *. eapply Forall_impl; [|exact H]. intros p [H1 H2]. split; [lia|].
    intros d Hd Hlt. apply H2; [|exact Hlt]. apply E2; [exact Hd | lia].
  Qed.

  Lemma RD_stack rdy u u' :
    same_rest u u' -> (b = true -> Forall (fun d => sd_scr d < nscr) (st_stack u) -> Forall (fun d => sd_scr d < nscr) (st_stack u')) ->
    RD rdy u -> RD rdy u'.
  Proof.
    intros (E3 & E4 & E5) Hs H Hb. destruct (H Hb) as (R1 & R2 & R3 & R4).
    rewrite E3, E4. repeat split; auto. intros x. rewrite E5. apply R1.
  Qed.

  Lemma G_push Ps rdy u u' d :
    G Ps rdy u -> same_rest u u' -> st_stack u' = d :: st_stack u -> sd_id d = st_next_sd u ->
    st_next_sd u' = S (st_next_sd u) -> (b = true -> sd_scr d < nscr) -> G Ps rdy u'.
  Proof.
    intros ([L1 L2] & HP & HR) Hr Hs Hid Hn Hw. split; [|split].
    - unfold Lk. rewrite Hs, Hn. cbn [map]. split.
      + constructor; [|exact L1]. rewrite in_map_iff. intros (d' & E & Hin).
        rewrite Forall_forall in L2. specialize (L2 d' Hin). lia.
      + constructor; [lia|]. eapply Forall_impl; [|exact L2]. cbv beta. intros; lia.
    - eapply PPs_ext; [|exact HP]. split; [lia|]. rewrite Hs. intros d' [<-|Hin] Hlt; [lia | exact Hin].
    - eapply RD_stack; [exact Hr | | exact HR]. intros Hb F. rewrite Hs. constructor; auto.
  Qed.

  Lemma NoDup_snoc {A} (l : list A) x : NoDup l -> ~ In x l -> NoDup (l ++ [x]).
  Proof.
    induction l as [|a l IH]; intros Hn Hx; cbn [app]; [constructor; [intros []|constructor]|].
    inversion Hn; subst. constructor.
    - rewrite in_app_iff. intros [H|[H|[]]]; [auto | subst; apply Hx; left; reflexivity].
    - apply IH; [assumption | intros H; apply Hx; right; exact H].
  Qed.

  Lemma G_sched Ps rdy u u' d :
    G Ps rdy u -> same_rest u u' -> st_stack u' = st_stack u ++ [d] -> sd_id d = st_next_sd u ->
    st_next_sd u' = S (st_next_sd u) -> (b = true -> sd_scr d < nscr) -> G Ps rdy u'.
  Proof.
    intros ([L1 L2] & HP & HR) Hr Hs Hid Hn Hw. split; [|split].
    - unfold Lk. rewrite Hs, Hn. split.
      + rewrite map_app. cbn [map]. apply NoDup_snoc; [exact L1|].
        rewrite in_map_iff. intros (d' & E & Hin).
        rewrite Forall_forall in L2. specialize (L2 d' Hin). lia.
      + apply Forall_app. split; [|constructor; [lia|constructor]].
        eapply Forall_impl; [|exact L2]. cbv beta. intros; lia.
    - eapply PPs_ext; [|exact HP]. split; [lia|]. rewrite Hs. intros d' Hin Hlt.
      apply in_app_or in Hin as [Hin|[<-|[]]]; [exact Hin | lia].
    - eapply RD_stack; [exact Hr | | exact HR]. intros Hb F. rewrite Hs. apply Forall_app. split; auto.
  Qed.

  Lemma G_pop Ps rdy u u' d r :
    G Ps rdy u -> same_rest u u' -> st_stack u = d :: r -> st_stack u' = r -> st_next_sd u' = st_next_sd u -> G Ps rdy u'.
  Proof.
    intros ([L1 L2] & HP & HR) Hr Hs Hs' Hn. rewrite Hs in L1, L2. cbn [map] in L1. split; [|split].
    - unfold Lk. rewrite Hs', Hn. split; [inversion L1; assumption | inversion L2; assumption].
    - eapply PPs_ext; [|exact HP]. split; [lia|]. rewrite Hs', Hs. intros d' Hin _. right. exact Hin.
    - eapply RD_stack; [exact Hr | | exact HR]. intros Hb F. rewrite Hs', Hs in *. inversion F; assumption.
  Qed.

  Lemma fresh_id u : Lk u -> existsb (fun x => (en_id x =? st_next_sd u)%nat) (map ent_of (st_stack u)) = false.
  Proof.
    intros [_ L2]. induction L2 as [|d l Hd Hl IH]; [reflexivity|]. cbn [map existsb ent_of en_id].
    rewrite IH, orb_false_r. apply Nat.eqb_neq. lia.
  Qed.

  (* ---------------------------------------------------------------- the events of the stack discipline *)
  Lemma wpc_ev_op n k x y st pm rdy pf u Q :
    Qat ONormal (mkc st (expect_of k x y match st with [] => false | _ => true end) pm None rdy None pf) u Q ->
    wpc n (ev T_OP [k; x; y]) (mkc st [] pm None rdy None pf) u Q.
  Proof. intros H. apply wpc_emit; [destruct b; reflexivity | exact H]. Qed.

  Lemma entry_of_sd k d : entry_of_args [k; sd_id d; sd_scr d; sd_args d; b2n (sd_modal d)] = ent_of d.
  Proof. unfold entry_of_args, ent_of, nth0. cbn [nth]. rewrite b2n_eq1. reflexivity. Qed.

  Lemma wpc_ev_append n d m ex st pm rdy pf u Q :
    match m with Some b0 => b0 | None => pm end = sd_modal d ->
    existsb (fun x => (en_id x =? sd_id d)%nat) st = false ->
    Qat ONormal (mkc (ent_of d :: st) ex pm None rdy None pf) u Q ->
    wpc n (ev_stack K_APPEND d) (mkc st (XAppend (sd_scr d) (sd_args d) m :: ex) pm None rdy None pf) u Q.
  Proof.
    intros Hm Hf H. apply wpc_emit.
    - unfold cchk, cchk04, cchk08. cbn. rewrite !Nat.eqb_refl, b2n_eq1, Hm, eqb_reflx, Hf. destruct b; reflexivity.
    - cbn. rewrite ?entry_of_sd, ?b2n_eq1. cbn [ent_of en_id en_modal]. exact H.
  Qed.

  Lemma wpc_ev_add_first n d ex st pm rdy pf u Q :
    sd_modal d = false ->
    Qat ONormal (mkc (st ++ [ent_of d]) ex pm None rdy None pf) u Q ->
    wpc n (ev_stack K_ADD_FIRST d) (mkc st (XAddFirst (sd_scr d) (sd_args d) :: ex) pm None rdy None pf) u Q.
  Proof.
    intros Hm H. apply wpc_emit.
    - unfold cchk, cchk04, cchk08. cbn. rewrite !Nat.eqb_refl, Hm. destruct b; reflexivity.
    - cbn. rewrite ?entry_of_sd, ?b2n_eq1. cbn [ent_of en_id en_modal]. exact H.
  Qed.

  Lemma wpc_ev_pop_close n d r st pm rdy pf u Q :
    Qat ONormal (mkc st r (sd_modal d) None rdy (Some (sd_id d)) pf) u Q ->
    wpc n (ev_stack K_POP d) (mkc (ent_of d :: st) (XPop true :: r) pm None rdy None pf) u Q.
  Proof.
    intros H. apply wpc_emit.
    - unfold cchk, cchk04, cchk08. cbn. rewrite !Nat.eqb_refl. destruct b; reflexivity.
    - cbn. rewrite ?entry_of_sd, ?b2n_eq1. cbn [ent_of en_id en_modal]. exact H.
  Qed.

  Lemma wpc_ev_pop_replace n d r st pm rdy pf u Q :
    Qat ONormal (mkc st r (sd_modal d) None rdy None pf) u Q ->
    wpc n (ev_stack K_POP d) (mkc (ent_of d :: st) (XPop false :: r) pm None rdy None pf) u Q.
  Proof.
    intros H. apply wpc_emit.
    - unfold cchk, cchk04, cchk08. cbn. rewrite !Nat.eqb_refl. destruct b; reflexivity.
    - cbn. rewrite ?entry_of_sd, ?b2n_eq1. cbn [ent_of en_id en_modal]. exact H.
  Qed.

  Lemma wpc_ev_pop_failed n d st pm rdy pf u Q :
    Qat ONormal (mkc st [] (sd_modal d) None rdy None pf) u Q ->
    wpc n (ev_stack K_POP d) (mkc (ent_of d :: st) [] pm (Some (sd_id d)) rdy None pf) u Q.
  Proof.
    intros H. apply wpc_emit.
    - unfold cchk, cchk04, cchk08. cbn. rewrite !Nat.eqb_refl. destruct b; reflexivity.
    - cbn. rewrite ?entry_of_sd, ?b2n_eq1. cbn [ent_of en_id en_modal]. exact H.
  Qed.

  Lemma wpc_ev_closed n (i scr : nat) st pm rdy pf u Q :
    Qat ONormal (mkc st [] pm None rdy None pf) u Q ->
    wpc n (ev T_CLOSED [i; scr]) (mkc st [] pm None rdy (Some i) pf) u Q.
  Proof.
    intros H. apply wpc_emit.
    - unfold cchk, cchk04, cchk08. cbn. rewrite !Nat.eqb_refl. destruct b; reflexivity.
    - exact H.
  Qed.

  Lemma wpc_ev_setup n d (ok : bool) fr st pm rdy pf u Q :
    pf_state fr = 0 -> (b = true -> mem (sd_scr d) rdy = false) ->
    Qat ONormal (if ok then mkc (ent_of d :: st) [] pm None (sd_scr d :: rdy) None (fr :: pf)
                 else mkc (ent_of d :: st) [] pm (Some (sd_id d)) rdy None (fr :: pf)) u Q ->
    wpc n (ev T_SETUP [sd_id d; sd_scr d; sd_args d; b2n ok]) (mkc (ent_of d :: st) [] pm None rdy None (fr :: pf)) u Q.
  Proof.
    intros Hfr Hm H. apply wpc_emit.
    - unfold cchk, cchk04, cchk08. cbn. rewrite !Nat.eqb_refl, Hfr. destruct b; [|reflexivity].
      pose proof (Hm eq_refl) as Hm'. unfold mem in Hm'. rewrite Hm'. reflexivity.
    - cbn. rewrite b2n_eq1. destruct ok; exact H.
  Qed.

  Lemma wpc_ev_refresh n d fr st pm rdy pf u Q :
    pf_state fr = 0 -> (b = true -> mem (sd_scr d) rdy = true) ->
    Qat ONormal (mkc (ent_of d :: st) [] pm None rdy None ({| pf_state := 1; pf_id := sd_id d |} :: pf)) u Q ->
    wpc n (ev T_REFRESH [sd_id d; sd_scr d; sd_args d]) (mkc (ent_of d :: st) [] pm None rdy None (fr :: pf)) u Q.
  Proof.
    intros Hfr Hm H. apply wpc_emit.
    - unfold cchk, cchk04, cchk08. cbn. rewrite !Nat.eqb_refl, Hfr. destruct b; [|reflexivity].
      pose proof (Hm eq_refl) as Hm'. unfold mem in Hm'. rewrite Hm'. reflexivity.
    - exact H.
  Qed.

  (* a setup() with commands: entered at the start of a _process_screen for the top entry ... *)
  Lemma wpc_ev_setup_begin n d st pm rdy pf u Q :
    (b = true -> mem (sd_scr d) rdy = false) ->
    Qat ONormal (mkc (ent_of d :: st) [] pm None rdy None ({| pf_state := 0; pf_id := S (sd_id d) |} :: pf)) u Q ->
    wpc n (ev T_SETUP_BEGIN [sd_id d; sd_scr d; sd_args d])
        (mkc (ent_of d :: st) [] pm None rdy None ({| pf_state := 0; pf_id := 0 |} :: pf)) u Q.
  Proof.
    intros Hm H. apply wpc_emit.
    - unfold cchk, cchk04, cchk08. cbn. rewrite !Nat.eqb_refl. destruct b; [|reflexivity].
      pose proof (Hm eq_refl) as Hm'. unfold mem in Hm'. rewrite Hm'. reflexivity.
    - exact H.
  Qed.

  (* ... and when it returns, whatever the stack has become *)
  Lemma wpc_ev_setup_ret n d (ok : bool) st pm rdy pf u Q :
    Qat ONormal (if ok then mkc st [] pm None (sd_scr d :: rdy) None ({| pf_state := 0; pf_id := S (sd_id d) |} :: pf)
                 else mkc st [] pm (Some (sd_id d)) rdy None ({| pf_state := 0; pf_id := S (sd_id d) |} :: pf)) u Q ->
    wpc n (ev T_SETUP [sd_id d; sd_scr d; sd_args d; b2n ok])
        (mkc st [] pm None rdy None ({| pf_state := 0; pf_id := S (sd_id d) |} :: pf)) u Q.
  Proof.
    intros H. apply wpc_emit.
    - unfold cchk, cchk04, cchk08, cin_setup_of. cbn. rewrite !Nat.eqb_refl, !orb_true_r. destruct b; reflexivity.
    - cbn. rewrite b2n_eq1. destruct ok; exact H.
  Qed.

  (* the refresh: of the top entry, or the one that follows the return of that entry's setup() with commands *)
  Lemma wpc_ev_refresh_gen n d fr st pm rdy pf u Q :
    pf_state fr = 0 -> (b = true -> mem (sd_scr d) rdy = true) ->
    ((exists st', st = ent_of d :: st') \/ pf_id fr = S (sd_id d)) ->
    Qat ONormal (mkc st [] pm None rdy None ({| pf_state := 1; pf_id := sd_id d |} :: pf)) u Q ->
    wpc n (ev T_REFRESH [sd_id d; sd_scr d; sd_args d]) (mkc st [] pm None rdy None (fr :: pf)) u Q.
  Proof.
    intros Hfr Hm [[st' ->]|Hid] H; [apply wpc_ev_refresh; assumption|].
    destruct fr as [fs fi]. cbn [pf_state pf_id] in Hfr, Hid. subst fs fi.
    apply wpc_emit.
    - unfold cchk, cchk04, cchk08, cin_setup_of. cbn. rewrite !Nat.eqb_refl, !orb_true_r. destruct b; [|reflexivity].
      pose proof (Hm eq_refl) as Hm'. unfold mem in Hm'. rewrite Hm'. reflexivity.
    - exact H.
  Qed.

  Lemma wpc_ev_separator n d st pm rdy pfs u Q :
    Qat ONormal (mkc (ent_of d :: st) [] pm None rdy None pfs) u Q ->
    wpc n (ev T_SEPARATOR [sd_scr d]) (mkc (ent_of d :: st) [] pm None rdy None pfs) u Q.
  Proof.
    intros H. apply wpc_emit.
    - unfold cchk, cchk04, cchk08. cbn. rewrite !Nat.eqb_refl. destruct b; reflexivity.
    - exact H.
  Qed.

  Lemma wpc_ev_show n d st pm rdy pf u Q :
    Qat ONormal (mkc (ent_of d :: st) [] pm None rdy None ({| pf_state := 2; pf_id := sd_id d |} :: pf)) u Q ->
    wpc n (ev T_SHOW [sd_id d; sd_scr d])
        (mkc (ent_of d :: st) [] pm None rdy None ({| pf_state := 1; pf_id := sd_id d |} :: pf)) u Q.
  Proof.
    intros H. apply wpc_emit.
    - unfold cchk, cchk04, cchk08. cbn. rewrite !Nat.eqb_refl. destruct b; reflexivity.
    - exact H.
  Qed.


  (* ---------------------------------------------------------------- well-formed specs *)
  Lemma wf_parts x : b = true ->
    forallb (scmd_wf nscr) (sc_refresh (specs x)) = true /\ forallb (scmd_wf nscr) (sc_show (specs x)) = true /\
    forallb (scmd_wf nscr) (sc_closed (specs x)) = true /\
    forallb (fun kv => forallb (scmd_wf nscr) (fst (snd kv))) (sc_input (specs x)) = true /\
    forallb (scmd_wf nscr) (fst (sc_input_default (specs x))) = true.
  Proof.
    intros Hb. pose proof (Hwf Hb x) as H. unfold spec_wf in H. rewrite !andb_true_iff in H. tauto.
  Qed.

  (* the command list of every signal callback of a screen (an unknown callback does nothing) *)
  Lemma wf_custom x k : b = true -> forallb (scmd_wf nscr) (nth k (sc_custom (specs x)) []) = true.
  Proof.
    intros Hb. pose proof (Hwf Hb x) as H. unfold spec_wf in H. rewrite !andb_true_iff in H.
    destruct H as [[_ H] _]. rewrite forallb_forall in H.
    destruct (Nat.lt_ge_cases k (length (sc_custom (specs x)))) as [Hlt|Hge].
    - apply H. apply nth_In. exact Hlt.
    - rewrite nth_overflow by exact Hge. reflexivity.
  Qed.

  Lemma wf_setup_cmds x : b = true -> forallb (scmd_wf nscr) (sc_setup_cmds (specs x)) = true.
  Proof.
    intros Hb. pose proof (Hwf Hb x) as H. unfold spec_wf in H. rewrite !andb_true_iff in H. tauto.
  Qed.

  Lemma assoc_str_wf key l cmds rv :
    forallb (fun kv => forallb (scmd_wf nscr) (fst (snd kv))) l = true ->
    assoc_str key l = Some (cmds, rv) -> forallb (scmd_wf nscr) cmds = true.
  Proof.
    induction l as [|[k' v] l IH]; cbn [assoc_str forallb]; [discriminate|].
    intros H. apply andb_true_iff in H as [H1 H2].
    destruct ((length key =? length k')%nat && forallb (fun p => (fst p =? snd p)%N) (combine key k')).
    - intros E; inversion E; subst. exact H1.
    - apply IH; exact H2.
  Qed.


  (* ---------------------------------------------------------------- _process_screen: frames and entry identity *)
  Lemma same_entry u top r d :
    Lk u -> st_stack u = top :: r -> In d (top :: r) -> sd_id d = sd_id top -> d = top.
  Proof.
    intros [L1 _] Hs [<-|Hin] Hid; [reflexivity|]. rewrite Hs in L1. cbn [map] in L1. inversion L1 as [|? ? Hn _]; subst.
    exfalso. apply Hn. rewrite <- Hid. apply in_map. exact Hin.
  Qed.

  Lemma G_drop p Ps rdy u : G (p :: Ps) rdy u -> G Ps rdy u.
  Proof. intros (H1 & H2 & H3). split; [exact H1|]. split; [|exact H3]. inversion H2; assumption. Qed.

  Lemma IC_drop p Ps pf c u : IC (p :: Ps) pf c u -> IC Ps pf c u.
  Proof. intros (pm & rdy & E & HG). exists pm, rdy. split; [exact E | eapply G_drop; exact HG]. Qed.

  Lemma G_mark Ps rdy u : G Ps rdy u -> G ((st_next_sd u, st_stack u) :: Ps) rdy u.
  Proof.
    intros (H1 & H2 & H3). split; [exact H1|]. split; [|exact H3]. constructor; [|exact H2].
    cbn [fst snd]. split; [lia | auto].
  Qed.

  Lemma G_head N l Ps rdy u : G ((N, l) :: Ps) rdy u -> PP N l u.
  Proof. intros (_ & H2 & _). inversion H2; assumption. Qed.

  Lemma G_ready Ps rdy u u' scr :
    G Ps rdy u -> st_stack u' = st_stack u -> st_next_sd u' = st_next_sd u -> st_quit u' = st_quit u ->
    length (st_scr u') = length (st_scr u) ->
    (b = true -> forall x, ss_ready (scr_of u' x) = (x =? scr)%nat || ss_ready (scr_of u x)) ->
    G Ps (scr :: rdy) u'.
  Proof.
    intros (H1 & H2 & H3) E1 E2 E3 E4 E5. split; [|split].
    - unfold Lk. rewrite E1, E2. exact H1.
    - unfold PPs, PP in *. rewrite E1, E2. exact H2.
    - intros Hb. destruct (H3 Hb) as (R1 & R2 & R3 & R4). rewrite E1, E3, E4. repeat split; auto.
      intros x. rewrite (E5 Hb). unfold mem. cbn [existsb]. f_equal. apply R1.
  Qed.


  (* ---------------------------------------------------------------- InputThreadManager / InputHandler *)
  Section Level.
    Variable n : nat.

    Lemma start_thread_spec req : spec n (start_thread req).
    Proof.
      apply spec_intro. intros Ps pf c u HI. ic_open HI pm rdy HG.
      unfold start_thread. do 3 wstep.
      destruct (st_typed u) as [|l r].
      - wstep. ic_view HG.
      - do 2 wstep.
        match goal with |- wpc _ (if ?x then _ else _) _ _ _ => destruct x end; wstep; ic_view HG.
    Qed.


    Ltac wcall L Ps pf HIn xn :=
      eapply (wpc_call n _ Ps pf);
      [ apply L
      | idtac
      | let o := fresh "o" in let c' := fresh "c" in let u' := fresh "u" in
        let Ho1 := fresh "Ho" in let Ho2 := fresh "Ho" in
        intros o c' u' Ho1 Ho2 HIn; destruct o as [|xn| |]; [ qstep | qstep | congruence | congruence ] ].

    Lemma start_input_thread_spec req check : spec n (start_input_thread req check).
    Proof.
      apply spec_intro. intros Ps pf c u HI. ic_open HI pm rdy HG.
      unfold start_input_thread. repeat wstep.
      match goal with |- wpc _ (if ?x then _ else _) _ _ _ => destruct x end.
      - repeat wstep. ic_view HG.
      - repeat wstep.
        match goal with |- wpc _ (if ?x then _ else _) _ _ _ => destruct x end.
        + repeat wstep. ic_view HG.
        + repeat wstep. wcall start_thread_spec Ps pf HI' x.
          * ic_view HG.
          * exact HI'.
          * qstep. exact HI'.
    Qed.


    Ltac wif := match goal with |- wpc _ (if ?x then _ else _) _ _ _ => destruct x eqn:? end.
    Ltac wcall_easy L Ps pf HG :=
      let HI' := fresh "HI" in let x := fresh "x" in
      wcall L Ps pf HI' x; [ try (ic_view HG) | | try (destruct x); qstep; try exact HI' ].

    Lemma emit_ready_spec req data ok : spec n (emit_ready req data ok).
    Proof.
      apply spec_intro. intros Ps pf c u HI. ic_open HI pm rdy HG.
      unfold emit_ready. repeat wstep. ic_view HG.
    Qed.

    Lemma emit_failed_all_spec reqs : spec n (emit_failed_all reqs).
    Proof.
      induction reqs as [|r rest IH]; apply spec_intro; intros Ps pf c u HI; cbn [emit_failed_all].
      - ic_open HI pm rdy HG. repeat wstep. ic_view HG.
      - wstep. wcall (emit_ready_spec r [] false) Ps pf HI1 x; [exact HI | | qstep; exact HI1].
        wcall IH Ps pf HI2 x; [exact HI1 | exact HI2 | qstep; exact HI2].
    Qed.

    Lemma input_received_handler_spec sg : spec n (input_received_handler sg).
    Proof.
      apply spec_intro. intros Ps pf c u HI. ic_open HI pm rdy HG.
      unfold input_received_handler. repeat wstep.
      destruct (st_istack u) as [|top rest]; repeat wstep; [ic_view HG|].
      wcall (emit_ready_spec top (sg_data sg) true) Ps pf HI1 x; [ic_view HG | | qstep; exact HI1].
      wstep. wcall (emit_failed_all_spec (rev rest)) Ps pf HI2 x; [exact HI1 | | qstep; exact HI2].
      ic_open HI2 pm2 rdy2 HG2. repeat wstep. ic_view HG2.
    Qed.

    Lemma handler_get_input_spec m skip : spec n (handler_get_input m skip).
    Proof.
      apply spec_intro. intros Ps pf c u HI. ic_open HI pm rdy HG.
      unfold handler_get_input. repeat wstep.
      wcall (start_input_thread_spec m (negb skip)) Ps pf HI1 x; [ic_view HG | exact HI1 | qstep; exact HI1].
    Qed.

    (* the request's arguments are bound into the handler's callback (fix of F15), then it asks *)
    Lemma handler_bind_args_spec m args skip :
      spec n (wr (upd_ih m (fun h => h <| ih_args := args |>)) ;; handler_get_input m skip).
    Proof.
      apply spec_intro. intros Ps pf c u HI. ic_open HI pm rdy HG.
      unfold handler_get_input. repeat wstep.
      wcall (start_input_thread_spec m (negb skip)) Ps pf HI1 x; [ic_view HG | exact HI1 | qstep; exact HI1].
    Qed.

    Lemma new_input_handler_spec src owner cb k :
      (forall m, spec n (k m)) -> spec n (new_input_handler src owner cb k).
    Proof.
      intros Hk. apply spec_intro. intros Ps pf c u HI. ic_open HI pm rdy HG.
      unfold new_input_handler. repeat wstep.
      wcall (Hk (length (st_ih u))) Ps pf HI1 x; [ic_view HG | exact HI1 | qstep; exact HI1].
    Qed.

    Lemma get_input_spec scr args : spec n (get_input specs scr args).
    Proof.
      apply spec_intro. intros Ps pf c u HI. ic_open HI pm rdy HG.
      unfold get_input. destruct (sc_prompt_none (specs scr)).
      - repeat wstep. ic_view HG.
      - repeat wstep.
        wcall (new_input_handler_spec (Some scr) scr true
                 (fun m => wr (upd_ih m (fun h => h <| ih_args := args |>)) ;;
                           handler_get_input m (sc_skip_check (specs scr)))) Ps pf HI1 x;
          [intros m; apply handler_bind_args_spec | ic_view HG | exact HI1 | qstep; exact HI1].
    Qed.


    Lemma wpc_while_inv cnd body Ps pf c u Q :
      spec n body -> IC Ps pf c u ->
      (forall o c' u', o <> OFuel -> o <> OBlocked -> IC Ps pf c' u' -> Qat o c' u' Q) ->
      wpc n (PWhile cnd body) c u Q.
    Proof.
      intros Hb HI Hk s Hs.
      apply (wp_while code Acc Acc_same n cnd body s Q (Inv Ps pf)).
      - destruct Hs as (HA & Hc & Hu). split; [exact HA|]. rewrite Hc, Hu. exact HI.
      - intros s1 H1. exact (proj1 H1).
      - intros s1 H1 _. eapply (wp_conseq code Acc Acc_same); [apply (Hb Ps pf s1 H1)|].
        intros o s2 Ho1 Ho2 H2. destruct o; try congruence; [exact H2|].
        apply (Hk _ _ _ Ho1 Ho2 (proj2 H2)). apply (Inv_at Ps pf). exact H2.
      - intros s1 H1 _. apply (Hk ONormal _ _ ltac:(discriminate) ltac:(discriminate) (proj2 H1)).
        apply (Inv_at Ps pf). exact H1.
    Qed.

    (* the complex API calls (they run handlers): specified at this level by the outer induction *)
    Hypothesis HAPI : forall a, spec n (PApi a).

    Lemma blocking_wait_spec scr m :
      spec n (handler_get_input m (sc_skip_check (specs scr));;
              PWhile (fun u => negb (ih_received (ih_of u m))) (PApi (AProcess (Some CLS_READY)));;
              ev T_GOT [scr; m]).
    Proof.
      apply spec_intro. intros Ps pf c u HI. wstep.
      wcall (handler_get_input_spec m (sc_skip_check (specs scr))) Ps pf HI1 x; [exact HI | | qstep; exact HI1].
      wstep. apply (wpc_while_inv _ _ Ps pf); [apply HAPI | exact HI1 |].
      intros o c2 u2 Ho1 Ho2 HI2. destruct o as [|x| |]; try congruence; qstep; [|exact HI2].
      ic_open HI2 pm2 rdy2 HG2. repeat wstep. ic_view HG2.
    Qed.

    Lemma get_input_blocking_spec scr : spec n (get_input_blocking specs scr).
    Proof.
      apply spec_intro. intros Ps pf c u HI. ic_open HI pm rdy HG.
      unfold get_input_blocking. repeat wstep.
      wcall (new_input_handler_spec None scr false
               (fun m => handler_get_input m (sc_skip_check (specs scr));;
                         PWhile (fun u => negb (ih_received (ih_of u m))) (PApi (AProcess (Some CLS_READY)));;
                         ev T_GOT [scr; m])) Ps pf HI1 x;
        [ intros m; apply blocking_wait_spec | ic_view HG | exact HI1 | qstep; exact HI1].
    Qed.


    (* ---------------------------------------------------------------- the scheduler operations *)
    Ltac same_rest_solve :=
      unfold same_rest; cbn [st_quit st_scr set upd_ih upd_scr];
      repeat split; try reflexivity; rewrite ?length_upd_nth; try reflexivity;
      intros; repeat (rewrite ready_upd_scr_keep by reflexivity); try reflexivity;
      unfold scr_of; cbn [st_scr set upd_scr upd_ih]; repeat rewrite nth_upd_nth;
      repeat match goal with |- context [if ?c then _ else _] => destruct c end; reflexivity.

    Lemma do_scmd_spec close_now : spec n close_now ->
      forall c, (b = true -> scmd_wf nscr c = true) -> forall self count, spec n (do_scmd specs close_now self count c).
    Proof.
      intros Hclose. induction c as [c IHc] using scmd_ind'. intros Hw self count.
      apply spec_intro. intros Ps pf cc u HI.
      destruct c as [sc a|sc a|sc a|sc a| | | | | | | | |o|o|cc0 ck|cc0 cp| | |tb|hh sk|hh| | | |k t e]; cbn [do_scmd].
      - (* push *)
        ic_open HI pm rdy HG. wstep. apply wpc_ev_op; qstep.
        change (expect_of O_PUSH sc a _) with [XAppend sc a (Some false)].
        unfold new_sd. wstep. cbv zeta. repeat wstep.
        match goal with |- wpc _ (ev_stack K_APPEND ?d) _ _ _ => apply (wpc_ev_append n d) end;
          [reflexivity | apply fresh_id; apply HG | qstep].
        repeat wstep. apply IC_intro; [reflexivity|].
        eapply G_push; [exact HG | same_rest_solve | reflexivity | reflexivity | reflexivity |].
        intros Hb. apply Nat.ltb_lt. exact (Hw Hb).

      - (* push modal: a nested loop runs *)
        ic_open HI pm rdy HG. wstep. apply wpc_ev_op; qstep.
        change (expect_of O_PUSH_MODAL sc a _) with [XAppend sc a (Some true)].
        unfold new_sd. wstep. cbv zeta. repeat wstep.
        match goal with |- wpc _ (ev_stack K_APPEND ?d) _ _ _ => apply (wpc_ev_append n d) end;
          [reflexivity | apply fresh_id; apply HG | qstep].
        wstep. wcall HAPI Ps pf HI1 x; [ | | qstep; exact HI1].
        + apply IC_intro; [reflexivity|].
          eapply G_push; [exact HG | same_rest_solve | reflexivity | reflexivity | reflexivity |].
          intros Hb. apply Nat.ltb_lt. exact (Hw Hb).
        + ic_open HI1 pm1 rdy1 HG1. repeat wstep. ic_view HG1.
      - (* replace *)
        ic_open HI pm rdy HG. wstep. apply wpc_ev_op; qstep. wstep.
        destruct (st_stack u) as [|top r] eqn:Estk; cbn [map].
        + change (expect_of O_REPLACE sc a false) with (@nil sexp). wstep.
          apply IC_intro; [rewrite Estk; reflexivity | exact HG].
        + change (expect_of O_REPLACE sc a true) with [XPop false; XAppend sc a None].
          repeat wstep. apply wpc_ev_pop_replace; qstep.
          unfold new_sd. wstep. cbv zeta. repeat wstep.
          match goal with |- wpc _ (ev_stack K_APPEND ?d) _ _ _ => apply (wpc_ev_append n d) end;
            [reflexivity | | qstep].
          { pose proof (fresh_id u (proj1 HG)) as Hf. rewrite Estk in Hf. cbn [map existsb] in Hf.
            apply orb_false_elim in Hf. exact (proj2 Hf). }
          repeat wstep. apply IC_intro; [reflexivity|].
          eapply (G_push _ _ (u <| st_stack := r |>));
            [ eapply G_pop; [exact HG | same_rest_solve | exact Estk | reflexivity | reflexivity]
            | same_rest_solve | reflexivity | reflexivity | reflexivity |].
          intros Hb. apply Nat.ltb_lt. exact (Hw Hb).
      - (* schedule *)
        ic_open HI pm rdy HG. wstep. apply wpc_ev_op; qstep.
        change (expect_of O_SCHEDULE sc a _) with [XAddFirst sc a].
        unfold new_sd. wstep. cbv zeta. repeat wstep.
        match goal with |- wpc _ (ev_stack K_ADD_FIRST ?d) _ _ _ => apply (wpc_ev_add_first n d) end;
          [reflexivity | qstep].
        assert (HG' : forall u', same_rest u u' ->
                  st_stack u' = st_stack u ++ [{| sd_id := st_next_sd u; sd_scr := sc; sd_args := a; sd_modal := false |}] ->
                  st_next_sd u' = S (st_next_sd u) -> G Ps rdy u').
        { intros u' H1 H2 H3. eapply G_sched; [exact HG | exact H1 | exact H2 | reflexivity | exact H3 |].
          intros Hb. apply Nat.ltb_lt. exact (Hw Hb). }
        wstep. wif; repeat wstep.
        + apply IC_intro; [cbn [st_stack set]; rewrite map_app; reflexivity|].
          apply HG'; [same_rest_solve | reflexivity | reflexivity].
        + apply IC_intro; [cbn [st_stack set]; rewrite map_app; reflexivity|].
          apply HG'; [same_rest_solve | reflexivity | reflexivity].
      - ic_open HI pm rdy HG. repeat wstep. ic_view HG.
      - wcall Hclose Ps pf HI1 x; [exact HI | exact HI1 | exact HI1].
      - ic_open HI pm rdy HG. repeat wstep. ic_view HG.
      - ic_open HI pm rdy HG. repeat wstep. ic_view HG.
      - ic_open HI pm rdy HG. repeat wstep. ic_view HG.
      - ic_open HI pm rdy HG. repeat wstep. ic_view HG.
      - ic_open HI pm rdy HG. repeat wstep. ic_view HG.
      - ic_open HI pm rdy HG. repeat wstep. ic_view HG.
      - ic_open HI pm rdy HG. repeat wstep. ic_view HG.
      - ic_open HI pm rdy HG. repeat wstep. ic_view HG.
      - (* connect *) ic_open HI pm rdy HG. repeat wstep. ic_view HG.
      - (* emit *) ic_open HI pm rdy HG. repeat wstep. ic_view HG.
      - (* process_signals() from a callback: a nested dispatch, like the blocking wait *)
        wcall HAPI Ps pf HI1 x; [exact HI | exact HI1 | exact HI1].
      - wcall (get_input_blocking_spec self) Ps pf HI1 x; [exact HI | exact HI1 | exact HI1].
      - (* type-ahead flag *) ic_open HI pm rdy HG. repeat wstep. ic_view HG.
      - (* the application's own InputHandler object asks *)
        ic_open HI pm rdy HG. unfold handler_ask. wstep.
        destruct (hlookup hh (st_hobj u)) as [m|].
        + wcall (handler_get_input_spec m sk) Ps pf HI1 x; [ic_view HG | exact HI1 | exact HI1].
        + wcall (new_input_handler_spec None self false
                   (fun m => wr (fun u0 => u0 <| st_hobj := (hh, m) :: st_hobj u0 |>);; handler_get_input m sk)) Ps pf HI1 x;
            [ | ic_view HG | exact HI1 | exact HI1].
          intros m. apply spec_intro. intros Ps' pf' c' u' HI'. ic_open HI' pm' rdy' HG'. repeat wstep.
          wcall (handler_get_input_spec m sk) Ps' pf' HI2 x; [ic_view HG' | exact HI2 | exact HI2].
      - (* ... and waits *)
        ic_open HI pm rdy HG. unfold handler_wait. wstep.
        destruct (hlookup hh (st_hobj u)) as [m|]; [|wstep; ic_view HG].
        wstep. apply (wpc_while_inv _ _ Ps pf); [apply HAPI | ic_view HG |].
        intros o c2 u2 Ho1 Ho2 HI2. destruct o as [|x| |]; try congruence; qstep; [|exact HI2].
        ic_open HI2 pm2 rdy2 HG2. repeat wstep. ic_view HG2.
      - ic_open HI pm rdy HG. repeat wstep. ic_view HG.
      - ic_open HI pm rdy HG. repeat wstep. ic_view HG.
      - ic_open HI pm rdy HG. repeat wstep. ic_view HG.
      - (* if count < k *)
        destruct IHc as [IHt IHe].
        assert (Hseq : forall l, Forall (fun c => (b = true -> scmd_wf nscr c = true) ->
                                   forall self count, spec n (do_scmd specs close_now self count c)) l ->
                                 (b = true -> forallb (scmd_wf nscr) l = true) ->
                                 spec n ((fix seq (l : list scmd) : sprog :=
                                            match l with [] => PRet | x :: r => do_scmd specs close_now self count x;; seq r end) l)).
        { clear - Hclose. induction l as [|x l IHl]; intros HF Hwl; apply spec_intro; intros Ps pf cc u HI.
          - ic_open HI pm rdy HG. wstep. ic_view HG.
          - inversion HF as [|? ? Hx Hl]; subst. wstep.
            assert (Hwx : b = true -> scmd_wf nscr x = true /\ forallb (scmd_wf nscr) l = true).
            { intros Hb. specialize (Hwl Hb). cbn [forallb] in Hwl. apply andb_true_iff in Hwl. exact Hwl. }
            wcall (Hx (fun Hb => proj1 (Hwx Hb)) self count) Ps pf HI1 x0; [exact HI | | qstep; exact HI1].
            wcall (IHl Hl (fun Hb => proj2 (Hwx Hb))) Ps pf HI2 x0; [exact HI1 | exact HI2 | exact HI2]. }
        assert (Hwte : b = true -> forallb (scmd_wf nscr) t = true /\ forallb (scmd_wf nscr) e = true).
        { intros Hb. specialize (Hw Hb). cbn [scmd_wf] in Hw. apply andb_true_iff in Hw. exact Hw. }
        destruct (count <? k)%nat.
        + wcall (Hseq t IHt (fun Hb => proj1 (Hwte Hb))) Ps pf HI1 x; [exact HI | exact HI1 | exact HI1].
        + wcall (Hseq e IHe (fun Hb => proj2 (Hwte Hb))) Ps pf HI1 x; [exact HI | exact HI1 | exact HI1].
    Qed.


    Lemma do_scmds_spec close_now : spec n close_now ->
      forall l, (b = true -> forallb (scmd_wf nscr) l = true) ->
      forall self count, spec n (do_scmds specs close_now self count l).
    Proof.
      intros Hclose. induction l as [|x l IHl]; intros Hwl self count; apply spec_intro; intros Ps pf cc u HI;
        cbn [do_scmds].
      - ic_open HI pm rdy HG. wstep. ic_view HG.
      - assert (Hwx : b = true -> scmd_wf nscr x = true /\ forallb (scmd_wf nscr) l = true).
        { intros Hb. specialize (Hwl Hb). cbn [forallb] in Hwl. apply andb_true_iff in Hwl. exact Hwl. }
        wstep.
        wcall (do_scmd_spec close_now Hclose x (fun Hb => proj1 (Hwx Hb)) self count) Ps pf HI1 x0; [exact HI | | exact HI1].
        wcall (IHl (fun Hb => proj2 (Hwx Hb)) self count) Ps pf HI2 x0; [exact HI1 | exact HI2 | exact HI2].
    Qed.

    Lemma mark_spec (a : list nat) : spec n (ev T_MARK a).
    Proof. apply spec_intro. intros Ps pf cc u HI. ic_open HI pm rdy HG. repeat wstep. ic_view HG. Qed.

    Lemma ret_spec : spec n PRet.
    Proof. apply spec_intro. intros Ps pf cc u HI. ic_open HI pm rdy HG. repeat wstep. ic_view HG. Qed.

    (* ScreenScheduler.close_screen *)
    Lemma close_screen_spec cf : spec n (close_screen specs cf).
    Proof.
      apply spec_intro. intros Ps pf cc u HI. ic_open HI pm rdy HG.
      unfold close_screen. wstep. apply wpc_ev_op; qstep. wstep.
      destruct (st_stack u) as [|top r] eqn:Estk; cbn [map].
      - change (expect_of O_CLOSE _ 0 false) with (@nil sexp). wstep.
        apply IC_intro; [rewrite Estk; reflexivity | exact HG].
      - change (expect_of O_CLOSE _ 0 true) with [XPop true].
        repeat wstep. apply wpc_ev_pop_close; qstep.
        wstep. unfold call_closed. wstep. cbv zeta. repeat wstep. apply wpc_ev_closed; qstep.
        wcall (do_scmds_spec (ev T_MARK [sd_scr top; 999]) (mark_spec _) (sc_closed (specs (sd_scr top)))
                 (fun Hb => proj1 (proj2 (proj2 (wf_parts (sd_scr top) Hb))))
                 (sd_scr top) (ss_n_closed (scr_of (u <| st_stack := r |>) (sd_scr top)))) Ps pf HI1 x;
          [ | | exact HI1].
        { apply IC_intro; [reflexivity|].
          eapply G_pop; [exact HG | same_rest_solve | exact Estk | reflexivity | reflexivity]. }
        wstep.
        assert (Hfin : forall (md : bool) c2 u2, IC Ps pf c2 u2 ->
                 wpc n (rd (fun u0 => match st_stack u0 with
                                      | [] => PRet
                                      | _ :: _ => if md then PRet else sched_redraw
                                      end);;
                        rd (fun u0 => match st_stack u0 with [] => PThrow XExit | _ :: _ => PRet end))
                     c2 u2 (QI Ps pf)).
        { intros md c2 u2 HI2. ic_open HI2 pm2 rdy2 HG2. repeat wstep.
          destruct (st_stack u2) as [|t2 r2] eqn:E2; cbn [map].
          - repeat wstep. rewrite E2. wstep. apply IC_intro; [rewrite E2; reflexivity | exact HG2].
          - destruct md; repeat wstep; rewrite E2; wstep;
              (apply IC_intro; [rewrite E2; reflexivity | exact HG2]). }
        assert (Hrest : forall (md : bool) c1 u1, IC Ps pf c1 u1 ->
                  wpc n ((if md then PApi ACloseLoop else PRet);;
                         rd (fun u0 => match st_stack u0 with
                                       | [] => PRet
                                       | _ :: _ => if md then PRet else sched_redraw
                                       end);;
                         rd (fun u0 => match st_stack u0 with [] => PThrow XExit | _ :: _ => PRet end))
                      c1 u1 (QI Ps pf)).
        { intros md c1 u1 HI2. wstep. destruct md.
          - wcall HAPI Ps pf HI3 x; [exact HI2 | | exact HI3]. apply (Hfin true). exact HI3.
          - ic_open HI2 pm2 rdy2 HG2. wstep. apply (Hfin false). apply IC_intro; [reflexivity | exact HG2]. }
        destruct cf as [c0|].
        + destruct (c0 =? sd_scr top)%nat.
          * ic_open HI1 pm1 rdy1 HG1. wstep. apply Hrest. apply IC_intro; [reflexivity | exact HG1].
          * ic_open HI1 pm1 rdy1 HG1. wstep. apply IC_intro; [reflexivity | exact HG1].
        + ic_open HI1 pm1 rdy1 HG1. wstep. apply Hrest. apply IC_intro; [reflexivity | exact HG1].
    Qed.

    Lemma run_cmds_spec self count l :
      (b = true -> forallb (scmd_wf nscr) l = true) -> spec n (run_cmds specs self count l).
    Proof. intros Hw. apply (do_scmds_spec _ (close_screen_spec None) l Hw). Qed.


    (* ---------------------------------------------------------------- InputManager.process_input *)
    Lemma call_input_spec scr key : spec n (call_input specs scr key).
    Proof.
      apply spec_intro. intros Ps pf cc u HI. ic_open HI pm rdy HG.
      unfold call_input. wstep.
      assert (Hgo : forall cmds rv, (b = true -> forallb (scmd_wf nscr) cmds = true) ->
                wpc n (wr (upd_scr scr (fun t0 : scrst => t0 <| ss_n_input := S (ss_n_input (scr_of u scr)) |>));;
                       evt T_INPUT [scr; ss_input_args (scr_of u scr)] key;;
                       run_cmds specs scr (ss_n_input (scr_of u scr)) cmds;; wr (fun u0 => u0 <| st_rv := rv |>))
                    (mkc (map ent_of (st_stack u)) [] pm None rdy None pf) u (QI Ps pf)).
      { intros cmds rv Hw. repeat wstep.
        wcall (run_cmds_spec scr (ss_n_input (scr_of u scr)) cmds Hw) Ps pf HI1 x; [ic_view HG | | exact HI1].
        ic_open HI1 pm1 rdy1 HG1. repeat wstep. ic_view HG1. }
      destruct (assoc_str key (sc_input (specs scr))) as [[c0 r0]|] eqn:Ea.
      - apply Hgo. intros Hb. eapply assoc_str_wf; [|exact Ea]. apply (wf_parts scr Hb).
      - apply Hgo. intros Hb. apply (wf_parts scr Hb).
    Qed.

    Lemma process_input_result_spec act sr : spec n (process_input_result specs act sr).
    Proof.
      apply spec_intro. intros Ps pf cc u HI.
      unfold process_input_result, with_top. ic_open HI pm rdy HG. wstep.
      destruct (st_stack u) as [|active r] eqn:Estk.
      { wstep. apply IC_intro; [rewrite Estk; reflexivity | exact HG]. }
      rewrite <- Estk.
      destruct act.
      - repeat wstep. ic_view HG.
      - repeat wstep. ic_view HG.
      - wcall (close_screen_spec None) Ps pf HI1 x; [(apply IC_intro; [reflexivity | exact HG]) | exact HI1 | exact HI1].
      - wstep. destruct (st_quit u) as [qs|] eqn:Eq.
        + wstep. unfold push_screen_modal.
          wcall (do_scmd_spec PRet ret_spec (SPushModal qs 0)) Ps pf HI1 x; [ | (apply IC_intro; [reflexivity | exact HG]) | | exact HI1].
          { intros Hb. cbn [scmd_wf]. apply Nat.ltb_lt. destruct HG as (_ & _ & HR). apply (HR Hb). exact Eq. }
          ic_open HI1 pm1 rdy1 HG1. wstep.
          destruct (ss_answer (scr_of u0 qs)); repeat wstep; ic_view HG1.
        + wstep. ic_view HG.
      - destruct sr.
        + repeat wstep. ic_view HG.
        + wcall (get_input_spec (sd_scr active) (sd_args active)) Ps pf HI1 x; [(apply IC_intro; [reflexivity | exact HG]) | exact HI1 | exact HI1].
    Qed.

    Lemma process_input_spec scr line : spec n (process_input specs scr line).
    Proof.
      apply spec_intro. intros Ps pf cc u HI. ic_open HI pm rdy HG.
      unfold process_input. repeat wstep.
      assert (Hfin : forall c1 u1, IC Ps pf c1 u1 ->
                wpc n (rd (fun u0 =>
                   if st_rb u0
                   then ev T_ACTION [scr; match action_of (st_rv u0) with
                                          | ANoop => 0 | ARedraw => 1 | AClose => 2 | AQuit => 3 | AError => 4 end];;
                        wr (upd_scr scr (fun t0 : scrst => match action_of (st_rv u0) with
                                                   | AError => t0 <| ss_err := S (ss_err t0) |>
                                                   | _ => t0 <| ss_err := 0 |> end));;
                        rd (fun u1 => process_input_result specs (action_of (st_rv u0))
                                        (ss_err (scr_of u1 scr) mod 5 =? 0))
                   else PRet)) c1 u1 (QI Ps pf)).
      { intros c1 u1 HI1. ic_open HI1 pm1 rdy1 HG1. wstep. wif; [|wstep; ic_view HG1].
        repeat wstep.
        match goal with |- wpc _ (process_input_result _ ?a ?r) _ _ _ =>
          wcall (process_input_result_spec a r) Ps pf HI2 x; [ | exact HI2 | exact HI2] end.
        eapply IC_view; [ | reflexivity | exact HG1].
        unfold uview_eq; cbn [st_stack st_next_sd st_quit st_scr set upd_ih upd_scr];
          repeat split; try reflexivity; rewrite ?length_upd_nth; try reflexivity.
        intros x0. apply ready_upd_scr_keep. intros t. destruct (action_of (st_rv u1)); reflexivity. }
      wcall (call_input_spec scr line) Ps pf HI1 x; [ic_view HG | | ].
      - ic_open HI1 pm1 rdy1 HG1. wstep. apply Hfin. ic_view HG1.
      - destruct x; qstep; try exact HI1.
        ic_open HI1 pm1 rdy1 HG1. do 3 wstep. apply Hfin. ic_view HG1.
    Qed.

    Lemma input_ready_handler_spec m sg : spec n (input_ready_handler specs m sg).
    Proof.
      apply spec_intro. intros Ps pf cc u HI. ic_open HI pm rdy HG.
      unfold input_ready_handler. destruct (negb (sg_a sg =? m)%nat); [wstep; ic_view HG|].
      repeat wstep. destruct (negb (sg_b sg)); [wstep; ic_view HG|].
      repeat wstep. wif; [|wstep; ic_view HG].
      repeat wstep.
      match goal with |- wpc _ (process_input _ ?a ?l) _ _ _ =>
        wcall (process_input_spec a l) Ps pf HI2 x; [ic_view HG | exact HI2 | exact HI2] end.
    Qed.


    (* ---------------------------------------------------------------- _process_screen *)
    Lemma ask_pages_spec scr k : spec n (ask_pages specs scr k).
    Proof.
      induction k as [|k IH]; apply spec_intro; intros Ps pf cc u HI; cbn [ask_pages].
      - ic_open HI pm rdy HG. wstep. ic_view HG.
      - wstep. wcall (get_input_blocking_spec scr) Ps pf HI1 x; [exact HI | | exact HI1].
        wcall IH Ps pf HI2 x; [exact HI1 | exact HI2 | exact HI2].
    Qed.

    Lemma process_screen_wpc Ps pf c u :
      IC Ps ({| pf_state := 0; pf_id := 0 |} :: pf) c u -> wpc n (process_screen specs) c u (QF Ps pf).
    Proof.
      set (fr0 := {| pf_state := 0; pf_id := 0 |}). assert (Hfr : pf_state fr0 = 0) by reflexivity.
      intros HI. ic_open HI pm rdy HG. unfold process_screen, with_top. wstep.
      destruct (st_stack u) as [|top r] eqn:Estk.
      { wstep. apply IC_intro; [rewrite Estk; reflexivity | exact HG]. }
      cbv zeta. wstep.
      match goal with |- wpc _ _ _ _ (K _ ?q _) => set (TAIL := q) end.
      (* the stack as it is when this _process_screen starts is remembered: ids below the counter are those entries *)
      set (Ps1 := (st_next_sd u, top :: r) :: Ps).
      assert (HG0 : G Ps1 rdy u).
      { pose proof (G_mark _ _ _ HG) as HG0. rewrite Estk in HG0. exact HG0. }
      assert (Hlt : sd_id top < st_next_sd u).
      { destruct HG as ([_ L2] & _). rewrite Estk in L2. inversion L2; assumption. }
      assert (Hscr : b = true -> sd_scr top < nscr).
      { intros Hb. destruct HG as (_ & _ & HR). destruct (HR Hb) as (_ & _ & R3 & _).
        rewrite Estk in R3. inversion R3; assumption. }

      assert (Htail : forall pm1 rdy1 u1 fr1 stk, st_stack u1 = stk -> G Ps1 rdy1 u1 ->
                (b = true -> mem (sd_scr top) rdy1 = true) -> st_rb u1 = true -> pf_state fr1 = 0 ->
                ((exists r1, stk = top :: r1) \/ pf_id fr1 = S (sd_id top)) ->
                wpc n TAIL (mkc (map ent_of stk) [] pm1 None rdy1 None (fr1 :: pf)) u1 (QF Ps pf)).
      { intros pm1 rdy1 u1 fr1 stk Hstk HG1 Hm Hrb Hfr1 Hcase. subst stk. unfold TAIL. wstep. rewrite Hrb. cbn [negb].
        assert (HQF : forall fr c' u' o, IC Ps1 (fr :: pf) c' u' -> Qat o c' u' (QF Ps pf)).
        { intros fr c' u' o HI'. eapply Qat_QF. eapply IC_drop. exact HI'. }
        assert (Hraise : forall fr c' u', IC Ps1 (fr :: pf) c' u' -> wpc n raise_exception_signal c' u' (QF Ps pf)).
        { intros fr c' u' HI'. ic_open HI' pm' rdy' HG'. repeat wstep.
          eapply IC_drop. apply IC_intro; [reflexivity | exact HG']. }
        assert (Hinp : forall fr c3 u3, IC Ps1 (fr :: pf) c3 u3 ->
                  wpc n (rd (fun u2 => if ss_input_required (scr_of u2 (sd_scr top))
                                       then get_input specs (sd_scr top) (sd_args top) else PRet))
                      c3 u3 (KT n raise_exception_signal (QF Ps pf))).
        { intros fr c3 u3 HI3. wstep. wif.
          - wcall (get_input_spec (sd_scr top) (sd_args top)) Ps1 (fr :: pf) HI4 x; [exact HI3 | | ].
            + eapply IC_drop; exact HI4.
            + destruct x; qstep; [eapply IC_drop; exact HI4 | apply (Hraise fr); exact HI4 | eapply IC_drop; exact HI4].
          - wstep. eapply IC_drop; exact HI3. }
        do 3 wstep. wstep. unfold call_refresh. wstep. cbv zeta. do 3 wstep.
        apply wpc_ev_refresh_gen; [exact Hfr1 | exact Hm | | qstep].
        { destruct Hcase as [[r1 Hr1]|Hid]; [left | right; exact Hid].
          cbn [st_stack set upd_scr]. rewrite Hr1. cbn [map]. eauto. }
        match goal with |- wpc _ (run_cmds _ ?a ?k ?l) _ _ _ =>
          wcall (run_cmds_spec a k l (fun Hb => proj1 (wf_parts a Hb))) Ps1 ({| pf_state := 1; pf_id := sd_id top |} :: pf) HI2 x end.
        - apply IC_intro; [reflexivity|].
          eapply G_view; [|exact HG1]. view_solve.
        - (* refresh() returned: is the screen still on top? *)
          ic_open HI2 pm2 rdy2 HG2. wstep.
          destruct (st_stack u0) as [|top' r'] eqn:E2.
          { wstep. eapply IC_drop. apply IC_intro; [rewrite E2; reflexivity | exact HG2]. }
          destruct (sd_id top' =? sd_id top)%nat eqn:Eid.
          2:{ wstep. eapply IC_drop. apply IC_intro; [rewrite E2; reflexivity | exact HG2]. }
          assert (top' = top) as ->.
          { apply Nat.eqb_eq in Eid.
            destruct (G_head _ _ _ _ _ HG2) as [_ Hold].
            apply (same_entry u top r); [apply HG | exact Estk | | exact Eid].
            apply Hold; [rewrite E2; left; reflexivity | lia]. }
          cbn [map]. wstep. unfold draw_screen. wstep. wstep.
          assert (Hshow : wpc n (call_show_all specs top)
                    (mkc (ent_of top :: map ent_of r') [] pm2 None rdy2 None ({| pf_state := 1; pf_id := sd_id top |} :: pf)) u0
                    (KT n raise_exception_signal
                       (K n (rd (fun u2 => if ss_input_required (scr_of u2 (sd_scr top))
                                           then get_input specs (sd_scr top) (sd_args top) else PRet))
                          (KT n raise_exception_signal (QF Ps pf))))).
          { unfold call_show_all. wstep. cbv zeta. do 3 wstep. apply wpc_ev_show; qstep. wstep.
            assert (Hx : forall x c' u', IC Ps1 ({| pf_state := 2; pf_id := sd_id top |} :: pf) c' u' ->
                      Qat (OThrow x) c' u'
                        (KT n raise_exception_signal
                           (K n (rd (fun u2 => if ss_input_required (scr_of u2 (sd_scr top))
                                               then get_input specs (sd_scr top) (sd_args top) else PRet))
                              (KT n raise_exception_signal (QF Ps pf))))).
            { intros x c' u' HI'. destruct x; qstep.
              - eapply IC_drop. exact HI'.
              - ic_open HI' pm' rdy' HG'. wstep.
                eapply Hinp. apply IC_intro; [reflexivity | exact HG'].
              - eapply IC_drop. exact HI'. }
            wcall (ask_pages_spec (sd_scr top) (sc_pages (specs (sd_scr top)))) Ps1
                  ({| pf_state := 2; pf_id := sd_id top |} :: pf) HI3 x.
            - apply IC_intro; [cbn [st_stack set upd_scr]; rewrite E2; reflexivity|].
              eapply G_view; [|exact HG2]. view_solve.
            - match goal with |- wpc _ (run_cmds _ ?a ?k ?l) _ _ _ =>
                wcall (run_cmds_spec a k l (fun Hb => proj1 (proj2 (wf_parts a Hb)))) Ps1
                      ({| pf_state := 2; pf_id := sd_id top |} :: pf) HI4 x end.
              + exact HI3.
              + eapply Hinp. exact HI4.
              + apply Hx. exact HI4.
            - apply Hx. exact HI3. }
          destruct (sc_no_separator (specs (sd_scr top))).
          + wstep. exact Hshow.
          + apply wpc_ev_separator; qstep. exact Hshow.
        - destruct x; qstep.
          + eapply IC_drop. exact HI2.
          + eapply Hraise. exact HI2.
          + eapply IC_drop. exact HI2. }

      (* a successful setup makes the screen ready *)
      assert (Hready : forall rdy1 u1, G Ps1 rdy1 u1 ->
                G Ps1 (sd_scr top :: rdy1)
                  (upd_scr (sd_scr top) (fun t0 : scrst => t0 <| ss_ready := true |>) u1 <| st_rb := true |>)).
      { intros rdy1 u1 HG1. eapply G_ready; [exact HG1 | reflexivity | reflexivity | reflexivity | | ].
        { cbn [st_scr set upd_scr]. rewrite !length_upd_nth. reflexivity. }
        intros Hb x. destruct HG1 as (_ & _ & HR). destruct (HR Hb) as (_ & R2 & _).
        pose proof (Hscr Hb) as Hl.
        unfold scr_of. cbn [st_scr set upd_scr]. rewrite nth_upd_nth, R2.
        apply Nat.ltb_lt in Hl. rewrite Hl, andb_true_r.
        destruct (x =? sd_scr top)%nat eqn:Ex; reflexivity. }

      wstep. destruct (ss_ready (scr_of u (sd_scr top))) eqn:Erdy.
      - (* already set up *)
        wstep. cbn [map]. apply (Htail _ _ _ _ (top :: r));
          [cbn [st_stack set]; exact Estk | eapply G_view; [view_solve | exact HG0] | | reflexivity | exact Hfr | left; eauto].
        intros Hb. destruct HG as (_ & _ & HR). destruct (HR Hb) as (R1 & _). rewrite R1. exact Erdy.
      - (* setup() *)
        assert (Hnr : b = true -> mem (sd_scr top) rdy = false).
        { intros Hb. destruct HG as (_ & _ & HR). destruct (HR Hb) as (R1 & _). rewrite R1. exact Erdy. }
        unfold call_setup. destruct (sc_setup_cmds (specs (sd_scr top))) as [|c0 cmds] eqn:Ecmds.
        + (* a setup() that only reports its result *)
          unfold call_setup_plain. wstep. cbv zeta. do 3 wstep. cbn [map].
          apply wpc_ev_setup; [exact Hfr | exact Hnr | qstep].
          destruct (nth_last (sc_setup (specs (sd_scr top))) (ss_n_setup (scr_of u (sd_scr top)))) eqn:Eok.
          * (* succeeded: the screen is ready *)
            repeat wstep. apply (Htail _ _ _ _ (top :: r));
              [cbn [st_stack set upd_scr]; exact Estk | | | reflexivity | exact Hfr | left; eauto].
            -- apply Hready. eapply G_view; [|exact HG0]. view_solve.
            -- intros _. unfold mem. cbn [existsb]. rewrite Nat.eqb_refl. reflexivity.
          * (* failed: the entry is discarded, the next screen is processed *)
            repeat wstep. unfold TAIL. wstep. cbn [st_rb set upd_scr negb]. do 2 wstep.
            cbn [st_stack set upd_scr]. rewrite Estk. do 2 wstep.
            apply wpc_ev_pop_failed; qstep.
            assert (HI1 : forall pmx, IC Ps (fr0 :: pf) (mkc (map ent_of r) [] pmx None rdy None (fr0 :: pf))
                            (upd_scr (sd_scr top) (fun t0 : scrst => t0 <| ss_n_setup := S (ss_n_setup (scr_of u (sd_scr top))) |>) u
                               <| st_rb := false |> <| st_stack := r |>)).
            { intros pmx. apply IC_intro; [reflexivity|].
              eapply G_pop; [exact HG | same_rest_solve | exact Estk | reflexivity | reflexivity]. }
            destruct (sd_modal top).
            -- wcall HAPI Ps (fr0 :: pf) HI2 x; [apply HI1 | exact HI2 | exact HI2].
            -- repeat wstep. apply HI1.
        + (* a setup() that runs commands first: it cannot report failure *)
          assert (Eok : nth_last (sc_setup (specs (sd_scr top))) (ss_n_setup (scr_of u (sd_scr top))) = true).
          { destruct (nth_last (sc_setup (specs (sd_scr top))) (ss_n_setup (scr_of u (sd_scr top)))) eqn:Eok; [reflexivity|].
            apply nth_last_false in Eok. apply Hfsp in Eok. congruence. }
          unfold call_setup_cmds. wstep. cbv zeta. rewrite Eok. do 3 wstep. cbn [map].
          apply wpc_ev_setup_begin; [exact Hnr | qstep]. wstep.
          set (fr1 := {| pf_state := 0; pf_id := S (sd_id top) |}).
          wcall (run_cmds_spec (sd_scr top) (ss_n_setup (scr_of u (sd_scr top))) (c0 :: cmds)
                   (fun Hb => eq_ind _ (fun l => forallb (scmd_wf nscr) l = true) (wf_setup_cmds (sd_scr top) Hb) _ Ecmds))
                Ps1 (fr1 :: pf) HI2 x.
          * apply IC_intro; [cbn [st_stack set upd_scr]; rewrite Estk; reflexivity|].
            eapply G_view; [|exact HG0]. view_solve.
          * (* setup() returns: the stack may have changed *)
            ic_open HI2 pm2 rdy2 HG2. wstep.
            apply (wpc_ev_setup_ret n top true); qstep. repeat wstep.
            apply (Htail _ _ _ fr1 (st_stack u0)); [reflexivity | apply Hready; exact HG2 | | reflexivity | reflexivity | right; reflexivity].
            intros _. unfold mem. cbn [existsb]. rewrite Nat.eqb_refl. reflexivity.
          * destruct x; qstep; eapply IC_drop; exact HI2.
    Qed.


    (* a screen's own signal callback: one event, then the screen's commands (outside any _process_screen frame) *)
    Lemma custom_handler_spec k sg scr : spec n (custom_handler specs k sg scr).
    Proof.
      apply spec_intro. intros Ps pf cc u HI. ic_open HI pm rdy HG.
      unfold custom_handler. repeat wstep.
      wcall (run_cmds_spec scr 0 (nth k (sc_custom (specs scr)) []) (wf_custom scr k)) Ps pf HI1 x;
        [ic_view HG | exact HI1 | exact HI1].
    Qed.

    (* ---------------------------------------------------------------- the handler table *)
    Lemma Inv_handler_end Ps pf pf' hid sid how s :
      Inv Ps pf' s -> pf = (if (hid =? H_RENDER)%nat then tl pf' else pf') ->
      Inv Ps pf (emit (EHandlerEnd hid sid how) s).
    Proof.
      intros [HA HI] Hpf. pose proof (Inv_at Ps pf' s (conj HA HI)) as Hat.
      apply (at_cu_emit _ _ _ (EHandlerEnd hid sid how)) in Hat; [|apply cchk_not_user; exact I].
      destruct Hat as (HA' & Hc' & Hu'). split; [exact HA'|]. rewrite Hc', Hu'.
      destruct HI as (pm & rdy & -> & HG). exists pm, rdy. split; [|exact HG].
      cbn [cstep c_stack c_expect c_popped c_failed c_ready c_cpend c_pframes]. rewrite Hpf. reflexivity.
    Qed.

    Lemma wp_run (p : sprog) s (Q : outcome -> lstate sstate -> Prop) f o s' :
      wp n p s Q -> f <= n -> exec code f (CProg p) s = (o, s') -> post Acc Q o s'.
    Proof. intros [_ H] Hf E. exact (H f Hf o s' E). Qed.

    Lemma handler_spec Ps pf f hid sg data s o s' :
      f <= n -> Inv Ps pf s ->
      exec code f (CProg (code hid sg data)) (emit (EHandler hid (sg_id sg) data) s) = (o, s') ->
      match o with
      | ONormal => Inv Ps pf (emit (EHandlerEnd hid (sg_id sg) None) s')
      | OThrow x => Inv Ps pf (emit (EHandlerEnd hid (sg_id sg) (Some x)) s')
      | _ => Acc s'
      end.
    Proof.
      intros Hf [HA HI] E.
      pose proof (Inv_at Ps pf s (conj HA HI)) as Hat.
      apply (at_cu_emit _ _ _ (EHandler hid (sg_id sg) data)) in Hat; [|apply cchk_not_user; exact I].
      set (s1 := emit (EHandler hid (sg_id sg) data) s) in *.
      destruct (hid =? H_RENDER)%nat eqn:Eh.
      - (* _process_screen_callback *)
        assert (W : wp n (process_screen specs) s1 (QF Ps pf)).
        { refine (process_screen_wpc Ps pf _ _ _ s1 Hat).
          destruct HI as (pm & rdy & -> & HG). exists pm, rdy. split; [|exact HG].
          cbn [cstep]. rewrite Eh. reflexivity. }
        unfold screen_code in E. rewrite Eh in E.
        pose proof (wp_run _ _ _ _ _ _ W Hf E) as P.
        destruct o as [|x| |]; cbn [post] in P; try exact P.
        + destruct P as [fr P]. eapply Inv_handler_end; [exact P|]. rewrite Eh. reflexivity.
        + destruct P as [fr P]. eapply Inv_handler_end; [exact P|]. rewrite Eh. reflexivity.
      - assert (HI1 : Inv Ps pf s1).
        { destruct Hat as (HA1 & Hc1 & Hu1). split; [exact HA1|]. rewrite Hc1, Hu1.
          destruct HI as (pm & rdy & -> & HG). exists pm, rdy. split; [|exact HG]. cbn [cstep]. rewrite Eh. reflexivity. }
        assert (W : wp n (code hid sg data) s1 (QI Ps pf)).
        { unfold screen_code. rewrite Eh.
          destruct (hid =? H_CLOSE)%nat; [apply close_screen_spec; exact HI1|].
          destruct (hid =? H_RECEIVED)%nat; [apply input_received_handler_spec; exact HI1|].
          destruct (10 <=? hid)%nat; [apply input_ready_handler_spec; exact HI1|].
          destruct (3 <=? hid)%nat; [apply custom_handler_spec; exact HI1|].
          apply ret_spec; exact HI1. }
        pose proof (wp_run _ _ _ _ _ _ W Hf E) as P.
        destruct o as [|x| |]; cbn [post] in P; try exact P.
        + eapply Inv_handler_end; [exact P|]. rewrite Eh. reflexivity.
        + eapply Inv_handler_end; [exact P|]. rewrite Eh. reflexivity.
    Qed.
  End Level.

  (* ---------------------------------------------------------------- closing the induction on fuel *)
  Lemma Inv_acc Ps pf s : Inv Ps pf s -> Acc s.
  Proof. intros [H _]; exact H. Qed.
  Lemma Inv_same Ps pf s s' : trace s' = trace s -> ust s' = ust s -> Inv Ps pf s -> Inv Ps pf s'.
  Proof.
    intros Ht Hu [HA HI]. split; [eapply Acc_same; eauto|]. rewrite (SW_same _ _ _ Ht), Hu. exact HI.
  Qed.
  Lemma Inv_loop_event Ps pf e s : loop_event e = true -> Inv Ps pf s -> Inv Ps pf (emit e s).
  Proof.
    intros He [HA HI]. pose proof (at_cu_loop_event _ _ _ e He (Inv_at Ps pf s (conj HA HI))) as (HA' & Hc' & Hu').
    split; [exact HA'|]. rewrite Hc', Hu'. exact HI.
  Qed.

  Lemma loop_level n : (forall a, spec n (PApi a)) ->
    forall Ps pf f c s o s', f <= S n -> is_prog c = false -> Inv Ps pf s ->
    exec code f c s = (o, s') -> post Acc (QI Ps pf) o s'.
  Proof.
    intros HAPI Ps pf f c s o s' Hf Hc HI E.
    apply (loop_inv code Acc Acc_same (Inv Ps pf) (Inv_acc Ps pf) (Inv_same Ps pf)
                    (fun e s0 => Inv_loop_event Ps pf e s0) n) with (f := f) (c := c) (s := s); auto.
    intros f0 hid sg data s0 o0 s0' Hf0 H0 E0. exact (handler_spec n HAPI Ps pf f0 hid sg data s0 o0 s0' Hf0 H0 E0).
  Qed.

  Theorem api_all : forall n a, spec n (PApi a).
  Proof.
    induction n as [|n IH]; intros a Ps pf s HI; apply (wp_api code Acc Acc_same); try exact (Inv_acc _ _ _ HI).
    - intros f Hf o s' E. assert (f = 0) by lia. subst f. inversion E; subst. cbn [post]. exact (Inv_acc _ _ _ HI).
    - intros f Hf o s' E. exact (loop_level n IH Ps pf f (CApi a) s o s' Hf eq_refl HI E).
  Qed.

  (* every loop-level call keeps the invariant (the frames of _process_screen are balanced) *)
  Theorem exec_inv Ps pf f c s o s' :
    is_prog c = false -> Inv Ps pf s -> exec code f c s = (o, s') -> post Acc (QI Ps pf) o s'.
  Proof. intros Hc HI E. apply (loop_level f (api_all f) Ps pf f c s o s'); auto. Qed.

  (* ... and so does every command issued by the application from outside any callback *)
  Theorem run_cmds_inv Ps pf f self count l s o s' :
    (b = true -> forallb (scmd_wf nscr) l = true) -> Inv Ps pf s ->
    exec code f (CProg (run_cmds specs self count l)) s = (o, s') -> post Acc (QI Ps pf) o s'.
  Proof.
    intros Hw HI E. eapply (wp_run f); [apply (run_cmds_spec f (api_all f) self count l Hw); exact HI | apply Nat.le_refl | exact E].
  Qed.


  (* ---------------------------------------------------------------- sessions *)
  Lemma Inv_top Ps pf s : Inv Ps pf s -> Inv Ps [] (emit ETop s).
  Proof.
    intros [HA HI]. pose proof (Inv_at Ps pf s (conj HA HI)) as Hat.
    apply (at_cu_emit _ _ _ ETop) in Hat; [|apply cchk_not_user; exact I].
    destruct Hat as (HA' & Hc' & Hu'). split; [exact HA'|]. rewrite Hc', Hu'.
    destruct HI as (pm & rdy & -> & HG). exists pm, rdy. split; [reflexivity | exact HG].
  Qed.

  Definition finished (o : outcome) : Prop := o <> OBlocked /\ o <> OFuel.

  Lemma session_inv fuel : forall acts s os s',
    Inv [] [] s -> (b = true -> forallb (saction_wf nscr) acts = true) ->
    app_session specs fuel acts s = (os, s') ->
    Acc s' /\ (Forall finished os -> Inv [] [] s').
  Proof.
    induction acts as [|a r IH]; intros s os s' HI Hw H; cbn [app_session] in H.
    - inversion H; subst. split; [exact (Inv_acc _ _ _ HI) | intros _; exact HI].
    - pose proof (Inv_top _ _ _ HI) as HT.
      assert (Hwa : b = true -> saction_wf nscr a = true /\ forallb (saction_wf nscr) r = true).
      { intros Hb. specialize (Hw Hb). cbn [forallb] in Hw. apply andb_true_iff in Hw. exact Hw. }
      match type of H with (let '(o, s1) := ?X in _) = _ => destruct X as [o s1] eqn:E end.
      assert (R : post Acc (QI [] []) o s1).
      { destruct a as [l|].
        - eapply run_cmds_inv; [|exact HT|exact E]. intros Hb. exact (proj1 (Hwa Hb)).
        - destruct (st_stack (ust s)) as [|d l] eqn:Es.
          + destruct (st_run_empty (ust s)).
            * eapply exec_inv; [|exact HT|exact E]. reflexivity.
            * inversion E; subst. exact HT.
          + eapply exec_inv; [|exact HT|exact E]. reflexivity. }
      assert (Hstop : (os, s') = ([o], s1) -> Acc s' /\ (Forall finished os -> Inv [] [] s')).
      { intros Heq. inversion Heq; subst. destruct o as [|x| |]; cbn [post] in R.
        - split; [exact (Inv_acc _ _ _ R) | intros _; exact R].
        - split; [exact (Inv_acc _ _ _ R) | intros _; exact R].
        - split; [exact R|]. intros F. inversion F as [|? ? [F1 _] _]; subst. congruence.
        - split; [exact R|]. intros F. inversion F as [|? ? [_ F1] _]; subst. congruence. }
      assert (Hgo : o <> OBlocked -> o <> OFuel ->
                (let '(os0, s2) := app_session specs fuel r s1 in (o :: os0, s2)) = (os, s') ->
                Acc s' /\ (Forall finished os -> Inv [] [] s')).
      { intros N1 N2 Heq. destruct (app_session specs fuel r s1) as [os0 s2] eqn:E2. inversion Heq; subst.
        assert (HI1 : Inv [] [] s1) by (destruct o as [|x| |]; cbn [post] in R; congruence || exact R).
        destruct (IH s1 os0 s' HI1 (fun Hb => proj2 (Hwa Hb)) E2) as [A1 A2]. split; [exact A1|].
        intros F. apply A2. inversion F; assumption. }
      destruct o as [|[]| |]; first [ apply Hstop; symmetry; exact H | apply Hgo; [discriminate | discriminate | exact H] ].
  Qed.

  Lemma app_initialize_inv s :
    Inv [] [] s -> exists s1, exec code 20 (CProg app_initialize) s = (ONormal, s1) /\ Inv [] [] s1.
  Proof.
    intros HI. eexists. split; [reflexivity|].
    repeat (apply Inv_loop_event; [reflexivity|]). eapply Inv_same; [| |exact HI]; reflexivity.
  Qed.
End Screens.

(* ================================================================ the whole application *)
Lemma ready_scr0 specl x : ss_ready (nth x (map scr0 specl) (scr0 default_spec)) = false.
Proof. rewrite map_nth. reflexivity. Qed.

Lemma Inv_init typed b nscr specl quit run_empty :
  (b = true -> nscr = length specl /\ forall q, quit = Some q -> q < nscr) ->
  Inv typed b nscr [] [] (init_state (sstate0 specl typed quit run_empty)).
Proof.
  intros Hn. split; [exact I|]. exists false, []. split; [reflexivity|].
  split; [|split].
  - split; [constructor | constructor].
  - constructor.
  - intros Hb. destruct (Hn Hb) as [-> Hq]. repeat split.
    + intros x. unfold scr_of. cbn [ust init_state sstate0 st_scr]. rewrite ready_scr0. reflexivity.
    + cbn. apply map_length.
    + constructor.
    + exact Hq.
Qed.

Lemma wf_session_parts specl quit acts : wf_session specl quit acts = true ->
  forallb (spec_wf (length specl)) specl = true /\ (forall q, quit = Some q -> q < length specl) /\
  forallb (saction_wf (length specl)) acts = true.
Proof.
  unfold wf_session. rewrite !andb_true_iff. intros [[H1 H2] H3]. repeat split; auto.
  intros q ->. apply Nat.ltb_lt. exact H2.
Qed.

Lemma specs_wf specs specl : (forall n, specs n = nth n specl default_spec) ->
  forallb (spec_wf (length specl)) specl = true -> forall x, spec_wf (length specl) (specs x) = true.
Proof.
  intros Hs Hf x. rewrite Hs. rewrite forallb_forall in Hf.
  destruct (Nat.lt_ge_cases x (length specl)) as [Hlt|Hge].
  - apply Hf. apply nth_In. exact Hlt.
  - rewrite nth_overflow by exact Hge. reflexivity.
Qed.

(* every session is accepted by C04 (b = false), and by C04 and C08 when it is well formed (b = true) *)
Theorem app_accepted b specs specl typed quit run_empty fuel acts :
  failing_setup_plain specs ->
  (b = true -> (forall n, specs n = nth n specl default_spec) /\ wf_session specl quit acts = true) ->
  acc_tr (chkb b) typed (trace (snd (app_run_all specs specl typed quit run_empty fuel acts))).
Proof.
  intros Hpl Hb.
  assert (Hwf : b = true -> forall x, spec_wf (length specl) (specs x) = true).
  { intros E. destruct (Hb E) as [Hs Hw]. apply specs_wf; [exact Hs|]. apply (wf_session_parts _ _ _ Hw). }
  unfold app_run_all.
  assert (H0 : Inv typed b (length specl) [] [] (init_state (sstate0 specl typed quit run_empty))).
  { apply Inv_init. intros E. split; [reflexivity|]. destruct (Hb E) as [_ Hw]. apply (wf_session_parts _ _ _ Hw). }
  destruct (app_initialize_inv typed b specs (length specl) _ H0) as (s1 & E1 & H1).
  rewrite E1.
  destruct (app_session specs fuel acts s1) as [os s'] eqn:E. cbn [snd].
  refine (proj1 (session_inv typed b specs Hpl (length specl) Hwf fuel acts s1 os s' H1 _ E)).
  intros E0. destruct (Hb E0) as [_ Hw]. apply (wf_session_parts _ _ _ Hw).
Qed.

(* ================================================================ the link, as stated for users of this file *)
(* what [Inv] says about a state between operations *)
Record slink (typed : list (option str)) (s : lstate sstate) : Prop := {
  sl_stack : map (fun e => (en_id e, en_scr e, en_args e, en_modal e)) (sw_stack (SW typed s)) =
             map (fun d => (sd_id d, sd_scr d, sd_args d, sd_modal d)) (st_stack (ust s));
  sl_nodup : NoDup (map sd_id (st_stack (ust s)));
  sl_fresh : Forall (fun d => sd_id d < st_next_sd (ust s)) (st_stack (ust s));
  sl_expect : sw_expect (SW typed s) = [];
  sl_failed : sw_failed (SW typed s) = None;
  sl_closed_pending : sw_closed_pending (SW typed s) = None }.

Lemma Inv_slink typed b nscr Ps pf s : Inv typed b nscr Ps pf s -> slink typed s.
Proof.
  intros [_ (pm & rdy & Hc & (L1 & L2) & _ & _)].
  assert (E : forall (A : Type) (g : cw -> A), g (core (SW typed s)) = g (mkc (map ent_of (st_stack (ust s))) [] pm None rdy None pf))
    by (intros; rewrite Hc; reflexivity).
  constructor.
  - pose proof (E _ c_stack) as Es. cbn [core c_stack] in Es. rewrite Es, map_map. reflexivity.
  - exact L1.
  - exact L2.
  - exact (E _ c_expect).
  - exact (E _ c_failed).
  - exact (E _ c_cpend).
Qed.

(* [sw_ready] = the screens with [ss_ready = true] (well-formed sessions) *)
Lemma Inv_ready typed nscr Ps pf s :
  Inv typed true nscr Ps pf s -> forall x, mem x (sw_ready (SW typed s)) = ss_ready (scr_of (ust s) x).
Proof.
  intros [_ (pm & rdy & Hc & _ & _ & HR)] x. destruct (HR eq_refl) as (R1 & _).
  assert (Er : sw_ready (SW typed s) = rdy).
  { change (c_ready (core (SW typed s)) = rdy). rewrite Hc. reflexivity. }
  rewrite Er. apply R1.
Qed.

Lemma Inv_pframes typed b nscr Ps pf s : Inv typed b nscr Ps pf s -> sw_pframes (SW typed s) = pf.
Proof.
  intros [_ (pm & rdy & Hc & _)]. change (c_pframes (core (SW typed s)) = pf). rewrite Hc. reflexivity.
Qed.

(* the link holds after every finished session *)
Theorem app_slink b specs specl typed quit run_empty fuel acts :
  failing_setup_plain specs ->
  (b = true -> (forall n, specs n = nth n specl default_spec) /\ wf_session specl quit acts = true) ->
  Forall finished (fst (app_run_all specs specl typed quit run_empty fuel acts)) ->
  slink typed (snd (app_run_all specs specl typed quit run_empty fuel acts)).
Proof.
  intros Hpl Hb.
  assert (Hwf : b = true -> forall x, spec_wf (length specl) (specs x) = true).
  { intros E. destruct (Hb E) as [Hs Hw]. apply specs_wf; [exact Hs|]. apply (wf_session_parts _ _ _ Hw). }
  unfold app_run_all.
  assert (H0 : Inv typed b (length specl) [] [] (init_state (sstate0 specl typed quit run_empty))).
  { apply Inv_init. intros E. split; [reflexivity|]. destruct (Hb E) as [_ Hw]. apply (wf_session_parts _ _ _ Hw). }
  destruct (app_initialize_inv typed b specs (length specl) _ H0) as (s1 & E1 & H1).
  rewrite E1.
  destruct (app_session specs fuel acts s1) as [os s'] eqn:E. cbn [fst snd]. intros F.
  eapply Inv_slink.
  refine (proj2 (session_inv typed b specs Hpl (length specl) Hwf fuel acts s1 os s' H1 _ E) F).
  intros E0. destruct (Hb E0) as [_ Hw]. apply (wf_session_parts _ _ _ Hw).
Qed.

