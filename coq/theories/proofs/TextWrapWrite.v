(* TextWrapWrite.v — Widget.write(..., wordwrap=True) on an arbitrary widget state (TextWrite.v): where the
   wrapped lines land, what is left untouched, the cursor; render_text is the special case. *)
From SL Require Import Tac.
From SL Require Import PyInt Widget TextWrap TextWrite proofs.WidgetProofs proofs.TextWrapProofs proofs.TextWrapRender.
Import ListNotations.
Local Open Scope nat_scope.

(* ------------------------------------------------------------------ vocabulary *)
(* the lines of the greedy wrap of every source line, one empty line for a source line that wraps to nothing *)
Definition wrapped_lines (t : text) (w : nat) : list str :=
  concat (map (fun cs => or_blank (wrap_chunks' cs w)) (t_chunks t)).
(* the column at which line k starts: the first line at col, the others at col (block) or 0 *)
Definition line_start (col : nat) (block : bool) (k : nat) : nat :=
  match k with O => col | S _ => if block then col else 0 end.
(* cell (i, j) receives a character of line k *)
Definition covered (L : list str) (row col : nat) (block : bool) (i j : nat) : Prop :=
  exists k l, nth_error L k = Some l /\ i = row + k /\
              line_start col block k <= j < line_start col block k + length l.

(* ------------------------------------------------------------------ the wrapped text *)
Lemma wrapped_text_eq t w :
  join_nl (map (fun cs => join_nl (wrap_chunks' cs w)) (t_chunks t)) = join_nl (wrapped_lines t w).
Proof.
  unfold wrapped_lines.
  rewrite <- (map_map (fun cs => wrap_chunks' cs w) join_nl).
  rewrite <- (map_map (fun cs => wrap_chunks' cs w) or_blank).
  set (Ls := map (fun cs => wrap_chunks' cs w) (t_chunks t)).
  replace (map join_nl Ls) with (map join_nl (map or_blank Ls))
    by (rewrite map_map; apply map_ext; intros; apply join_nl_or_blank).
  apply join_nl_concat. apply Forall_forall. intros L Hin. apply in_map_iff in Hin.
  destruct Hin as (L0 & <- & _). destruct L0; discriminate.
Qed.

Lemma wrapped_lines_no_nl t w : chunks_ok t = true -> Forall no_nl (wrapped_lines t w).
Proof.
  intros Hok. apply chunks_ok_spec in Hok. unfold wrapped_lines.
  apply -> (@Forall_concat str). apply Forall_forall. intros L Hin. apply in_map_iff in Hin.
  destruct Hin as (cs & <- & Hin). destruct (Forall2_in_r _ _ _ _ Hok Hin) as (line & Hline).
  assert (H : Forall no_nl (wrap_chunks' cs w)).
  { eapply (wrap_chunks_chars (fun c => c <> NL)); [|apply wrap_chunks_total]. eapply line_ok_no_nl; eauto. }
  destruct (wrap_chunks' cs w); [constructor; constructor|exact H].
Qed.

Lemma wrapped_lines_width t w : 1 <= w -> Forall (fun l => length l <= w) (wrapped_lines t w).
Proof.
  intros Hw. unfold wrapped_lines. apply -> (@Forall_concat str). apply Forall_forall. intros L Hin.
  apply in_map_iff in Hin. destruct Hin as (cs & <- & _).
  pose proof (wrap_chunks_width cs w _ Hw (wrap_chunks_total cs w)) as H.
  destruct (wrap_chunks' cs w); [constructor; [simpl; lia|constructor]|exact H].
Qed.

Lemma split_nl_length s : forall cur, 1 <= length (split_nl s cur).
Proof.
  induction s as [|a s IH]; intros cur; cbn [split_nl]; [simpl; lia|].
  destruct (a =? NL)%N; [simpl; lia|apply IH].
Qed.

Lemma wrapped_lines_nonnil t w : chunks_ok t = true -> wrapped_lines t w <> [].
Proof.
  intros Hok. apply chunks_ok_spec in Hok. apply Forall2_len in Hok.
  pose proof (length_concat_or_blank (fun cs => wrap_chunks' cs w) (t_chunks t)) as L.
  pose proof (split_nl_length (t_text t) []) as S. fold (split_lines (t_text t)) in S.
  change (length (t_chunks t) <= length (wrapped_lines t w)) in L. intros E. rewrite E in L. simpl in L. lia.
Qed.

(* ------------------------------------------------------------------ the typewriter's path over '\n'.join(L), no width *)
Fixpoint line_path (x y : nat) (l : str) : list (nat * nat) :=
  match l with [] => [] | _ :: r => (x, y) :: line_path x (S y) r end.

Fixpoint lines_path (L : list str) (x y wc : nat) : list (nat * nat) :=
  match L with [] => [] | l :: r => line_path x y l ++ lines_path r (S x) wc wc end.

Definition start_of (y wc k : nat) : nat := match k with O => y | S _ => wc end.

Lemma no_nl_cons c l : no_nl (c :: l) -> (c =? NL)%N = false /\ no_nl l.
Proof. intros H. inversion H as [|? ? Hc Hl]; subst. split; [apply N.eqb_neq; exact Hc|exact Hl]. Qed.

Lemma path_line l : forall x y col block, no_nl l -> path l x y col None block = line_path x y l.
Proof.
  induction l as [|c l IH]; intros x y col block H; [reflexivity|].
  apply no_nl_cons in H. destruct H as [Hc Hl]. cbn [path line_path at_margin]. rewrite Hc, IH by exact Hl. reflexivity.
Qed.

Lemma path_end_line l : forall x y col block, no_nl l -> path_end l x y col None block = (x, y + length l).
Proof.
  induction l as [|c l IH]; intros x y col block H; [cbn; f_equal; lia|].
  apply no_nl_cons in H. destruct H as [Hc Hl]. cbn [path_end at_margin length]. rewrite Hc, IH by exact Hl.
  f_equal. lia.
Qed.

Lemma path_end_app : forall t1 t2 x y col width block,
  path_end (t1 ++ t2) x y col width block =
  path_end t2 (fst (path_end t1 x y col width block)) (snd (path_end t1 x y col width block)) col width block.
Proof.
  induction t1 as [|ch t1 IH]; intros t2 x y col width block; [reflexivity|].
  cbn [app path_end]. destruct (ch =? NL)%N; [apply IH|].
  destruct (at_margin width col (S y)); apply IH.
Qed.

Lemma need_rows_line_app l : forall rest x y col block,
  no_nl l ->
  need_rows (l ++ rest) x y col None block =
  Nat.max (match l with [] => 0 | _ => S x end) (need_rows rest x (y + length l) col None block).
Proof.
  induction l as [|c l IH]; intros rest x y col block H.
  - cbn [app length]. rewrite Nat.add_0_r. reflexivity.
  - apply no_nl_cons in H. destruct H as [Hc Hl]. cbn [app need_rows at_margin length]. rewrite Hc, IH by exact Hl.
    replace (S y + length l) with (y + S (length l)) by lia. destruct l; lia.
Qed.

Lemma line_path_length x y l : length (line_path x y l) = length l.
Proof. revert y. induction l as [|c l IH]; intros y; simpl; [reflexivity|rewrite IH; reflexivity]. Qed.

Lemma line_path_nth l : forall x y j, j < length l -> nth_error (line_path x y l) j = Some (x, y + j).
Proof.
  induction l as [|c l IH]; intros x y j H; [simpl in H; lia|].
  destruct j as [|j]; cbn [line_path nth_error]; [f_equal; f_equal; lia|].
  simpl in H. rewrite IH by lia. f_equal. f_equal. lia.
Qed.

Lemma line_path_in l : forall x y i j, In (i, j) (line_path x y l) <-> i = x /\ y <= j < y + length l.
Proof.
  induction l as [|c l IH]; intros x y i j; cbn [line_path In length]; [split; [tauto|lia]|].
  rewrite IH. split.
  - intros [H|H]; [injection H as <- <-; lia|lia].
  - intros [-> H]. destruct (Nat.eq_dec j y) as [->|N]; [left; reflexivity|right; lia].
Qed.

Lemma lines_path_in L : forall x y wc i j,
  In (i, j) (lines_path L x y wc) <->
  exists k l, nth_error L k = Some l /\ i = x + k /\ start_of y wc k <= j < start_of y wc k + length l.
Proof.
  induction L as [|l L IH]; intros x y wc i j; cbn [lines_path].
  - split; [intros []|intros (k & l & H & _)]. destruct k; discriminate.
  - rewrite in_app_iff, line_path_in, IH. split.
    + intros [[-> H]|(k & l0 & H1 & -> & H3)].
      * exists 0, l. cbn [nth_error start_of]. split; [reflexivity|]. split; [lia|exact H].
      * exists (S k), l0. cbn [nth_error start_of]. split; [exact H1|]. split; [lia|].
        destruct k; exact H3.
    + intros (k & l0 & H1 & -> & H3). destruct k as [|k]; cbn [nth_error start_of] in *.
      * injection H1 as <-. left. split; [lia|exact H3].
      * right. exists k, l0. split; [exact H1|]. split; [lia|]. destruct k; exact H3.
Qed.

Lemma lines_path_nth L : forall x y wc k l j ch,
  nth_error L k = Some l -> nth_error l j = Some ch ->
  exists n, nth_error (lines_path L x y wc) n = Some (x + k, start_of y wc k + j) /\
            nth_error (concat L) n = Some ch.
Proof.
  induction L as [|l0 L IH]; intros x y wc k l j ch Hk Hj; [destruct k; discriminate|].
  assert (Hlt : j < length l) by (apply nth_error_Some; congruence).
  destruct k as [|k]; cbn [nth_error] in Hk.
  - injection Hk as ->. exists j. cbn [lines_path concat start_of]. split.
    + rewrite nth_error_app1 by (rewrite line_path_length; exact Hlt).
      rewrite line_path_nth by exact Hlt. f_equal. f_equal. lia.
    + rewrite nth_error_app1 by exact Hlt. exact Hj.
  - destruct (IH (S x) wc wc k l j ch Hk Hj) as (n & H1 & H2).
    exists (length l0 + n). cbn [lines_path concat start_of]. split.
    + rewrite nth_error_app2 by (rewrite line_path_length; lia). rewrite line_path_length.
      replace (length l0 + n - length l0) with n by lia. rewrite H1. f_equal. f_equal; [lia|].
      destruct k; reflexivity.
    + rewrite nth_error_app2 by lia. replace (length l0 + n - length l0) with n by lia. exact H2.
Qed.

Lemma visible_no_nl l : no_nl l -> visible l = l.
Proof.
  induction l as [|c l IH]; intros H; [reflexivity|]. apply no_nl_cons in H. destruct H as [Hc Hl].
  unfold visible in *. cbn [filter]. rewrite Hc. cbn [negb]. rewrite IH by exact Hl. reflexivity.
Qed.

Lemma visible_app a b : visible (a ++ b) = visible a ++ visible b.
Proof. apply filter_app. Qed.

Lemma visible_join L : Forall no_nl L -> visible (join_nl L) = concat L.
Proof.
  induction L as [|l L IH]; intros H; [reflexivity|]. inversion H as [|? ? Hl HL]; subst.
  destruct L as [|l2 L'].
  - cbn [join_nl concat]. rewrite app_nil_r. apply visible_no_nl. exact Hl.
  - rewrite join_nl_cons2, visible_app, visible_no_nl by exact Hl.
    change (visible (NL :: join_nl (l2 :: L'))) with (visible (join_nl (l2 :: L'))).
    rewrite IH by exact HL. reflexivity.
Qed.

Lemma path_join L : forall x y col block,
  Forall no_nl L -> path (join_nl L) x y col None block = lines_path L x y (wrap_col col block).
Proof.
  induction L as [|l L IH]; intros x y col block H; [reflexivity|]. inversion H as [|? ? Hl HL]; subst.
  destruct L as [|l2 L'].
  - cbn [join_nl lines_path]. rewrite app_nil_r. apply path_line. exact Hl.
  - rewrite join_nl_cons2, path_newline, path_line, path_end_line by exact Hl. cbn [fst].
    change (lines_path (l :: l2 :: L') x y (wrap_col col block))
      with (line_path x y l ++ lines_path (l2 :: L') (S x) (wrap_col col block) (wrap_col col block)).
    f_equal. apply IH. exact HL.
Qed.

Lemma path_end_join L : forall x y col block,
  Forall no_nl L -> L <> [] ->
  path_end (join_nl L) x y col None block =
  (x + (length L - 1), start_of y (wrap_col col block) (length L - 1) + length (last L [])).
Proof.
  induction L as [|l L IH]; intros x y col block H Hne; [congruence|]. inversion H as [|? ? Hl HL]; subst.
  destruct L as [|l2 L'].
  - cbn [join_nl length last start_of Nat.sub]. rewrite path_end_line by exact Hl. f_equal. lia.
  - rewrite join_nl_cons2, path_end_app, (path_end_line l x y col block Hl). cbn [fst snd].
    change (path_end (NL :: join_nl (l2 :: L')) x (y + length l) col None block)
      with (path_end (join_nl (l2 :: L')) (S x) (wrap_col col block) col None block).
    rewrite IH by (auto; discriminate).
    change (last (l :: l2 :: L') []) with (last (l2 :: L') []).
    cbn [length]. replace (S (S (length L')) - 1) with (S (length L')) by lia.
    replace (S (length L') - 1) with (length L') by lia. cbn [start_of].
    f_equal; [lia|]. destruct (length L'); reflexivity.
Qed.

Lemma need_rows_join L : forall x y col block,
  Forall no_nl L -> L <> [] ->
  need_rows (join_nl L) x y col None block = match L with [[]] => 0 | _ => x + length L end.
Proof.
  induction L as [|l L IH]; intros x y col block H Hne; [congruence|]. inversion H as [|? ? Hl HL]; subst.
  destruct L as [|l2 L'].
  - cbn [join_nl]. rewrite <- (app_nil_r l) at 1. rewrite need_rows_line_app by exact Hl.
    cbn [need_rows length]. destruct l; lia.
  - rewrite join_nl_cons2, need_rows_line_app by exact Hl.
    change (need_rows (NL :: join_nl (l2 :: L')) x (y + length l) col None block)
      with (Nat.max (S (S x)) (need_rows (join_nl (l2 :: L')) (S x) (wrap_col col block) col None block)).
    rewrite IH by (auto; discriminate). cbn [length].
    destruct l as [|c l']; destruct l2 as [|c2 l2']; destruct L' as [|l3 L'']; cbn [length]; lia.
Qed.

(* ------------------------------------------------------------------ write_wrapped: outcomes *)
Lemma write_wrapped_empty b cur maxw t row col width block :
  t_text t = [] -> write_wrapped b cur maxw t row col width block = WOk b cur.
Proof. intros H. unfold write_wrapped. rewrite H. reflexivity. Qed.

Lemma write_wrapped_no_width b cur maxw t row col width block :
  t_text t <> [] -> eff_width maxw (opt_or col (snd cur)) width = None ->
  write_wrapped b cur maxw t row col width block = WTypeError.
Proof. intros Ht Hw. unfold write_wrapped. destruct (t_text t); [congruence|]. rewrite Hw. reflexivity. Qed.

Lemma write_wrapped_nonpositive b cur maxw t row col width block w :
  t_text t <> [] -> eff_width maxw (opt_or col (snd cur)) width = Some w -> (w <= 0)%Z ->
  write_wrapped b cur maxw t row col width block = WValueError.
Proof.
  intros Ht Hw Hle. unfold write_wrapped. destruct (t_text t); [congruence|]. rewrite Hw.
  destruct (w <=? 0)%Z eqn:E; [reflexivity|lia].
Qed.

Lemma write_wrapped_ok b cur maxw t row col width block w :
  t_text t <> [] -> eff_width maxw (opt_or col (snd cur)) width = Some w -> (1 <= w)%Z ->
  write_wrapped b cur maxw t row col width block =
  WOk (fst (typewriter (join_nl (wrapped_lines t (Z.to_nat w))) b (opt_or row (fst cur)) (opt_or col (snd cur))
                       (opt_or col (snd cur)) None block))
      (snd (typewriter (join_nl (wrapped_lines t (Z.to_nat w))) b (opt_or row (fst cur)) (opt_or col (snd cur))
                       (opt_or col (snd cur)) None block)).
Proof.
  intros Ht Hw Hle. unfold write_wrapped. destruct (t_text t); [congruence|]. rewrite Hw.
  destruct (w <=? 0)%Z eqn:E; [lia|]. rewrite wrap_all_total', wrapped_text_eq. reflexivity.
Qed.

Lemma write_wrapped_never_out_of_model b cur maxw t row col width block :
  write_wrapped b cur maxw t row col width block <> WOutOfModel.
Proof.
  unfold write_wrapped. destruct (t_text t); [discriminate|].
  destruct (eff_width maxw (opt_or col (snd cur)) width) as [w|]; [|discriminate].
  destruct (w <=? 0)%Z; [discriminate|]. rewrite wrap_all_total'. discriminate.
Qed.

(* TextWidget.render = clear(); write(text, width=width, wordwrap=True) *)
Definition rres_of_wres (r : wres) : rres buffer :=
  match r with WOk b _ => ROk b | WValueError => RValueError | WTypeError | WOutOfModel => ROutOfModel end.

Lemma render_text_is_write t w maxw :
  render_text t w = rres_of_wres (write_wrapped [] (0, 0) maxw t None None (Some w) false).
Proof.
  unfold render_text, write_wrapped. destruct (t_text t); [reflexivity|].
  cbn [eff_width opt_or fst snd]. destruct (w <=? 0)%Z; [reflexivity|].
  destruct (wrap_all (t_chunks t) (Z.to_nat w)); reflexivity.
Qed.

(* ------------------------------------------------------------------ write_wrapped: where the lines land *)
Lemma start_of_line_start c block k : start_of c (wrap_col c block) k = line_start c block k.
Proof. destruct k; reflexivity. Qed.

Lemma covered_in L r c block i j :
  covered L r c block i j <-> In (i, j) (lines_path L r c (wrap_col c block)).
Proof.
  rewrite lines_path_in. unfold covered. split; intros (k & l & H1 & H2 & H3); exists k, l;
    (split; [exact H1|]); (split; [exact H2|]); [rewrite start_of_line_start|rewrite <- start_of_line_start]; exact H3.
Qed.

Section Placed.
  Variables (b : buffer) (cur : nat * nat) (maxw : option Z) (t : text) (row col : option nat)
            (width : option Z) (block : bool) (w : Z) (b' : buffer) (cur' : nat * nat).
  Hypothesis Hne : t_text t <> [].
  Hypothesis Hok : chunks_ok t = true.
  Hypothesis Hw : eff_width maxw (opt_or col (snd cur)) width = Some w.
  Hypothesis Hpos : (1 <= w)%Z.
  Hypothesis Hres : write_wrapped b cur maxw t row col width block = WOk b' cur'.

  Let r := opt_or row (fst cur).
  Let c := opt_or col (snd cur).
  Let L := wrapped_lines t (Z.to_nat w).

  Lemma placed_eq : b' = fst (typewriter (join_nl L) b r c c None block) /\
                    cur' = snd (typewriter (join_nl L) b r c c None block).
  Proof.
    rewrite (write_wrapped_ok _ _ _ _ _ _ _ _ w Hne Hw Hpos) in Hres. injection Hres as <- <-. split; reflexivity.
  Qed.

  Lemma placed_no_nl : Forall no_nl L.
  Proof. apply wrapped_lines_no_nl. exact Hok. Qed.

  Lemma placed_written k l j ch :
    nth_error L k = Some l -> nth_error l j = Some ch ->
    cell b' (r + k) (line_start c block k + j) = Some ch.
  Proof.
    intros Hk Hj. destruct placed_eq as [-> _].
    destruct (lines_path_nth L r c (wrap_col c block) k l j ch Hk Hj) as (n & H1 & H2).
    rewrite <- start_of_line_start.
    apply (typewriter_written (join_nl L) b r c c None block n (r + k, start_of c (wrap_col c block) k + j) ch).
    - rewrite path_join by exact placed_no_nl. exact H1.
    - rewrite visible_join by exact placed_no_nl. exact H2.
  Qed.

  Lemma placed_kept i j v :
    cell b i j = Some v -> ~ covered L r c block i j -> cell b' i j = Some v.
  Proof.
    intros Hc Hn. destruct placed_eq as [-> _]. apply typewriter_kept; [|exact Hc].
    rewrite path_join by exact placed_no_nl. rewrite <- covered_in. exact Hn.
  Qed.

  Lemma placed_padding i j j' :
    cell b i j = None -> ~ covered L r c block i j -> covered L r c block i j' -> j < j' ->
    cell b' i j = Some SP.
  Proof.
    intros Hc Hn Hin Hlt. destruct placed_eq as [-> _].
    apply (typewriter_padding (join_nl L) b r c c None block i j j'); auto;
      rewrite path_join by exact placed_no_nl; rewrite <- covered_in; assumption.
  Qed.

  Lemma placed_absent i j :
    cell b i j = None -> ~ covered L r c block i j ->
    (forall j', covered L r c block i j' -> j' < j) -> cell b' i j = None.
  Proof.
    intros Hc Hn Hall. destruct placed_eq as [-> _].
    apply typewriter_absent; auto; rewrite path_join by exact placed_no_nl.
    - rewrite <- covered_in. exact Hn.
    - intros j' Hin. apply Hall. apply covered_in. exact Hin.
  Qed.

  Lemma placed_height :
    length b' = Nat.max (length b) (match L with [[]] => 0 | _ => r + length L end).
  Proof.
    destruct placed_eq as [-> _]. rewrite typewriter_height.
    rewrite need_rows_join; [reflexivity|exact placed_no_nl|apply wrapped_lines_nonnil; exact Hok].
  Qed.

  Lemma placed_cursor :
    cur' = (r + (length L - 1), line_start c block (length L - 1) + length (last L [])).
  Proof.
    destruct placed_eq as [_ ->]. rewrite typewriter_cursor.
    rewrite path_end_join; [|exact placed_no_nl|apply wrapped_lines_nonnil; exact Hok].
    rewrite start_of_line_start. reflexivity.
  Qed.

End Placed.

Lemma wrapped_lines_width_z t w :
  (1 <= w)%Z -> Forall (fun l => Z.of_nat (length l) <= w)%Z (wrapped_lines t (Z.to_nat w)).
Proof.
  intros Hpos. pose proof (wrapped_lines_width t (Z.to_nat w) ltac:(lia)) as H.
  eapply Forall_impl; [|exact H]. intros l Hl. cbv beta in Hl.
  apply Nat2Z.inj_le in Hl. rewrite Z2Nat.id in Hl by lia. exact Hl.
Qed.
