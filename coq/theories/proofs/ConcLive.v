(* ConcLive.v — C19_all_dispatched_partial: when the loop thread neither closes a level nor force-quits,
   every signal that was put is pending in a queue the loop still knows, or has been dispatched. *)
From SL Require Import Tac.
From Coq Require Import Permutation.
From RecordUpdate Require Import RecordUpdate.
From SL Require Import Conc proofs.ConcProofs proofs.ConcLocks proofs.ConcOrder.
Import ListNotations.

Definition okact (a : action) : bool := match a with AClose | AForceQuit => false | _ => true end.
Definition okpc (p : pc) : bool :=
  match p with P0 | PE _ _ | PRAdd _ _ | PRRel _ | POAcq _ | POApp _ | PORel _ => true | _ => false end.
Definition okthread (th : thread) : bool := forallb okact (t_prog th) && okpc (t_pc th).
Definition no_close_quit (progs : list (list action)) : Prop :=
  forall t p, nth_error progs t = Some p -> forallb okact p = true.

Definition pc_target (p : pc) : option nat :=
  match p with
  | PE _ (EAcqQ q _) | PE _ (ETest q _) | PE _ (ERelQ q _ _) | PE _ (ECnt q _) | PE _ (EPut q _ _) => Some q
  | _ => None
  end.
Definition is_opening (p : pc) : bool := match p with POAcq _ | POApp _ => true | _ => false end.

Lemma tstep_live : forall u th h th' h', tstep u th h = Some (th', h') -> h_fq h = false -> okthread th = true ->
  okthread th' = true /\ h_fq h' = false /\ h_drop h' = h_drop h /\ thr_held th' = [] /\
  ((h_evq h' = h_evq h /\ h_active h' = h_active h /\ (is_opening (t_pc th) = true -> is_opening (t_pc th') = true)) \/
   (is_opening (t_pc th) = false /\ is_opening (t_pc th') = true /\ h_evq h' = h_evq h /\ submit_thread th = false) \/
   (is_opening (t_pc th) = true /\ h_evq h' = h_evq h ++ [h_active h] /\ h_active h' = h_active h)) /\
  (forall x, In x (h_pend h') -> In x (h_pend h) \/ pc_target (t_pc th) = Some (fst x)) /\
  (forall q, pc_target (t_pc th') = Some q -> pc_target (t_pc th) = Some q \/ In q (h_evq h) \/ q = h_active h) /\
  (is_opening (t_pc th') = true -> submit_thread th = false).
Proof.
  intros u [prog p] h th' h' H F O. unfold okthread in O. cbn [t_pc t_prog] in O.
  apply andb_true_iff in O. destruct O as [O1 O2].
  inv_tstep H; try discriminate O2; try discriminate O1; try congruence.
  all: cbn [forallb okact andb] in O1.
  all: unfold okthread, submit_thread, thr_held, dispatched, lbl, mk;
       cbn [t_pc t_prog okpc pc_held pc_target is_opening submit_pc h_fq h_drop h_evq h_active h_pend set].
  all: rewrite ?O1, ?andb_false_r.
  all: repeat split; auto; try discriminate.
  all: try (intros x X; apply in_app_or in X; destruct X as [X|[X|[]]]; [left; exact X|right; subst x; reflexivity]).
  all: try (match goal with Hp : pop_min _ _ = Some _ |- _ => intros x X; left; eapply (pop_min_in _ _ _ _ Hp); exact X end).
  all: try (intros q0 X; inversion X; subst; auto; fail).
  all: try (destruct b; cbn [pc_target]; intros q0 X; inversion X; auto; fail).
  all: try (intros q0 X; inversion X; subst; right; left; eapply nth_error_In; eauto; fail).
  right; left. cbn. auto.
Qed.

Lemma live_iff : forall h q, live h q = true <-> In q (h_evq h) \/ q = h_active h.
Proof.
  intros. unfold live. rewrite orb_true_iff, Nat.eqb_eq. split; intros [H|H]; auto.
  - left. apply existsb_exists in H. destruct H as (x & Hx & E). apply Nat.eqb_eq in E. subst. exact Hx.
  - left. apply existsb_exists. exists q. split; [exact H|apply Nat.eqb_refl].
Qed.

Definition opening0 (thr : list thread) : Prop :=
  exists th0, nth_error thr 0 = Some th0 /\ is_opening (t_pc th0) = true.

Record linv (st : cstate) : Prop := {
  l_sub : subinv st;
  l_ok : forall t th, nth_error (c_thr st) t = Some th -> okthread th = true;
  l_fq : h_fq (c_sh st) = false;
  l_pend : forall x, In x (h_pend (c_sh st)) -> live (c_sh st) (fst x) = true;
  l_tgt : forall t th q, nth_error (c_thr st) t = Some th -> pc_target (t_pc th) = Some q -> live (c_sh st) q = true;
  l_act : In (h_active (c_sh st)) (h_evq (c_sh st)) \/ opening0 (c_thr st);
  l_drop : h_drop (c_sh st) = [];
  l_held : forall t th, nth_error (c_thr st) t = Some th -> thr_held th = []
}.

Lemma linv_step : forall t st, linv st -> linv (step t st).
Proof.
  intros t st L. pose proof (subinv_step t st (l_sub _ L)) as S'.
  destruct (step_cases t st) as [E|(l1 & th & l2 & th' & h' & Hl & Hn & Ht & E)].
  { now rewrite E. }
  rewrite E in *. destruct st as [thr h]. cbn [c_thr c_sh] in *. subst thr. subst t.
  assert (Hu : nth_error (l1 ++ th :: l2) (length l1) = Some th) by apply nth_error_mid.
  destruct L as [LS LO LF LP LT LA LD LH]. cbn [c_thr c_sh] in *.
  destruct (tstep_live _ _ _ _ _ Ht LF (LO _ _ Hu)) as (O' & F' & D' & H' & Ev & Pe & Tg & Op).
  assert (U0 : submit_thread th = false -> length l1 = 0).
  { intros X. destruct (Nat.eq_dec (length l1) 0); auto. rewrite (LS _ _ Hu n) in X. discriminate. }
  assert (Mono : forall q, live h q = true -> live h' q = true).
  { intros q Hq. apply live_iff in Hq. apply live_iff.
    destruct Ev as [(A & B & _)|[(A & B & C & D)|(A & B & C)]].
    - rewrite A, B. exact Hq.
    - rewrite C. left. destruct Hq as [Hq|Hq]; [exact Hq|]. subst q.
      destruct LA as [LA|(th0 & H0 & Ho)]; [exact LA|]. exfalso.
      specialize (U0 D). destruct l1; [|discriminate U0]. cbn in H0. inversion H0; subst. congruence.
    - rewrite B, C. destruct Hq as [Hq|Hq]; [left; apply in_or_app; left; exact Hq|right; exact Hq]. }
  split; cbn [c_thr c_sh]; auto.
  - intros n thn Hnth. destruct (nth_mid_cases l1 th _ _ _ _ Hnth) as [(-> & ->)|(Ne & Hn')]; eauto.
  - intros x Hx. apply Mono. destruct (Pe _ Hx) as [X|X]; [apply LP; exact X|eapply LT; eauto].
  - intros n thn q Hnth Hq. apply Mono.
    destruct (nth_mid_cases l1 th _ _ _ _ Hnth) as [(-> & ->)|(Ne & Hn')]; [|eapply LT; eauto].
    destruct (Tg _ Hq) as [X|X]; [eapply LT; eauto|apply live_iff; exact X].
  - destruct Ev as [(A & B & C)|[(A & B & C & D)|(A & B & C)]].
    + rewrite A, B. destruct LA as [LA|(th0 & H0 & Ho)]; [left; exact LA|right].
      destruct l1 as [|x l1]; cbn [app nth_error] in *.
      * inversion H0; subst. exists th'. split; [reflexivity|auto].
      * exists th0. auto.
    + right. specialize (U0 D). destruct l1; [|discriminate U0]. exists th'. cbn. auto.
    + left. rewrite B, C. apply in_or_app. right. left. reflexivity.
  - congruence.
  - intros n thn Hnth. destruct (nth_mid_cases l1 th _ _ _ _ Hnth) as [(-> & ->)|(Ne & Hn')]; eauto.
Qed.

Lemma submit_ok : forall p, forallb is_submit p = true -> forallb okact p = true.
Proof.
  induction p as [|a p IH]; cbn; auto. intros H. apply andb_true_iff in H. destruct H as [A B].
  destruct a; try discriminate A. cbn. auto.
Qed.

Lemma linv_init : forall progs, submitters_only progs -> no_close_quit progs -> linv (init progs).
Proof.
  intros progs S N. split.
  - apply subinv_init. exact S.
  - intros t th H. cbn [init c_thr] in H. rewrite nth_error_map in H.
    destruct (nth_error progs t) as [p|] eqn:E; inversion H; subst.
    unfold okthread. cbn. rewrite (N _ _ E). reflexivity.
  - reflexivity.
  - cbn. contradiction.
  - intros t th q H Hq. rewrite (init_nth _ _ _ H) in Hq. discriminate.
  - left. cbn. left. reflexivity.
  - reflexivity.
  - intros t th H. unfold thr_held. rewrite (init_nth _ _ _ H). reflexivity.
Qed.

Lemma filter_all : forall {A} (f : A -> bool) l, (forall x, In x l -> f x = true) -> filter f l = l.
Proof.
  induction l as [|a l IH]; intros H; [reflexivity|]. cbn. rewrite (H a) by (left; reflexivity).
  f_equal. apply IH. intros x Hx. apply H. right. exact Hx.
Qed.
Lemma filter_none : forall {A} (f : A -> bool) l, (forall x, In x l -> f x = true) -> filter (fun x => negb (f x)) l = [].
Proof.
  induction l as [|a l IH]; intros H; [reflexivity|]. cbn. rewrite (H a) by (left; reflexivity). cbn.
  apply IH. intros x Hx. apply H. right. exact Hx.
Qed.
Lemma flat_map_nil : forall {A B} (f : A -> list B) l, (forall x, In x l -> f x = []) -> flat_map f l = [].
Proof.
  induction l as [|a l IH]; intros H; [reflexivity|]. cbn. rewrite (H a) by (left; reflexivity).
  apply IH. intros x Hx. apply H. right. exact Hx.
Qed.

(* "_partial": the hypothesis that no level is closed or force-quit while submissions are in flight is needed (F10) *)
Theorem all_dispatched_partial : forall progs sch, submitters_only progs -> no_close_quit progs ->
  let st := steps sch (init progs) in
  pending_dead st = [] /\ held st = [] /\ h_drop (c_sh st) = [] /\ h_fq (c_sh st) = false /\
  Permutation (unput st ++ pending_live st ++ h_disp (c_sh st)) (all_sids progs).
Proof.
  intros progs sch S N st.
  assert (L : linv st).
  { unfold st. apply steps_inv; [apply linv_step|apply linv_init; assumption]. }
  assert (Hd : pending_dead st = []).
  { unfold pending_dead. rewrite (filter_none (fun x => live (c_sh st) (fst x))); [reflexivity|]. apply (l_pend _ L). }
  assert (Hh : held st = []).
  { unfold held. apply flat_map_nil. intros th Hth. apply In_nth_error in Hth. destruct Hth as (n & Hn). eapply (l_held _ L); eauto. }
  assert (Hl : pending_live st = pending st).
  { unfold pending_live, pending. rewrite (filter_all (fun x => live (c_sh st) (fst x))); [reflexivity|]. apply (l_pend _ L). }
  repeat split; auto; try apply (l_drop _ L); try apply (l_fq _ L).
  pose proof (conservation progs sch) as C. fold st in C. unfold places in C.
  rewrite Hh, (l_drop _ L), app_nil_r in C. cbn [app] in C. rewrite Hl. exact C.
Qed.
