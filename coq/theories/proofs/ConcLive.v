(* ConcLive.v — C19_all_dispatched_partial: when the loop thread neither closes a level nor force-quits,
   every signal that was put is pending in a queue the loop still knows, or has been dispatched. *)
From SL Require Import Tac.
From Coq Require Import Permutation.
From RecordUpdate Require Import RecordUpdate.
From SL Require Import Conc proofs.ConcProofs proofs.ConcLocks proofs.ConcOrder.
Import ListNotations.

Definition okact (a : action) : bool := match a with AClose | AForceQuit => false | _ => true end.
Definition okpc (p : pc) : bool :=
  match p with P0 | PE _ _ | PRAdd _ _ | PRRel _ | POAcq _ | POApp _ | PORel _ => true | _ => false end.
Definition okthread (th : thread) : bool := forallb okact (t_prog th) && okpc (t_pc th).
Definition no_close_quit (progs : list (list action)) : Prop :=
  forall t p, nth_error progs t = Some p -> forallb okact p = true.

Definition pc_target (p : pc) : option nat :=
  match p with
  | PE _ (EAcqQ q _) | PE _ (ETest q _) | PE _ (ERelQ q _ _) | PE _ (ECnt q _) | PE _ (EPut q _ _) => Some q
  | _ => None
  end.
Definition is_opening (p : pc) : bool := match p with POAcq _ | POApp _ => true | _ => false end.

Lemma tstep_live : forall u th h th' h', tstep u th h = Some (th', h') -> h_fq h = false -> okthread th = true ->
  okthread th' = true /\ h_fq h' = false /\ h_drop h' = h_drop h /\ thr_held th' = [] /\
  ((h_evq h' = h_evq h /\ h_active h' = h_active h /\ (is_opening (t_pc th) = true -> is_opening (t_pc th') = true)) \/
   (is_opening (t_pc th) = false /\ is_opening (t_pc th') = true /\ h_evq h' = h_evq h /\ submit_thread th = false) \/
   (is_opening (t_pc th) = true /\ h_evq h' = h_evq h ++ [h_active h] /\ h_active h' = h_active h)) /\
  (forall x, In x (h_pend h') -> In x (h_pend h) \/ pc_target (t_pc th) = Some (fst x)) /\
  (forall q, pc_target (t_pc th') = Some q -> pc_target (t_pc th) = Some q \/ In q (h_evq h) \/ q = h_active h) /\
  (is_opening (t_pc th') = true -> submit_thread th = false).
Proof.
  intros u [prog p] h th' h' H F O. unfold okthread in O. cbn [t_pc t_prog] in O.
  apply andb_true_iff in O. destruct O as [O1 O2].
  inv_tstep H; try discriminate O2; try discriminate O1; try congruence.
  all: cbn [forallb okact andb] in O1.
  all: unfold okthread, submit_thread, thr_held, dispatched, lbl, mk;
       cbn [t_pc t_prog okpc pc_held pc_target is_opening submit_pc h_fq h_drop h_evq h_active h_pend set].
  all: rewrite ?O1, ?andb_false_r.
  all: repeat split; auto; try discriminate.
  all: try (intros x X; apply in_app_or in X; destruct X as [X|[X|[]]]; [left; exact X|right; subst x; reflexivity]).
  all: try (match goal with Hp : pop_min _ _ = Some _ |- _ => intros x X; left; eapply (pop_min_in _ _ _ _ Hp); exact X end).
  all: try (intros q0 X; inversion X; subst; auto; fail).
  all: try (destruct b; cbn [pc_target]; intros q0 X; inversion X; auto; fail).
  all: try (intros q0 X; inversion X; subst; right; left; eapply nth_error_In; eauto; fail).
Qed.
