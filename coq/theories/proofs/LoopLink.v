(* LoopLink.v — the link lemma: the ghost trace of the event-loop model is an honest log.
   [W s], the world an observer reconstructs from the events emitted so far, agrees with the concrete
   state [s] on everything the monitors speak about ([link]); every [exec] is a sequence of atomic
   steps ([astep], [exec_steps]) each of which keeps the link ([astep_link]).  A monitor whose
   acceptance is kept by every atomic step accepts every session trace ([session_acc]).
   The same induction ([exec_spec]) carries the control-flow specification [Post] (a call that comes
   back has not grown [psi] = open levels + pending stop request), which is what makes the return of
   execute_new_loop an honest event too ([A_newloopret]). *)
From SL Require Import Tac.
From Coq Require Import Permutation.
From RecordUpdate Require Import RecordUpdate.
From SL Require Import LoopSem Monitors.
Import ListNotations.

(* ================================================================ entries: the order *)
Definition ecnt (e : entry) : nat := snd (fst e).
Definition eprio (e : entry) : Z := fst (fst e).
Definition esig (e : entry) : signal := snd e.
Definition eproj (e : entry) : Z * nat := (eprio e, sg_id (esig e)).

Lemma entry_lt_spec a b :
  entry_lt a b = true <-> (eprio a < eprio b)%Z \/ (eprio a = eprio b /\ ecnt a < ecnt b).
Proof.
  destruct a as [[pa ca] sa], b as [[pb cb] sb]; unfold entry_lt, eprio, ecnt; cbn [fst snd].
  rewrite orb_true_iff, andb_true_iff, Z.ltb_lt, Z.eqb_eq, Nat.ltb_lt. tauto.
Qed.
Lemma entry_lt_false a b :
  entry_lt a b = false <-> ~ ((eprio a < eprio b)%Z \/ (eprio a = eprio b /\ ecnt a < ecnt b)).
Proof. rewrite <- entry_lt_spec. destruct (entry_lt a b); split; congruence. Qed.
Lemma entry_lt_asym a b : entry_lt a b = true -> entry_lt b a = true -> False.
Proof. rewrite !entry_lt_spec. lia. Qed.
Lemma entry_lt_trans a b c : entry_lt a b = true -> entry_lt b c = true -> entry_lt a c = true.
Proof. rewrite !entry_lt_spec. lia. Qed.
Lemma entry_lt_total a b : ecnt a <> ecnt b -> entry_lt a b = false -> entry_lt b a = true.
Proof. rewrite entry_lt_false, entry_lt_spec. lia. Qed.

Fixpoint esorted (l : list entry) : Prop :=
  match l with [] => True | a :: r => Forall (fun b => entry_lt a b = true) r /\ esorted r end.

Lemma esorted_perm_unique l1 : forall l2,
  esorted l1 -> esorted l2 -> Permutation l1 l2 -> l1 = l2.
Proof.
  induction l1 as [|a l1 IH]; intros l2 S1 S2 P.
  - apply Permutation_nil in P. congruence.
  - destruct l2 as [|b l2]; [apply Permutation_sym, Permutation_nil in P; discriminate|].
    cbn in S1, S2. destruct S1 as [F1 S1], S2 as [F2 S2].
    assert (a = b) as ->.
    { assert (Ia : In a (b :: l2)) by (eapply Permutation_in; [exact P|left; reflexivity]).
      assert (Ib : In b (a :: l1)) by (eapply Permutation_in; [apply Permutation_sym; exact P|left; reflexivity]).
      destruct Ia as [->|Ia]; [reflexivity|]. destruct Ib as [->|Ib]; [reflexivity|].
      rewrite Forall_forall in F1, F2. exfalso. eapply entry_lt_asym; [apply F1, Ib|apply F2, Ia]. }
    f_equal. apply IH; auto. eapply Permutation_cons_inv; eauto.
Qed.

(* insertion sort *)
Fixpoint einsert (x : entry) (l : list entry) : list entry :=
  match l with
  | [] => [x]
  | y :: r => if entry_lt x y then x :: l else y :: einsert x r
  end.
Fixpoint esort (l : list entry) : list entry :=
  match l with [] => [] | x :: r => einsert x (esort r) end.

Lemma einsert_perm x l : Permutation (x :: l) (einsert x l).
Proof.
  induction l as [|y r IH]; cbn; [reflexivity|].
  destruct (entry_lt x y); [reflexivity|].
  etransitivity; [apply perm_swap|]. apply perm_skip, IH.
Qed.
Lemma esort_perm l : Permutation l (esort l).
Proof.
  induction l as [|x r IH]; cbn; [constructor|].
  etransitivity; [apply perm_skip, IH|apply einsert_perm].
Qed.

Lemma einsert_sorted x l :
  esorted l -> Forall (fun y => ecnt y <> ecnt x) l -> esorted (einsert x l).
Proof.
  induction l as [|y r IH]; intros S D; cbn; [split; [constructor|exact I]|].
  destruct S as [F S]. inversion D as [|? ? Dy Dr]; subst.
  destruct (entry_lt x y) eqn:E.
  - cbn. split; [|split; assumption].
    constructor; [exact E|]. eapply Forall_impl; [|exact F]. intros b Hb. eapply entry_lt_trans; eauto.
  - cbn. split; [|apply IH; assumption].
    assert (Hyx : entry_lt y x = true) by (apply entry_lt_total; [congruence|exact E]).
    eapply Permutation_Forall; [apply einsert_perm|]. constructor; assumption.
Qed.

Definition cnts (l : list entry) : list nat := map ecnt l.

Lemma esort_sorted l : NoDup (cnts l) -> esorted (esort l).
Proof.
  induction l as [|x r IH]; intros N; cbn; [exact I|].
  inversion N as [|? ? Nx Nr]; subst. apply einsert_sorted; [apply IH, Nr|].
  rewrite Forall_forall. intros y Hy E. apply Nx.
  apply (Permutation_in _ (Permutation_sym (esort_perm r))) in Hy.
  unfold cnts. rewrite <- E. apply in_map, Hy.
Qed.

Lemma cnts_perm l l' : Permutation l l' -> Permutation (cnts l) (cnts l').
Proof. apply Permutation_map. Qed.

Lemma esort_unique l l' : NoDup (cnts l) -> Permutation l l' -> esort l = esort l'.
Proof.
  intros N P. apply esorted_perm_unique.
  - apply esort_sorted, N.
  - apply esort_sorted. eapply Permutation_NoDup; [apply cnts_perm, P|exact N].
  - etransitivity; [apply Permutation_sym, esort_perm|]. etransitivity; [exact P|apply esort_perm].
Qed.

Lemma esort_of_sorted l l' : NoDup (cnts l) -> Permutation l l' -> esorted l' -> esort l = l'.
Proof.
  intros N P S. apply esorted_perm_unique; [apply esort_sorted, N|exact S|].
  etransitivity; [apply Permutation_sym, esort_perm|exact P].
Qed.

(* ================================================================ queue well-formedness and abstraction *)
Record qwf (q : equeue) : Prop := {
  qwf_nodup : NoDup (cnts (eq_entries q));
  qwf_bound : Forall (fun e => ecnt e < eq_counter q) (eq_entries q);
  qwf_prio : Forall (fun e => eprio e = sg_prio (esig e)) (eq_entries q) }.

Definition abs (q : equeue) : refq := map eproj (esort (eq_entries q)).

Lemma qwf_empty : qwf empty_queue.
Proof. split; cbn; constructor. Qed.

(* ---- min_entry / remove_entry *)
Lemma min_entry_in l : forall m, In (min_entry m l) (m :: l).
Proof.
  induction l as [|e r IH]; intros m; cbn [min_entry]; [left; reflexivity|].
  specialize (IH (if entry_lt e m then e else m)). destruct IH as [H|H].
  - rewrite <- H. destruct (entry_lt e m); [right; left|left]; reflexivity.
  - right; right; exact H.
Qed.

Lemma min_entry_least l : forall m, NoDup (cnts (m :: l)) -> forall x, In x (m :: l) ->
  x = min_entry m l \/ entry_lt (min_entry m l) x = true.
Proof.
  induction l as [|e r IH]; intros m N x Hx; cbn [min_entry].
  - destruct Hx as [->|[]]. left; reflexivity.
  - set (m' := if entry_lt e m then e else m).
    cbn in N. inversion N as [|? ? Nm N']; subst. inversion N' as [|? ? Ne Nr]; subst.
    assert (Cme : ecnt m <> ecnt e) by (intros E; apply Nm; left; congruence).
    assert (N1 : NoDup (cnts (m' :: r))).
    { unfold m'. destruct (entry_lt e m); cbn; constructor; auto. intros H; apply Nm; right; exact H. }
    assert (Hother : forall y, y = m \/ y = e -> y = m' \/ entry_lt m' y = true).
    { intros y Hy. unfold m'. destruct (entry_lt e m) eqn:E.
      - destruct Hy as [->| ->]; [right; exact E|left; reflexivity].
      - destruct Hy as [->| ->]; [left; reflexivity|right].
        apply entry_lt_total; [congruence|exact E]. }
    assert (Hx' : In x (m' :: r) \/ (x = m \/ x = e)).
    { destruct Hx as [->|[->|Hx]]; [right; left; reflexivity|right; right; reflexivity|left; right; exact Hx]. }
    destruct Hx' as [Hx'|Hx']; [apply IH; assumption|].
    destruct (Hother x Hx') as [->|L]; [apply IH; [assumption|left; reflexivity]|].
    destruct (IH m' N1 m' (or_introl eq_refl)) as [H|H]; [rewrite <- H; right; exact L|].
    right. eapply entry_lt_trans; eauto.
Qed.

Lemma remove_entry_perm c l : forall m, In m l -> ecnt m = c -> NoDup (cnts l) ->
  Permutation l (m :: remove_entry c l).
Proof.
  induction l as [|e r IH]; intros m Hm C N; [destruct Hm|].
  cbn [remove_entry]. fold (ecnt e). cbn in N. inversion N as [|? ? Ne Nr]; subst.
  destruct (ecnt e =? ecnt m) eqn:E.
  - apply Nat.eqb_eq in E. destruct Hm as [->|Hm]; [reflexivity|].
    exfalso. apply Ne. rewrite E. apply in_map, Hm.
  - apply Nat.eqb_neq in E. destruct Hm as [->|Hm]; [congruence|].
    etransitivity; [apply perm_skip, (IH m Hm eq_refl Nr)|apply perm_swap].
Qed.

(* (a) q_pop returns the head of the sorted content; the rest is its tail *)
Lemma q_pop_sorted q m q' : qwf q -> q_pop q = Some (m, q') ->
  esort (eq_entries q) = m :: esort (eq_entries q') /\ Permutation (eq_entries q) (m :: eq_entries q') /\
  eq_counter q' = eq_counter q /\ eq_sources q' = eq_sources q.
Proof.
  intros [N B P] H. unfold q_pop in H. destruct (eq_entries q) as [|e r] eqn:E; [discriminate|].
  inversion H; subst m q'; clear H. cbn [eq_entries eq_counter eq_sources set].
  set (m := min_entry e r).
  assert (Im : In m (e :: r)) by apply min_entry_in.
  assert (Pm : Permutation (e :: r) (m :: remove_entry (ecnt m) (e :: r)))
    by (apply remove_entry_perm; auto).
  split; [|split; [exact Pm|split; reflexivity]].
  apply esort_of_sorted; [exact N|..].
  - etransitivity; [exact Pm|]. apply perm_skip, esort_perm.
  - cbn. split.
    + assert (N2 : NoDup (cnts (m :: remove_entry (ecnt m) (e :: r))))
        by (eapply Permutation_NoDup; [apply cnts_perm, Pm|exact N]).
      cbn in N2. inversion N2 as [|? ? Nm Nr]; subst.
      rewrite Forall_forall. intros x Hx.
      apply (Permutation_in _ (Permutation_sym (esort_perm _))) in Hx.
      destruct (min_entry_least r e N x) as [->|L]; [| |exact L].
      * eapply Permutation_in; [apply Permutation_sym, Pm|right; exact Hx].
      * exfalso. apply Nm. apply in_map, Hx.
    + apply esort_sorted. assert (N2 : NoDup (cnts (m :: remove_entry (ecnt m) (e :: r))))
        by (eapply Permutation_NoDup; [apply cnts_perm, Pm|exact N]).
      inversion N2; assumption.
Qed.

Lemma q_pop_abs q m q' : qwf q -> q_pop q = Some (m, q') -> abs q = eproj m :: abs q'.
Proof. intros Wq H. unfold abs. destruct (q_pop_sorted _ _ _ Wq H) as [-> _]. reflexivity. Qed.

Lemma q_pop_qwf q m q' : qwf q -> q_pop q = Some (m, q') -> qwf q'.
Proof.
  intros Wq H. destruct (q_pop_sorted _ _ _ Wq H) as (_ & P & C & _). destruct Wq as [N B Pr].
  split.
  - apply cnts_perm in P. eapply Permutation_NoDup in N; [|exact P]. inversion N; assumption.
  - rewrite C. eapply Permutation_Forall in B; [|exact P]. inversion B; assumption.
  - eapply Permutation_Forall in Pr; [|exact P]. inversion Pr; assumption.
Qed.

Lemma q_pop_none q : q_pop q = None -> eq_entries q = [].
Proof. unfold q_pop. destruct (eq_entries q); [reflexivity|discriminate]. Qed.

(* (b) a put goes after every entry of priority <= its own *)
Lemma einsert_new_proj x l :
  Forall (fun y => ecnt y < ecnt x) l ->
  map eproj (einsert x l) = stable_insert (eprio x) (sg_id (esig x)) (map eproj l).
Proof.
  induction l as [|y r IH]; intros F; cbn; [reflexivity|].
  inversion F as [|? ? Fy Fr]; subst.
  assert (E : entry_lt x y = (eprio x <? eprio y)%Z).
  { destruct (entry_lt x y) eqn:L.
    - apply entry_lt_spec in L. symmetry. apply Z.ltb_lt. lia.
    - apply entry_lt_false in L. symmetry. apply Z.ltb_ge. lia. }
  rewrite E. unfold eproj at 2. destruct (eprio x <? eprio y)%Z; cbn; [reflexivity|].
  f_equal. apply IH, Fr.
Qed.

Lemma esort_snoc l x : NoDup (cnts (l ++ [x])) -> esort (l ++ [x]) = einsert x (esort l).
Proof.
  intros N. change (einsert x (esort l)) with (esort (x :: l)).
  apply esort_unique; [exact N|]. apply Permutation_sym, Permutation_cons_append.
Qed.

Lemma cnts_app l x : cnts (l ++ [x]) = cnts l ++ [ecnt x].
Proof. unfold cnts. rewrite map_app. reflexivity. Qed.

Lemma nodup_snoc (l : list nat) c : NoDup l -> ~ In c l -> NoDup (l ++ [c]).
Proof.
  intros N H. eapply Permutation_NoDup; [apply Permutation_cons_append|]. constructor; assumption.
Qed.

Lemma q_put_abs q sg : qwf q -> abs (q_put q sg) = stable_insert (sg_prio sg) (sg_id sg) (abs q).
Proof.
  intros [N B P]. unfold abs, q_put. cbn [eq_entries set].
  rewrite esort_snoc.
  - rewrite einsert_new_proj; [reflexivity|].
    eapply Permutation_Forall; [apply esort_perm|exact B].
  - rewrite cnts_app. apply nodup_snoc; [exact N|]. cbn. intros H.
    apply in_map_iff in H. destruct H as (e & He & Ie). rewrite Forall_forall in B. apply B in Ie. lia.
Qed.

Lemma q_put_qwf q sg : qwf q -> qwf (q_put q sg).
Proof.
  intros [N B P]. unfold q_put. split; cbn [eq_entries eq_counter set].
  - rewrite cnts_app. apply nodup_snoc; [exact N|]. cbn. intros H.
    apply in_map_iff in H. destruct H as (e & He & Ie). rewrite Forall_forall in B. apply B in Ie. lia.
  - apply Forall_app. split; [eapply Forall_impl; [|exact B]; cbn; intros; lia|].
    constructor; [cbn; lia|constructor].
  - apply Forall_app. split; [exact P|]. constructor; [reflexivity|constructor].
Qed.

(* (c) putting the popped entry back restores the content *)
Lemma q_put_entry_abs q m q' : qwf q -> q_pop q = Some (m, q') -> abs (q_put_entry q' m) = abs q.
Proof.
  intros Wq H. destruct (q_pop_sorted _ _ _ Wq H) as (_ & P & _). unfold abs, q_put_entry. cbn [eq_entries set].
  f_equal. symmetry. apply esort_unique; [apply Wq|].
  etransitivity; [exact P|apply Permutation_cons_append].
Qed.

Lemma q_put_entry_qwf q m q' : qwf q -> q_pop q = Some (m, q') -> qwf (q_put_entry q' m).
Proof.
  intros Wq H. destruct (q_pop_sorted _ _ _ Wq H) as (_ & P & C & _).
  assert (P' : Permutation (eq_entries q) (eq_entries q' ++ [m]))
    by (etransitivity; [exact P|apply Permutation_cons_append]).
  destruct Wq as [N B Pr]. unfold q_put_entry. split; cbn [eq_entries eq_counter set].
  - eapply Permutation_NoDup; [apply cnts_perm, P'|exact N].
  - rewrite C. eapply Permutation_Forall; [exact P'|exact B].
  - eapply Permutation_Forall; [exact P'|exact Pr].
Qed.

Lemma q_add_source_abs q o : abs (q_add_source q o) = abs q.
Proof. unfold q_add_source. destruct (existsb _ _); reflexivity. Qed.
Lemma q_add_source_qwf q o : qwf q -> qwf (q_add_source q o).
Proof. unfold q_add_source. destruct (existsb _ _); [auto|]. intros [N B P]; split; assumption. Qed.

(* ================================================================ finite maps *)
Lemma lookup_update {A} k' k (f : option A -> A) m :
  lookup k' (update k f m) = if (k' =? k)%nat then Some (f (lookup k m)) else lookup k' m.
Proof.
  induction m as [|[k0 v] r IH]; cbn.
  - destruct (k' =? k)%nat; reflexivity.
  - destruct (k =? k0)%nat eqn:E; cbn.
    + apply Nat.eqb_eq in E; subst k0. destruct (k' =? k)%nat; reflexivity.
    + rewrite IH. destruct (k' =? k)%nat eqn:E2; [|reflexivity].
      apply Nat.eqb_eq in E2; subst k'. rewrite E. reflexivity.
Qed.

Lemma update_add_handler hs cls hid data :
  update cls (fun o => match o with Some l => l ++ [(hid, data)] | None => [(hid, data)] end) hs
  = add_handler hs cls hid data.
Proof.
  induction hs as [|[c l] r IH]; cbn; [reflexivity|].
  rewrite (Nat.eqb_sym cls c). destruct (c =? cls)%nat; [reflexivity|]. f_equal. exact IH.
Qed.

Lemma lookup_find {A} k (m : list (nat * A)) :
  lookup k m = option_map snd (find (fun p => (fst p =? k)%nat) m).
Proof.
  induction m as [|[k0 v] r IH]; cbn; [reflexivity|].
  rewrite (Nat.eqb_sym k k0). destruct (k0 =? k)%nat; [reflexivity|exact IH].
Qed.

(* ================================================================ lists *)
Lemma set_nth_length {A} (l : list A) n x : length (set_nth l n x) = length l.
Proof. revert n; induction l as [|a r IH]; intros [|n]; cbn; auto. Qed.
Lemma nth_set_nth {A} (l : list A) n x d m : n < length l ->
  nth m (set_nth l n x) d = if (m =? n)%nat then x else nth m l d.
Proof.
  revert n m; induction l as [|a r IH]; intros [|n] [|m] H; cbn in *; try lia; auto.
  apply IH. lia.
Qed.
Lemma nth_snoc_default {A} (l : list A) d m : nth m (l ++ [d]) d = nth m l d.
Proof.
  revert m; induction l as [|a r IH]; intros [|m]; cbn; auto. destruct m; reflexivity.
Qed.

(* ================================================================ the world of a trace *)
Definition world_of (t : list event) : world := fold_left world_step t world0.

Lemma world_of_snoc t e : world_of (t ++ [e]) = world_step (world_of t) e.
Proof. unfold world_of. rewrite fold_left_app. reflexivity. Qed.

(* the part of the world the link speaks about *)
Definition wcore_eq (w w' : world) : Prop :=
  w_sig w = w_sig w' /\ w_hand w = w_hand w' /\ w_levels w = w_levels w' /\ w_active w = w_active w' /\
  w_src w = w_src w' /\ w_pend w = w_pend w' /\ w_fq w = w_fq w' /\ w_quit w = w_quit w' /\
  w_runloop w = w_runloop w'.

(* events that leave that part alone *)
Definition passive (e : event) : bool :=
  match e with
  | ESigNew _ _ _ _ | ERegHandler _ _ _ | ERegSource _ _ | ESetQuitCb _ | EEnq _ _ | EDispatch _ _ _
  | ENewLoopEnter _ | ENewLoopReturn _ | EClosePop _ | EForceQuit | ERunEnter => false
  | _ => true
  end.

Lemma wcore_refl w : wcore_eq w w.
Proof. repeat split. Qed.

Lemma world_step_passive w e : passive e = true -> wcore_eq (world_step w e) w.
Proof.
  destruct e; cbn [passive]; intros H; try discriminate H; cbn [world_step]; try apply wcore_refl.
  - destruct (w_expect_exc w =? 2)%nat; repeat split.
  - repeat split.
  - destruct how as [[| |]|]; repeat split.
  - repeat split.
  - destruct wait; repeat split.
  - destruct wait; repeat split.
  - repeat split.
  - repeat split.
  - repeat split.
  - repeat split.
Qed.

(* events that leave the stop flag of the world alone *)
Definition keeps_runloop (e : event) : bool :=
  match e with ENewLoopReturn _ | EClosePop _ | EForceQuit | ERunEnter => false | _ => true end.
Lemma w_runloop_step w e : keeps_runloop e = true -> w_runloop (world_step w e) = w_runloop w.
Proof.
  destruct e; cbn [keeps_runloop]; intros H; try discriminate H; cbn [world_step]; try reflexivity.
  - destruct (w_expect_exc w =? 1)%nat; reflexivity.
  - destruct (w_expect_exc w =? 2)%nat; reflexivity.
  - destruct (w_expect_exc w =? 2)%nat; reflexivity.
  - destruct how as [[| |]|]; reflexivity.
  - destruct wait; reflexivity.
  - destruct wait; reflexivity.
Qed.

Lemma w_stillborn_step w e : incl (w_stillborn w) (w_stillborn (world_step w e)).
Proof.
  destruct e; cbn [world_step]; try apply incl_refl.
  - destruct (w_expect_exc w =? 1)%nat; apply incl_refl.
  - destruct (w_expect_exc w =? 2)%nat; apply incl_refl.
  - destruct (w_expect_exc w =? 2)%nat; apply incl_refl.
  - destruct how as [[| |]|]; apply incl_refl.
  - cbn. destruct (w_runloop w); [apply incl_refl|apply incl_tl, incl_refl].
  - destruct (w_fq w); apply incl_refl.
  - cbn. destruct (last_opt (removelast (w_levels w))); apply incl_refl.
  - destruct wait; apply incl_refl.
  - destruct wait; apply incl_refl.
Qed.

(* ---- world_step on the events that matter, field by field ---- *)
Ltac wcore_tac := unfold wcore_eq; cbn; repeat split.

Lemma ws_signew w sid c p src : let w' := world_step w (ESigNew sid c p src) in
  w_sig w' = (sid, (c, p, src)) :: w_sig w /\ w_hand w' = w_hand w /\ w_levels w' = w_levels w /\
  w_active w' = w_active w /\ w_src w' = w_src w /\ w_pend w' = w_pend w /\ w_fq w' = w_fq w /\ w_quit w' = w_quit w.
Proof. cbn [world_step]. destruct (w_expect_exc w =? 1)%nat; cbn; repeat split. Qed.

Lemma ws_enq w sid q : let w' := world_step w (EEnq sid q) in
  w_sig w' = w_sig w /\ w_hand w' = w_hand w /\ w_levels w' = w_levels w /\
  w_active w' = w_active w /\ w_src w' = w_src w /\
  (forall q', pend w' q' = if (q' =? q)%nat then stable_insert (sig_prio w sid) sid (pend w q) else pend w q') /\
  w_fq w' = w_fq w /\ w_quit w' = w_quit w.
Proof.
  cbn [world_step]. destruct (w_expect_exc w =? 2)%nat; cbn; repeat split.
  all: intros q'; unfold pend; cbn; rewrite lookup_update; destruct (q' =? q)%nat; reflexivity.
Qed.

Lemma ws_dispatch w sid q d : let w' := world_step w (EDispatch sid q d) in
  w_sig w' = w_sig w /\ w_hand w' = w_hand w /\ w_levels w' = w_levels w /\
  w_active w' = w_active w /\ w_src w' = w_src w /\
  (forall q', pend w' q' = if (q' =? q)%nat then tl (pend w q) else pend w q') /\
  w_fq w' = w_fq w /\ w_quit w' = w_quit w.
Proof.
  cbn [world_step]. cbn. repeat split.
  intros q'; unfold pend; cbn; rewrite lookup_update; destruct (q' =? q)%nat; [|reflexivity].
  destruct (lookup q (w_pend w)) as [[|x r]|]; reflexivity.
Qed.

Lemma ws_regsource w o q : let w' := world_step w (ERegSource o q) in
  w_sig w' = w_sig w /\ w_hand w' = w_hand w /\ w_levels w' = w_levels w /\
  w_active w' = w_active w /\
  (forall q', sources w' q' = if (q' =? q)%nat
     then (if existsb (Nat.eqb o) (sources w q) then sources w q else sources w q ++ [o]) else sources w q') /\
  w_pend w' = w_pend w /\ w_fq w' = w_fq w /\ w_quit w' = w_quit w.
Proof.
  cbn [world_step]. cbn. repeat split.
  intros q'; unfold sources; cbn; rewrite lookup_update; destruct (q' =? q)%nat; [|reflexivity].
  destruct (lookup q (w_src w)); reflexivity.
Qed.

Definition gq (qs : list equeue) (q : nat) : equeue := nth q qs empty_queue.
Definition sig_rec (w : world) (sg : signal) : Prop :=
  lookup (sg_id sg) (w_sig w) = Some (sg_cls sg, sg_prio sg, sg_src sg).
Definition sid_fresh_in (qs : list equeue) (sid : nat) : Prop :=
  forall q e, In e (eq_entries (gq qs q)) -> sg_id (esig e) <> sid.

(* the link on the components of the state it speaks about *)
Record linkc (w : world) (qs : list equeue) (lv : list nat) (ac : nat) (hs : list (nat * list (nat * nat)))
       (fq : bool) (qc : option nat) (ns : nat) (rl : bool) : Prop := {
  lk_levels : w_levels w = lv;
  lk_active : w_active w = ac;
  lk_fq : w_fq w = fq;
  lk_quit : w_quit w = qc;
  lk_hand : w_hand w = hs;
  lk_src : forall q, sources w q = eq_sources (gq qs q);
  lk_pend : forall q, pend w q = abs (gq qs q);
  lk_qwf : forall q, qwf (gq qs q);
  lk_active_lt : ac < length qs;
  lk_levels_lt : Forall (fun q => q < length qs) lv;
  lk_sig : forall q e, In e (eq_entries (gq qs q)) -> sig_rec w (esig e);
  lk_sig_lt : forall sid v, lookup sid (w_sig w) = Some v -> sid < ns;
  lk_sid_uniq : forall q1 q2 e1 e2,
      In e1 (eq_entries (gq qs q1)) -> In e2 (eq_entries (gq qs q2)) ->
      sg_id (esig e1) = sg_id (esig e2) -> q1 = q2 /\ e1 = e2;
  (* the stop flag: whenever the loops have been told to stop, the observer knows *)
  lk_runloop : rl = false -> w_runloop w = false;
  (* after force_quit no level is open *)
  lk_fq_levels : fq = true -> lv = [] }.

Lemma linkc_wcore w w' qs lv ac hs fq qc ns rl :
  wcore_eq w' w -> linkc w qs lv ac hs fq qc ns rl -> linkc w' qs lv ac hs fq qc ns rl.
Proof.
  intros (E1 & E2 & E3 & E4 & E5 & E6 & E7 & E8 & E9) L. destruct L. unfold sources, pend, sig_rec in *.
  split; unfold sources, pend, sig_rec; rewrite ?E1, ?E2, ?E3, ?E4, ?E5, ?E6, ?E7, ?E8, ?E9; assumption.
Qed.

Ltac st_simpl := cbn [qstore levels active handlers tickets run_loop force_quit quit_cb next_sig ext trace ust
                      emit set set_q].
Ltac st_simpl_in H := cbn [qstore levels active handlers tickets run_loop force_quit quit_cb next_sig ext trace ust
                      emit set set_q] in H.

Section Link.
  Context {U : Type}.
  Notation lstate := (lstate U).

  Definition W (s : lstate) : world := world_of (rev (trace s)).

  Lemma W_emit e s : W (emit e s) = world_step (W s) e.
  Proof. unfold W, emit. cbn. apply world_of_snoc. Qed.

  Lemma W_trace s s' : trace s' = trace s -> W s' = W s.
  Proof. unfold W. intros ->. reflexivity. Qed.

  Lemma get_q_gq (s : lstate) q : get_q s q = gq (qstore s) q.
  Proof. reflexivity. Qed.

  Definition sid_fresh (s : lstate) (sid : nat) : Prop := sid_fresh_in (qstore s) sid.

  Definition linkw (w : world) (s : lstate) : Prop :=
    linkc w (qstore s) (levels s) (active s) (handlers s) (force_quit s) (quit_cb s) (next_sig s) (run_loop s).
  Definition link (s : lstate) : Prop := linkw (W s) s.

  Definition score_eq (s s' : lstate) : Prop :=
    qstore s = qstore s' /\ levels s = levels s' /\ active s = active s' /\ handlers s = handlers s' /\
    force_quit s = force_quit s' /\ quit_cb s = quit_cb s' /\ next_sig s = next_sig s' /\ run_loop s = run_loop s'.

  Lemma score_refl s : score_eq s s.
  Proof. repeat split. Qed.

  Lemma link_irrel s s' : score_eq s s' -> trace s' = trace s -> link s -> link s'.
  Proof.
    intros (F1 & F2 & F3 & F4 & F5 & F6 & F7 & F8) T L. unfold link, linkw in *. rewrite (W_trace _ _ T).
    rewrite <- F1, <- F2, <- F3, <- F4, <- F5, <- F6, <- F7, <- F8. exact L.
  Qed.

  Lemma link_emit_passive e s : passive e = true -> link s -> link (emit e s).
  Proof.
    intros P L. unfold link, linkw. rewrite W_emit. st_simpl.
    eapply linkc_wcore; [apply world_step_passive, P|exact L].
  Qed.
End Link.

Lemma gq_set_nth qs q v q' : q < length qs ->
  gq (set_nth qs q v) q' = if (q' =? q)%nat then v else gq qs q'.
Proof. intros H. unfold gq. apply nth_set_nth, H. Qed.
Lemma gq_snoc qs q : gq (qs ++ [empty_queue]) q = gq qs q.
Proof. apply nth_snoc_default. Qed.
Lemma gq_out qs q : length qs <= q -> gq qs q = empty_queue.
Proof. intros H. unfold gq. apply nth_overflow, H. Qed.

(* ---- a signal is created ---- *)
Lemma linkc_signew w qs lv ac hs fq qc ns rl sp :
  linkc w qs lv ac hs fq qc ns rl ->
  let w' := world_step w (ESigNew ns (sp_cls sp) (sp_prio sp) (sp_src sp)) in
  linkc w' qs lv ac hs fq qc (S ns) rl /\ sig_rec w' (mk_signal ns sp) /\ sid_fresh_in qs ns.
Proof.
  intros L w'. destruct (ws_signew w ns (sp_cls sp) (sp_prio sp) (sp_src sp)) as (S1&S2&S3&S4&S5&S6&S7&S8).
  fold w' in S1, S2, S3, S4, S5, S6, S7, S8.
  assert (Hfresh : sid_fresh_in qs ns).
  { intros q e He E. apply (lk_sig _ _ _ _ _ _ _ _ _ L) in He. unfold sig_rec in He.
    apply (lk_sig_lt _ _ _ _ _ _ _ _ _ L) in He. lia. }
  split; [|split; [|exact Hfresh]].
  - assert (S9 : w_runloop w' = w_runloop w) by (apply w_runloop_step; reflexivity).
    destruct L as [K1 K2 K3 K4 K5 K6 K7 K8 K9 K10 K11 K12 K13 K14 K15]. split; unfold sources, pend, sig_rec in *; rewrite ?S1, ?S2, ?S3, ?S4, ?S5, ?S6, ?S7, ?S8, ?S9; auto.
    + intros q e He. cbn [lookup]. destruct (sg_id (esig e) =? ns)%nat eqn:E.
      * apply Nat.eqb_eq in E. exfalso. eapply Hfresh; eauto.
      * eauto.
    + intros sid v. cbn [lookup]. destruct (sid =? ns)%nat eqn:E.
      * apply Nat.eqb_eq in E. lia.
      * intros H. apply K12 in H. lia.
  - unfold sig_rec. rewrite S1. cbn. rewrite Nat.eqb_refl. reflexivity.
Qed.

(* ---- one queue object is replaced ---- *)
Lemma linkc_replace w w' qs lv ac hs fq qc ns rl q v x :
  linkc w qs lv ac hs fq qc ns rl -> q < length qs ->
  w_sig w' = w_sig w -> w_hand w' = w_hand w -> w_levels w' = w_levels w -> w_active w' = w_active w ->
  w_fq w' = w_fq w -> w_quit w' = w_quit w -> w_runloop w' = w_runloop w ->
  (forall q', sources w' q' = if (q' =? q)%nat then eq_sources v else sources w q') ->
  (forall q', pend w' q' = if (q' =? q)%nat then abs v else pend w q') ->
  qwf v ->
  (forall e, In e (eq_entries v) -> In e (eq_entries (gq qs q)) \/
             (e = x /\ sig_rec w (esig x) /\ sid_fresh_in qs (sg_id (esig x)))) ->
  linkc w' (set_nth qs q v) lv ac hs fq qc ns rl.
Proof.
  intros L Hq S1 S2 S3 S4 S7 S8 S9 Hsrc Hpend Hwf Hin. destruct L as [K1 K2 K3 K4 K5 K6 K7 K8 K9 K10 K11 K12 K13 K14 K15].
  split; rewrite ?set_nth_length; unfold sig_rec in *; rewrite ?S1, ?S2, ?S3, ?S4, ?S7, ?S8, ?S9; auto.
  - intros q'. rewrite Hsrc. rewrite gq_set_nth by exact Hq. destruct (q' =? q)%nat; auto.
  - intros q'. rewrite Hpend. rewrite gq_set_nth by exact Hq. destruct (q' =? q)%nat; auto.
  - intros q'. rewrite gq_set_nth by exact Hq. destruct (q' =? q)%nat; auto.
  - intros q' e. rewrite gq_set_nth by exact Hq. destruct (q' =? q)%nat eqn:E; [|apply K11].
    intros He. destruct (Hin e He) as [H|(-> & H & _)]; [eapply K11; eauto|exact H].
  - intros q1 q2 e1 e2. rewrite !gq_set_nth by exact Hq.
    destruct (Nat.eqb_spec q1 q) as [E1|E1], (Nat.eqb_spec q2 q) as [E2|E2]; subst; intros H1 H2 E.
    + split; [reflexivity|].
      destruct (Hin _ H1) as [O1|(-> & _ & F1)], (Hin _ H2) as [O2|(-> & _ & F2)].
      * eapply K13; eauto.
      * exfalso. eapply F2; eauto.
      * exfalso. eapply F1; eauto.
      * reflexivity.
    + destruct (Hin _ H1) as [O1|(-> & _ & F1)].
      * destruct (K13 _ _ _ _ O1 H2 E). congruence.
      * exfalso. eapply F1; eauto.
    + destruct (Hin _ H2) as [O2|(-> & _ & F2)].
      * destruct (K13 _ _ _ _ H1 O2 E). congruence.
      * exfalso. eapply F2; eauto.
    + eapply K13; eauto.
Qed.

Lemma sig_rec_prio w sg : sig_rec w sg -> sig_prio w (sg_id sg) = sg_prio sg.
Proof. unfold sig_rec, sig_prio. intros ->. reflexivity. Qed.
Lemma sig_rec_cls w sg : sig_rec w sg -> sig_cls w (sg_id sg) = sg_cls sg.
Proof. unfold sig_rec, sig_cls. intros ->. reflexivity. Qed.
Lemma sig_rec_src w sg : sig_rec w sg -> sig_src w (sg_id sg) = sg_src sg.
Proof. unfold sig_rec, sig_src. intros ->. reflexivity. Qed.

Lemma linkc_enq w qs lv ac hs fq qc ns rl q sg :
  linkc w qs lv ac hs fq qc ns rl -> q < length qs -> sig_rec w sg -> sid_fresh_in qs (sg_id sg) ->
  linkc (world_step w (EEnq (sg_id sg) q)) (set_nth qs q (q_put (gq qs q) sg)) lv ac hs fq qc ns rl.
Proof.
  intros L Hq R F. destruct (ws_enq w (sg_id sg) q) as (S1&S2&S3&S4&S5&S6&S7&S8).
  eapply (linkc_replace w (world_step w (EEnq (sg_id sg) q)) qs lv ac hs fq qc ns rl q _ (sg_prio sg, eq_counter (gq qs q), sg)); eauto; try (apply w_runloop_step; reflexivity).
  - intros q'. unfold sources. rewrite S5. fold (sources w q'). destruct (q' =? q)%nat eqn:E; [|reflexivity].
    apply Nat.eqb_eq in E; subst. apply (lk_src _ _ _ _ _ _ _ _ _ L).
  - intros q'. rewrite S6. destruct (q' =? q)%nat; [|reflexivity].
    rewrite q_put_abs by apply (lk_qwf _ _ _ _ _ _ _ _ _ L). rewrite (sig_rec_prio _ _ R).
    f_equal. apply (lk_pend _ _ _ _ _ _ _ _ _ L).
  - apply q_put_qwf, (lk_qwf _ _ _ _ _ _ _ _ _ L).
  - intros e. unfold q_put. cbn [eq_entries set]. rewrite in_app_iff. intros [H|[<-|[]]]; [left; exact H|right].
    split; [reflexivity|]. split; assumption.
Qed.

Lemma linkc_pop_in w qs lv ac hs fq qc ns rl q m q' :
  linkc w qs lv ac hs fq qc ns rl -> q_pop (gq qs q) = Some (m, q') ->
  In m (eq_entries (gq qs q)) /\ (forall e, In e (eq_entries q') -> In e (eq_entries (gq qs q))) /\
  pend w q = eproj m :: abs q'.
Proof.
  intros L P. pose proof (lk_qwf _ _ _ _ _ _ _ _ _ L q) as Wq.
  destruct (q_pop_sorted _ _ _ Wq P) as (_ & Pm & _).
  split; [|split].
  - eapply Permutation_in; [apply Permutation_sym, Pm|left; reflexivity].
  - intros e He. eapply Permutation_in; [apply Permutation_sym, Pm|right; exact He].
  - rewrite (lk_pend _ _ _ _ _ _ _ _ _ L). apply q_pop_abs; assumption.
Qed.

Lemma linkc_dispatch w qs lv ac hs fq qc ns rl q m q' sid d :
  linkc w qs lv ac hs fq qc ns rl -> q < length qs -> q_pop (gq qs q) = Some (m, q') ->
  linkc (world_step w (EDispatch sid q d)) (set_nth qs q q') lv ac hs fq qc ns rl.
Proof.
  intros L Hq P. destruct (ws_dispatch w sid q d) as (S1&S2&S3&S4&S5&S6&S7&S8).
  destruct (linkc_pop_in _ _ _ _ _ _ _ _ _ _ _ _ L P) as (Im & Isub & Hp).
  pose proof (lk_qwf _ _ _ _ _ _ _ _ _ L q) as Wq.
  destruct (q_pop_sorted _ _ _ Wq P) as (_ & _ & _ & Esrc).
  eapply (linkc_replace w (world_step w (EDispatch sid q d)) qs lv ac hs fq qc ns rl q _ m); eauto; try (apply w_runloop_step; reflexivity).
  - intros q0. unfold sources. rewrite S5. fold (sources w q0). destruct (q0 =? q)%nat eqn:E; [|reflexivity].
    apply Nat.eqb_eq in E; subst. rewrite Esrc. apply (lk_src _ _ _ _ _ _ _ _ _ L).
  - intros q0. rewrite S6. destruct (q0 =? q)%nat; [|reflexivity]. rewrite Hp. reflexivity.
  - eapply q_pop_qwf; eauto.
Qed.

Lemma linkc_requeue w qs lv ac hs fq qc ns rl q m q' :
  linkc w qs lv ac hs fq qc ns rl -> q < length qs -> q_pop (gq qs q) = Some (m, q') ->
  linkc w (set_nth qs q (q_put_entry q' m)) lv ac hs fq qc ns rl.
Proof.
  intros L Hq P.
  destruct (linkc_pop_in _ _ _ _ _ _ _ _ _ _ _ _ L P) as (Im & Isub & Hp).
  pose proof (lk_qwf _ _ _ _ _ _ _ _ _ L q) as Wq.
  destruct (q_pop_sorted _ _ _ Wq P) as (_ & _ & _ & Esrc).
  eapply (linkc_replace w w qs lv ac hs fq qc ns rl q _ m); eauto.
  - intros q0. destruct (q0 =? q)%nat eqn:E; [|reflexivity].
    apply Nat.eqb_eq in E; subst. unfold q_put_entry. cbn [eq_sources set]. rewrite Esrc. apply (lk_src _ _ _ _ _ _ _ _ _ L).
  - intros q0. destruct (q0 =? q)%nat eqn:E; [|reflexivity].
    apply Nat.eqb_eq in E; subst. rewrite (q_put_entry_abs _ _ _ Wq P). apply (lk_pend _ _ _ _ _ _ _ _ _ L).
  - eapply q_put_entry_qwf; eauto.
  - intros e. unfold q_put_entry. cbn [eq_entries set]. rewrite in_app_iff. intros [H|[<-|[]]]; left; auto.
Qed.

Lemma linkc_regsource w qs lv ac hs fq qc ns rl q o :
  linkc w qs lv ac hs fq qc ns rl -> q < length qs ->
  linkc (world_step w (ERegSource o q)) (set_nth qs q (q_add_source (gq qs q) o)) lv ac hs fq qc ns rl.
Proof.
  intros L Hq. destruct (ws_regsource w o q) as (S1&S2&S3&S4&S5&S6&S7&S8).
  eapply (linkc_replace w (world_step w (ERegSource o q)) qs lv ac hs fq qc ns rl q _ (0%Z, 0, mk_signal 0 exception_spec)); eauto; try (apply w_runloop_step; reflexivity).
  - intros q0. rewrite S5. destruct (q0 =? q)%nat; [|reflexivity].
    rewrite (lk_src _ _ _ _ _ _ _ _ _ L). unfold q_add_source.
    destruct (existsb (Nat.eqb o) (eq_sources (gq qs q))); reflexivity.
  - intros q0. unfold pend. rewrite S6. fold (pend w q0). destruct (q0 =? q)%nat eqn:E; [|reflexivity].
    apply Nat.eqb_eq in E; subst. rewrite q_add_source_abs. apply (lk_pend _ _ _ _ _ _ _ _ _ L).
  - apply q_add_source_qwf, (lk_qwf _ _ _ _ _ _ _ _ _ L).
  - intros e. unfold q_add_source. destruct (existsb (Nat.eqb o) (eq_sources (gq qs q))); cbn [eq_entries set]; auto.
Qed.

Lemma linkc_newlevel w qs lv ac hs fq qc ns rl :
  linkc w qs lv ac hs fq qc ns rl -> fq = false ->
  linkc (world_step w (ENewLoopEnter (length qs))) (qs ++ [empty_queue]) (lv ++ [length qs]) (length qs) hs fq qc ns rl.
Proof.
  intros [K1 K2 K3 K4 K5 K6 K7 K8 K9 K10 K11 K12 K13 K14 K15] FQ.
  split; unfold sources, pend, sig_rec in *; cbn [world_step]; cbn; try (intros; rewrite ?gq_snoc in *; eauto; fail).
  - rewrite K1. reflexivity.
  - rewrite app_length. cbn. lia.
  - rewrite app_length. cbn. apply Forall_app. split.
    + eapply Forall_impl; [|exact K10]. cbn. intros. lia.
    + constructor; [lia|constructor].
  - congruence.
Qed.

Lemma ws_closepop w top : let w' := world_step w (EClosePop top) in
  w_sig w' = w_sig w /\ w_hand w' = w_hand w /\ w_levels w' = removelast (w_levels w) /\
  w_active w' = (match last_opt (removelast (w_levels w)) with Some a => a | None => w_active w end) /\
  w_src w' = w_src w /\ w_pend w' = w_pend w /\ w_fq w' = w_fq w /\ w_quit w' = w_quit w.
Proof. cbn [world_step]. cbn. destruct (last_opt (removelast (w_levels w))); cbn; repeat split. Qed.

Lemma linkc_closepop w qs lv ac hs fq qc ns rl top rest_rev :
  linkc w qs lv ac hs fq qc ns rl -> rev lv = top :: rest_rev ->
  linkc (world_step w (EClosePop top)) qs (rev rest_rev) (match rest_rev with [] => ac | q :: _ => q end) hs fq qc ns
        (match rest_rev with [] => rl | _ :: _ => false end).
Proof.
  intros [K1 K2 K3 K4 K5 K6 K7 K8 K9 K10 K11 K12 K13 K14 K15] R.
  destruct (ws_closepop w top) as (S1&S2&S3&S4&S5&S6&S7&S8).
  assert (Elv : lv = rev rest_rev ++ [top]) by (rewrite <- (rev_involutive lv), R; reflexivity).
  assert (Erl : removelast (w_levels w) = rev rest_rev) by (rewrite K1, Elv; apply removelast_last).
  split; unfold sources, pend, sig_rec in *; rewrite ?S1, ?S2, ?S3, ?S4, ?S5, ?S6, ?S7, ?S8; auto.
  - rewrite Erl. unfold last_opt. rewrite rev_involutive. destruct rest_rev; auto.
  - destruct rest_rev as [|q r]; [exact K9|]. rewrite Forall_forall in K10. apply K10.
    rewrite Elv. cbn. rewrite !in_app_iff. left; right; left; reflexivity.
  - rewrite Elv in K10. apply Forall_app in K10. apply K10.
  - intros _. cbn [world_step]. cbn. destruct (last_opt (removelast (w_levels w))); reflexivity.
  - intros F. apply K15 in F. rewrite F in R. cbn in R. discriminate R.
Qed.

Lemma linkc_forcequit w qs lv ac hs fq qc ns rl :
  linkc w qs lv ac hs fq qc ns rl -> linkc (world_step w EForceQuit) qs [] ac hs true qc ns false.
Proof.
  intros [K1 K2 K3 K4 K5 K6 K7 K8 K9 K10 K11 K12 K13 K14 K15].
  split; unfold sources, pend, sig_rec in *; cbn [world_step]; cbn; auto.
Qed.

Lemma linkc_runenter w qs lv ac hs fq qc ns rl :
  linkc w qs lv ac hs fq qc ns rl -> linkc (world_step w ERunEnter) qs lv ac hs false qc ns true.
Proof.
  intros [K1 K2 K3 K4 K5 K6 K7 K8 K9 K10 K11 K12 K13 K14 K15].
  split; unfold sources, pend, sig_rec in *; cbn [world_step]; cbn; auto; try discriminate.
Qed.

Lemma linkc_reghandler w qs lv ac hs fq qc ns rl c h d :
  linkc w qs lv ac hs fq qc ns rl ->
  linkc (world_step w (ERegHandler c h d)) qs lv ac (add_handler hs c h d) fq qc ns rl.
Proof.
  intros [K1 K2 K3 K4 K5 K6 K7 K8 K9 K10 K11 K12 K13 K14 K15].
  split; unfold sources, pend, sig_rec in *; cbn [world_step]; cbn; auto.
  rewrite update_add_handler, K5. reflexivity.
Qed.

Lemma linkc_setquit w qs lv ac hs fq qc ns rl a :
  linkc w qs lv ac hs fq qc ns rl -> linkc (world_step w (ESetQuitCb a)) qs lv ac hs fq (Some a) ns rl.
Proof.
  intros [K1 K2 K3 K4 K5 K6 K7 K8 K9 K10 K11 K12 K13 K14 K15].
  split; unfold sources, pend, sig_rec in *; cbn [world_step]; cbn; auto.
Qed.

Lemma linkc_init : linkc world0 [empty_queue] [0] 0 [] false None 0 true.
Proof.
  split; unfold sources, pend, sig_rec; cbn; auto.
  - intros [|[|q]]; reflexivity.
  - intros [|[|q]]; reflexivity.
  - intros [|[|q]]; apply qwf_empty.
  - intros [|[|q]] e; cbn; tauto.
  - discriminate.
  - intros [|[|q1]] q2 e1 e2; cbn; tauto.
  - discriminate.
Qed.

(* _mainloop re-arms the stop flag on its way out (no event) ... *)
Lemma linkc_rearm w qs lv ac hs fq qc ns rl :
  linkc w qs lv ac hs fq qc ns rl -> linkc w qs lv ac hs fq qc ns true.
Proof.
  intros [K1 K2 K3 K4 K5 K6 K7 K8 K9 K10 K11 K12 K13 K14 K15]. split; auto. discriminate.
Qed.

(* ... and the observer learns it at the following ENewLoopReturn *)
Lemma linkc_newloopret w qs lv ac hs fq qc ns rl q :
  linkc w qs lv ac hs fq qc ns rl -> (fq = false -> rl = true) ->
  linkc (world_step w (ENewLoopReturn q)) qs lv ac hs fq qc ns rl.
Proof.
  intros [K1 K2 K3 K4 K5 K6 K7 K8 K9 K10 K11 K12 K13 K14 K15] H.
  split; unfold sources, pend, sig_rec in *; cbn [world_step]; destruct (w_fq w) eqn:F; cbn; auto; try congruence.
  intros R. rewrite H in R by congruence. discriminate.
Qed.

Definition is_signew (e : event) : bool := match e with ESigNew _ _ _ _ => true | _ => false end.
Lemma w_sig_step w e : is_signew e = false -> w_sig (world_step w e) = w_sig w.
Proof.
  destruct e; cbn [is_signew]; intros H; try discriminate H; cbn [world_step]; try reflexivity.
  - destruct (w_expect_exc w =? 2)%nat; reflexivity.
  - destruct (w_expect_exc w =? 2)%nat; reflexivity.
  - destruct how as [[| |]|]; reflexivity.
  - destruct (w_fq w); reflexivity.
  - cbn. destruct (last_opt (removelast (w_levels w))); reflexivity.
  - destruct wait; reflexivity.
  - destruct wait; reflexivity.
Qed.

(* events emitted on their own, with no change of the linked state *)
Definition plain (e : event) : bool :=
  match e with
  | EHandler _ _ _ | EHandlerEnd _ _ _ | EDispatchEnd _ | EProcEnter _ _ | EProcReturn _ _
  | EQuitCb _ | ERunReturn | EKill | EExt _ | EMark _ | ETop | EUser _ _ _ => true
  | _ => false
  end.
Lemma plain_passive e : plain e = true -> passive e = true.
Proof. destruct e; cbn; congruence. Qed.

Section Steps.
  Context {U : Type}.
  Notation lstate := (lstate U).
  Implicit Types s : lstate.

  (* the atomic state transformers exec is made of *)
  Inductive astep : lstate -> lstate -> Prop :=
  | A_irrel s s' : score_eq s s' -> trace s' = trace s -> astep s s'      (* tickets, run_loop, ust, ext *)
  | A_emit s e : plain e = true -> astep s (emit e s)
  | A_newsig s sp : astep s (snd (new_signal s sp))
  | A_enq s sg : sig_rec (W s) sg -> sid_fresh s (sg_id sg) -> astep s (do_enqueue s sg)
  | A_dispatch s p c sg q' : q_pop (get_q s (active s)) = Some ((p, c, sg), q') ->
      astep s (emit (EDispatch (sg_id sg) (active s) (length (levels s))) (set_q s (active s) q'))
  | A_requeue s p c sg q' : q_pop (get_q s (active s)) = Some ((p, c, sg), q') ->
      astep s (emit (ERequeue (sg_id sg) (active s)) (set_q s (active s) (q_put_entry q' (p, c, sg))))
  | A_runenter s : astep s (emit ERunEnter (s <| force_quit := false |> <| run_loop := true |>))
  | A_forcequit s :
      astep s (emit EForceQuit (s <| force_quit := true |> <| levels := [] |> <| run_loop := false |>))
  | A_newlevel s : force_quit s = false ->
      astep s (emit (ENewLoopEnter (length (qstore s)))
                    (s <| qstore := qstore s ++ [empty_queue] |> <| active := length (qstore s) |>
                       <| levels := levels s ++ [length (qstore s)] |>))
  | A_closepop s top rest_rev : rev (levels s) = top :: rest_rev ->
      astep s (match rest_rev with
               | [] => emit (EClosePop top) (s <| levels := rev rest_rev |>)
               | q :: _ => emit (EClosePop top) (s <| levels := rev rest_rev |>) <| active := q |> <| run_loop := false |>
               end)
  | A_regsource s o :
      astep s (emit (ERegSource o (active s)) (set_q s (active s) (q_add_source (get_q s (active s)) o)))
  | A_reghandler s cls hid data :
      astep s (emit (ERegHandler cls hid data) (s <| handlers := add_handler (handlers s) cls hid data |>))
  | A_setquit s arg : astep s (emit (ESetQuitCb arg) (s <| quit_cb := Some arg |>))
  | A_rearm s : astep s (s <| run_loop := true |>)           (* _mainloop on its way out *)
  | A_newloopret s q :                                       (* execute_new_loop returns *)
      (force_quit s = false -> run_loop s = true) ->
      (~ In q (levels s) \/ In q (w_stillborn (W s))) ->
      astep s (emit (ENewLoopReturn q) s).

  Inductive steps : lstate -> lstate -> Prop :=
  | steps_refl s : steps s s
  | steps_cons s s1 s2 : astep s s1 -> steps s1 s2 -> steps s s2.

  Lemma steps_one s s' : astep s s' -> steps s s'.
  Proof. intros H. eapply steps_cons; [exact H|apply steps_refl]. Qed.
  Lemma steps_trans s s1 s2 : steps s s1 -> steps s1 s2 -> steps s s2.
  Proof. induction 1; intros H2; [exact H2|]. eapply steps_cons; eauto. Qed.
  Lemma steps_snoc s s1 s2 : steps s s1 -> astep s1 s2 -> steps s s2.
  Proof. intros H1 H2. eapply steps_trans; [exact H1|apply steps_one, H2]. Qed.

  Lemma route_lt s l src q : Forall (fun q => q < length (qstore s)) l -> route s l src = Some q -> q < length (qstore s).
  Proof.
    induction l as [|x r IH]; cbn; intros F H; [discriminate|].
    inversion F; subst. destruct (q_contains_source (get_q s x) src); [inversion H; subst; assumption|auto].
  Qed.

  Lemma link_active_lt s : link s -> active s < length (qstore s).
  Proof. intros L. unfold link, linkw in L. apply (lk_active_lt _ _ _ _ _ _ _ _ _ L). Qed.
  Lemma link_levels_lt s : link s -> Forall (fun q => q < length (qstore s)) (levels s).
  Proof. intros L. unfold link, linkw in L. apply (lk_levels_lt _ _ _ _ _ _ _ _ _ L). Qed.

  Lemma link_route_target s sg : link s ->
    match route s (rev (levels s)) (sg_src sg) with Some q => q | None => active s end < length (qstore s).
  Proof.
    intros L. destruct (route s (rev (levels s)) (sg_src sg)) as [q|] eqn:R.
    - eapply route_lt; [|exact R]. apply Forall_rev, link_levels_lt, L.
    - apply link_active_lt, L.
  Qed.

  Lemma link_new_signal s sp : link s ->
    link (snd (new_signal s sp)) /\ sig_rec (W (snd (new_signal s sp))) (fst (new_signal s sp)) /\
    sid_fresh (snd (new_signal s sp)) (sg_id (fst (new_signal s sp))).
  Proof.
    intros L. unfold new_signal, link, linkw, sid_fresh. cbn [fst snd]. rewrite !W_emit. st_simpl.
    change (W (s <| next_sig := S (next_sig s) |>)) with (W s).
    apply (linkc_signew _ _ _ _ _ _ _ _ _ sp L).
  Qed.

  Lemma astep_link s s' : link s -> astep s s' -> link s'.
  Proof.
    intros L A. destruct A.
    - eapply link_irrel; eauto.
    - apply link_emit_passive; [apply plain_passive|]; assumption.
    - apply (link_new_signal s sp L).
    - unfold do_enqueue. destruct (force_quit s) eqn:FQ; [apply link_emit_passive; [reflexivity|exact L]|].
      unfold link, linkw. rewrite W_emit. st_simpl.
      change (W (set_q s ?q ?v)) with (W s).
      apply linkc_enq; try assumption. apply (link_route_target s sg L).
    - unfold link, linkw. rewrite W_emit. st_simpl. change (W (set_q s ?q ?v)) with (W s).
      eapply linkc_dispatch; [exact L|apply link_active_lt, L|exact H].
    - apply link_emit_passive; [reflexivity|]. unfold link, linkw. st_simpl. change (W (set_q s ?q ?v)) with (W s).
      eapply linkc_requeue; [exact L|apply link_active_lt, L|exact H].
    - unfold link, linkw. rewrite W_emit. st_simpl. apply (linkc_runenter _ _ _ _ _ _ _ _ _ L).
    - unfold link, linkw. rewrite W_emit. st_simpl. apply (linkc_forcequit _ _ _ _ _ _ _ _ _ L).
    - unfold link, linkw. rewrite W_emit. st_simpl. apply (linkc_newlevel _ _ _ _ _ _ _ _ _ L H).
    - assert (L' : linkc (world_step (W s) (EClosePop top)) (qstore s) (rev rest_rev)
                         (match rest_rev with [] => active s | q :: _ => q end)
                         (handlers s) (force_quit s) (quit_cb s) (next_sig s)
                         (match rest_rev with [] => run_loop s | _ :: _ => false end))
        by (apply (linkc_closepop _ _ _ _ _ _ _ _ _ _ _ L H)).
      destruct rest_rev as [|q r]; unfold link, linkw.
      + rewrite W_emit. st_simpl. exact L'.
      + change (W (emit (EClosePop top) (s <| levels := rev (q :: r) |>) <| active := q |> <| run_loop := false |>))
          with (W (emit (EClosePop top) (s <| levels := rev (q :: r) |>))).
        rewrite W_emit. st_simpl. exact L'.
    - unfold link, linkw. rewrite W_emit. st_simpl. change (W (set_q s ?q ?v)) with (W s).
      apply linkc_regsource; [exact L|apply link_active_lt, L].
    - unfold link, linkw. rewrite W_emit. st_simpl. apply linkc_reghandler, L.
    - unfold link, linkw. rewrite W_emit. st_simpl. apply (linkc_setquit _ _ _ _ _ _ _ _ _ _ L).
    - unfold link, linkw. st_simpl. change (W (s <| run_loop := true |>)) with (W s).
      apply (linkc_rearm _ _ _ _ _ _ _ _ _ L).
    - unfold link, linkw. rewrite W_emit. st_simpl. apply (linkc_newloopret _ _ _ _ _ _ _ _ _ q L H).
  Qed.

  Lemma steps_link s s' : link s -> steps s s' -> link s'.
  Proof. intros L H. induction H; [exact L|]. apply IHsteps. eapply astep_link; eauto. Qed.

  Lemma link_init (u : U) : link (init_state u).
  Proof. unfold link, linkw, W. cbn. apply linkc_init. Qed.
End Steps.

(* ---- how the stack of levels can change: a prefix survives, what is pushed is new ---- *)
Definition lrel (qn : nat) (l l' : list nat) : Prop :=
  exists k post, l' = firstn k l ++ post /\ Forall (fun x => qn <= x) post.

Lemma lrel_refl qn l : lrel qn l l.
Proof. exists (length l), []. rewrite firstn_all, app_nil_r. split; [reflexivity|constructor]. Qed.

Lemma Forall_firstn {A} (P : A -> Prop) n (l : list A) : Forall P l -> Forall P (firstn n l).
Proof. revert n; induction l as [|a r IH]; intros [|n] H; cbn; try constructor; inversion H; subst; auto. Qed.

Lemma In_firstn {A} n (l : list A) x : In x (firstn n l) -> In x l.
Proof. revert n; induction l as [|a r IH]; intros [|n]; cbn; try tauto. intros [H|H]; eauto. Qed.

Lemma lrel_trans qn qn' l l' l'' : qn <= qn' -> lrel qn l l' -> lrel qn' l' l'' -> lrel qn l l''.
Proof.
  intros Hq (k & post & -> & F) (k' & post' & -> & F').
  exists (Nat.min k' k), (firstn (k' - length (firstn k l)) post ++ post'). split.
  - rewrite firstn_app, firstn_firstn, app_assoc. reflexivity.
  - apply Forall_app. split; [apply Forall_firstn, F|]. eapply Forall_impl; [|exact F']. cbn. intros. lia.
Qed.

Section Spec.
  Context {U : Type}.
  Notation lstate := (lstate U).
  Implicit Types s : lstate.

  (* open levels, plus one while a stop request is pending; nothing once force-quit *)
  Definition psi s : nat :=
    if force_quit s then 0 else length (levels s) + (if run_loop s then 0 else 1).

  Definition Rel s s' : Prop :=
    length (qstore s) <= length (qstore s') /\
    lrel (length (qstore s)) (levels s) (levels s') /\
    incl (w_stillborn (W s)) (w_stillborn (W s')).

  Lemma rel_refl s : Rel s s.
  Proof. split; [lia|split; [apply lrel_refl|apply incl_refl]]. Qed.
  Lemma rel_trans s s1 s2 : Rel s s1 -> Rel s1 s2 -> Rel s s2.
  Proof.
    intros (A1 & B1 & C1) (A2 & B2 & C2). split; [lia|split].
    - eapply lrel_trans; eauto.
    - eapply incl_tran; eauto.
  Qed.

  Lemma rel_same s s' : length (qstore s') = length (qstore s) -> levels s' = levels s ->
    (trace s' = trace s \/ exists e, trace s' = e :: trace s) -> Rel s s'.
  Proof.
    intros E1 E2 HW. split; [lia|split; [rewrite E2; apply lrel_refl|]].
    destruct HW as [T|(e & T)]; [rewrite (W_trace _ _ T); apply incl_refl|].
    unfold W. rewrite T. cbn [rev]. rewrite world_of_snoc. apply w_stillborn_step.
  Qed.

  Lemma astep_rel s s' : link s -> astep s s' -> Rel s s'.
  Proof.
    intros L A.
    destruct A as [s s' C T|s e P|s sp|s sg R F|s p c sg q' P|s p c sg q' P|s|s|s FQ|s top rest_rev R|s o|s cls hid data|s arg|s|s q H1 H2].
    - destruct C as (C1 & C2 & _). apply rel_same; [congruence|congruence|left; exact T].
    - apply rel_same; [reflexivity|reflexivity|right; eexists; reflexivity].
    - apply rel_same; [reflexivity|reflexivity|right; eexists; reflexivity].
    - unfold do_enqueue. destruct (force_quit s).
      + apply rel_same; [reflexivity|reflexivity|right; eexists; reflexivity].
      + apply rel_same; [st_simpl; apply set_nth_length|reflexivity|right; eexists; reflexivity].
    - apply rel_same; [st_simpl; apply set_nth_length|reflexivity|right; eexists; reflexivity].
    - apply rel_same; [st_simpl; apply set_nth_length|reflexivity|right; eexists; reflexivity].
    - apply rel_same; [reflexivity|reflexivity|right; eexists; reflexivity].
    - split; [st_simpl; lia|split].
      + st_simpl. exists 0, []. split; [reflexivity|constructor].
      + rewrite W_emit. apply w_stillborn_step.
    - split; [st_simpl; rewrite app_length; lia|split].
      + st_simpl. exists (length (levels s)), [length (qstore s)]. rewrite firstn_all. split; [reflexivity|].
        constructor; [lia|constructor].
      + rewrite W_emit. apply w_stillborn_step.
    - assert (Elv : levels s = rev rest_rev ++ [top]) by (rewrite <- (rev_involutive (levels s)), R; reflexivity).
      assert (HR : Rel s (emit (EClosePop top) (s <| levels := rev rest_rev |>))).
      { split; [st_simpl; lia|split].
        - st_simpl. exists (length (rev rest_rev)), []. rewrite Elv, firstn_app, firstn_all, Nat.sub_diag, app_nil_r. cbn.
          rewrite app_nil_r. split; [reflexivity|constructor].
        - rewrite W_emit. apply w_stillborn_step. }
      destruct rest_rev as [|q r]; [exact HR|]. exact HR.
    - apply rel_same; [st_simpl; apply set_nth_length|reflexivity|right; eexists; reflexivity].
    - apply rel_same; [reflexivity|reflexivity|right; eexists; reflexivity].
    - apply rel_same; [reflexivity|reflexivity|right; eexists; reflexivity].
    - apply rel_same; [reflexivity|reflexivity|left; reflexivity].
    - apply rel_same; [reflexivity|reflexivity|right; eexists; reflexivity].
  Qed.

  Lemma steps_rel s s' : link s -> steps s s' -> Rel s s'.
  Proof.
    intros L S. induction S as [s|s s1 s2 A S IH]; [apply rel_refl|].
    eapply rel_trans; [eapply astep_rel; eauto|]. apply IH. eapply astep_link; eauto.
  Qed.

  Lemma link_fq_levels s : link s -> force_quit s = true -> levels s = [].
  Proof. intros L. unfold link, linkw in L. apply (lk_fq_levels _ _ _ _ _ _ _ _ _ L). Qed.
  Lemma link_runloop s : link s -> run_loop s = false -> w_runloop (W s) = false.
  Proof. intros L. unfold link, linkw in L. apply (lk_runloop _ _ _ _ _ _ _ _ _ L). Qed.

  (* a nested loop returns only once its level is gone — unless it was opened under a pending stop request *)
  Lemma newloop_return_ok s1 s4 :
    link s1 -> force_quit s1 = false ->
    let q := length (qstore s1) in
    let s2e := emit (ENewLoopEnter q)
                    (s1 <| qstore := qstore s1 ++ [empty_queue] |> <| active := q |> <| levels := levels s1 ++ [q] |>) in
    Rel s2e s4 -> link s4 ->
    (force_quit s4 = true \/ (run_loop s4 = true /\ length (levels s4) + 1 <= psi s2e)) ->
    ~ In q (levels s4) \/ In q (w_stillborn (W s4)).
  Proof.
    intros L1 FQ1 q s2e (Hq & (k & post & Elv & Fp) & Hst) L4 H.
    destruct H as [F4|(R4 & Hlen)].
    { left. rewrite (link_fq_levels _ L4 F4). intros []. }
    unfold psi, s2e in Hlen. st_simpl_in Hlen. rewrite FQ1, app_length in Hlen. cbn [length] in Hlen.
    unfold s2e in Elv, Fp, Hq. st_simpl_in Elv. st_simpl_in Fp. st_simpl_in Hq.
    rewrite app_length in Fp, Hq. cbn [length] in Fp, Hq.
    destruct (run_loop s1) eqn:R1.
    - left. intros I. rewrite Elv in I, Hlen. rewrite app_length in Hlen. apply in_app_iff in I. destruct I as [I|I].
      + destruct (Nat.le_gt_cases k (length (levels s1))) as [Hk|Hk].
        * rewrite firstn_app in I. replace (k - length (levels s1)) with 0 in I by lia. cbn in I. rewrite app_nil_r in I.
          assert (I' : In q (levels s1)) by (eapply In_firstn; exact I).
          pose proof (link_levels_lt _ L1) as Hlt. rewrite Forall_forall in Hlt. apply Hlt in I'. unfold q in I'. lia.
        * rewrite firstn_all2 in Hlen by (rewrite app_length; cbn; lia). rewrite app_length in Hlen. cbn in Hlen. lia.
      + rewrite Forall_forall in Fp. apply Fp in I. fold q in I. lia.
    - right. apply Hst. unfold s2e. rewrite W_emit.
      change (W (s1 <| qstore := qstore s1 ++ [empty_queue] |> <| active := q |> <| levels := levels s1 ++ [q] |>)) with (W s1).
      cbn [world_step]. cbn. rewrite (link_runloop _ L1 R1). left. reflexivity.
  Qed.
End Spec.

Section Exec.
  Context {U : Type}.
  Notation lstate := (lstate U).
  Implicit Types s : lstate.
  Variable code : nat -> signal -> nat -> prog U.

  Lemma sig_rec_emit (s : lstate) e sg : is_signew e = false -> sig_rec (W s) sg -> sig_rec (W (emit e s)) sg.
  Proof. intros P R. unfold sig_rec. rewrite W_emit, w_sig_step by exact P. exact R. Qed.

  Lemma irrel_step s s' : score_eq s s' -> trace s' = trace s -> steps s s'.
  Proof. intros. apply steps_one, A_irrel; assumption. Qed.

  (* enqueue of a new signal, possibly with passive events / a new level in between *)
  Lemma newsig_enq_steps s sp : link s ->
    steps s (do_enqueue (snd (new_signal s sp)) (fst (new_signal s sp))).
  Proof.
    intros L. destruct (link_new_signal s sp L) as (L1 & R & F).
    eapply steps_cons; [apply A_newsig|]. apply steps_one, A_enq; assumption.
  Qed.

  Lemma do_get_some s sg s1 : do_get s = inl (Some (sg, s1)) ->
    exists p c q', q_pop (get_q s (active s)) = Some ((p, c, sg), q') /\ s1 = set_q s (active s) q'.
  Proof.
    unfold do_get. destruct (q_pop (get_q s (active s))) as [[[[p c] sg'] q']|].
    - intros H. inversion H; subst. eauto.
    - destruct (ext s); [discriminate|]. destruct (new_signal _ _). discriminate.
  Qed.

  Lemma do_get_ext s s1 : link s -> do_get s = inr s1 -> steps s s1.
  Proof.
    intros L. unfold do_get. destruct (q_pop (get_q s (active s))) as [[[[p c] sg'] q']|]; [discriminate|].
    destruct (ext s) as [|sp r] eqn:E; [discriminate|].
    set (s0 := s <| ext := r |>).
    assert (S0 : steps s s0) by (apply irrel_step; [repeat split|reflexivity]).
    assert (L0 : link s0) by (eapply steps_link; eauto).
    destruct (link_new_signal s0 sp L0) as (L1 & R & F).
    destruct (new_signal s0 sp) as [sg s1'] eqn:N. cbn [fst snd] in *.
    intros H. inversion H; subst s1. clear H.
    eapply steps_trans; [exact S0|].
    eapply steps_cons; [pose proof (A_newsig s0 sp) as A; rewrite N in A; exact A|].
    eapply steps_cons; [apply (A_emit s1' (EExt (sg_id sg))); reflexivity|].
    apply steps_one, A_enq; [apply sig_rec_emit; [reflexivity|exact R]|exact F].
  Qed.

  (* ---- the control-flow specification: what a call that comes back has done to the stack of levels ---- *)
  Definition okout (o : outcome) : Prop := o = ONormal \/ o = OThrow XError.

  Definition Post (c : call U) (s : lstate) (o : outcome) (s' : lstate) : Prop :=
    okout o ->
    match c with
    | CRun => True
    | CMainloop => o = ONormal /\
                   (force_quit s' = true \/ (run_loop s' = true /\ length (levels s') + 1 <= psi s))
    | CProcLoop => o = ONormal /\ psi s' <= psi s /\ run_loop s' = false
    | CProcessSignal _ _ | CProcIter _ => o = ONormal /\ psi s' <= psi s
    | _ => psi s' <= psi s
    end.

  Definition pcore (s : lstate) := (force_quit s, levels s, run_loop s).
  Lemma psi_core s s' : pcore s' = pcore s -> psi s' = psi s.
  Proof. unfold pcore, psi. intros H. inversion H as [[H1 H2 H3]]. rewrite H1, H2, H3. reflexivity. Qed.

  Lemma pcore_do_enqueue s sg : pcore (do_enqueue s sg) = pcore s.
  Proof. unfold do_enqueue. destruct (force_quit s) eqn:F; unfold pcore; st_simpl; rewrite ?F; reflexivity. Qed.
  Lemma pcore_new_signal s sp : pcore (snd (new_signal s sp)) = pcore s.
  Proof. reflexivity. Qed.

  Lemma do_get_ext_pcore s s1 : do_get s = inr s1 -> pcore s1 = pcore s.
  Proof.
    unfold do_get. destruct (q_pop (get_q s (active s))) as [[[[p c] sg'] q']|]; [discriminate|].
    destruct (ext s) as [|sp r] eqn:E; [discriminate|].
    pose proof (pcore_new_signal (s <| ext := r |>) sp) as P.
    destruct (new_signal (s <| ext := r |>) sp) as [sg s1'] eqn:N. cbn [snd] in P.
    intros H. inversion H; subst s1. rewrite pcore_do_enqueue. exact P.
  Qed.

  Ltac vac := let X := fresh "X" in intros [X|X]; discriminate X.

  Theorem exec_spec : forall fuel c s o s', link s -> exec code fuel c s = (o, s') -> steps s s' /\ Post c s o s'.
  Proof.
    induction fuel as [|f IH]; intros c s o s' L H.
    { cbn in H. inversion H; subst. split; [apply steps_refl|unfold Post; vac]. }
    assert (IH' : forall c s0 o s1, steps s s0 -> exec code f c s0 = (o, s1) -> steps s s1 /\ Post c s0 o s1).
    { intros c0 s0 o0 s1 S0 E. destruct (IH c0 s0 o0 s1) as [S1 P1]; [eapply steps_link; eauto|exact E|].
      split; [eapply steps_trans; eauto|exact P1]. }
    assert (LK : forall s0, steps s s0 -> link s0) by (intros; eapply steps_link; eauto).
    destruct c; cbn [exec] in H.
    - (* CRun *)
      split; [|intros _; exact I].
      set (s0 := emit ERunEnter _) in H.
      assert (S0 : steps s s0) by apply steps_one, A_runenter.
      destruct (exec code f CMainloop s0) as [o1 s1] eqn:E1.
      destruct (IH' _ _ _ _ S0 E1) as [S1 _].
      assert (S2 : steps s (match quit_cb s1 with Some a => emit (EQuitCb a) s1 | None => s1 end)).
      { destruct (quit_cb s1); [|exact S1]. eapply steps_snoc; [exact S1|apply A_emit; reflexivity]. }
      destruct o1 as [|[| |]| |]; inversion H; subst; try exact S1.
      all: eapply steps_snoc; [exact S2|apply A_emit; reflexivity].
    - (* CMainloop *)
      destruct (run_loop s) eqn:R.
      + destruct (exec code f CProcLoop s) as [o1 s1] eqn:E1.
        destruct (IH' _ _ _ _ (steps_refl s) E1) as [S1 P1].
        destruct o1.
        * destruct (P1 (or_introl eq_refl)) as (_ & Hp1 & _).
          destruct (IH' _ _ _ _ S1 H) as [S' P']. split; [exact S'|].
          intros OK. destruct (P' OK) as (-> & D). split; [reflexivity|].
          destruct D as [F|(R' & Hl)]; [left; exact F|right; split; [exact R'|lia]].
        * inversion H; subst. split; [exact S1|]. intros OK. destruct (P1 OK) as (X & _). discriminate X.
        * inversion H; subst. split; [exact S1|]. vac.
        * inversion H; subst. split; [exact S1|]. vac.
      + inversion H; subst o s'. destruct (force_quit s) eqn:F.
        * split; [apply steps_refl|]. intros _. split; [reflexivity|left; exact F].
        * split; [apply steps_one, A_rearm|]. intros _. split; [reflexivity|right]. split; [reflexivity|].
          unfold psi. rewrite F, R. st_simpl. lia.
    - (* CProcLoop *)
      destruct (run_loop s) eqn:R; [|inversion H; subst; split; [apply steps_refl|intros _; repeat split; auto]].
      destruct (do_get s) as [[[sg s1]|]|s1] eqn:G.
      + destruct (do_get_some _ _ _ G) as (p & c & q' & P & ->).
        set (s2 := emit _ _) in H.
        assert (S2 : steps s s2) by (eapply steps_one, A_dispatch; eauto).
        assert (E2 : psi s2 = psi s) by reflexivity.
        destruct (exec code f (CProcessSignal sg 0) s2) as [o1 s3] eqn:E1.
        destruct (IH' _ _ _ _ S2 E1) as [S3 P3].
        destruct o1.
        * destruct (P3 (or_introl eq_refl)) as (_ & Hp3).
          destruct (IH' _ _ _ _ S3 H) as [S' P']. split; [exact S'|].
          intros OK. destruct (P' OK) as (-> & Hp & R'). repeat split; [lia|exact R'].
        * inversion H; subst. split; [exact S3|]. intros OK. destruct (P3 OK) as (X & _). discriminate X.
        * inversion H; subst. split; [exact S3|]. vac.
        * inversion H; subst. split; [exact S3|]. vac.
      + inversion H; subst. split; [apply steps_refl|vac].
      + pose proof (do_get_ext _ _ L G) as S1. pose proof (psi_core _ _ (do_get_ext_pcore _ _ G)) as E1.
        destruct (IH' _ _ _ _ S1 H) as [S' P']. split; [exact S'|].
        intros OK. destruct (P' OK) as (-> & Hp & R'). repeat split; [lia|exact R'].
    - (* CProcWait *)
      destruct (run_loop s) eqn:R; [|inversion H; subst; split; [apply steps_refl|intros _; apply le_n]].
      destruct (do_get s) as [[[sg s1]|]|s1] eqn:G.
      + destruct (do_get_some _ _ _ G) as (p & c & q' & P & ->).
        set (s2 := emit _ _) in H.
        assert (S2 : steps s s2) by (eapply steps_one, A_dispatch; eauto).
        assert (E2 : psi s2 = psi s) by reflexivity.
        destruct (exec code f (CProcessSignal sg 0) s2) as [o1 s3] eqn:E1.
        destruct (IH' _ _ _ _ S2 E1) as [S3 P3].
        destruct o1.
        * destruct (P3 (or_introl eq_refl)) as (_ & Hp3).
          destruct (check_ticket (tickets s3) cls ticket) as [[[|] t']|].
          -- inversion H; subst. split.
             ++ eapply steps_trans; [exact S3|]. apply irrel_step; [repeat split|reflexivity].
             ++ intros _. change (psi (s3 <| tickets := t' |>)) with (psi s3). lia.
          -- destruct (IH' _ _ _ _ S3 H) as [S' P']. split; [exact S'|]. intros OK. specialize (P' OK). cbn in P'. lia.
          -- inversion H; subst. split; [exact S3|]. intros _. lia.
        * inversion H; subst. split; [exact S3|]. intros OK. destruct (P3 OK) as (X & _). discriminate X.
        * inversion H; subst. split; [exact S3|]. vac.
        * inversion H; subst. split; [exact S3|]. vac.
      + inversion H; subst. split; [apply steps_refl|vac].
      + pose proof (do_get_ext _ _ L G) as S1. pose proof (psi_core _ _ (do_get_ext_pcore _ _ G)) as E1.
        destruct (IH' _ _ _ _ S1 H) as [S' P']. split; [exact S'|].
        intros OK. specialize (P' OK). cbn in P'. lia.
    - (* CProcIter *)
      destruct (negb (q_empty (get_q s (active s))) && run_loop s);
        [|inversion H; subst; split; [apply steps_refl|intros _; split; [reflexivity|apply le_n]]].
      destruct (q_pop (get_q s (active s))) as [[[[p cnt] sg] q']|] eqn:P;
        [|inversion H; subst; split; [apply steps_refl|intros _; split; [reflexivity|apply le_n]]].
      assert (GO : forall o s',
                 (let s1 := set_q s (active s) q' in
                  let s2 := emit (EDispatch (sg_id sg) (active s) (length (levels s))) s1 in
                  let '(o, s3) := exec code f (CProcessSignal sg 0) s2 in
                  match o with ONormal => exec code f (CProcIter (Some p)) s3 | _ => (o, s3) end) = (o, s') ->
                 steps s s' /\ Post (CProcIter prio) s o s').
      { clear H. intros o0 s0' H. cbn zeta in H. set (s2 := emit _ _) in H.
        assert (S2 : steps s s2) by (eapply steps_one, A_dispatch; eauto).
        assert (E2 : psi s2 = psi s) by reflexivity.
        destruct (exec code f (CProcessSignal sg 0) s2) as [o1 s3] eqn:E1.
        destruct (IH' _ _ _ _ S2 E1) as [S3 P3].
        destruct o1.
        - destruct (P3 (or_introl eq_refl)) as (_ & Hp3).
          destruct (IH' _ _ _ _ S3 H) as [S' P']. split; [exact S'|].
          intros OK. destruct (P' OK) as (-> & Hp). split; [reflexivity|lia].
        - inversion H; subst. split; [exact S3|]. intros OK. destruct (P3 OK) as (X & _). discriminate X.
        - inversion H; subst. split; [exact S3|]. vac.
        - inversion H; subst. split; [exact S3|]. vac. }
      destruct prio as [p0|]; [|apply GO in H; exact H].
      destruct (p =? p0)%Z; [apply GO in H; exact H|].
      inversion H; subst. split; [eapply steps_one, A_requeue; eauto|].
      intros _. split; [reflexivity|apply le_n].
    - (* CProcessSignal *)
      set (s0 := if (idx =? 0)%nat then _ else s) in H.
      assert (S0 : steps s s0).
      { unfold s0. destruct (idx =? 0)%nat; [|apply steps_refl]. apply irrel_step; [repeat split|reflexivity]. }
      assert (E0 : psi s0 = psi s) by (unfold s0; destruct (idx =? 0)%nat; reflexivity).
      clearbody s0.
      destruct (handlers_of s0 (sg_cls sg)) as [hs|].
      + destruct (force_quit s0).
        { inversion H; subst. split; [eapply steps_snoc; [exact S0|apply A_emit; reflexivity]|].
          intros _. split; [reflexivity|]. change (psi (emit (EDispatchEnd (sg_id sg)) s0)) with (psi s0). lia. }
        destruct (nth_error hs idx) as [[hid data]|].
        2:{ inversion H; subst. split; [eapply steps_snoc; [exact S0|apply A_emit; reflexivity]|].
            intros _. split; [reflexivity|]. change (psi (emit (EDispatchEnd (sg_id sg)) s0)) with (psi s0). lia. }
        set (s1 := emit _ s0) in H.
        assert (S1 : steps s s1) by (eapply steps_snoc; [exact S0|apply A_emit; reflexivity]).
        assert (E1' : psi s1 = psi s0) by reflexivity.
        destruct (exec code f (CProg (code hid sg data)) s1) as [o1 s2] eqn:E1.
        destruct (IH' _ _ _ _ S1 E1) as [S2 P2].
        destruct o1 as [|[| |]| |].
        * specialize (P2 (or_introl eq_refl)). cbn in P2.
          set (s3 := emit _ s2) in H.
          assert (S3 : steps s s3) by (eapply steps_snoc; [exact S2|apply A_emit; reflexivity]).
          assert (E3 : psi s3 = psi s2) by reflexivity.
          destruct (IH' _ _ _ _ S3 H) as [S' P']. split; [exact S'|].
          intros OK. destruct (P' OK) as (-> & Hp). split; [reflexivity|lia].
        * inversion H; subst. split; [eapply steps_snoc; [exact S2|apply A_emit; reflexivity]|vac].
        * specialize (P2 (or_intror eq_refl)). cbn in P2.
          set (s3 := emit _ s2) in H.
          assert (S3 : steps s s3) by (eapply steps_snoc; [exact S2|apply A_emit; reflexivity]).
          assert (E3 : psi s3 = psi s2) by reflexivity.
          pose proof (newsig_enq_steps s3 exception_spec (LK _ S3)) as S4.
          assert (E4 : psi (do_enqueue (snd (new_signal s3 exception_spec)) (fst (new_signal s3 exception_spec))) = psi s3)
            by (apply psi_core; rewrite pcore_do_enqueue; apply pcore_new_signal).
          destruct (new_signal s3 exception_spec) as [xs s4]. cbn [fst snd] in S4, E4.
          destruct (IH' _ _ _ _ (steps_trans _ _ _ S3 S4) H) as [S' P']. split; [exact S'|].
          intros OK. destruct (P' OK) as (-> & Hp). split; [reflexivity|lia].
        * inversion H; subst. split; [eapply steps_snoc; [exact S2|apply A_emit; reflexivity]|vac].
        * inversion H; subst. split; [exact S2|vac].
        * inversion H; subst. split; [exact S2|vac].
      + destruct (sg_cls sg =? CLS_EXCEPTION)%nat; inversion H; subst;
          (split; [eapply steps_snoc; [exact S0|apply A_emit; reflexivity]|]); [vac|].
        intros _. split; [reflexivity|]. change (psi (emit (EDispatchEnd (sg_id sg)) s0)) with (psi s0). lia.
    - (* CApi *)
      destruct c.
      + (* AEnqueue *)
        pose proof (newsig_enq_steps s sp L) as S1.
        assert (E1 : psi (do_enqueue (snd (new_signal s sp)) (fst (new_signal s sp))) = psi s)
          by (apply psi_core; rewrite pcore_do_enqueue; apply pcore_new_signal).
        destruct (new_signal s sp) as [sg s1]. cbn [fst snd] in S1, E1. inversion H; subst.
        split; [exact S1|]. intros _. cbn. lia.
      + inversion H; subst. split; [apply steps_one, A_forcequit|]. intros _. cbn. unfold psi at 1. st_simpl. lia.
      + (* ANewLoop *)
        destruct (link_new_signal s sp L) as (L1 & R & F).
        pose proof (A_newsig s sp) as A1.
        pose proof (pcore_new_signal s sp) as PC1.
        destruct (new_signal s sp) as [sg s1]. cbn [fst snd] in *.
        assert (S1 : steps s s1) by (apply steps_one, A1).
        assert (Ep1 : psi s1 = psi s) by (apply psi_core, PC1).
        destruct (force_quit s1) eqn:FQ; [inversion H; subst; split; [exact S1|intros _; cbn; lia]|].
        set (q := length (qstore s1)) in *.
        set (s2e := emit (ENewLoopEnter q) _) in H.
        assert (S2 : steps s s2e) by (eapply steps_snoc; [exact S1|apply A_newlevel, FQ]).
        assert (S3 : steps s (do_enqueue s2e sg)).
        { eapply steps_snoc; [exact S2|]. apply A_enq.
          - apply sig_rec_emit; [reflexivity|]. exact R.
          - intros q0 e. unfold s2e. st_simpl. unfold gq. rewrite nth_snoc_default. apply F. }
        assert (Ep3 : psi (do_enqueue s2e sg) = psi s2e) by (apply psi_core, pcore_do_enqueue).
        assert (Ep2 : psi s2e = S (psi s1)).
        { unfold psi, s2e. st_simpl. rewrite FQ, app_length. cbn [length]. lia. }
        destruct (exec code f CMainloop (do_enqueue s2e sg)) as [o1 s4] eqn:E1.
        destruct (IH' _ _ _ _ S3 E1) as [S4 P4].
        destruct o1; inversion H; subst; try (split; [exact S4|]; intros OK; destruct (P4 OK) as (X & _); discriminate X).
        destruct (P4 (or_introl eq_refl)) as (_ & D).
        assert (L4 : link s4) by (apply LK, S4).
        assert (R24 : Rel s2e s4).
        { apply steps_rel; [apply LK, S2|].
          eapply steps_trans; [apply steps_one, A_enq|].
          - apply sig_rec_emit; [reflexivity|]. exact R.
          - intros q0 e. unfold s2e. st_simpl. unfold gq. rewrite nth_snoc_default. apply F.
          - destruct (IH _ _ _ _ (LK _ S3) E1) as [X _]. exact X. }
        split.
        * eapply steps_snoc; [exact S4|]. apply A_newloopret.
          -- intros F4. destruct D as [D|(D & _)]; [congruence|exact D].
          -- apply (newloop_return_ok s1 s4 L1 FQ R24 L4). rewrite Ep3 in D. exact D.
        * intros _. cbn. change (psi (emit (ENewLoopReturn q) s4)) with (psi s4).
          destruct D as [D|(D1 & D2)]; [unfold psi; rewrite D; lia|].
          unfold psi at 1. rewrite D1. destruct (force_quit s4); lia.
      + (* ACloseLoop *)
        set (s0 := emit _ s) in H.
        assert (S0 : steps s s0) by (apply steps_one, A_emit; reflexivity).
        assert (E0 : psi s0 = psi s) by reflexivity.
        destruct (exec code f (CProcIter None) s0) as [o1 s1] eqn:E1.
        destruct (IH' _ _ _ _ S0 E1) as [S1 P1].
        destruct o1; [|inversion H; subst; (split; [exact S1|]);
                       try vac; intros OK; destruct (P1 OK) as (X & _); discriminate X..].
        destruct (P1 (or_introl eq_refl)) as (_ & Hp1).
        set (s2 := emit (EProcReturn None 0) s1) in H.
        assert (S2 : steps s s2) by (eapply steps_snoc; [exact S1|apply A_emit; reflexivity]).
        assert (E2 : psi s2 = psi s1) by reflexivity.
        destruct (rev (levels s2)) as [|top rest_rev] eqn:R; [inversion H; subst; split; [exact S2|intros _; cbn; lia]|].
        pose proof (A_closepop s2 top rest_rev R) as A.
        assert (Elv : levels s2 = rev rest_rev ++ [top]) by (rewrite <- (rev_involutive (levels s2)), R; reflexivity).
        destruct rest_rev as [|q r]; inversion H; subst; (split; [eapply steps_snoc; [exact S2|exact A]|]); [vac|].
        intros _. cbn. unfold psi at 1. st_simpl.
        destruct (force_quit s2) eqn:F2.
        * lia.
        * assert (psi s2 >= length (levels s2)) by (unfold psi; rewrite F2; lia).
          rewrite Elv, app_length in H0. cbn [length] in H0. cbn [rev] in H0. lia.
      + (* AProcess *)
        destruct return_after as [cls|].
        * destruct (take_ticket (tickets s) cls) as [t tm].
          set (s1 := emit _ _) in H.
          assert (S1 : steps s s1).
          { eapply steps_trans; [apply (irrel_step s (s <| tickets := tm |>)); [repeat split|reflexivity]|].
            apply steps_one, A_emit; reflexivity. }
          assert (E1' : psi s1 = psi s) by reflexivity.
          destruct (exec code f (CProcWait cls t) s1) as [o1 s2] eqn:E1.
          destruct (IH' _ _ _ _ S1 E1) as [S2 P2].
          destruct o1; inversion H; subst.
          -- split; [eapply steps_snoc; [exact S2|apply A_emit; reflexivity]|].
             intros OK. specialize (P2 OK). cbn in P2. cbn.
             change (psi (emit (EProcReturn (Some cls) t) s2)) with (psi s2). lia.
          -- split; [exact S2|]. intros OK. specialize (P2 OK). cbn in P2. cbn. lia.
          -- split; [exact S2|vac].
          -- split; [exact S2|vac].
        * set (s0 := emit _ s) in H.
          assert (S0 : steps s s0) by (apply steps_one, A_emit; reflexivity).
          assert (E0 : psi s0 = psi s) by reflexivity.
          destruct (exec code f (CProcIter None) s0) as [o1 s1] eqn:E1.
          destruct (IH' _ _ _ _ S0 E1) as [S1 P1].
          destruct o1; inversion H; subst.
          -- split; [eapply steps_snoc; [exact S1|apply A_emit; reflexivity]|].
             intros OK. destruct (P1 OK) as (_ & Hp). cbn.
             change (psi (emit (EProcReturn None 0) s1)) with (psi s1). lia.
          -- split; [exact S1|]. intros OK. destruct (P1 OK) as (X & _). discriminate X.
          -- split; [exact S1|vac].
          -- split; [exact S1|vac].
      + inversion H; subst. split; [apply steps_one, A_regsource|intros _; cbn; apply le_n].
      + inversion H; subst. split; [apply steps_one, A_reghandler|intros _; cbn; apply le_n].
      + inversion H; subst. split; [apply steps_one, A_setquit|intros _; cbn; apply le_n].
      + inversion H; subst. split; [apply irrel_step; [repeat split|reflexivity]|intros _; cbn; apply le_n].
    - (* CProg *)
      destruct p.
      + inversion H; subst; split; [apply steps_refl|intros _; cbn; apply le_n].
      + inversion H; subst; split; [apply steps_refl|intros _; cbn; apply le_n].
      + destruct (exec code f (CProg p1) s) as [o1 s1] eqn:E1.
        destruct (IH' _ _ _ _ (steps_refl s) E1) as [S1 P1].
        destruct o1.
        * specialize (P1 (or_introl eq_refl)). cbn in P1.
          destruct (IH' _ _ _ _ S1 H) as [S' P']. split; [exact S'|].
          intros OK. specialize (P' OK). cbn in P'. cbn. lia.
        * inversion H; subst. split; [exact S1|]. intros OK. specialize (P1 OK). cbn in P1. cbn. lia.
        * inversion H; subst. split; [exact S1|vac].
        * inversion H; subst. split; [exact S1|vac].
      + destruct (exec code f (CProg p1) s) as [o1 s1] eqn:E1.
        destruct (IH' _ _ _ _ (steps_refl s) E1) as [S1 P1].
        destruct o1 as [|[| |]| |].
        * inversion H; subst. split; [exact S1|]. intros OK. specialize (P1 OK). cbn in P1. cbn. lia.
        * inversion H; subst. split; [exact S1|vac].
        * specialize (P1 (or_intror eq_refl)). cbn in P1.
          destruct (IH' _ _ _ _ S1 H) as [S' P']. split; [exact S'|].
          intros OK. specialize (P' OK). cbn in P'. cbn. lia.
        * inversion H; subst. split; [exact S1|vac].
        * inversion H; subst. split; [exact S1|vac].
        * inversion H; subst. split; [exact S1|vac].
      + destruct (IH' _ _ _ _ (steps_refl s) H) as [S' P']. split; [exact S'|].
        intros OK. specialize (P' OK). cbn. destruct c; exact P'.
      + destruct (f0 (ust s)) as [u' p'].
        assert (S0 : steps s (s <| ust := u' |>)) by (apply irrel_step; [repeat split|reflexivity]).
        destruct (IH' _ _ _ _ S0 H) as [S' P']. split; [exact S'|].
        intros OK. specialize (P' OK). cbn in P'. cbn. change (psi (s <| ust := u' |>)) with (psi s) in P'. exact P'.
      + destruct (c (ust s)); [|inversion H; subst; split; [apply steps_refl|intros _; cbn; apply le_n]].
        destruct (exec code f (CProg p) s) as [o1 s1] eqn:E1.
        destruct (IH' _ _ _ _ (steps_refl s) E1) as [S1 P1].
        destruct o1.
        * specialize (P1 (or_introl eq_refl)). cbn in P1.
          destruct (IH' _ _ _ _ S1 H) as [S' P']. split; [exact S'|].
          intros OK. specialize (P' OK). cbn in P'. cbn. lia.
        * inversion H; subst. split; [exact S1|]. intros OK. specialize (P1 OK). cbn in P1. cbn. lia.
        * inversion H; subst. split; [exact S1|vac].
        * inversion H; subst. split; [exact S1|vac].
      + inversion H; subst. split; [|intros _; cbn; apply le_n]. apply steps_one, A_emit.
        destruct e; reflexivity.
  Qed.

  Theorem exec_steps : forall fuel c s o s', link s -> exec code fuel c s = (o, s') -> steps s s'.
  Proof. intros fuel c s o s' L H. apply (exec_spec fuel c s o s' L H). Qed.
End Exec.

(* ---- monitors along a growing trace ---- *)
Lemma run_mon_snoc chk t : forall w i e,
  run_mon chk w (t ++ [e]) i = None <-> run_mon chk w t i = None /\ chk (fold_left world_step t w) e = true.
Proof.
  induction t as [|x r IH]; intros w i e; cbn.
  - destruct (chk w e); split; try tauto; try discriminate. intros [_ H]; discriminate.
  - destruct (chk w x); [apply IH|]. split; [discriminate|intros [H _]; discriminate].
Qed.

Lemma ok_snoc chk t e : ok chk (t ++ [e]) = true <-> ok chk t = true /\ chk (world_of t) e = true.
Proof.
  unfold ok, world_of. pose proof (run_mon_snoc chk t world0 0 e) as H.
  destruct (run_mon chk world0 (t ++ [e]) 0) as [n|], (run_mon chk world0 t 0) as [m|]; split; intros A;
    try discriminate; try tauto.
  all: try (destruct H as [H _]; destruct (H eq_refl); discriminate).
  all: try (destruct H as [H _]; destruct (H eq_refl); tauto).
  all: try (destruct H as [_ H]; exfalso; assert (X : Some n = None) by (apply H; tauto); discriminate).
Qed.

Section Top.
  Context {U : Type}.
  Notation lstate := (lstate U).
  Implicit Types s : lstate.
  Variable code : nat -> signal -> nat -> prog U.

  (* everything so far was accepted by the monitor *)
  Definition acc (chk : world -> event -> bool) (s : lstate) : Prop := ok chk (rev (trace s)) = true.

  Lemma acc_emit chk e s : acc chk (emit e s) <-> acc chk s /\ chk (W s) e = true.
  Proof. unfold acc, emit, W. cbn. apply ok_snoc. Qed.
  Lemma acc_trace chk s s' : trace s' = trace s -> acc chk s -> acc chk s'.
  Proof. unfold acc. intros ->. auto. Qed.
  Lemma acc_init chk (u : U) : acc chk (init_state u).
  Proof. reflexivity. Qed.

  (* any invariant kept by the atomic steps (under the link) is kept by exec *)
  Lemma steps_inv (I : lstate -> Prop) :
    (forall s s', link s -> I s -> astep s s' -> I s') ->
    forall s s', link s -> I s -> steps s s' -> I s'.
  Proof.
    intros HI s s' L HIs S. induction S; [exact HIs|].
    apply IHS; [eapply astep_link; eauto|eapply HI; eauto].
  Qed.

  Theorem link_exec_strong : forall fuel c s o s', link s -> exec code fuel c s = (o, s') -> link s'.
  Proof. intros fuel c s o s' L H. eapply steps_link; [exact L|eapply exec_steps; eauto]. Qed.

  (* signals once recorded stay recorded *)
  Definition sig_mono (s s' : lstate) : Prop :=
    forall sid v, lookup sid (w_sig (W s)) = Some v -> lookup sid (w_sig (W s')) = Some v.

  Lemma link_sig_lt s sid v : link s -> lookup sid (w_sig (W s)) = Some v -> sid < next_sig s.
  Proof. intros L. unfold link, linkw in L. apply (lk_sig_lt _ _ _ _ _ _ _ _ _ L). Qed.

  Lemma astep_sig_mono s s' : link s -> astep s s' -> sig_mono s s'.
  Proof.
    intros L A sid v Hs.
    destruct A as [s s' C T|s e P|s sp|s sg R F|s p c sg q' P|s p c sg q' P|s|s|s FQ|s top rest_rev R|s o|s cls hid data|s arg|s|s q H1 H2].
    - rewrite (W_trace _ _ T). exact Hs.
    - rewrite W_emit. destruct (world_step_passive (W s) e (plain_passive _ P)) as (-> & _). exact Hs.
    - unfold new_signal. cbn [snd]. rewrite W_emit.
      destruct (ws_signew (W (s <| next_sig := S (next_sig s) |>)) (next_sig s) (sp_cls sp) (sp_prio sp) (sp_src sp)) as (-> & _).
      change (W (s <| next_sig := S (next_sig s) |>)) with (W s). cbn [lookup].
      pose proof (link_sig_lt _ _ _ L Hs) as Hlt. destruct (sid =? next_sig s)%nat eqn:E; [apply Nat.eqb_eq in E; lia|exact Hs].
    - unfold do_enqueue. destruct (force_quit s); rewrite W_emit, w_sig_step by reflexivity; exact Hs.
    - rewrite W_emit, w_sig_step by reflexivity. exact Hs.
    - rewrite W_emit, w_sig_step by reflexivity. exact Hs.
    - rewrite W_emit, w_sig_step by reflexivity. exact Hs.
    - rewrite W_emit, w_sig_step by reflexivity. exact Hs.
    - rewrite W_emit, w_sig_step by reflexivity. exact Hs.
    - destruct rest_rev as [|n rest_rev].
      + rewrite W_emit, w_sig_step by reflexivity. exact Hs.
      + change (W (emit (EClosePop top) (s <| levels := rev (n :: rest_rev) |>) <| active := n |> <| run_loop := false |>))
          with (W (emit (EClosePop top) (s <| levels := rev (n :: rest_rev) |>))).
        rewrite W_emit, w_sig_step by reflexivity. exact Hs.
    - rewrite W_emit, w_sig_step by reflexivity. exact Hs.
    - rewrite W_emit, w_sig_step by reflexivity. exact Hs.
    - rewrite W_emit, w_sig_step by reflexivity. exact Hs.
    - exact Hs.
    - rewrite W_emit, w_sig_step by reflexivity. exact Hs.
  Qed.

  Lemma steps_sig_mono s s' : link s -> steps s s' -> sig_mono s s'.
  Proof.
    intros L S. induction S as [s|s s1 s2 A S IHS]; [intros sid v Hs; exact Hs|].
    intros sid v Hs. apply IHS; [eapply astep_link; eauto|]. eapply astep_sig_mono; eauto.
  Qed.

  Theorem exec_sig_mono : forall fuel c s o s', link s -> exec code fuel c s = (o, s') -> sig_mono s s'.
  Proof. intros. eapply steps_sig_mono; [assumption|eapply exec_steps; eauto]. Qed.

  (* the side condition of the internal call _process_signal: its signal is a recorded one *)
  Definition sig_ok (c : call U) (s : lstate) : Prop :=
    match c with CProcessSignal sg _ => sig_rec (W s) sg | _ => True end.

  Theorem link_exec : forall fuel c s o s', link s -> sig_ok c s -> exec code fuel c s = (o, s') -> link s'.
  Proof. intros fuel c s o s' L _ H. eapply link_exec_strong; eauto. Qed.

  (* a popped signal is a recorded one: sig_ok holds at every internal call *)
  Lemma link_pop_sig_rec s q p c sg q' : link s -> q_pop (get_q s q) = Some ((p, c, sg), q') ->
    sig_rec (W s) sg /\ p = sg_prio sg /\ pend (W s) q = (p, sg_id sg) :: abs q'.
  Proof.
    intros L P. unfold link, linkw in L. rewrite get_q_gq in P.
    destruct (linkc_pop_in _ _ _ _ _ _ _ _ _ _ _ _ L P) as (Im & _ & Hp).
    split; [apply (lk_sig _ _ _ _ _ _ _ _ _ L _ _ Im)|split; [|exact Hp]].
    pose proof (qwf_prio _ (lk_qwf _ _ _ _ _ _ _ _ _ L q)) as Pr. rewrite Forall_forall in Pr. apply (Pr _ Im).
  Qed.

  (* ---- the components of the link, on states ---- *)
  Lemma link_levels s : link s -> w_levels (W s) = levels s.
  Proof. intros L. unfold link, linkw in L. apply (lk_levels _ _ _ _ _ _ _ _ _ L). Qed.
  Lemma link_active s : link s -> w_active (W s) = active s.
  Proof. intros L. unfold link, linkw in L. apply (lk_active _ _ _ _ _ _ _ _ _ L). Qed.
  Lemma link_fq s : link s -> w_fq (W s) = force_quit s.
  Proof. intros L. unfold link, linkw in L. apply (lk_fq _ _ _ _ _ _ _ _ _ L). Qed.
  Lemma link_quit s : link s -> w_quit (W s) = quit_cb s.
  Proof. intros L. unfold link, linkw in L. apply (lk_quit _ _ _ _ _ _ _ _ _ L). Qed.
  Lemma link_hand s cls : link s -> hand (W s) cls = handlers_of s cls.
  Proof.
    intros L. unfold link, linkw in L. unfold hand, handlers_of.
    rewrite (lk_hand _ _ _ _ _ _ _ _ _ L). apply lookup_find.
  Qed.
  Lemma link_sources s q : link s -> sources (W s) q = eq_sources (get_q s q).
  Proof. intros L. unfold link, linkw in L. apply (lk_src _ _ _ _ _ _ _ _ _ L). Qed.
  Lemma link_pend s q : link s -> pend (W s) q = abs (get_q s q).
  Proof. intros L. unfold link, linkw in L. apply (lk_pend _ _ _ _ _ _ _ _ _ L). Qed.
  Lemma link_qwf s q : link s -> qwf (get_q s q).
  Proof. intros L. unfold link, linkw in L. apply (lk_qwf _ _ _ _ _ _ _ _ _ L). Qed.
  Lemma link_sig_rec s q e : link s -> In e (eq_entries (get_q s q)) -> sig_rec (W s) (esig e).
  Proof. intros L. unfold link, linkw in L. apply (lk_sig _ _ _ _ _ _ _ _ _ L). Qed.
  Lemma link_sid_uniq s q1 q2 e1 e2 : link s ->
    In e1 (eq_entries (get_q s q1)) -> In e2 (eq_entries (get_q s q2)) ->
    sg_id (esig e1) = sg_id (esig e2) -> q1 = q2 /\ e1 = e2.
  Proof. intros L. unfold link, linkw in L. apply (lk_sid_uniq _ _ _ _ _ _ _ _ _ L). Qed.

  (* what a call that comes back normally (or with an ordinary exception) has done to the stack of levels *)
  Theorem exec_post : forall fuel c s o s', link s -> exec code fuel c s = (o, s') -> Post c s o s'.
  Proof. intros fuel c s o s' L H. apply (exec_spec code fuel c s o s' L H). Qed.

  Lemma link_top s : link s -> link (emit ETop s).
  Proof. apply link_emit_passive. reflexivity. Qed.

  Lemma session_steps fuel acts : forall s, link s -> steps s (snd (run_session code fuel acts s)).
  Proof.
    induction acts as [|a r IH]; intros s L; cbn [run_session]; [apply steps_refl|].
    set (c := match a with TRun => CRun | TProg p => CProg p end).
    assert (S0 : steps s (emit ETop s)) by (apply steps_one, A_emit; reflexivity).
    destruct (exec code fuel c (emit ETop s)) as [o s1] eqn:E.
    assert (S1 : steps s s1).
    { eapply steps_trans; [exact S0|]. eapply exec_steps; [|exact E]. apply link_top, L. }
    assert (L1 : link s1) by (eapply steps_link; eauto).
    assert (S2 : steps s (snd (run_session code fuel r s1))) by (eapply steps_trans; [exact S1|apply IH, L1]).
    destruct (run_session code fuel r s1) as [os s2]. cbn [snd] in S2.
    destruct o as [|[| |]| |]; cbn [snd]; assumption.
  Qed.

  Corollary link_session : forall fuel acts (u : U), link (snd (run_session code fuel acts (init_state u))).
  Proof. intros. eapply steps_link; [apply link_init|apply session_steps, link_init]. Qed.

  (* a monitor whose acceptance is kept by every atomic step accepts every session trace *)
  Theorem session_acc chk :
    (forall s s', link s -> acc chk s -> astep s s' -> acc chk s') ->
    forall fuel acts (u : U), ok chk (rev (trace (snd (run_session code fuel acts (init_state u))))) = true.
  Proof.
    intros HI fuel acts u.
    apply (steps_inv (acc chk) HI (init_state u)); [apply link_init|apply acc_init|apply session_steps, link_init].
  Qed.
End Top.
