(* ContainersProofs.v — C13: the ordering maps of the list containers, the row heights and the
   refusal conditions of [render] on a [WList].  (Width bound and geometry: ContainersLayout.v;
   fuel irrelevance / C16: ContainersFuel.v.) *)
From SL Require Import Tac.
From Coq Require Import Permutation Sorted.
From SL Require Import PyInt Widget TextWrap KeyPattern Containers.
Import ListNotations.

(* ------------------------------------------------------------------ small arithmetic / list helpers *)
Lemma div_unique_nat a b q r : r < b -> a = b * q + r -> a / b = q.
Proof. intros Hr Ha. symmetry. exact (Nat.div_unique a b q r Hr Ha). Qed.

Lemma mod_unique_nat a b q r : r < b -> a = b * q + r -> a mod b = r.
Proof. intros Hr Ha. symmetry. exact (Nat.mod_unique a b q r Hr Ha). Qed.

Lemma nth_error_seq a n r : r < n -> nth_error (seq a n) r = Some (a + r).
Proof.
  intros H. rewrite (nth_error_nth' (seq a n) 0) by (rewrite seq_length; exact H).
  now rewrite seq_nth.
Qed.

Lemma nth_error_seq_inv a n r x : nth_error (seq a n) r = Some x -> r < n /\ x = a + r.
Proof.
  intros H. assert (Hr : r < n).
  { rewrite <- (seq_length n a). apply nth_error_Some. congruence. }
  split; [exact Hr|]. rewrite nth_error_seq in H by exact Hr. congruence.
Qed.

Lemma filter_all_true {A} (p : A -> bool) l : (forall x, In x l -> p x = true) -> filter p l = l.
Proof.
  induction l as [|x l IH]; intros H; cbn [filter]; [reflexivity|].
  rewrite (H x (or_introl eq_refl)). f_equal. apply IH. intros y Hy. apply H. now right.
Qed.

Lemma filter_all_false {A} (p : A -> bool) l : (forall x, In x l -> p x = false) -> filter p l = [].
Proof.
  induction l as [|x l IH]; intros H; cbn [filter]; [reflexivity|].
  rewrite (H x (or_introl eq_refl)). apply IH. intros y Hy. apply H. now right.
Qed.

Lemma filter_seq_sorted p a n : StronglySorted lt (filter p (seq a n)).
Proof.
  revert a. induction n as [|n IH]; intros a; cbn [seq filter].
  - constructor.
  - destruct (p a).
    + constructor; [apply IH|]. apply Forall_forall. intros x Hx.
      apply filter_In in Hx. destruct Hx as [Hx _]. apply in_seq in Hx. lia.
    + apply IH.
Qed.

(* the columns of a classification of 0..n-1 by f, taken together, are a rearrangement of the
   items whose class is below c *)
Lemma classify_step (f : nat -> nat) c l :
  Permutation (filter (fun i => f i <? c) l ++ filter (fun i => f i =? c) l) (filter (fun i => f i <? S c) l).
Proof.
  induction l as [|x l IH]; cbn [filter app]; [constructor|].
  destruct (f x <? c) eqn:E1; destruct (f x =? c) eqn:E2; destruct (f x <? S c) eqn:E3;
    try (exfalso; lia).
  - cbn [app]. now constructor.
  - symmetry. apply Permutation_cons_app. symmetry. exact IH.
  - exact IH.
Qed.

Lemma classify_perm (f : nat -> nat) l c :
  Permutation (concat (map (fun k => filter (fun i => f i =? k) l) (seq 0 c))) (filter (fun i => f i <? c) l).
Proof.
  induction c as [|c IH].
  - cbn. rewrite filter_all_false; [constructor|]. intros x _. lia.
  - rewrite seq_S, map_app, concat_app. cbn [map concat Nat.add]. rewrite app_nil_r.
    eapply Permutation_trans; [apply Permutation_app_tail; exact IH|]. apply classify_step.
Qed.

(* ------------------------------------------------------------------ explicit form of the columns *)
(* row container: column k holds k, k+c, k+2c, ... *)
Lemma row_column_explicit c k n : k < c ->
  filter (fun i => i mod c =? k) (seq 0 n) = map (fun r => r * c + k) (seq 0 ((n + c - 1 - k) / c)).
Proof.
  intros Hk. induction n as [|n IH].
  - cbn [seq filter]. rewrite Nat.div_small by lia. reflexivity.
  - rewrite seq_S, filter_app, IH, Nat.add_0_l. cbn [filter].
    pose proof (Nat.div_mod n c ltac:(lia)) as Hdm.
    pose proof (Nat.mod_upper_bound n c ltac:(lia)) as Hub.
    set (q := n / c) in *. set (m := n mod c) in *.
    destruct (m =? k) eqn:E.
    + apply Nat.eqb_eq in E.
      assert (H1 : (n + c - 1 - k) / c = q) by (apply div_unique_nat with (r := c - 1); lia).
      assert (H2 : (S n + c - 1 - k) / c = S q) by (apply div_unique_nat with (r := 0); lia).
      rewrite H1, H2, seq_S, map_app. cbn [map Nat.add]. f_equal. f_equal. lia.
    + apply Nat.eqb_neq in E. rewrite app_nil_r. f_equal. f_equal.
      destruct (Nat.lt_ge_cases m k) as [Hlt|Hge].
      * rewrite (div_unique_nat (n + c - 1 - k) c q (m + c - 1 - k)) by lia.
        rewrite (div_unique_nat (S n + c - 1 - k) c q (m + c - k)) by lia. reflexivity.
      * rewrite (div_unique_nat (n + c - 1 - k) c (S q) (m - k - 1)) by lia.
        rewrite (div_unique_nat (S n + c - 1 - k) c (S q) (m - k)) by lia. reflexivity.
Qed.

(* column container: column k holds the consecutive items k*p .. (k+1)*p-1 (those below n) *)
Lemma col_column_explicit p k n : 0 < p ->
  filter (fun i => i / p =? k) (seq 0 n) = seq (k * p) (Nat.min n (k * p + p) - k * p).
Proof.
  intros Hp. induction n as [|n IH].
  - reflexivity.
  - rewrite seq_S, filter_app, IH, Nat.add_0_l. cbn [filter].
    pose proof (Nat.div_mod n p ltac:(lia)) as Hdm.
    pose proof (Nat.mod_upper_bound n p ltac:(lia)) as Hub.
    set (q := n / p) in *. set (m := n mod p) in *.
    destruct (q =? k) eqn:E.
    + apply Nat.eqb_eq in E. subst k.
      replace (Nat.min (S n) (q * p + p) - q * p) with (S (n - q * p)) by lia.
      replace (Nat.min n (q * p + p) - q * p) with (n - q * p) by lia.
      rewrite seq_S. f_equal. f_equal. lia.
    + apply Nat.eqb_neq in E. rewrite app_nil_r. f_equal.
      destruct (Nat.lt_ge_cases q k) as [Hlt|Hge].
      * assert (p * S q <= p * k) by (apply Nat.mul_le_mono_l; lia). lia.
      * assert (p * S k <= p * q) by (apply Nat.mul_le_mono_l; lia). lia.
Qed.

Lemma ceil_div_covers n c : 0 < c -> n <= ceil_div n c * c.
Proof.
  intros Hc. unfold ceil_div.
  pose proof (Nat.div_mod (n + c - 1) c ltac:(lia)) as Hdm.
  pose proof (Nat.mod_upper_bound (n + c - 1) c ltac:(lia)) as Hub.
  lia.
Qed.

Lemma ceil_div_pos n c : 0 < c -> 0 < n -> 0 < ceil_div n c.
Proof.
  intros Hc Hn. unfold ceil_div. apply Nat.div_str_pos. lia.
Qed.

(* ------------------------------------------------------------------ C13_order_row *)
Lemma omap_row_length n c : length (ordered_map_row n c) = c.
Proof. unfold ordered_map_row. now rewrite map_length, seq_length. Qed.

Lemma omap_col_length n c : length (ordered_map_col n c) = c.
Proof. unfold ordered_map_col. now rewrite map_length, seq_length. Qed.

Lemma nth_map_seq {A} (g : nat -> A) c k d : k < c -> nth k (map g (seq 0 c)) d = g k.
Proof.
  intros H. apply nth_error_nth. rewrite nth_error_map, nth_error_seq by exact H. reflexivity.
Qed.

Lemma omap_row_nth n c k : k < c ->
  nth k (ordered_map_row n c) [] = filter (fun i => i mod c =? k) (seq 0 n).
Proof. intros H. unfold ordered_map_row. now rewrite nth_map_seq. Qed.

Lemma omap_col_nth n c k : k < c ->
  nth k (ordered_map_col n c) [] = filter (fun i => i / ceil_div n c =? k) (seq 0 n).
Proof. intros H. unfold ordered_map_col. now rewrite nth_map_seq. Qed.

(* item i sits in column i mod c at row i / c *)
Lemma order_row_position n c i : 0 < c -> i < n ->
  nth_error (nth (i mod c) (ordered_map_row n c) []) (i / c) = Some i.
Proof.
  intros Hc Hi.
  pose proof (Nat.div_mod i c ltac:(lia)) as Hdm.
  pose proof (Nat.mod_upper_bound i c ltac:(lia)) as Hub.
  rewrite omap_row_nth by exact Hub. rewrite row_column_explicit by exact Hub.
  rewrite nth_error_map. set (q := i / c) in *. set (m := i mod c) in *.
  assert (Hq : q < (n + c - 1 - m) / c).
  { apply Nat.div_le_lower_bound; lia. }
  rewrite nth_error_seq by exact Hq. cbn [option_map Nat.add]. f_equal. lia.
Qed.

(* and nothing else: whatever is found at (column k, row r) is the item r*c + k *)
Lemma order_row_position_inv n c k r i : k < c ->
  nth_error (nth k (ordered_map_row n c) []) r = Some i -> i < n /\ i mod c = k /\ i / c = r.
Proof.
  intros Hk H. rewrite omap_row_nth in H by exact Hk.
  assert (Hin : i < n).
  { apply nth_error_In, filter_In in H. destruct H as [H _]. apply in_seq in H. lia. }
  rewrite row_column_explicit, nth_error_map in H by exact Hk.
  destruct (nth_error (seq 0 ((n + c - 1 - k) / c)) r) as [r'|] eqn:E; [|discriminate].
  apply nth_error_seq_inv in E. destruct E as [_ ->]. cbn in H. injection H as <-.
  split; [exact Hin|]. split.
  - apply mod_unique_nat with (q := r); lia.
  - apply div_unique_nat with (r := k); lia.
Qed.

Lemma order_row_sorted n c k : StronglySorted lt (nth k (ordered_map_row n c) []).
Proof.
  destruct (Nat.lt_ge_cases k c) as [H|H].
  - rewrite omap_row_nth by exact H. apply filter_seq_sorted.
  - rewrite nth_overflow by (rewrite omap_row_length; exact H). constructor.
Qed.

Lemma order_row_partition n c : 0 < c -> Permutation (concat (ordered_map_row n c)) (seq 0 n).
Proof.
  intros Hc. unfold ordered_map_row.
  eapply Permutation_trans; [apply (classify_perm (fun i => i mod c))|].
  rewrite filter_all_true; [apply Permutation_refl|].
  intros x _. apply Nat.ltb_lt. apply Nat.mod_upper_bound. lia.
Qed.

(* ------------------------------------------------------------------ C13_order_col *)
Lemma order_col_position n c i : 0 < c -> i < n ->
  let p := ceil_div n c in
  nth_error (nth (i / p) (ordered_map_col n c) []) (i mod p) = Some i.
Proof.
  intros Hc Hi p.
  assert (Hp : 0 < p) by (apply ceil_div_pos; lia).
  pose proof (ceil_div_covers n c Hc) as Hcov. fold p in Hcov.
  pose proof (Nat.div_mod i p ltac:(lia)) as Hdm.
  pose proof (Nat.mod_upper_bound i p ltac:(lia)) as Hub.
  assert (Hk : i / p < c) by (apply Nat.div_lt_upper_bound; lia).
  rewrite omap_col_nth by exact Hk. fold p. rewrite col_column_explicit by exact Hp.
  set (q := i / p) in *. set (m := i mod p) in *.
  rewrite nth_error_seq by lia. f_equal. lia.
Qed.

Lemma order_col_position_inv n c k r i : k < c ->
  let p := ceil_div n c in
  nth_error (nth k (ordered_map_col n c) []) r = Some i -> i < n /\ i / p = k /\ i mod p = r.
Proof.
  intros Hk p H. rewrite omap_col_nth in H by exact Hk. fold p in H.
  assert (Hin : i < n).
  { apply nth_error_In, filter_In in H. destruct H as [H _]. apply in_seq in H. lia. }
  assert (Hp : 0 < p) by (apply ceil_div_pos; lia).
  rewrite col_column_explicit in H by exact Hp.
  apply nth_error_seq_inv in H. destruct H as [Hr ->].
  split; [exact Hin|]. split.
  - apply div_unique_nat with (r := r); lia.
  - apply mod_unique_nat with (q := k); lia.
Qed.

Lemma order_col_sorted n c k : StronglySorted lt (nth k (ordered_map_col n c) []).
Proof.
  destruct (Nat.lt_ge_cases k c) as [H|H].
  - rewrite omap_col_nth by exact H. apply filter_seq_sorted.
  - rewrite nth_overflow by (rewrite omap_col_length; exact H). constructor.
Qed.

Lemma concat_col_ranges n p c : 0 < p ->
  concat (map (fun k => seq (k * p) (Nat.min n (k * p + p) - k * p)) (seq 0 c)) = seq 0 (Nat.min n (c * p)).
Proof.
  intros Hp. induction c as [|c IH].
  - cbn. now rewrite Nat.min_0_r.
  - rewrite seq_S, map_app, concat_app, IH. cbn [map concat Nat.add]. rewrite app_nil_r.
    destruct (Nat.le_gt_cases n (c * p)) as [Hle|Hgt].
    + replace (Nat.min n (c * p + p) - c * p) with 0 by lia. cbn [seq]. rewrite app_nil_r.
      f_equal. cbn [Nat.mul]. lia.
    + replace (Nat.min n (c * p)) with (c * p) by lia.
      replace (Nat.min n (S c * p)) with (c * p + (Nat.min n (c * p + p) - c * p)) by (cbn [Nat.mul]; lia).
      now rewrite seq_app.
Qed.

(* column-major: reading the columns one after the other gives 0, 1, ..., n-1 *)
Lemma order_col_concat n c : 0 < c -> concat (ordered_map_col n c) = seq 0 n.
Proof.
  intros Hc. destruct n as [|n].
  - unfold ordered_map_col. cbn [seq filter]. induction (seq 0 c) as [|x l IH]; [reflexivity|exact IH].
  - assert (Hp : 0 < ceil_div (S n) c) by (apply ceil_div_pos; lia).
    unfold ordered_map_col. cbv zeta.
    rewrite (map_ext _ (fun k => seq (k * ceil_div (S n) c)
                (Nat.min (S n) (k * ceil_div (S n) c + ceil_div (S n) c) - k * ceil_div (S n) c))).
    + rewrite concat_col_ranges by exact Hp.
      pose proof (ceil_div_covers (S n) c Hc). f_equal. lia.
    + intros k. apply col_column_explicit. exact Hp.
Qed.

Lemma order_col_partition n c : 0 < c -> Permutation (concat (ordered_map_col n c)) (seq 0 n).
Proof. intros Hc. rewrite order_col_concat by exact Hc. apply Permutation_refl. Qed.

(* every item occurs exactly once in the whole map *)
Lemma perm_seq_count l n i : Permutation l (seq 0 n) -> i < n -> count_occ Nat.eq_dec l i = 1.
Proof.
  intros HP Hi. rewrite (Permutation_count_occ Nat.eq_dec) in HP. rewrite HP.
  assert (Hnd : NoDup (seq 0 n)) by apply seq_NoDup.
  rewrite (NoDup_count_occ' Nat.eq_dec) in Hnd. apply Hnd. apply in_seq. lia.
Qed.

(* ------------------------------------------------------------------ C13_row_heights *)
(* the items that sit in row r of a map, left to right *)
Definition row_items (omap : list (list nat)) (r : nat) : list nat :=
  flat_map (fun col => match nth_error col r with Some i => [i] | None => [] end) omap.

Definition cell_h (col hs : list nat) (r : nat) : nat :=
  match nth_error col r with Some i => nth i hs 0 | None => 0 end.

Lemma bump_length acc r h : length (bump acc r h) = Nat.max (length acc) (S r).
Proof.
  revert acc. induction r as [|r IH]; intros [|x acc]; cbn [bump length]; try rewrite IH; cbn [length]; lia.
Qed.

Lemma bump_nth acc r h j :
  nth j (bump acc r h) 0 = if j =? r then Nat.max (nth j acc 0) h else nth j acc 0.
Proof.
  revert acc j. induction r as [|r IH]; intros [|x acc] [|j]; cbn [bump nth Nat.eqb]; try reflexivity.
  - destruct j; reflexivity.
  - rewrite IH. destruct (j =? r); destruct j; reflexivity.
  - apply IH.
Qed.

Lemma cell_h_nil hs r : cell_h [] hs r = 0.
Proof. unfold cell_h. destruct r; reflexivity. Qed.

Lemma lines_col_nth hs col : forall s acc j,
  nth j (lines_col col s hs acc) 0 =
  Nat.max (nth j acc 0) (if s <=? j then cell_h col hs (j - s) else 0).
Proof.
  induction col as [|i col IH]; intros s acc j; cbn [lines_col].
  - rewrite cell_h_nil. destruct (s <=? j); lia.
  - rewrite IH, bump_nth.
    destruct (j =? s) eqn:E1; destruct (S s <=? j) eqn:E2; destruct (s <=? j) eqn:E3; try (exfalso; lia).
    + replace (j - s) with 0 by lia. unfold cell_h. cbn [nth_error]. lia.
    + replace (j - s) with (S (j - S s)) by lia. unfold cell_h. cbn [nth_error]. lia.
    + lia.
Qed.

Lemma lines_col_length hs col : forall s acc,
  length (lines_col col s hs acc) =
  Nat.max (length acc) (match col with [] => 0 | _ => s + length col end).
Proof.
  induction col as [|i col IH]; intros s acc; cbn [lines_col].
  - lia.
  - rewrite IH, bump_length. destruct col; cbn [length]; lia.
Qed.

Lemma fold_lines_nth hs omap : forall acc j,
  nth j (fold_left (fun acc col => lines_col col 0 hs acc) omap acc) 0 =
  Nat.max (nth j acc 0) (list_max (map (fun col => cell_h col hs j) omap)).
Proof.
  induction omap as [|col omap IH]; intros acc j; cbn [fold_left map list_max fold_right].
  - lia.
  - rewrite IH, lines_col_nth. cbn [Nat.leb]. rewrite Nat.sub_0_r.
    change (fold_right Nat.max 0 (map (fun col0 => cell_h col0 hs j) omap))
      with (list_max (map (fun col0 => cell_h col0 hs j) omap)). lia.
Qed.

Lemma fold_lines_length hs omap : forall acc,
  length (fold_left (fun acc col => lines_col col 0 hs acc) omap acc) =
  Nat.max (length acc) (list_max (map (@length nat) omap)).
Proof.
  induction omap as [|col omap IH]; intros acc; cbn [fold_left map list_max fold_right].
  - lia.
  - rewrite IH, lines_col_length.
    change (fold_right Nat.max 0 (map (@length nat) omap)) with (list_max (map (@length nat) omap)).
    destruct col; cbn [length]; lia.
Qed.

Lemma cells_are_row_items hs omap r :
  list_max (map (fun col => cell_h col hs r) omap) = list_max (map (fun i => nth i hs 0) (row_items omap r)).
Proof.
  unfold row_items. induction omap as [|col omap IH]; [reflexivity|].
  cbn [map flat_map]. rewrite map_app, list_max_app, <- IH. unfold cell_h at 1.
  destruct (nth_error col r) as [i|]; unfold list_max; cbn [map fold_right]; lia.
Qed.

(* the height of row r is the maximum of the heights of the items in row r *)
Lemma row_heights_max omap hs r :
  nth r (lines_per_every_row omap hs) 0 = list_max (map (fun i => nth i hs 0) (row_items omap r)).
Proof.
  unfold lines_per_every_row. rewrite fold_lines_nth, cells_are_row_items.
  destruct r; cbn [nth]; lia.
Qed.

(* there are as many rows as the longest column has items *)
Lemma row_heights_count omap hs :
  length (lines_per_every_row omap hs) = list_max (map (@length nat) omap).
Proof. unfold lines_per_every_row. rewrite fold_lines_length. cbn [length]. lia. Qed.

Lemma in_row_items omap r i :
  In i (row_items omap r) <-> exists col, In col omap /\ nth_error col r = Some i.
Proof.
  unfold row_items. rewrite in_flat_map. split; intros [col [Hc H]]; exists col; split; try exact Hc.
  - destruct (nth_error col r) as [i'|]; cbn in H; [|contradiction]. destruct H as [->|[]]. reflexivity.
  - rewrite H. now left.
Qed.

Lemma in_omap_nth (omap : list (list nat)) col : In col omap <-> exists k, k < length omap /\ nth k omap [] = col.
Proof.
  split.
  - intros H. apply (In_nth _ _ []) in H. exact H.
  - intros [k [Hk <-]]. now apply nth_In.
Qed.

Lemma row_items_row n c r i : 0 < c ->
  In i (row_items (ordered_map_row n c) r) <-> i < n /\ i / c = r.
Proof.
  intros Hc. rewrite in_row_items. split.
  - intros [col [Hin H]]. apply in_omap_nth in Hin. destruct Hin as [k [Hk <-]].
    rewrite omap_row_length in Hk. apply order_row_position_inv in H; [|exact Hk]. tauto.
  - intros [Hi <-]. exists (nth (i mod c) (ordered_map_row n c) []). split.
    + apply nth_In. rewrite omap_row_length. apply Nat.mod_upper_bound. lia.
    + now apply order_row_position.
Qed.

Lemma row_items_col n c r i : 0 < c ->
  In i (row_items (ordered_map_col n c) r) <-> i < n /\ i mod ceil_div n c = r.
Proof.
  intros Hc. rewrite in_row_items. split.
  - intros [col [Hin H]]. apply in_omap_nth in Hin. destruct Hin as [k [Hk <-]].
    rewrite omap_col_length in Hk. apply order_col_position_inv in H; [|exact Hk]. tauto.
  - intros [Hi <-]. exists (nth (i / ceil_div n c) (ordered_map_col n c) []). split.
    + apply nth_In. rewrite omap_col_length.
      pose proof (ceil_div_covers n c Hc). pose proof (ceil_div_pos n c Hc ltac:(lia)).
      apply Nat.div_lt_upper_bound; lia.
    + now apply order_col_position.
Qed.

(* every item fits in the height of its row, and the height of a row is attained *)
Lemma list_max_in l x : In x l -> x <= list_max l.
Proof.
  intros H. assert (Hf : Forall (fun k => k <= list_max l) l) by (apply list_max_le; lia).
  rewrite Forall_forall in Hf. now apply Hf.
Qed.

Lemma list_max_attained l : l <> [] -> In (list_max l) l.
Proof.
  induction l as [|x l IH]; [congruence|]. intros _. cbn [list_max fold_right].
  change (fold_right Nat.max 0 l) with (list_max l).
  destruct l as [|y l]; [cbn; left; lia|].
  destruct (Nat.max_spec x (list_max (y :: l))) as [[_ ->]|[_ ->]].
  - right. apply IH. congruence.
  - now left.
Qed.

Lemma row_height_bounds_item omap hs r i :
  In i (row_items omap r) -> nth i hs 0 <= nth r (lines_per_every_row omap hs) 0.
Proof.
  intros H. rewrite row_heights_max. apply list_max_in. apply in_map_iff. now exists i.
Qed.

Lemma row_height_attained omap hs r :
  row_items omap r <> [] ->
  exists i, In i (row_items omap r) /\ nth r (lines_per_every_row omap hs) 0 = nth i hs 0.
Proof.
  intros H. rewrite row_heights_max.
  assert (Hne : map (fun i => nth i hs 0) (row_items omap r) <> []).
  { destruct (row_items omap r); [congruence|discriminate]. }
  apply list_max_attained in Hne. apply in_map_iff in Hne. destruct Hne as [i [Hi Hin]].
  exists i. split; [exact Hin|]. now rewrite Hi.
Qed.

(* with numbering on, an item is as high as the taller of itself and its label *)
Lemma item_height_numbered ib lb lw : item_height (ib, Some (lb, lw)) = Nat.max (length ib) (length lb).
Proof. reflexivity. Qed.
Lemma item_height_plain ib : item_height (ib, None) = length ib.
Proof. reflexivity. Qed.

(* ------------------------------------------------------------------ C13_refusal *)
Section RenderAll.
  Variable render : wtree -> Z -> rres buffer.

  (* what [render_all_items] established for item number [id] *)
  Definition item_rendered (cw : Z) (kp : option key_pattern) (id : nat) (it : wtree)
             (x : buffer * option (buffer * nat)) : Prop :=
    match kp with
    | Some kp' =>
      let lab := get_widget_label kp' id in
      (0 < cw - Z.of_nat (length lab))%Z /\
      render it (cw - Z.of_nat (length lab))%Z = ROk (fst x) /\
      exists lb, label_buffer kp' id = ROk lb /\ snd x = Some (lb, length lab)
    | None => render it cw = ROk (fst x) /\ snd x = None
    end.

  Lemma render_all_items_spec items : forall id cw kp res,
    render_all_items render items id cw kp = ROk res ->
    (items = [] \/ (0 < cw)%Z) /\ length res = length items /\
    forall j it x, nth_error items j = Some it -> nth_error res j = Some x ->
                   item_rendered cw kp (id + j) it x.
  Proof.
    induction items as [|it0 items IH]; intros id cw kp res H; cbn [render_all_items] in H.
    - injection H as <-. split; [now left|]. split; [reflexivity|]. intros [|j] it x Hj; discriminate.
    - destruct (cw <=? 0)%Z eqn:Ecw; [discriminate|].
      destruct kp as [kp'|].
      + unfold bind in H.
        destruct (label_buffer kp' id) as [lb| |] eqn:Elb; try discriminate.
        destruct (cw - Z.of_nat (length (get_widget_label kp' id)) <=? 0)%Z eqn:Eiw; [discriminate|].
        destruct (render it0 (cw - Z.of_nat (length (get_widget_label kp' id)))%Z) as [ib| |] eqn:Eib; try discriminate.
        destruct (render_all_items render items (S id) cw (Some kp')) as [rest| |] eqn:Erest; try discriminate.
        injection H as <-. destruct (IH _ _ _ _ Erest) as [_ [Hlen Hnth]].
        split; [right; lia|]. split; [cbn [length]; now rewrite Hlen|].
        intros [|j] it x Hj Hx; cbn [nth_error] in Hj, Hx.
        * injection Hj as <-. injection Hx as <-. rewrite Nat.add_0_r. cbn [item_rendered fst snd].
          split; [lia|]. split; [exact Eib|]. exists lb. split; [exact Elb|reflexivity].
        * replace (id + S j) with (S id + j) by lia. now apply Hnth.
      + unfold bind in H.
        destruct (render it0 cw) as [ib| |] eqn:Eib; try discriminate.
        destruct (render_all_items render items (S id) cw None) as [rest| |] eqn:Erest; try discriminate.
        injection H as <-. destruct (IH _ _ _ _ Erest) as [_ [Hlen Hnth]].
        split; [right; lia|]. split; [cbn [length]; now rewrite Hlen|].
        intros [|j] it x Hj Hx; cbn [nth_error] in Hj, Hx.
        * injection Hj as <-. injection Hx as <-. cbn [item_rendered fst snd]. now split.
        * replace (id + S j) with (S id + j) by lia. now apply Hnth.
  Qed.

  (* a column width below 1 is refused as soon as there is an item *)
  Lemma render_all_items_narrow items id cw kp :
    items <> [] -> (cw <= 0)%Z -> render_all_items render items id cw kp = RValueError.
  Proof.
    intros Hne Hcw. destruct items as [|it items]; [congruence|]. cbn [render_all_items].
    destruct (cw <=? 0)%Z eqn:E; [reflexivity|lia].
  Qed.

  (* numbering on: an item whose label leaves no room is refused, provided everything before it
     rendered (labels render: they are non-empty one-line texts rendered at their own length) *)
  Lemma render_all_items_label_too_wide kp' items : forall id cw i,
    i < length items ->
    (cw - Z.of_nat (length (get_widget_label kp' (id + i))) <= 0)%Z ->
    (forall j, j <= i -> exists lb, label_buffer kp' (id + j) = ROk lb) ->
    (forall j it, j < i -> nth_error items j = Some it ->
       exists b, render it (cw - Z.of_nat (length (get_widget_label kp' (id + j))))%Z = ROk b) ->
    render_all_items render items id cw (Some kp') = RValueError.
  Proof.
    induction items as [|it0 items IH]; intros id cw i Hi Hw Hlab Hok; cbn [length] in Hi; [lia|].
    cbn [render_all_items]. destruct (cw <=? 0)%Z eqn:Ecw; [reflexivity|].
    destruct (Hlab 0 ltac:(lia)) as [lb Hlb]. rewrite Nat.add_0_r in Hlb. rewrite Hlb. cbn [bind].
    destruct (cw - Z.of_nat (length (get_widget_label kp' id)) <=? 0)%Z eqn:Eiw; [reflexivity|].
    destruct i as [|i].
    - rewrite Nat.add_0_r in Hw. lia.
    - destruct (Hok 0 it0 ltac:(lia) eq_refl) as [b Hb]. rewrite Nat.add_0_r in Hb. rewrite Hb. cbn [bind].
      rewrite (IH (S id) cw i); [reflexivity|lia| | |].
      + replace (S id + i) with (id + S i) by lia. exact Hw.
      + intros j Hj. replace (S id + j) with (id + S j) by lia. apply Hlab. lia.
      + intros j it Hj Hn. replace (S id + j) with (id + S j) by lia. apply (Hok (S j) it); [lia|exact Hn].
  Qed.
End RenderAll.

Definition list_columns_width (columns : Z) (forced : option Z) (spacing width : Z) : Z :=
  match forced with
  | Some cw => cw
  | None => Z.quot (width - (columns - 1) * spacing) columns
  end.

Lemma render_list_unfold f kind columns items forced spacing kp w :
  render (S f) (WList kind columns items forced spacing kp) w =
  if (columns <=? 0)%Z then ROutOfModel else
  let cw := list_columns_width columns forced spacing w in
  let omap := ordered_map kind (length items) (Z.to_nat columns) in
  bind (render_all_items (render f) items 0 cw kp) (fun rendered =>
  draw_list_cols omap rendered (lines_per_every_row omap (map item_height rendered)) cw spacing [] 0%Z).
Proof. reflexivity. Qed.

(* a list that is drawn had room for every item and every label *)
Lemma list_ok_room kind columns items forced spacing kp w b :
  render_tree (WList kind columns items forced spacing kp) w = ROk b ->
  items = [] \/
  ((0 < list_columns_width columns forced spacing w)%Z /\
   forall i kp', i < length items -> kp = Some kp' ->
     (0 < list_columns_width columns forced spacing w - Z.of_nat (length (get_widget_label kp' i)))%Z).
Proof.
  unfold render_tree. rewrite render_list_unfold. intros H.
  destruct (columns <=? 0)%Z; [discriminate|]. cbv zeta in H. unfold bind in H.
  destruct (render_all_items _ items 0 _ kp) as [res| |] eqn:E; try discriminate.
  apply render_all_items_spec in E. destruct E as [Hcw [Hlen Hnth]].
  destruct Hcw as [->|Hcw]; [now left|]. right. split; [exact Hcw|].
  intros i kp' Hi ->.
  destruct (nth_error items i) as [it|] eqn:Eit; [|apply nth_error_None in Eit; lia].
  destruct (nth_error res i) as [x|] eqn:Ex; [|apply nth_error_None in Ex; lia].
  specialize (Hnth i it x Eit Ex). cbn in Hnth. tauto.
Qed.

Lemma list_refused_narrow kind columns items forced spacing kp w :
  (0 < columns)%Z -> items <> [] -> (list_columns_width columns forced spacing w <= 0)%Z ->
  render_tree (WList kind columns items forced spacing kp) w = RValueError.
Proof.
  intros Hc Hne Hcw. unfold render_tree. rewrite render_list_unfold.
  destruct (columns <=? 0)%Z eqn:E; [lia|]. cbv zeta.
  rewrite render_all_items_narrow by assumption. reflexivity.
Qed.

(* ------------------------------------------------------------------ fuel only bounds the nesting depth *)
Section Ext.
  Variables r1 r2 : wtree -> Z -> rres buffer.

  Lemma draw_items_block_ext items :
    (forall it w, In it items -> r1 it w = r2 it w) ->
    forall w b row col, draw_items_block r1 items w b row col = draw_items_block r2 items w b row col.
  Proof.
    induction items as [|it items IH]; intros H w b row col; cbn [draw_items_block]; [reflexivity|].
    rewrite (H it w (or_introl eq_refl)). destruct (r2 it w) as [ib| |]; cbn [bind]; try reflexivity.
    destruct (draw b row col true ib) as [b' [row' c']]. apply IH. intros it' w' Hin. apply H. now right.
  Qed.

  Lemma render_columns_ext cols :
    (forall c it w, In c cols -> In it (snd c) -> r1 it w = r2 it w) ->
    forall sp width b cp, render_columns r1 cols sp width b cp = render_columns r2 cols sp width b cp.
  Proof.
    induction cols as [|[cw items] cols IH]; intros H sp width b cp; cbn [render_columns]; [reflexivity|].
    destruct (nat_of_Z cp) as [cpn| |]; cbn [bind]; try reflexivity.
    assert (Hi : forall it w, In it items -> r1 it w = r2 it w).
    { intros it w Hin. apply (H (cw, items)); [now left|exact Hin]. }
    assert (Hr : forall c it w, In c cols -> In it (snd c) -> r1 it w = r2 it w).
    { intros c it w Hc Hin. apply (H c); [now right|exact Hin]. }
    destruct cw as [w0|]; rewrite (draw_items_block_ext items Hi);
      (destruct (draw_items_block r2 items _ b 0 cpn) as [res| |]; cbn [bind]; try reflexivity; apply IH; exact Hr).
  Qed.

  Lemma render_all_items_ext items :
    (forall it w, In it items -> r1 it w = r2 it w) ->
    forall id cw kp, render_all_items r1 items id cw kp = render_all_items r2 items id cw kp.
  Proof.
    induction items as [|it items IH]; intros H id cw kp; cbn [render_all_items]; [reflexivity|].
    assert (Hr : forall it' w, In it' items -> r1 it' w = r2 it' w).
    { intros it' w Hin. apply H. now right. }
    destruct (cw <=? 0)%Z; [reflexivity|]. destruct kp as [kp'|].
    - destruct (label_buffer kp' id) as [lb| |]; cbn [bind]; try reflexivity.
      destruct (_ <=? 0)%Z; [reflexivity|].
      rewrite (H it _ (or_introl eq_refl)). destruct (r2 it _) as [ib| |]; cbn [bind]; try reflexivity.
      now rewrite (IH Hr).
    - rewrite (H it _ (or_introl eq_refl)). destruct (r2 it _) as [ib| |]; cbn [bind]; try reflexivity.
      now rewrite (IH Hr).
  Qed.

  Lemma draw_items_plain_ext items :
    (forall it w, In it items -> r1 it w = r2 it w) ->
    forall w b row, draw_items_plain r1 items w b row = draw_items_plain r2 items w b row.
  Proof.
    induction items as [|it items IH]; intros H w b row; cbn [draw_items_plain]; [reflexivity|].
    rewrite (H it w (or_introl eq_refl)). destruct (r2 it w) as [ib| |]; cbn [bind]; try reflexivity.
    destruct (draw b row 0 false ib) as [b' [row' c']]. apply IH. intros it' w' Hin. apply H. now right.
  Qed.
End Ext.

Lemma depth_pos t : 1 <= depth t.
Proof. destruct t; cbn [depth]; lia. Qed.

Lemma depth_items_le items it :
  In it items -> depth it <= fold_right (fun i a => Nat.max (depth i) a) 0 items.
Proof.
  induction items as [|x items IH]; intros H; [contradiction|]. cbn [fold_right].
  destruct H as [->|H]; [lia|]. specialize (IH H). lia.
Qed.

Lemma fold_items_ge items acc : acc <= fold_right (fun i a => Nat.max (depth i) a) acc items.
Proof. induction items as [|x items IH]; cbn [fold_right]; lia. Qed.

Lemma depth_items_le_acc items acc it :
  In it items -> depth it <= fold_right (fun i a => Nat.max (depth i) a) acc items.
Proof.
  induction items as [|x items IH]; intros H; [contradiction|]. cbn [fold_right].
  destruct H as [->|H]; [lia|]. specialize (IH H). lia.
Qed.

Lemma depth_cols_le (cols : list (option Z * list wtree)) c it :
  In c cols -> In it (snd c) ->
  depth it <= fold_right (fun c acc => fold_right (fun i a => Nat.max (depth i) a) acc (snd c)) 0 cols.
Proof.
  induction cols as [|x cols IH]; intros Hc Hin; [contradiction|]. cbn [fold_right].
  destruct Hc as [->|Hc].
  - now apply depth_items_le_acc.
  - specialize (IH Hc Hin). pose proof (fold_items_ge (snd x)
      (fold_right (fun c acc => fold_right (fun i a => Nat.max (depth i) a) acc (snd c)) 0 cols)). lia.
Qed.

Lemma render_fuel_irrelevant : forall f1 f2 t w,
  depth t <= f1 -> depth t <= f2 -> render f1 t w = render f2 t w.
Proof.
  induction f1 as [|f1 IH]; intros f2 t w H1 H2; pose proof (depth_pos t) as Hp; [lia|].
  destruct f2 as [|f2]; [lia|].
  destruct t as [tx|n|c|cols sp|box data|kind columns items forced sp kp|title items]; cbn [render]; cbn [depth] in H1, H2.
  - reflexivity.
  - reflexivity.
  - rewrite (IH f2 c w) by lia. reflexivity.
  - apply render_columns_ext. intros c it w' Hc Hin. apply IH.
    + pose proof (depth_cols_le cols c it Hc Hin). lia.
    + pose proof (depth_cols_le cols c it Hc Hin). lia.
  - rewrite (render_columns_ext (render f1) (render f2)); [reflexivity|].
    intros c it w' Hc Hin. assert (Hd : depth it = 1).
    { destruct Hc as [<-|[<-|[]]]; cbn [snd] in Hin.
      - destruct Hin as [<-|[]]. reflexivity.
      - apply in_map_iff in Hin. destruct Hin as [d [<- _]]. reflexivity. }
    apply IH; lia.
  - destruct (columns <=? 0)%Z; [reflexivity|].
    rewrite (render_all_items_ext (render f1) (render f2)); [reflexivity|].
    intros it w' Hin. pose proof (depth_items_le items it Hin). apply IH; lia.
  - match goal with |- bind ?e _ = bind ?e _ => destruct e as [b0| |]; cbn [bind]; try reflexivity end.
    apply draw_items_plain_ext.
    intros it w' Hin. pose proof (depth_items_le items it Hin). apply IH; lia.
Qed.

(* [render_tree] is the render with any sufficient fuel *)
Lemma render_tree_fuel f t w : depth t <= f -> render f t w = render_tree t w.
Proof. intros H. unfold render_tree. apply render_fuel_irrelevant; lia. Qed.

(* one unfolding of a list container in terms of [render_tree] of its items *)
Lemma render_tree_list kind columns items forced spacing kp w :
  render_tree (WList kind columns items forced spacing kp) w =
  if (columns <=? 0)%Z then ROutOfModel else
  let cw := list_columns_width columns forced spacing w in
  let omap := ordered_map kind (length items) (Z.to_nat columns) in
  bind (render_all_items render_tree items 0 cw kp) (fun rendered =>
  draw_list_cols omap rendered (lines_per_every_row omap (map item_height rendered)) cw spacing [] 0%Z).
Proof.
  unfold render_tree at 1. rewrite render_list_unfold.
  destruct (columns <=? 0)%Z; [reflexivity|]. cbv zeta.
  rewrite (render_all_items_ext (render (depth (WList kind columns items forced spacing kp))) render_tree); [reflexivity|].
  intros it w' Hin. apply render_tree_fuel. pose proof (depth_items_le items it Hin). cbn [depth]. lia.
Qed.

Lemma render_tree_window title items w :
  render_tree (WWindow title items) w =
  bind (match title with
        | Some t =>
          match t_text t with
          | [] => ROk ([], 0)
          | _ =>
            bind (render_text t w) (fun tb =>
            let '(b1, (r1, _)) := draw [] 0 0 false tb in
            let '(b2, (r2, _)) := draw b1 r1 0 false (render_sep 1) in
            ROk (b2, r2))
          end
        | None => ROk ([], 0)
        end) (fun b0 => draw_items_plain render_tree items w (fst b0) (snd b0)).
Proof.
  unfold render_tree at 1. cbn [render].
  match goal with |- bind ?e _ = bind ?e _ => destruct e as [b0| |]; cbn [bind]; try reflexivity end.
  apply draw_items_plain_ext.
  intros it w' Hin. apply render_tree_fuel. pose proof (depth_items_le items it Hin). cbn [depth]. lia.
Qed.

Lemma list_refused_label kind columns items forced spacing kp' w i :
  (0 < columns)%Z -> i < length items ->
  let cw := list_columns_width columns forced spacing w in
  (cw - Z.of_nat (length (get_widget_label kp' i)) <= 0)%Z ->
  (forall j, j <= i -> exists lb, label_buffer kp' j = ROk lb) ->
  (forall j it, j < i -> nth_error items j = Some it ->
     exists b, render_tree it (cw - Z.of_nat (length (get_widget_label kp' j)))%Z = ROk b) ->
  render_tree (WList kind columns items forced spacing (Some kp')) w = RValueError.
Proof.
  intros Hc Hi cw Hw Hlab Hok. rewrite render_tree_list.
  destruct (columns <=? 0)%Z eqn:E; [lia|]. cbv zeta. fold cw.
  rewrite (render_all_items_label_too_wide render_tree kp' items 0 cw i); try assumption; reflexivity.
Qed.
