(* ContainersCells.v — C13, cell level: in the buffer of a list container every item and every label
   is completely visible at its place (nothing drawn later overwrites it).  Built on the closed
   form of ContainersGeom.v and on the cell-wise theorems about draw of WidgetProofs.v. *)
From SL Require Import Tac.
From SL Require Import PyInt Widget TextWrap KeyPattern Containers
     proofs.WidgetProofs proofs.ContainersProofs proofs.ContainersLayout proofs.ContainersGeom.
Import ListNotations.

(* the source buffer [src] is readable in [b] with its top-left corner at (r0, c0) *)
Definition shows (b src : buffer) (r0 c0 : nat) : Prop :=
  forall y x, y < length src -> x < row_len src y -> cell b (r0 + y) (c0 + x) = cell src y x.

(* label and item of a placement are readable: label at the left edge, item right of it *)
Definition item_shown (rendered : list (buffer * option (buffer * nat))) (b : buffer) (p : nat * (nat * nat)) : Prop :=
  let '(ib, lab) := nth (fst p) rendered ([], None) in
  match lab with
  | Some (lb, lw) => shows b lb (fst (snd p)) (snd (snd p)) /\ shows b ib (fst (snd p)) (snd (snd p) + lw)
  | None => shows b ib (fst (snd p)) (snd (snd p))
  end.

Lemma row_len_le_width (src : buffer) y : row_len src y <= buf_width src.
Proof.
  rewrite row_len_row. unfold row.
  assert (H : Forall (fun l : line => length l <= buf_width src) src) by (apply buf_width_le; lia).
  destruct (nth_in_or_default y src []) as [Hin | Hd]; [|rewrite Hd; cbn; lia].
  rewrite Forall_forall in H. now apply H.
Qed.

Lemma cell_defined src y x : x < row_len src y -> exists ch, cell src y x = Some ch.
Proof.
  intros H. destruct (cell src y x) as [ch|] eqn:E; [now exists ch|].
  apply cell_none_ge in E. lia.
Qed.

Lemma draw_shows b r c block src : shows (fst (draw b r c block src)) src r c.
Proof.
  intros y x Hy Hx. rewrite draw_inside; try lia.
  - f_equal; lia.
  - replace (r + y - r) with y by lia. lia.
Qed.

(* a later draw strictly below or strictly to the right keeps what is shown *)
Lemma draw_keeps_shows b src r0 c0 r c block src' :
  shows b src r0 c0 ->
  r0 + length src <= r \/ c0 + buf_width src <= c ->
  shows (fst (draw b r c block src')) src r0 c0.
Proof.
  intros Hs Hd y x Hy Hx. destruct (cell_defined src y x Hx) as [ch Hch].
  rewrite <- (Hs y x Hy Hx) in Hch |- *. rewrite Hch. apply draw_outside_kept; [|exact Hch].
  pose proof (row_len_le_width src y). lia.
Qed.

Lemma draw_item_keeps_shows (rendered : list (buffer * option (buffer * nat))) b src r0 c0 p :
  shows b src r0 c0 ->
  r0 + length src <= fst (snd p) \/ c0 + buf_width src <= snd (snd p) ->
  shows (draw_item rendered b p) src r0 c0.
Proof.
  intros Hs Hd. unfold draw_item. destruct (nth (fst p) rendered ([], None)) as [ib [[lb lw]|]].
  - apply draw_keeps_shows; [apply draw_keeps_shows; [exact Hs|exact Hd]|lia].
  - apply draw_keeps_shows; [exact Hs|exact Hd].
Qed.

Lemma fold_keeps_shows (rendered : list (buffer * option (buffer * nat))) src r0 c0 : forall l b,
  shows b src r0 c0 ->
  (forall q, In q l -> r0 + length src <= fst (snd q) \/ c0 + buf_width src <= snd (snd q)) ->
  shows (fold_left (draw_item rendered) l b) src r0 c0.
Proof.
  induction l as [|q l IH]; intros b Hs Hd; cbn [fold_left]; [exact Hs|].
  apply IH.
  - apply draw_item_keeps_shows; [exact Hs|]. apply Hd. now left.
  - intros q' Hq'. apply Hd. now right.
Qed.

(* right after its own draw an item is shown: the item does not reach back over its label *)
Lemma draw_item_shows cwn (rendered : list (buffer * option (buffer * nat))) b p :
  item_fits cwn (nth (fst p) rendered ([], None)) -> item_shown rendered (draw_item rendered b p) p.
Proof.
  unfold item_fits, item_shown, draw_item.
  destruct (nth (fst p) rendered ([], None)) as [ib [[lb lw]|]]; cbn [fst snd]; intros Hf.
  - split; [|apply draw_shows]. apply draw_keeps_shows; [apply draw_shows|]. lia.
  - apply draw_shows.
Qed.

Lemma item_shown_kept cwn (rendered : list (buffer * option (buffer * nat))) l b p :
  item_fits cwn (nth (fst p) rendered ([], None)) ->
  item_shown rendered b p ->
  (forall q, In q l ->
     fst (snd p) + item_height (nth (fst p) rendered ([], None)) <= fst (snd q) \/ snd (snd p) + cwn <= snd (snd q)) ->
  item_shown rendered (fold_left (draw_item rendered) l b) p.
Proof.
  unfold item_fits, item_shown, item_height.
  destruct (nth (fst p) rendered ([], None)) as [ib [[lb lw]|]]; cbn [fst snd]; intros Hf Hs Hq.
  - destruct Hs as [Hs1 Hs2]. split; apply fold_keeps_shows; try assumption; intros q Hin; specialize (Hq q Hin); lia.
  - apply fold_keeps_shows; [exact Hs|]. intros q Hin. specialize (Hq q Hin). lia.
Qed.

(* one column *)
Lemma col_shown cwn (rendered : list (buffer * option (buffer * nat))) lpr cp : Forall (item_fits cwn) rendered ->
  forall col r0 b,
  (forall j i, nth_error col j = Some i -> item_height (nth i rendered ([], None)) <= nth (r0 + j) lpr 0) ->
  forall j i, nth_error col j = Some i ->
  item_shown rendered (fold_left (draw_item rendered) (col_placements col r0 lpr cp) b) (i, (rowstart lpr (r0 + j), cp)).
Proof.
  intros Hf. induction col as [|i0 col IH]; intros r0 b Hh j i Hj; [destruct j; discriminate|].
  cbn [col_placements fold_left]. destruct j as [|j]; cbn [nth_error] in Hj.
  - injection Hj as ->. rewrite Nat.add_0_r.
    apply (item_shown_kept cwn); cbn [fst snd].
    + now apply nth_item_fits.
    + apply (draw_item_shows cwn). cbn [fst]. now apply nth_item_fits.
    + intros [i' [rp' cp']] Hin. apply in_col_placements in Hin. destruct Hin as [r [_ [-> ->]]]. cbn [fst snd]. left.
      pose proof (Hh 0 i eq_refl) as H0. rewrite Nat.add_0_r in H0.
      pose proof (rowstart_mono lpr (S r0) (S r0 + r) ltac:(lia)). rewrite rowstart_S in H. lia.
  - replace (r0 + S j) with (S r0 + j) by lia. apply IH; [|exact Hj].
    intros j' i' Hj'. replace (S r0 + j') with (r0 + S j') by lia. now apply (Hh (S j')).
Qed.

(* the whole map *)
Lemma all_shown cwn pitch (rendered : list (buffer * option (buffer * nat))) lpr : Forall (item_fits cwn) rendered -> cwn <= pitch ->
  forall omap,
  (forall k j i, k < length omap -> nth_error (nth k omap []) j = Some i ->
     item_height (nth i rendered ([], None)) <= nth j lpr 0) ->
  forall k0 b k j i, k < length omap -> nth_error (nth k omap []) j = Some i ->
  item_shown rendered (fold_left (draw_item rendered) (all_placements omap lpr k0 pitch) b)
             (i, (rowstart lpr j, (k0 + k) * pitch)).
Proof.
  intros Hf Hp. induction omap as [|col omap IH]; intros Hh k0 b k j i Hk Hj; [cbn in Hk; lia|].
  cbn [all_placements]. rewrite fold_left_app. destruct k as [|k]; cbn [nth length] in Hj, Hk.
  - rewrite Nat.add_0_r. apply (item_shown_kept cwn); cbn [fst snd].
    + now apply nth_item_fits.
    + apply (col_shown cwn rendered lpr (k0 * pitch) Hf col 0 b); [|exact Hj].
      intros j' i' Hj'. apply (Hh 0 j' i'); [cbn [length]; lia|exact Hj'].
    + intros [i' [rp' cp']] Hin. apply in_all_placements in Hin.
      destruct Hin as [k' [r' [_ [_ [-> ->]]]]]. cbn [fst snd]. right.
      assert (S k0 * pitch <= (S k0 + k') * pitch) by (apply Nat.mul_le_mono_r; lia). cbn [Nat.mul] in H. lia.
  - replace (k0 + S k) with (S k0 + k) by lia. apply IH; [|lia|exact Hj].
    intros k' j' i' Hk' Hj'. apply (Hh (S k') j' i'); [cbn [length]; lia|exact Hj'].
Qed.

Lemma nth_item_height (rendered : list (buffer * option (buffer * nat))) i :
  nth i (map item_height rendered) 0 = item_height (nth i rendered ([], None)).
Proof. change 0 with (item_height ([], None)). apply map_nth. Qed.

(* C13_no_overlap, cell level: in the rendered list every item and label can be read in full at
   its place — column k * (columns_width + spacing), row rowstart(r) *)
Lemma render_list_cells kind columns items forced spacing kp w b :
  (0 <= spacing)%Z ->
  (forall it w' b', In it items -> (0 < w')%Z -> render_tree it w' = ROk b' -> (Z.of_nat (buf_width b') <= w')%Z) ->
  (forall kp' i lb, kp = Some kp' -> label_buffer kp' i = ROk lb -> buf_width lb <= length (get_widget_label kp' i)) ->
  render_tree (WList kind columns items forced spacing kp) w = ROk b ->
  let cw := list_columns_width columns forced spacing w in
  let omap := ordered_map kind (length items) (Z.to_nat columns) in
  exists rendered,
    render_all_items render_tree items 0 cw kp = ROk rendered /\
    forall k r i, k < length omap -> nth_error (nth k omap []) r = Some i ->
      item_shown rendered b
        (i, (rowstart (lines_per_every_row omap (map item_height rendered)) r, k * Z.to_nat (cw + spacing))).
Proof.
  intros Hs Hitems Hlabels H. cbv zeta.
  assert (Hd : items = [] \/ items <> []) by (destruct items; [now left|right; discriminate]).
  destruct Hd as [->|Hne].
  - (* no items: no grid position holds anything *)
    rewrite render_tree_list in H. destruct (columns <=? 0)%Z; [discriminate|].
    exists []. split; [reflexivity|]. intros k r i Hk Hi. exfalso. cbn [length] in Hk, Hi.
    pose proof (ordered_map_no_items kind (Z.to_nat columns)) as Hall.
    rewrite Forall_forall in Hall. rewrite (Hall (nth k (ordered_map kind 0 (Z.to_nat columns)) [])) in Hi by (now apply nth_In).
    destruct r; discriminate.
  - destruct (render_list_closed_form kind columns items forced spacing kp w b Hs Hitems Hlabels H Hne)
      as [rendered [Hr [Hf ->]]].
    exists rendered. split; [exact Hr|]. intros k r i Hk Hi.
    pose proof (render_all_items_spec _ _ _ _ _ _ Hr) as [[Hnil|Hcw] _]; [congruence|].
    set (cw := list_columns_width columns forced spacing w) in *.
    set (omap := ordered_map kind (length items) (Z.to_nat columns)) in *.
    set (lpr := lines_per_every_row omap (map item_height rendered)).
    assert (Hh : forall k j i, k < length omap -> nth_error (nth k omap []) j = Some i ->
                 item_height (nth i rendered ([], None)) <= nth j lpr 0).
    { intros k' j' i' Hk' Hj'. rewrite <- nth_item_height. apply row_height_bounds_item.
      apply in_row_items. exists (nth k' omap []). split; [now apply nth_In|exact Hj']. }
    pose proof (all_shown (Z.to_nat cw) (Z.to_nat (cw + spacing)) rendered lpr Hf ltac:(lia) omap Hh 0 [] k r i Hk Hi) as Hshown.
    cbn [Nat.add] in Hshown. exact Hshown.
Qed.
