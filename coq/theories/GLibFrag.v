(* GLibFrag.v — the fragment of sessions on which C20_agree_partial is stated (definitions only).
   [fexec] is LoopSem.exec (the MainLoop model) with state checks at the points where MainLoop and
   GLibEventLoop are known to part (findings F9(a)-(j), F13): it answers [None] as soon as a check
   fails and otherwise exactly what [exec] answers (lemma fexec_is_exec in proofs/C20Sim.v).  A session is
   in the fragment when its run on the MainLoop model passes every check:
     * one signal at a time: a signal is enqueued only into a level whose queue is empty      (F9 b b' c d g)
     * its class has a handler registered at that moment                                      (F9 i)
     * no handler ends with an ordinary exception, none with SystemExit                       (F9 a)
     * ExitMainLoop is raised only while no nested loop is open                               (F9 c')
     * close_loop() only inside a nested loop, once per dispatch, with nothing left to drain  (F9 d j)
     * execute_new_loop() not after a close_loop() of the same dispatch                       (F13)
     * no force_quit(), no process_signals()                                                  (F9 f g h)
     * a submission from another thread (the reader thread's typed line) arrives when the loop is idle, into an
       empty queue, for a class that is handled (the models know no other timing)
     * run() only with no nested level open
   The checks are on the MainLoop model's own states, so the predicate is decidable: [in_fragment]. *)
From Coq Require Import ZArith NArith List Bool.
From RecordUpdate Require Import RecordUpdate.
From SL Require Import LoopSem.
Import ListNotations.

Section Frag.
  Context {U : Type}.
  Variable code : nat -> signal -> nat -> prog U.

  Definition has_handlers (s : lstate U) (cls : nat) : bool :=
    match handlers_of s cls with Some _ => true | None => false end.
  (* the queue MainLoop.enqueue_signal would choose *)
  Definition target_queue (s : lstate U) (sg : signal) : nat :=
    match route s (rev (levels s)) (sg_src sg) with Some q => q | None => active s end.
  Definition enqueue_ok (s : lstate U) (sg : signal) : bool :=
    negb (force_quit s) && q_empty (get_q s (target_queue s sg)) && has_handlers s (sg_cls sg).

  Definition obind {A B} (x : option A) (f : A -> option B) : option B :=
    match x with Some a => f a | None => None end.

  Fixpoint fexec (fuel : nat) (c : call U) (s : lstate U) {struct fuel} : option (outcome * lstate U) :=
    match fuel with
    | O => Some (OFuel, s)
    | S f =>
      match c with
      | CRun =>
        if (length (levels s) =? 1)%nat then
          let s0 := emit ERunEnter (s <| force_quit := false |> <| run_loop := true |>) in
          obind (fexec f CMainloop s0) (fun '(o, s1) =>
          match o with
          | ONormal | OThrow XExit =>
            let s2 := match quit_cb s1 with Some a => emit (EQuitCb a) s1 | None => s1 end in
            Some (ONormal, emit ERunReturn s2)
          | _ => Some (o, s1)
          end)
        else None
      | CMainloop =>
        if run_loop s then
          obind (fexec f CProcLoop s) (fun '(o, s1) =>
          match o with
          | ONormal => fexec f CMainloop s1
          | _ => Some (o, s1)
          end)
        else Some (ONormal, if force_quit s then s else s <| run_loop := true |>)
      | CProcLoop =>
        if run_loop s then
          match do_get s with
          | inl None => Some (OBlocked, s)
          | inr _ =>
            (* a submission from another thread arrives while the loop is idle (the only timing the models have):
               admitted when it obeys the rules of an enqueue (its level's queue is empty, its class is handled) *)
            match ext s with
            | sp :: r =>
              let '(sg, s1) := new_signal (s <| ext := r |>) sp in
              let s2 := emit (EExt (sg_id sg)) s1 in
              if enqueue_ok s2 sg then fexec f CProcLoop (do_enqueue s2 sg) else None
            | [] => None
            end
          | inl (Some (sg, s1)) =>
            let s2 := emit (EDispatch (sg_id sg) (active s) (length (levels s))) s1 in
            obind (fexec f (CProcessSignal sg 0) s2) (fun '(o, s3) =>
            match o with
            | ONormal => fexec f CProcLoop s3
            | _ => Some (o, s3)
            end)
          end
        else Some (ONormal, s)
      | CProcWait _ _ => None
      | CProcIter _ =>                                      (* only from close_loop: nothing to drain *)
        if negb (q_empty (get_q s (active s))) && run_loop s then None else Some (ONormal, s)
      | CProcessSignal sg idx =>
        let s0 := if (idx =? 0)%nat then s <| tickets := mark_line_to_go (tickets s) (sg_cls sg) |> else s in
        match handlers_of s0 (sg_cls sg) with
        | Some hs =>
          if force_quit s0 then None
          else
          match nth_error hs idx with
          | None => Some (ONormal, emit (EDispatchEnd (sg_id sg)) s0)
          | Some (hid, data) =>
            let s1 := emit (EHandler hid (sg_id sg) data) s0 in
            obind (fexec f (CProg (code hid sg data)) s1) (fun '(o, s2) =>
            match o with
            | ONormal => fexec f (CProcessSignal sg (S idx)) (emit (EHandlerEnd hid (sg_id sg) None) s2)
            | OThrow XExit =>
              if (length (levels s2) =? 1)%nat then Some (o, emit (EHandlerEnd hid (sg_id sg) (Some XExit)) s2)
              else None
            | OThrow _ => None
            | _ => Some (o, s2)
            end)
          end
        | None => None
        end
      | CApi a =>
        match a with
        | AEnqueue sp =>
          let '(sg, s1) := new_signal s sp in
          if enqueue_ok s1 sg then Some (ONormal, do_enqueue s1 sg) else None
        | AForceQuit => None
        | ANewLoop sp =>
          let '(sg, s1) := new_signal s sp in
          let q := length (qstore s1) in
          let s2 := s1 <| qstore := qstore s1 ++ [empty_queue] |> <| active := q |>
                       <| levels := levels s1 ++ [q] |> in
          let s2e := emit (ENewLoopEnter q) s2 in
          if run_loop s1 && enqueue_ok s2e sg then
            let s3 := do_enqueue s2e sg in
            obind (fexec f CMainloop s3) (fun '(o, s4) =>
            match o with
            | ONormal => Some (ONormal, emit (ENewLoopReturn q) s4)
            | OThrow _ => None
            | _ => Some (o, s4)
            end)
          else None
        | ACloseLoop =>
          if (2 <=? length (levels s))%nat && q_empty (get_q s (active s)) && run_loop s && negb (force_quit s) then
            obind (fexec f (CProcIter None) (emit (EProcEnter None 0) s)) (fun '(o, s0) =>
            match o with
            | ONormal =>
              let s1 := emit (EProcReturn None 0) s0 in
              match rev (levels s1) with
              | top :: q :: rest_rev =>
                Some (ONormal, emit (EClosePop top) (s1 <| levels := rev (q :: rest_rev) |>)
                                 <| active := q |> <| run_loop := false |>)
              | _ => None
              end
            | _ => Some (o, s0)
            end)
          else None
        | AProcess _ => None
        | ARegSource o =>
          Some (ONormal, emit (ERegSource o (active s)) (set_q s (active s) (q_add_source (get_q s (active s)) o)))
        | ARegHandler cls hid data =>
          Some (ONormal, emit (ERegHandler cls hid data) (s <| handlers := add_handler (handlers s) cls hid data |>))
        | ASetQuitCb arg => Some (ONormal, emit (ESetQuitCb arg) (s <| quit_cb := Some arg |>))
        | AExtAdd sp => Some (ONormal, s <| ext := ext s ++ [sp] |>)
        end
      | CProg p =>
        match p with
        | PRet => Some (ONormal, s)
        | PThrow e => Some (OThrow e, s)
        | PSeq p1 p2 =>
          obind (fexec f (CProg p1) s) (fun '(o, s1) =>
          match o with ONormal => fexec f (CProg p2) s1 | _ => Some (o, s1) end)
        | PTry p1 h =>
          obind (fexec f (CProg p1) s) (fun '(o, s1) =>
          match o with OThrow XError => fexec f (CProg h) s1 | _ => Some (o, s1) end)
        | PApi a => fexec f (CApi a) s
        | PSt g => let '(u', p') := g (ust s) in fexec f (CProg p') (s <| ust := u' |>)
        | PWhile c b =>
          if c (ust s) then
            obind (fexec f (CProg b) s) (fun '(o, s1) =>
            match o with ONormal => fexec f (CProg (PWhile c b)) s1 | _ => Some (o, s1) end)
          else Some (ONormal, s)
        | PEmit e => Some (ONormal, emit (user_event e) s)
        end
      end
    end.

  (* a session in the fragment: top-level calls may not raise either *)
  Fixpoint frun_session (fuel : nat) (acts : list (top U)) (s : lstate U) : option (list outcome * lstate U) :=
    match acts with
    | [] => Some ([], s)
    | a :: r =>
      obind (fexec fuel (match a with TRun => CRun | TProg p => CProg p end) (emit ETop s)) (fun '(o, s1) =>
      match o with
      | OBlocked | OFuel => Some ([o], s1)
      | ONormal => obind (frun_session fuel r s1) (fun '(os, s2) => Some (o :: os, s2))
      | OThrow _ => None
      end)
    end.

  Definition in_fragment (fuel : nat) (acts : list (top U)) (u : U) : bool :=
    match frun_session fuel acts (init_state u) with
    | Some (os, _) => forallb (fun o => match o with OFuel => false | _ => true end) os
    | None => false
    end.
End Frag.

