(* GLibApp.v — an application (ScreenSem: screen_code specs + the application's top-level programs) run on the
   GLibEventLoop model instead of the MainLoop model.  The screen layer is loop-independent: it is a handler
   table [nat -> signal -> nat -> prog sstate] and programs over the loop API, which is exactly what
   GLibSem.gexec accepts — [gapp_session] / [gapp_run_all] are ScreenSem.app_session / app_run_all with
   [exec] replaced by [gexec false] and [lstate] by [gstate].  Definitions only. *)
From Coq Require Import ZArith NArith List Bool.
From SL Require Import PyInt LoopSem ScreenSem GLibSem GLibFrag.
Import ListNotations.

Fixpoint gapp_session (specs : nat -> screen_spec) (fuel : nat) (acts : list saction) (s : gstate sstate)
  : list outcome * gstate sstate :=
  match acts with
  | [] => ([], s)
  | a :: r =>
    let '(o, s1) :=
      match a with
      | SACmds l => gexec false (screen_code specs) fuel (GProg (run_cmds specs 0 0 l)) (gemit ETop s)
      | SARun =>
        match st_stack (gust s), st_run_empty (gust s) with
        | [], false => (OThrow XError, gemit ETop s)                 (* NothingScheduledError *)
        | _, _ => gexec false (screen_code specs) fuel GRun (gemit ETop s)
        end
      end in
    match o with
    | OBlocked | OFuel | OThrow XSysExit => ([o], s1)
    | _ => let '(os, s2) := gapp_session specs fuel r s1 in (o :: os, s2)
    end
  end.

(* App.initialize(event_loop=GLibEventLoop()) on a fresh loop, then the session *)
Definition gapp_run_all (specs : nat -> screen_spec) (specl : list screen_spec) (typed : list (option str))
           (quit : option nat) (run_empty : bool) (fuel : nat) (acts : list saction) : list outcome * gstate sstate :=
  let s0 := ginit_state (sstate0 specl typed quit run_empty) in
  let '(_, s1) := gexec false (screen_code specs) 20 (GProg app_initialize) s0 in
  gapp_session specs fuel acts s1.

(* ---- applications (ScreenSem): the checked run of app_session / app_run_all ---- *)

Fixpoint fapp_session (specs : nat -> screen_spec) (fuel : nat) (acts : list saction) (s : lstate sstate)
  : option (list outcome * lstate sstate) :=
  match acts with
  | [] => Some ([], s)
  | a :: r =>
    obind (match a with
           | SACmds l => fexec (screen_code specs) fuel (CProg (run_cmds specs 0 0 l)) (emit ETop s)
           | SARun =>
             match st_stack (ust s), st_run_empty (ust s) with
             | [], false => None                                      (* NothingScheduledError *)
             | _, _ => fexec (screen_code specs) fuel CRun (emit ETop s)
             end
           end) (fun '(o, s1) =>
    match o with
    | OBlocked | OFuel => Some ([o], s1)
    | ONormal => obind (fapp_session specs fuel r s1) (fun '(os, s2) => Some (o :: os, s2))
    | OThrow _ => None
    end)
  end.

Definition in_app_fragment (specs : nat -> screen_spec) (specl : list screen_spec) (typed : list (option str))
           (quit : option nat) (run_empty : bool) (fuel : nat) (acts : list saction) : bool :=
  let s0 := init_state (sstate0 specl typed quit run_empty) in
  match fexec (screen_code specs) 20 (CProg app_initialize) s0 with
  | Some (ONormal, s1) =>
    match fapp_session specs fuel acts s1 with
    | Some (os, _) => forallb (fun o => match o with OFuel => false | _ => true end) os
    | None => false
    end
  | _ => false
  end.
