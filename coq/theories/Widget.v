(* Widget.v — simpleline/render/widgets.py class Widget: buffer, draw, write (typewriter).
   Line-by-line; Python's in-place list mutation becomes a function returning the new buffer. *)
From Coq Require Import ZArith NArith List Bool.
From SL Require Import PyInt.
Import ListNotations.

Definition char := N.
Definition line := list char.
Definition buffer := list line.
Definition SP : char := 32%N.
Definition NL : char := 10%N.

(* Widget.width : id of the first empty column *)
Definition buf_width (b : buffer) : nat := fold_left (fun acc l => Nat.max acc (length l)) b 0.

(* ---- draw ---------------------------------------------------------------
   l_len = len(buf[l]); w_len = len(src)
   if l_len < col + w_len: buf[l] += (col + w_len - l_len) * [" "]
   buf[l][col:col + w_len] = src[:]                                         *)
Definition put_line (tl : line) (col : nat) (src : line) : line :=
  let tl' := tl ++ repeat SP (col + length src - length tl) in
  firstn col tl' ++ src ++ skipn (col + length src) tl'.

(* rows row.. of the target receive the source rows; missing target rows are created empty *)
Fixpoint overlay (b : buffer) (col : nat) (src : buffer) : buffer :=
  match src with
  | [] => b
  | s :: src' =>
    match b with
    | l :: b' => put_line l col s :: overlay b' col src'
    | [] => put_line [] col s :: overlay [] col src'
    end
  end.

Fixpoint draw_at (b : buffer) (row col : nat) (src : buffer) : buffer :=
  match row with
  | O => overlay b col src
  | S r =>
    match b with
    | l :: b' => l :: draw_at b' r col src
    | [] => [] :: draw_at [] r col src
    end
  end.

(* Widget.draw(w, row, col, block): new buffer and new cursor *)
Definition draw (b : buffer) (row col : nat) (block : bool) (src : buffer) : buffer * (nat * nat) :=
  (draw_at b row col src, (row + length src, if block then col else 0)).

(* ---- write: the typewriter ---------------------------------------------- *)
(* _increase_x_buffer_size(x) *)
Definition ensure_row (b : buffer) (x : nat) : buffer := b ++ repeat [] (S x - length b).

(* _increase_y_buffer_size(x, y); _save_character_to_buffer(x, y, ch) — row x exists *)
Definition set_in_line (l : line) (y : nat) (ch : char) : line :=
  let l' := l ++ repeat SP (S y - length l) in
  firstn y l' ++ ch :: skipn (S y) l'.

Fixpoint set_cell (b : buffer) (x y : nat) (ch : char) : buffer :=
  match x, b with
  | O, l :: b' => set_in_line l y ch :: b'
  | S x', l :: b' => l :: set_cell b' x' y ch
  | _, [] => []          (* unreachable: ensure_row ran first *)
  end.

(* for character in text: ...   ; state (buffer, x, y) *)
Fixpoint typewriter (text : list char) (b : buffer) (x y col : nat) (width : option nat) (block : bool)
  : buffer * (nat * nat) :=
  match text with
  | [] => (b, (x, y))
  | ch :: rest =>
    if (ch =? NL)%N then
      let x' := S x in
      typewriter rest (ensure_row b x') x' (if block then col else 0) col width block
    else
      let b1 := set_cell (ensure_row b x) x y ch in
      let y1 := S y in
      match width with
      | Some w =>
        if (col + w <=? y1)%nat
        then typewriter rest b1 (S x) (if block then col else 0) col width block
        else typewriter rest b1 x y1 col width block
      | None => typewriter rest b1 x y1 col width block
      end
  end.

(* Widget.write(text, row, col, width, block) without wordwrap; `if not text: return` *)
Definition write (b : buffer) (cur : nat * nat) (text : list char) (row col : nat) (width : option nat) (block : bool)
  : buffer * (nat * nat) :=
  match text with
  | [] => (b, cur)
  | _ => typewriter text b row col col width block
  end.
