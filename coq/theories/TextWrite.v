(* TextWrite.v — Widget.write(text, row, col, width, block, wordwrap=True) on an arbitrary widget state
   (simpleline/render/widgets.py, Widget.write), of which TextWidget.render (TextWrap.render_text) is the
   special case  clear(); write(text, width=width, wordwrap=True).   Definitions only.

     if not text: return
     if row is None: row = self._cursor[0]
     if col is None: col = self._cursor[1]
     if width is None and self._max_width: width = self._max_width - col
     x = row; y = col
     if wordwrap: text = self._wrap_words(text, width); width = None
     for character in text: ... (the typewriter, Widget.typewriter)
     self._cursor = (x, y)

   - textwrap raises ValueError for width <= 0 and TypeError for width None (`self.width <= 0`), in both
     cases before anything is written: buffer and cursor stay as they were;
   - when the wrapped text is '' the loop does not run but the cursor is still set to (row, col). *)
From Coq Require Import ZArith NArith List Bool.
From SL Require Import PyInt Widget TextWrap.
Import ListNotations.

Definition opt_or (o : option nat) (d : nat) : nat := match o with Some v => v | None => d end.

(* `if width is None and self._max_width: width = self._max_width - col` ; None = width stays None *)
Definition eff_width (maxw : option Z) (col : nat) (width : option Z) : option Z :=
  match width with
  | Some w => Some w
  | None =>
    match maxw with
    | Some m => if (m =? 0)%Z then None else Some (m - Z.of_nat col)%Z
    | None => None
    end
  end.

Inductive wres :=
| WOk (b : buffer) (cur : nat * nat)     (* the new buffer and cursor *)
| WValueError                            (* state unchanged *)
| WTypeError                             (* state unchanged *)
| WOutOfModel.

Definition write_wrapped (b : buffer) (cur : nat * nat) (maxw : option Z) (t : text)
           (row col : option nat) (width : option Z) (block : bool) : wres :=
  match t_text t with
  | [] => WOk b cur
  | _ =>
    let r := opt_or row (fst cur) in
    let c := opt_or col (snd cur) in
    match eff_width maxw c width with
    | None => WTypeError
    | Some w =>
      if (w <=? 0)%Z then WValueError
      else match wrap_all (t_chunks t) (Z.to_nat w) with
           | Some ls =>
             let res := typewriter (join_nl ls) b r c c None block in
             WOk (fst res) (snd res)
           | None => WOutOfModel
           end
    end
  end.

(* Widget.write without wordwrap, with the same defaulting (Widget.write takes resolved arguments).
   None: the defaulted width max_width - col is negative (outside the model, as in Drv_widget). *)
Definition write_plain (b : buffer) (cur : nat * nat) (maxw : option Z) (text : list char)
           (row col : option nat) (width : option Z) (block : bool) : option (buffer * (nat * nat)) :=
  let r := opt_or row (fst cur) in
  let c := opt_or col (snd cur) in
  match eff_width maxw c width with
  | None => Some (write b cur text r c None block)
  | Some w => if (w <? 0)%Z then None else Some (write b cur text r c (Some (Z.to_nat w)) block)
  end.
