(* Tac.v — proof-side conventions shared by every proofs/*.v file (no definitions of the model). *)
From Coq Require Export ZArith NArith List Bool Lia ZifyBool ZifyNat ZifyN.
Ltac Zify.zify_post_hook ::= Z.to_euclidean_division_equations.
