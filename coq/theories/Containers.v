(* Containers.v — widget trees and their render():
   TextWidget, SeparatorWidget, CenterWidget, ColumnWidget, CheckboxWidget (widgets.py) and
   WindowContainer, ListRowContainer, ListColumnContainer (containers.py), line by line.
   A render returns the widget's buffer (what get_lines()/content/height/width read), a ValueError
   outcome where the Python raises one, or OutOfModel where the Python would index with a negative
   column (not reachable with built-in widgets unless a column width is forced wider than the screen).
   Sharing of one Python object under two parents is outside the model (trees, not DAGs). *)
From Coq Require Import ZArith NArith List Bool.
From SL Require Import PyInt Widget TextWrap KeyPattern.
Import ListNotations.

Inductive lkind := KRow | KCol.

Inductive wtree :=
| WText (t : text)                                         (* TextWidget / EntryWidget *)
| WSep (lines : nat)                                       (* SeparatorWidget(lines) *)
| WCenter (w : wtree)                                      (* CenterWidget(w) *)
| WColumn (cols : list (option Z * list wtree)) (spacing : Z)   (* ColumnWidget *)
| WCheckbox (box : text) (data : list text)                (* CheckboxWidget: "[x]" ; title, "(text)" *)
| WList (kind : lkind) (columns : Z) (items : list wtree) (columns_width : option Z)
        (spacing : Z) (numbering : option key_pattern)     (* ListRowContainer / ListColumnContainer *)
| WWindow (title : option text) (items : list wtree).      (* WindowContainer *)

Definition bind {A B} (r : rres A) (f : A -> rres B) : rres B :=
  match r with ROk a => f a | RValueError => RValueError | ROutOfModel => ROutOfModel end.
Notation "'let!' x := e 'in' k" := (bind e (fun x => k)) (at level 200, x pattern, e at level 100, k at level 200).

Definition nat_of_Z (z : Z) : rres nat := if (z <? 0)%Z then ROutOfModel else ROk (Z.to_nat z).

(* SeparatorWidget.render: `lines` empty rows *)
Definition render_sep (n : nat) : buffer := repeat [] n.

(* ---- ordering maps (ListRowContainer._get_ordered_map / ListColumnContainer._get_ordered_map) *)
(* ordering_map[item_id % columns].append(item_id) *)
Definition ordered_map_row (n columns : nat) : list (list nat) :=
  map (fun c => filter (fun i => Nat.modulo i columns =? c) (seq 0 n)) (seq 0 columns).
(* items_in_column = ceil(n / columns); ordering_map[item_id // items_in_column].append(item_id) *)
Definition ceil_div (n c : nat) : nat := (n + c - 1) / c.
Definition ordered_map_col (n columns : nat) : list (list nat) :=
  let p := ceil_div n columns in
  map (fun c => filter (fun i => Nat.div i p =? c) (seq 0 n)) (seq 0 columns).
Definition ordered_map (k : lkind) (n columns : nat) : list (list nat) :=
  match k with KRow => ordered_map_row n columns | KCol => ordered_map_col n columns end.

(* _lines_per_every_row: per row id the maximum over the columns of max(item height, label height) *)
Fixpoint bump (l : list nat) (row_id h : nat) : list nat :=
  match row_id, l with
  | O, x :: r => Nat.max x h :: r
  | O, [] => [h]
  | S k, x :: r => x :: bump r k h
  | S k, [] => 0 :: bump [] k h      (* unreachable: rows are visited in order *)
  end.
Fixpoint lines_col (col : list nat) (row_id : nat) (heights : list nat) (acc : list nat) : list nat :=
  match col with
  | [] => acc
  | item_id :: r => lines_col r (S row_id) heights (bump acc row_id (nth item_id heights 0))
  end.
Definition lines_per_every_row (omap : list (list nat)) (heights : list nat) : list nat :=
  fold_left (fun acc col => lines_col col 0 heights acc) omap [].

(* the label of item i: TextWidget(label).render(len(label)) — labels use the oracle-free chunker *)
Definition label_buffer (kp : key_pattern) (i : nat) : rres buffer :=
  let lab := get_widget_label kp i in
  render_text (simple_text lab) (Z.of_nat (length lab)).

Section Render.
  Variable render : wtree -> Z -> rres buffer.

  (* for item in col: item.render(w); self.draw(item, block=True) — cursor column stays *)
  Fixpoint draw_items_block (items : list wtree) (w : Z) (b : buffer) (row col : nat) : rres (buffer * nat) :=
    match items with
    | [] => ROk (b, row)
    | it :: r =>
      let! ib := render it w in
      let '(b', (row', _)) := draw b row col true ib in
      draw_items_block r w b' row' col
    end.

  (* ColumnWidget.render *)
  Fixpoint render_columns (cols : list (option Z * list wtree)) (spacing width : Z) (b : buffer) (col_pos : Z)
    : rres buffer :=
    match cols with
    | [] => ROk b
    | (cw, items) :: r =>
      let! cp := nat_of_Z col_pos in
      let '(col_max_width, col_width) :=
        match cw with None => ((width - col_pos)%Z, 0%Z) | Some w => (w, w) end in
      let! res := draw_items_block items col_max_width b 0 cp in
      let b' := fst res in
      render_columns r spacing width b' (Z.max (col_pos + col_width) (Z.of_nat (buf_width b')) + spacing)%Z
    end.

  (* _render_all_items: heights of rendered items and labels, with the two ValueError checks *)
  Fixpoint render_all_items (items : list wtree) (item_id : nat) (columns_width : Z) (kp : option key_pattern)
    : rres (list (buffer * option (buffer * nat))) :=     (* per item: its buffer, label buffer + len(label.text) *)
    match items with
    | [] => ROk []
    | it :: r =>
      if (columns_width <=? 0)%Z then RValueError else
      match kp with
      | Some kp' =>
        let lab := get_widget_label kp' item_id in
        let number_width := Z.of_nat (length lab) in
        let! lb := label_buffer kp' item_id in
        let item_width := (columns_width - number_width)%Z in
        if (item_width <=? 0)%Z then RValueError else
        let! ib := render it item_width in
        let! rest := render_all_items r (S item_id) columns_width kp in
        ROk ((ib, Some (lb, length lab)) :: rest)
      | None =>
        let! ib := render it columns_width in
        let! rest := render_all_items r (S item_id) columns_width kp in
        ROk ((ib, None) :: rest)
      end
    end.

  (* WindowContainer: for item in items: render(width); draw(widget) at the cursor, not block *)
  Fixpoint draw_items_plain (items : list wtree) (w : Z) (b : buffer) (row : nat) : rres buffer :=
    match items with
    | [] => ROk b
    | it :: r =>
      let! ib := render it w in
      let '(b', (row', _)) := draw b row 0 false ib in
      draw_items_plain r w b' row'
    end.
End Render.

(* drawing one column of a list container: for row_id, item_id in enumerate(col) *)
Fixpoint draw_list_col (col : list nat) (row_id : nat) (rendered : list (buffer * option (buffer * nat)))
         (lines_per_rows : list nat) (b : buffer) (row_pos col_pos : nat) : buffer :=
  match col with
  | [] => b
  | item_id :: r =>
    let '(ib, lab) := nth item_id rendered ([], None) in
    let b1 := match lab with
              | Some (lb, lw) =>
                let b0 := fst (draw b row_pos col_pos false lb) in
                fst (draw b0 row_pos (col_pos + lw) true ib)
              | None => fst (draw b row_pos col_pos true ib)
              end in
    draw_list_col r (S row_id) rendered lines_per_rows b1 (row_pos + nth row_id lines_per_rows 0) col_pos
  end.

Fixpoint draw_list_cols (omap : list (list nat)) (rendered : list (buffer * option (buffer * nat)))
         (lines_per_rows : list nat) (columns_width spacing : Z) (b : buffer) (col_pos : Z) : rres buffer :=
  match omap with
  | [] => ROk b
  | col :: r =>
    let! cp := nat_of_Z col_pos in
    let b' := draw_list_col col 0 rendered lines_per_rows b 0 cp in
    (* col_pos = max(col_pos + columns_width, self.width) + spacing *)
    draw_list_cols r rendered lines_per_rows columns_width spacing b'
                   (Z.max (col_pos + columns_width) (Z.of_nat (buf_width b')) + spacing)%Z
  end.

Definition item_height (x : buffer * option (buffer * nat)) : nat :=
  match snd x with
  | Some (lb, _) => Nat.max (length (fst x)) (length lb)
  | None => length (fst x)
  end.

Fixpoint render (fuel : nat) (w : wtree) (width : Z) {struct fuel} : rres buffer :=
  match fuel with
  | O => ROutOfModel
  | S f =>
    match w with
    | WText t => render_text t width
    | WSep n => ROk (render_sep n)
    | WCenter c =>
      let! cb := render f c width in
      (* self.draw(self._w, col=(width - self._w.width) // 2) at row 0 *)
      let! col := nat_of_Z ((width - Z.of_nat (buf_width cb)) / 2)%Z in
      ROk (fst (draw [] 0 col false cb))
    | WColumn cols spacing => render_columns (render f) cols spacing width [] 0%Z
    | WCheckbox box data =>
      (* cols = ColumnWidget([(3, [checkbox]), (width - 4, data)], 1); cols.render(width); self.draw(cols) *)
      let! cb := render_columns (render f)
                   [(Some 3%Z, [WText box]); (Some (width - 4)%Z, map WText data)] 1%Z width [] 0%Z in
      ROk (fst (draw [] 0 0 false cb))
    | WList kind columns items forced spacing kp =>
      if (columns <=? 0)%Z then ROutOfModel else
      let columns_width :=
        match forced with
        | Some cw => cw
        | None => Z.quot (width - (columns - 1) * spacing) columns   (* int((width - sum_spacing) / columns) *)
        end in
      let omap := ordered_map kind (length items) (Z.to_nat columns) in
      let! rendered := render_all_items (render f) items 0 columns_width kp in
      let lines_per_rows := lines_per_every_row omap (map item_height rendered) in
      draw_list_cols omap rendered lines_per_rows columns_width spacing [] 0%Z
    | WWindow title items =>
      let! b0 :=
        match title with
        | Some t =>
          match t_text t with
          | [] => ROk ([], 0)                        (* if self._title: — empty title is no title *)
          | _ =>
            let! tb := render_text t width in
            let '(b1, (r1, _)) := draw [] 0 0 false tb in
            let '(b2, (r2, _)) := draw b1 r1 0 false (render_sep 1) in
            ROk (b2, r2)
          end
        | None => ROk ([], 0)
        end in
      draw_items_plain (render f) items width (fst b0) (snd b0)
    end
  end.

Fixpoint depth (w : wtree) : nat :=
  match w with
  | WText _ | WSep _ => 1
  | WCenter c => S (depth c)
  | WColumn cols _ => S (fold_right (fun c acc => fold_right (fun i a => Nat.max (depth i) a) acc (snd c)) 0 cols)
  | WCheckbox _ _ => 3
  | WList _ _ items _ _ _ => S (fold_right (fun i a => Nat.max (depth i) a) 0 items)
  | WWindow _ items => S (fold_right (fun i a => Nat.max (depth i) a) 0 items)
  end.

(* render with enough fuel for the tree (fuel only bounds the nesting depth) *)
Definition render_tree (w : wtree) (width : Z) : rres buffer := render (S (depth w)) w width.
