(* LoopWire.v — wire encoding / decoding of events (shared by the loop driver and the monitor driver). *)
From Coq Require Import ZArith NArith List Bool.
From SL Require Import Sx LoopSem.
Import ListNotations.

Definition of_exn (e : exn) : sx := I (match e with XExit => 1 | XError => 2 | XSysExit => 3 end)%Z.
Definition of_event (e : event) : sx :=
  match e with
  | EEnq sid q => L [I 0%Z; of_nat sid; of_nat q]
  | EDropped sid => L [I 1%Z; of_nat sid]
  | EDispatch sid q d => L [I 2%Z; of_nat sid; of_nat q; of_nat d]
  | ERequeue sid q => L [I 3%Z; of_nat sid; of_nat q]
  | EHandler h sid d => L [I 4%Z; of_nat h; of_nat sid; of_nat d]
  | EHandlerEnd h sid how => L [I 5%Z; of_nat h; of_nat sid; of_opt of_exn how]
  | EDispatchEnd sid => L [I 6%Z; of_nat sid]
  | ENewLoopEnter q => L [I 7%Z; of_nat q]
  | ENewLoopReturn q => L [I 8%Z; of_nat q]
  | EClosePop q => L [I 9%Z; of_nat q]
  | EProcEnter w t => L [I 10%Z; of_opt of_nat w; of_nat t]
  | EProcReturn w t => L [I 11%Z; of_opt of_nat w; of_nat t]
  | EForceQuit => L [I 12%Z]
  | EQuitCb a => L [I 13%Z; of_nat a]
  | ERunEnter => L [I 14%Z]
  | ERunReturn => L [I 15%Z]
  | EKill => L [I 16%Z]
  | EExt sid => L [I 17%Z; of_nat sid]
  | EMark t => L [I 18%Z; of_nat t]
  | EUser t a x => L [I 19%Z; of_nat t; of_list of_nat a; of_str x]
  | ESigNew sid c p src => L [I 20%Z; of_nat sid; of_nat c; I p; of_opt of_nat src]
  | ERegHandler c h d => L [I 21%Z; of_nat c; of_nat h; of_nat d]
  | ERegSource o q => L [I 22%Z; of_nat o; of_nat q]
  | ESetQuitCb a => L [I 23%Z; of_nat a]
  | ETop => L [I 24%Z]
  end.


Definition as_exn (s : sx) : option exn :=
  match s with I 1%Z => Some XExit | I 2%Z => Some XError | I 3%Z => Some XSysExit | _ => None end.

Definition as_event (s : sx) : option event :=
  match s with
  | L [I 0%Z; a; b] => match as_nat a, as_nat b with Some a, Some b => Some (EEnq a b) | _, _ => None end
  | L [I 1%Z; a] => option_map EDropped (as_nat a)
  | L [I 2%Z; a; b; c] => match as_nat a, as_nat b, as_nat c with Some a, Some b, Some c => Some (EDispatch a b c) | _, _, _ => None end
  | L [I 3%Z; a; b] => match as_nat a, as_nat b with Some a, Some b => Some (ERequeue a b) | _, _ => None end
  | L [I 4%Z; a; b; c] => match as_nat a, as_nat b, as_nat c with Some a, Some b, Some c => Some (EHandler a b c) | _, _, _ => None end
  | L [I 5%Z; a; b; c] => match as_nat a, as_nat b, as_opt as_exn c with Some a, Some b, Some c => Some (EHandlerEnd a b c) | _, _, _ => None end
  | L [I 6%Z; a] => option_map EDispatchEnd (as_nat a)
  | L [I 7%Z; a] => option_map ENewLoopEnter (as_nat a)
  | L [I 8%Z; a] => option_map ENewLoopReturn (as_nat a)
  | L [I 9%Z; a] => option_map EClosePop (as_nat a)
  | L [I 10%Z; a; b] => match as_opt as_nat a, as_nat b with Some a, Some b => Some (EProcEnter a b) | _, _ => None end
  | L [I 11%Z; a; b] => match as_opt as_nat a, as_nat b with Some a, Some b => Some (EProcReturn a b) | _, _ => None end
  | L [I 12%Z] => Some EForceQuit
  | L [I 13%Z; a] => option_map EQuitCb (as_nat a)
  | L [I 14%Z] => Some ERunEnter
  | L [I 15%Z] => Some ERunReturn
  | L [I 16%Z] => Some EKill
  | L [I 17%Z; a] => option_map EExt (as_nat a)
  | L [I 18%Z; a] => option_map EMark (as_nat a)
  | L [I 19%Z; a; b; c] => match as_nat a, as_list as_nat b, as_str c with Some a, Some b, Some c => Some (EUser a b c) | _, _, _ => None end
  | L [I 20%Z; a; b; c; d] => match as_nat a, as_nat b, as_Z c, as_opt as_nat d with Some a, Some b, Some c, Some d => Some (ESigNew a b c d) | _, _, _, _ => None end
  | L [I 21%Z; a; b; c] => match as_nat a, as_nat b, as_nat c with Some a, Some b, Some c => Some (ERegHandler a b c) | _, _, _ => None end
  | L [I 22%Z; a; b] => match as_nat a, as_nat b with Some a, Some b => Some (ERegSource a b) | _, _ => None end
  | L [I 23%Z; a] => option_map ESetQuitCb (as_nat a)
  | L [I 24%Z] => Some ETop
  | _ => None
  end.
