(* LegacyHeapq.v — the queue discipline BEFORE commit 5bf8464 ("dispatch signals of equal priority in the
   order they were enqueued"): EventQueue put the signal objects themselves into queue.PriorityQueue, i.e.
   CPython's heapq over items compared by AbstractSignal.__lt__, which looks at the priority only.
   heappush/heappop/_siftdown/_siftup transcribed from CPython's Lib/heapq.py; the while loops run on
   explicit fuel (the heap length bounds them).  Definitions only. *)
From Coq Require Import ZArith List Bool Arith.
Import ListNotations.

Definition item := (Z * nat)%type.                         (* (signal.priority, signal identity) *)
Definition item_lt (a b : item) : bool := (fst a <? fst b)%Z.     (* __lt__: self.priority < other.priority *)
Definition item0 : item := (0%Z, 0).

Fixpoint set_at (l : list item) (n : nat) (x : item) : list item :=
  match l, n with
  | [], _ => []
  | _ :: r, O => x :: r
  | a :: r, S k => a :: set_at r k x
  end.

(* _siftdown(heap, startpos, pos) with newitem = heap[pos] *)
Fixpoint siftdown (fuel : nat) (heap : list item) (startpos pos : nat) (newitem : item) : list item :=
  match fuel with
  | O => set_at heap pos newitem
  | S f =>
    if (startpos <? pos)%nat then
      let parentpos := Nat.div2 (pos - 1) in
      let parent := nth parentpos heap item0 in
      if item_lt newitem parent then siftdown f (set_at heap pos parent) startpos parentpos newitem
      else set_at heap pos newitem
    else set_at heap pos newitem
  end.

Definition heappush (heap : list item) (x : item) : list item :=
  let h := heap ++ [x] in siftdown (length h) h 0 (length h - 1) x.

(* the while loop of _siftup: bubble the smaller child up until a leaf is reached *)
Fixpoint siftup_loop (fuel : nat) (heap : list item) (pos endpos : nat) : list item * nat :=
  match fuel with
  | O => (heap, pos)
  | S f =>
    let childpos := 2 * pos + 1 in
    if (childpos <? endpos)%nat then
      let rightpos := childpos + 1 in
      let childpos :=
          if (rightpos <? endpos)%nat && negb (item_lt (nth childpos heap item0) (nth rightpos heap item0))
          then rightpos else childpos in
      siftup_loop f (set_at heap pos (nth childpos heap item0)) childpos endpos
    else (heap, pos)
  end.

Definition siftup (heap : list item) (pos : nat) : list item :=
  let newitem := nth pos heap item0 in
  let '(h, p) := siftup_loop (length heap) heap pos (length heap) in
  siftdown (length heap) (set_at h p newitem) pos p newitem.

Definition heappop (heap : list item) : option (item * list item) :=
  match rev heap with
  | [] => None                                       (* IndexError *)
  | lastelt :: r =>
    match rev r with
    | [] => Some (lastelt, [])
    | first :: rest => Some (first, siftup (lastelt :: rest) 0)
    end
  end.

Fixpoint push_all (heap : list item) (l : list item) : list item :=
  match l with [] => heap | x :: r => push_all (heappush heap x) r end.
Fixpoint pop_n (n : nat) (heap : list item) : list item :=
  match n with
  | O => []
  | S k => match heappop heap with Some (x, h) => x :: pop_n k h | None => [] end
  end.
