(* LegacyContainers.v — the list container as it was BEFORE fix b8b32a9 (HEAD with that commit
   reverted), for text items only: render() memoised the first computed column width in
   self._columns_width and _render_all_items() appended the number labels to
   self._numbering_widgets without ever resetting it, while the drawing loop indexed that list
   by item id.  Only used to document what the fix removed (props/C16.v: C16_legacy_refuted_width, C16_legacy_refuted_labels).
   The state after a render that raised ValueError is not modelled.  Definitions only. *)
From Coq Require Import ZArith NArith List Bool.
From SL Require Import PyInt Widget TextWrap KeyPattern Containers.
Import ListNotations.

Record legacy_list := {
  lg_kind : lkind;
  lg_columns : Z;
  lg_items : list text;
  lg_columns_width : option Z;                 (* self._columns_width: None until the first render *)
  lg_spacing : Z;
  lg_kp : option key_pattern;
  lg_numbering : list (buffer * nat)           (* self._numbering_widgets: rendered label, len(label.text) *)
}.

Definition legacy_new (kind : lkind) (columns : Z) (items : list text) (forced : option Z) (spacing : Z)
           (kp : option key_pattern) : legacy_list :=
  {| lg_kind := kind; lg_columns := columns; lg_items := items; lg_columns_width := forced;
     lg_spacing := spacing; lg_kp := kp; lg_numbering := [] |}.

Definition legacy_add (o : legacy_list) (x : text) : legacy_list :=
  {| lg_kind := lg_kind o; lg_columns := lg_columns o; lg_items := lg_items o ++ [x];
     lg_columns_width := lg_columns_width o; lg_spacing := lg_spacing o; lg_kp := lg_kp o;
     lg_numbering := lg_numbering o |}.

(* the labels this render creates (appended to the old ones) *)
Definition fresh_labels (rendered : list (buffer * option (buffer * nat))) : list (buffer * nat) :=
  flat_map (fun x => match snd x with Some l => [l] | None => [] end) rendered.

(* number_widget = self._numbering_widgets[item_id] *)
Fixpoint relabel (rendered : list (buffer * option (buffer * nat))) (numbering : list (buffer * nat)) (i : nat)
  : list (buffer * option (buffer * nat)) :=
  match rendered with
  | [] => []
  | (ib, Some _) :: r => (ib, nth_error numbering i) :: relabel r numbering (S i)
  | (ib, None) :: r => (ib, None) :: relabel r numbering (S i)
  end.

Definition legacy_render (o : legacy_list) (width : Z) : legacy_list * rres buffer :=
  if (lg_columns o <=? 0)%Z then (o, ROutOfModel) else
  let cw := match lg_columns_width o with
            | Some cw => cw
            | None => Z.quot (width - (lg_columns o - 1) * lg_spacing o) (lg_columns o)
            end in
  let omap := ordered_map (lg_kind o) (length (lg_items o)) (Z.to_nat (lg_columns o)) in
  match render_all_items render_tree (map WText (lg_items o)) 0 cw (lg_kp o) with
  | ROk rendered =>
    let numbering := lg_numbering o ++ fresh_labels rendered in
    let rendered' := relabel rendered numbering 0 in
    let lines_per_rows := lines_per_every_row omap (map item_height rendered') in
    ({| lg_kind := lg_kind o; lg_columns := lg_columns o; lg_items := lg_items o;
        lg_columns_width := Some cw; lg_spacing := lg_spacing o; lg_kp := lg_kp o;
        lg_numbering := numbering |},
     draw_list_cols omap rendered' lines_per_rows cw (lg_spacing o) [] 0%Z)
  | RValueError => (o, RValueError)
  | ROutOfModel => (o, ROutOfModel)
  end.
