(* TextWrap.v — textwrap.wrap as used by Widget._wrap_words, and TextWidget.render.
   CPython's TextWrapper (3.12) with the default options:
     expand_tabs, replace_whitespace, drop_whitespace, break_long_words, break_on_hyphens = True,
     fix_sentence_endings = False, indents = '', tabsize = 8, max_lines = None.
   The chunker (TextWrapper._split, one large regex) is NOT modelled: a text widget carries the
   chunks of each of its source lines as data (an oracle, supplied by the harness from CPython's
   own TextWrapper()._split_chunks), together with the contract [chunks_ok] that is checked in
   Gallina on every case.  _munge_whitespace, _wrap_chunks and _handle_long_word are modelled exactly. *)
From Coq Require Import ZArith NArith List Bool.
From SL Require Import PyInt Widget.
Import ListNotations.

(* textwrap._whitespace = '\t\n\x0b\x0c\r ' *)
Definition is_tw_space (c : char) : bool := ((9 <=? c) && (c <=? 13))%N || (c =? 32)%N.

(* str.isspace() / what str.strip() removes: the Unicode White_Space + bidi B/S/WS set of CPython *)
Definition is_py_space (c : char) : bool :=
  (((9 <=? c) && (c <=? 13)) || ((28 <=? c) && (c <=? 32)) || (c =? 133) || (c =? 160) || (c =? 5760)
   || ((8192 <=? c) && (c <=? 8202)) || (c =? 8232) || (c =? 8233) || (c =? 8239) || (c =? 8287) || (c =? 12288))%N.

(* str.expandtabs(8) on one line; '\n' and '\r' reset the column *)
Fixpoint expandtabs (s : str) (column : nat) : str :=
  match s with
  | [] => []
  | c :: r =>
    if (c =? 9)%N then
      let n := 8 - Nat.modulo column 8 in
      repeat SP n ++ expandtabs r (column + n)
    else if ((c =? 10) || (c =? 13))%N then c :: expandtabs r 0
    else c :: expandtabs r (S column)
  end.

(* _munge_whitespace: expandtabs then translate every _whitespace char to ' ' *)
Definition munge (s : str) : str := map (fun c => if is_tw_space c then SP else c) (expandtabs s 0).

Definition all_blank (c : str) : bool := forallb is_py_space c.     (* chunk.strip() == '' *)

Fixpoint total_len (cs : list str) : nat :=
  match cs with [] => 0 | c :: r => length c + total_len r end.

(* --- _handle_long_word, break_long_words and break_on_hyphens on --------------------
   space_left = 1 if width < 1 else width - cur_len ; chunk = the next chunk (longer than width)
   end = space_left; if len(chunk) > space_left: hyphen = chunk.rfind('-', 0, space_left);
   if hyphen > 0 and any(c != '-' for c in chunk[:hyphen]): end = hyphen + 1            *)
Definition HY : char := 45%N.

(* chunk.rfind('-', 0, n): the last index < n holding '-' *)
Fixpoint rfind_hyphen (s : str) (n : nat) (idx : nat) (best : option nat) : option nat :=
  match n, s with
  | S n', c :: r => rfind_hyphen r n' (S idx) (if (c =? HY)%N then Some idx else best)
  | _, _ => best
  end.

Definition break_point (chunk : str) (space_left : nat) : nat :=
  if (space_left <? length chunk)%nat then
    match rfind_hyphen chunk space_left 0 None with
    | Some h =>
      if (0 <? h)%nat && existsb (fun c => negb (c =? HY)%N) (firstn h chunk) then S h else space_left
    | None => space_left
    end
  else space_left.

(* --- the inner "while chunks: if cur_len + l <= width: take" loop ------------------- *)
Fixpoint take_fitting (chunks : list str) (cur : list str) (cur_len width : nat)
  : list str * nat * list str :=   (* cur_line (in order), cur_len, remaining chunks *)
  match chunks with
  | c :: r =>
    if (cur_len + length c <=? width)%nat
    then take_fitting r (cur ++ [c]) (cur_len + length c) width
    else (cur, cur_len, chunks)
  | [] => (cur, cur_len, [])
  end.

(* one iteration of the outer "while chunks:" loop; [first] = (lines == []) *)
Definition wrap_step (chunks : list str) (width : nat) (first : bool) : option str * list str :=
  (* if drop_whitespace and chunks[-1].strip() == '' and lines: del chunks[-1] *)
  let chunks1 := match chunks with
                 | c :: r => if all_blank c && negb first then r else chunks
                 | [] => []
                 end in
  let '(cur, cur_len, rest) := take_fitting chunks1 [] 0 width in
  (* if chunks and len(chunks[-1]) > width: _handle_long_word *)
  let '(cur2, rest2) :=
    match rest with
    | c :: r =>
      if (width <? length c)%nat then
        let space_left := if (width <? 1)%nat then 1 else width - cur_len in
        let e := break_point c space_left in
        (cur ++ [firstn e c], skipn e c :: r)
      else (cur, rest)
    | [] => (cur, rest)
    end in
  (* if drop_whitespace and cur_line and cur_line[-1].strip() == '': del cur_line[-1] *)
  let cur3 := match rev cur2 with
              | lastc :: before => if all_blank lastc then rev before else cur2
              | [] => cur2
              end in
  (* if cur_line: lines.append(''.join(cur_line)) *)
  (match cur3 with [] => None | _ => Some (concat cur3) end, rest2).

(* while chunks: ...   — fuel bounds the number of iterations (every iteration consumes a
   character or a chunk; see proofs/TextWrapProofs.v: wrap_chunks_fuel_enough) *)
Fixpoint wrap_loop (fuel : nat) (chunks : list str) (width : nat) (lines : list str) : option (list str) :=
  match chunks with
  | [] => Some lines
  | _ =>
    match fuel with
    | O => None                                  (* out of fuel: excluded by the theorems *)
    | S f =>
      let '(l, rest) := wrap_step chunks width (match lines with [] => true | _ => false end) in
      wrap_loop f rest width (match l with Some l => lines ++ [l] | None => lines end)
    end
  end.

Definition wrap_fuel (chunks : list str) : nat := S (total_len chunks + length chunks).

(* TextWrapper(width=w)._wrap_chunks(chunks), w >= 1 (w <= 0 raises ValueError, see render) *)
Definition wrap_chunks (chunks : list str) (width : nat) : option (list str) :=
  wrap_loop (wrap_fuel chunks) chunks width [].

(* ---- source text, its lines, the chunk oracle's contract ----------------------- *)
Fixpoint split_nl (s : str) (cur : str) : list str :=      (* s.split('\n') ; cur accumulates reversed *)
  match s with
  | [] => [rev cur]
  | c :: r => if (c =? NL)%N then rev cur :: split_nl r [] else split_nl r (c :: cur)
  end.
Definition split_lines (s : str) : list str := split_nl s [].

Fixpoint join_nl (ls : list str) : str :=                    (* '\n'.join(ls) *)
  match ls with
  | [] => []
  | [l] => l
  | l :: r => l ++ NL :: join_nl r
  end.

(* a text widget: the text and, per source line, the chunks CPython's splitter gave *)
Record text := { t_text : str; t_chunks : list (list str) }.

Definition str_eqb (a b : str) : bool :=
  (length a =? length b)%nat && forallb (fun p => (fst p =? snd p)%N) (combine a b).

(* the oracle's contract: one chunk list per source line; chunks non-empty; their concatenation is
   the munged line *)
Definition chunks_ok (t : text) : bool :=
  let ls := split_lines (t_text t) in
  (length ls =? length (t_chunks t))%nat &&
  forallb (fun p => str_eqb (concat (snd p)) (munge (fst p)) &&
                    forallb (fun c => negb (length c =? 0)%nat) (snd p))
          (combine ls (t_chunks t)).

(* Widget._wrap_words(text, width) after the fix:
     '\n'.join( '\n'.join(wrap(line, width)) for line in text.split('\n') )            *)
Fixpoint wrap_all (chunkss : list (list str)) (width : nat) : option (list str) :=
  match chunkss with
  | [] => Some []
  | cs :: r =>
    match wrap_chunks cs width, wrap_all r width with
    | Some ls, Some rest => Some (join_nl ls :: rest)
    | _, _ => None
    end
  end.

Inductive rres (A : Type) := ROk (a : A) | RValueError | ROutOfModel.
Arguments ROk {A}. Arguments RValueError {A}. Arguments ROutOfModel {A}.

(* TextWidget.render(width): clear(); write(text, width=width, wordwrap=True)
   - `if not text: return`
   - textwrap raises ValueError for width <= 0
   - the wrapped text is typed with width=None from (0,0), not in block mode        *)
Definition render_text (t : text) (width : Z) : rres buffer :=
  match t_text t with
  | [] => ROk []
  | _ =>
    if (width <=? 0)%Z then RValueError
    else match wrap_all (t_chunks t) (Z.to_nat width) with
         | Some ls => ROk (fst (typewriter (join_nl ls) [] 0 0 0 None false))
         | None => ROutOfModel
         end
  end.

(* a chunker that needs no oracle, for labels and for stand-alone execution of the model:
   maximal runs of blanks / non-blanks of the munged line (= CPython's splitter on text without
   hyphens; the harness checks that equality wherever it relies on it) *)
Fixpoint simple_chunks_aux (s : str) (cur : str) (cur_blank : bool) : list str :=
  match s with
  | [] => match cur with [] => [] | _ => [rev cur] end
  | c :: r =>
    let b := (c =? SP)%N in
    match cur with
    | [] => simple_chunks_aux r [c] b
    | _ => if Bool.eqb b cur_blank then simple_chunks_aux r (c :: cur) cur_blank
           else rev cur :: simple_chunks_aux r [c] b
    end
  end.
Definition simple_chunks (line : str) : list str := simple_chunks_aux (munge line) [] false.
Definition simple_text (s : str) : text :=
  {| t_text := s; t_chunks := map simple_chunks (split_lines s) |}.
