(* Adv — the stock dialogs of simpleline/render/adv_widgets.py inside the screen-layer model (auxiliary
   theorem file, not a numbered property).
   AdvWidgets.v gives for every stock class the [screen_spec] that describes it.  The screen-layer theorems
   C04..C08, C18 hold for EVERY table of specs; this file records (a) what the specs of the stock dialogs
   answer, key by key, (b) what the quit protocol of ScreenScheduler.process_input_result does with the answer
   of the configured dialog, (c) that the stock specs are well-formed members of any table, with C04 and C08
   instantiated for "the application's own screens ++ stock dialogs".
   The correspondence of these specs with the real classes is checked by checks/adv_corr.py (sessions on the
   real YesNoDialog / ErrorDialog / HelpScreen / GetInputScreen / GetPasswordInputScreen / PasswordDialog
   against the model run on [adv_spec kind]).
   Only theorem statements; every proof is [exact] of a lemma in proofs/AdvWidgetsProofs.v. *)
From Coq Require Import ZArith NArith List Bool.
From RecordUpdate Require Import RecordUpdate.
From SL Require Import PyInt LoopSem ScreenSem ScreenMon AdvWidgets proofs.ScreenLink proofs.AdvWidgetsProofs.
Import ListNotations.

(* ---------------------------------------------------------------- (a) the answers, key by key *)
(* [input_entry sp key] = what ScreenSem.call_input runs and returns for the key (table entry or default) *)
Theorem Adv_yesno_table : forall key,
  input_entry yes_no_dialog_spec key =
  if str_eqb key s_yes then ([SSetAnswer AnsTrue], RClose)
  else if str_eqb key s_no then ([SSetAnswer AnsOther], RClose)
  else ([], RDiscarded).
Proof. exact yesno_table. Qed.

(* the follow-up action (InputManager._process_input): close for yes / no, rejection for EVERY other key —
   also for c / r / q: the dialog returns DISCARDED, not the key, so no global key works inside it *)
Theorem Adv_yesno_action : forall key,
  action_of (snd (input_entry yes_no_dialog_spec key)) = if str_eqb key s_yes || str_eqb key s_no then AClose else AError.
Proof. exact yesno_action. Qed.

Theorem Adv_str_eqb_eq : forall k k', str_eqb k k' = true <-> k = k'.
Proof. exact str_eqb_iff. Qed.

(* in any session, in any state: input("yes") on a screen whose spec is the YesNoDialog's emits the one
   T_INPUT event, sets the screen's answer to True and returns PROCESSED_AND_CLOSE; "no": answer False;
   anything else: the answer is left alone, DISCARDED.  [after_input] is the state afterwards. *)
Theorem Adv_yesno_answers : forall specs scr f s,
  specs scr = yes_no_dialog_spec -> scr < length (st_scr (ust s)) ->
  (exists s', exec (screen_code specs) (10 + f) (CProg (call_input specs scr s_yes)) s = (ONormal, s') /\
     ss_answer (scr_of (ust s') scr) = AnsTrue /\ action_of (st_rv (ust s')) = AClose /\
     trace s' = EUser T_INPUT [scr; ss_input_args (scr_of (ust s) scr)] s_yes :: trace s /\
     st_stack (ust s') = st_stack (ust s)) /\
  (exists s', exec (screen_code specs) (10 + f) (CProg (call_input specs scr s_no)) s = (ONormal, s') /\
     ss_answer (scr_of (ust s') scr) = AnsOther /\ action_of (st_rv (ust s')) = AClose /\
     trace s' = EUser T_INPUT [scr; ss_input_args (scr_of (ust s) scr)] s_no :: trace s /\
     st_stack (ust s') = st_stack (ust s)) /\
  (forall key, key <> s_yes -> key <> s_no ->
   exists s', exec (screen_code specs) (8 + f) (CProg (call_input specs scr key)) s = (ONormal, s') /\
     ss_answer (scr_of (ust s') scr) = ss_answer (scr_of (ust s) scr) /\ action_of (st_rv (ust s')) = AError /\
     trace s' = EUser T_INPUT [scr; ss_input_args (scr_of (ust s) scr)] key :: trace s /\
     st_stack (ust s') = st_stack (ust s)).
Proof. exact yesno_answers. Qed.

(* the dialog's `answer` exists before any callback ran (__init__: self._response = None), for every table and
   every position of the dialog in it; refresh() leaves it alone.  Hence, by Adv_quit_protocol, a YesNoDialog or
   PasswordDialog as quit dialog whose push returns without an answer does NOT quit (the AttributeError branch is
   for dialogs without the property: ErrorDialog, HelpScreen, GetInputScreen) *)
Theorem Adv_initial_answer : forall specl typed quit run_empty i sp,
  nth_error specl i = Some sp -> ss_answer (scr_of (sstate0 specl typed quit run_empty) i) = sc_answer0 sp.
Proof. exact initial_answer. Qed.

Theorem Adv_answer0 : forall k,
  sc_answer0 (adv_spec k) = match k with KYesNo | KPassword => AnsOther | _ => AnsNoAttr end.
Proof. exact adv_answer0. Qed.

Theorem Adv_yesno_refresh : forall specs d f s,
  specs (sd_scr d) = yes_no_dialog_spec ->
  exists s', exec (screen_code specs) (6 + f) (CProg (call_refresh specs d)) s = (ONormal, s') /\
    trace s' = EUser T_REFRESH [sd_id d; sd_scr d; sd_args d] [] :: trace s /\
    st_stack (ust s') = st_stack (ust s) /\
    ss_answer (scr_of (ust s') (sd_scr d)) = ss_answer (scr_of (ust s) (sd_scr d)).
Proof. exact yesno_refresh. Qed.

(* GetInputScreen / GetPasswordInputScreen: for EVERY key the table built from the acceptance conditions
   answers as GetInputScreen._test_input does: accepted = PROCESSED_AND_CLOSE, else DISCARDED *)
Theorem Adv_getinput_table : forall conds key,
  input_entry (get_input_screen_spec conds) key = ([], accept_ret (test_input conds key)).
Proof. exact getinput_table. Qed.

Theorem Adv_getinput_action : forall conds key,
  action_of (snd (input_entry (get_input_screen_spec conds) key)) = if test_input conds key then AClose else AError.
Proof. exact getinput_action. Qed.

Theorem Adv_getinput_run : forall specs conds scr key f s,
  specs scr = get_input_screen_spec conds ->
  exists s', exec (screen_code specs) (8 + f) (CProg (call_input specs scr key)) s = (ONormal, s') /\
    st_rv (ust s') = accept_ret (test_input conds key) /\
    trace s' = EUser T_INPUT [scr; ss_input_args (scr_of (ust s) scr)] key :: trace s /\
    st_stack (ust s') = st_stack (ust s).
Proof. exact getinput_run_ex. Qed.

(* HelpScreen: any key closes;  ErrorDialog: any key is sys.exit(1);
   PasswordDialog.input: the empty line is rejected, any other line is stored and closes *)
Theorem Adv_help_table : forall key, input_entry help_screen_spec key = ([], RClose).
Proof. exact help_table. Qed.

Theorem Adv_error_table : forall key, input_entry error_dialog_spec key = ([SSysExit], RNone).
Proof. exact error_table. Qed.

(* InputManager.process_input on an ErrorDialog, any key, any state: SystemExit leaves through `except Exception`;
   exactly one event (the T_INPUT): no follow-up action, no ExceptionSignal, the stack untouched *)
Theorem Adv_error_exits : forall specs scr key f s,
  specs scr = error_dialog_spec ->
  exists s', exec (screen_code specs) (12 + f) (CProg (process_input specs scr key)) s = (OThrow XSysExit, s') /\
    trace s' = EUser T_INPUT [scr; ss_input_args (scr_of (ust s) scr)] key :: trace s /\
    st_stack (ust s') = st_stack (ust s).
Proof. exact error_process. Qed.

Theorem Adv_password_table : forall key,
  input_entry password_dialog_spec key = match key with [] => ([], RDiscarded) | _ => ([SSetAnswer AnsOther], RClose) end.
Proof. exact password_table. Qed.

(* ---------------------------------------------------------------- (b) the quit protocol *)
(* the quit key with a quit dialog configured: the dialog is pushed modally (whatever happens inside: one
   [exec] of push_screen_modal); when that returns normally the application quits iff the dialog's answer is
   True or the dialog has no `answer`; otherwise exactly one RenderScreenSignal is created and enqueued *)
Theorem Adv_quit_protocol : forall specs qs top rest sr f s,
  st_stack (ust s) = top :: rest -> st_quit (ust s) = Some qs ->
  exec (screen_code specs) (6 + f) (CProg (process_input_result specs AQuit sr)) s =
  let '(o, s1) := exec (screen_code specs) (3 + f) (CProg (push_screen_modal specs qs 0)) s in
  match o with
  | ONormal =>
    match ss_answer (scr_of (ust s1) qs) with
    | AnsOther => let '(sg, s2) := new_signal s1 (render_spec None) in (ONormal, do_enqueue s2 sg)
    | _ => (OThrow XExit, s1)
    end
  | _ => (o, s1)
  end.
Proof. exact quit_protocol. Qed.

Theorem Adv_quit_without_dialog : forall specs top rest sr f s,
  st_stack (ust s) = top :: rest -> st_quit (ust s) = None ->
  exec (screen_code specs) (3 + f) (CProg (process_input_result specs AQuit sr)) s = (OThrow XExit, s).
Proof. exact no_quit_screen. Qed.

(* ---------------------------------------------------------------- (c) members of any table *)
(* no stock dialog issues a stack operation: well-formed in a table of any size *)
Theorem Adv_specs_wf : forall n k, spec_wf n (adv_spec k) = true.
Proof. exact adv_spec_wf. Qed.

(* adding stock dialogs to a well-formed session keeps it well-formed *)
Theorem Adv_wf_extend : forall own ks quit acts,
  wf_session own quit acts = true -> wf_session (own ++ map adv_spec ks) quit acts = true.
Proof. exact adv_wf_extend. Qed.

(* the application's own screens may push / schedule the dialogs, and a dialog may be the quit screen *)
Theorem Adv_wf_session : forall own ks quit acts,
  forallb (spec_wf (length own + length ks)) own = true ->
  match quit with Some q => q < length own + length ks | None => True end ->
  forallb (saction_wf (length own + length ks)) acts = true ->
  wf_session (own ++ map adv_spec ks) quit acts = true.
Proof. exact adv_wf_session. Qed.

(* C04 and C08 for applications that use the stock dialogs (instances of the general theorems) *)
(* the hypothesis of C04 / C08 about setup() with commands concerns the application's own screens only: the stock
   dialogs' setup() runs no commands *)
Theorem Adv_setup_hypothesis : forall specs own ks,
  (forall n, specs n = nth n (own ++ map adv_spec ks) default_spec) ->
  (forall sp, In sp own -> In false (sc_setup sp) -> sc_setup_cmds sp = []) ->
  failing_setup_plain specs.
Proof. exact adv_failing_setup_plain. Qed.

Theorem Adv_C04_covered : forall specs own ks typed quit run_empty fuel acts,
  failing_setup_plain specs ->
  (forall n, specs n = nth n (own ++ map adv_spec ks) default_spec) ->
  sok chk_C04 typed (rev (trace (snd (app_run_all specs (own ++ map adv_spec ks) typed quit run_empty fuel acts)))) = true.
Proof. exact adv_C04. Qed.

Theorem Adv_C08_covered : forall specs own ks typed quit run_empty fuel acts,
  failing_setup_plain specs ->
  (forall n, specs n = nth n (own ++ map adv_spec ks) default_spec) ->
  forallb (spec_wf (length own + length ks)) own = true ->
  match quit with Some q => q < length own + length ks | None => True end ->
  forallb (saction_wf (length own + length ks)) acts = true ->
  sok chk_C08 typed (rev (trace (snd (app_run_all specs (own ++ map adv_spec ks) typed quit run_empty fuel acts)))) = true.
Proof. exact adv_C08. Qed.

(* ---------------------------------------------------------------- a non-trivial instance *)
(* one plain screen (returns the key: q is the quit key), the YesNoDialog as quit dialog.
   typed: q, x (rejected by the dialog), no (back to the screen), q, c (rejected: no global key in the dialog), yes *)
Definition ex_specl : list screen_spec := [stock_base] ++ map adv_spec [KYesNo].
Definition ex_typed : list (option str) :=
  [Some [113]; Some [120]; Some s_no; Some [113]; Some [99]; Some s_yes; Some [120]]%N.
Definition ex_run :=
  app_run_all (fun n => nth n ex_specl default_spec) ex_specl ex_typed (Some 1) false 3000 [SACmds [SSchedule 0 0]; SARun].

Example Adv_example :
  wf_session ex_specl (Some 1) [SACmds [SSchedule 0 0]; SARun] = true /\
  fst ex_run = [ONormal; ONormal] /\                                    (* run() returned: the application quit *)
  map ss_answer (st_scr (ust (snd ex_run))) = [AnsNoAttr; AnsTrue] /\
  st_typed (ust (snd ex_run)) = [Some [120%N]] /\                        (* ... exactly after "yes" *)
  (* the actions: q -> quit(3); x -> rejected(4); no -> close(2); q -> quit(3); c -> rejected(4); yes -> close(2) *)
  flat_map (fun e => match e with EUser 19 [scr; a] _ => [(scr, a)] | _ => [] end) (rev (trace (snd ex_run)))
    = [(0, 3); (1, 4); (1, 2); (0, 3); (1, 4); (1, 2)] /\
  sok (chk_C07 (Some 1)) ex_typed (rev (trace (snd ex_run))) = true.
Proof. vm_compute. repeat split. Qed.

(* the quit dialog that was never rendered: the handler of "1" calls force_quit() and returns the quit key;
   push_screen_modal returns at once, the YesNoDialog's answer is None: no ExitMainLoop from the handler (every
   handler ends normally), the redraw signal is discarded by the stopped loop *)
Definition ex2_specl : list screen_spec :=
  [ {| sc_setup := []; sc_refresh := []; sc_show := []; sc_closed := [];
       sc_input := [([49%N], ([SForceQuit], RKey [113%N]))]; sc_input_default := ([], None);
       sc_prompt_none := false; sc_input_required := true; sc_no_separator := false; sc_skip_check := false;
       sc_pages := 0; sc_answer0 := AnsNoAttr; sc_custom := []; sc_setup_cmds := [] |} ] ++ map adv_spec [KYesNo].
Definition ex2_run :=
  app_run_all (fun n => nth n ex2_specl default_spec) ex2_specl [Some [49%N]; Some s_yes] (Some 1) false 3000
              [SACmds [SSchedule 0 0]; SARun].

Example Adv_example_never_rendered :
  fst ex2_run = [ONormal; ONormal] /\
  map ss_answer (st_scr (ust (snd ex2_run))) = [AnsNoAttr; AnsOther] /\
  existsb (fun e => match e with EDropped _ => true | _ => false end) (trace (snd ex2_run)) = true /\
  forallb (fun e => match e with EHandlerEnd _ _ (Some _) => false | _ => true end) (trace (snd ex2_run)) = true /\
  sok (chk_C07 (Some 1)) [Some [49%N]; Some s_yes] (rev (trace (snd ex2_run))) = true.
Proof. vm_compute. repeat split. Qed.

Print Assumptions Adv_yesno_table.
Print Assumptions Adv_yesno_action.
Print Assumptions Adv_str_eqb_eq.
Print Assumptions Adv_yesno_answers.
Print Assumptions Adv_initial_answer.
Print Assumptions Adv_answer0.
Print Assumptions Adv_yesno_refresh.
Print Assumptions Adv_getinput_table.
Print Assumptions Adv_getinput_action.
Print Assumptions Adv_getinput_run.
Print Assumptions Adv_help_table.
Print Assumptions Adv_error_table.
Print Assumptions Adv_error_exits.
Print Assumptions Adv_password_table.
Print Assumptions Adv_quit_protocol.
Print Assumptions Adv_quit_without_dialog.
Print Assumptions Adv_specs_wf.
Print Assumptions Adv_wf_extend.
Print Assumptions Adv_wf_session.
Print Assumptions Adv_C04_covered.
Print Assumptions Adv_C08_covered.
Print Assumptions Adv_setup_hypothesis.
