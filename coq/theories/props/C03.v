(* C03 — a nested (modal) loop is isolated: outer work is held, not lost, then resumed.
   Only theorem statements; every proof is [exact] of a lemma in proofs/. *)
From Coq Require Import ZArith NArith List Bool.
From SL Require Import LoopSem LoopProg Monitors proofs.LoopLink proofs.C01Proofs proofs.C03Proofs.
Import ListNotations.

(* Every trace of every session is accepted by the monitor [chk_C03_partial]:
   - every enqueue goes to [route_target]: the innermost open level that owns the signal's source, else the
     active (innermost) level;
   - every dispatch and every partial-batch re-queue reads the ACTIVE level's queue, at depth = number of open levels;
   - close_loop pops the top level;
   - execute_new_loop returns only once its level has left the stack — except for a level opened while a stop
     request was pending (finding F13: see C03_strict_refuted), which is exempt. *)
Theorem C03_isolation : forall U (code : nat -> signal -> nat -> prog U) fuel acts (u : U),
  ok_C03_partial (rev (trace (snd (run_session code fuel acts (init_state u))))) = true.
Proof. exact @isolation. Qed.

(* The exemption is needed: a handler that closes its loop and then opens a new one gets the new loop back at
   once, its level still open.  The strict monitor (the property as stated) rejects this session, the
   non-strict one accepts it. *)
Definition C03_f13_bodies : list (list cmd) :=
  [ [CmNewLoop 2 0 None; CmExit]; [CmCloseLoop; CmNewLoop 3 0 None; CmMark 5]; [CmCloseLoop] ].
Definition C03_f13_acts : list (top counters) :=
  [ TProg (compile_cmds 0 [CmRegHandler 1 0 0; CmRegHandler 2 1 0; CmRegHandler 3 2 0; CmEnqueue 1 0 None]); TRun ].
Example C03_strict_refuted : exists bodies acts,
  let t := rev (trace (snd (run_session (handler_prog bodies) 200 acts (init_state [])))) in
  ok_C03 t = false /\ ok_C03_partial t = true.
Proof. exists C03_f13_bodies, C03_f13_acts. vm_compute. split; reflexivity. Qed.

(* Held, not lost (a fact about accepted traces alone): while a level is not the active one, an accepted event
   changes its pending content only by stably inserting a signal routed to it ... *)
Theorem C03_held_not_lost : forall w e, chk_C03_partial w e = true -> forall q, q <> w_active w ->
  pend (world_step w e) q = pend w q \/
  exists p sid, e = EEnq sid q /\ pend (world_step w e) q = stable_insert p sid (pend w q).
Proof. exact held_not_lost. Qed.

(* ... and anything that leaves any queue is its head, taken by a dispatch from the active level at full depth. *)
Theorem C03_only_active_dispatched : forall w e q, chk_C03_partial w e = true ->
  pend (world_step w e) q = tl (pend w q) -> pend (world_step w e) q <> pend w q ->
  exists sid d, e = EDispatch sid q d /\ q = w_active w /\ d = length (w_levels w).
Proof. exact only_active_dispatched. Qed.

(* Closing resumes the enclosing loop where it stopped: the level below becomes the active one, with its
   held content and its sources untouched (which C01 then dispatches in order). *)
Theorem C03_close_resumes : forall w q, let w' := world_step w (EClosePop q) in
  w_levels w' = removelast (w_levels w) /\
  (forall a, last_opt (removelast (w_levels w)) = Some a -> w_active w' = a) /\
  (forall q0, pend w' q0 = pend w q0) /\ (forall q0, sources w' q0 = sources w q0).
Proof. exact closepop_resumes. Qed.

(* The model's state is what the observer reconstructs (the link), so the statements about worlds are
   statements about the loop: levels, active queue, sources and sorted pending content agree. *)
Theorem C03_world_is_state : forall U (code : nat -> signal -> nat -> prog U) fuel acts (u : U),
  let s := snd (run_session code fuel acts (init_state u)) in
  w_levels (W s) = levels s /\ w_active (W s) = active s /\
  (forall q, sources (W s) q = eq_sources (get_q s q)) /\ (forall q, pend (W s) q = abs (get_q s q)).
Proof. exact @world_is_state. Qed.

(* execute_new_loop does not return to its caller before its loop was stopped: on a normal return the stack is
   no deeper than before the call (one deeper only if a stop request was already pending: F13), or everything
   was force-quit. *)
Theorem C03_newloop_blocks_until_closed : forall U (code : nat -> signal -> nat -> prog U) fuel sp s s',
  link s -> exec code fuel (CApi (ANewLoop sp)) s = (ONormal, s') ->
  length (levels s') <= length (levels s) + (if run_loop s then 0 else 1) \/ force_quit s' = true.
Proof. exact @newloop_blocks_until_closed. Qed.

(* non-vacuity: depth-3 nesting, source 10 registered at level 0 and source 11 at level 1; from level 2 signals
   are enqueued for 10 (-> queue 0), for 11 (-> queue 1, twice) and for nobody (-> queue 2); the loops are
   closed in order; the held signals are dispatched afterwards by their own levels.  Accepted by the STRICT monitor. *)
Definition C03_bodies : list (list cmd) :=
  [ [CmNewLoop 2 0 None; CmMark 1];
    [CmRegSource 11; CmNewLoop 3 0 None; CmMark 2; CmCloseLoop];
    [CmEnqueue 4 0 (Some 10); CmEnqueue 5 0 (Some 11); CmEnqueue 4 0 None; CmEnqueue 5 0 (Some 11); CmCloseLoop];
    [CmIfCount 1 [CmMark 7] [CmMark 8; CmExit]];
    [CmMark 9] ].
Definition C03_acts : list (top counters) :=
  [ TProg (compile_cmds 0 [CmRegHandler 1 0 0; CmRegHandler 2 1 0; CmRegHandler 3 2 0; CmRegHandler 4 3 0;
                           CmRegHandler 5 4 0; CmRegSource 10; CmEnqueue 1 0 None]); TRun ].
Definition C03_trace : list event :=
  rev (trace (snd (run_session (handler_prog C03_bodies) 300 C03_acts (init_state [])))).
Example C03_example :
  ok_C03 C03_trace = true /\
  flat_map (fun e => match e with EEnq sid q => [(sid, q)] | _ => [] end) C03_trace
    = [(0, 0); (1, 1); (2, 2); (3, 0); (4, 1); (5, 2); (6, 1)] /\
  flat_map (fun e => match e with EDispatch sid q d => [(sid, q, d)] | _ => [] end) C03_trace
    = [(0, 0, 1); (1, 1, 2); (2, 2, 3); (5, 2, 3); (4, 1, 2); (6, 1, 2); (3, 0, 1)].
Proof. vm_compute. repeat split. Qed.

Print Assumptions C03_isolation.
Print Assumptions C03_held_not_lost.
Print Assumptions C03_only_active_dispatched.
Print Assumptions C03_close_resumes.
Print Assumptions C03_world_is_state.
Print Assumptions C03_newloop_blocks_until_closed.
