(* C16 — rendering depends only on current content and width, not on render history.
   Only theorem statements; proofs are [exact] of lemmas in proofs/ContainersProofs.v and
   proofs/ContainersHistory.v (or [reflexivity] for definitional facts).

   In the model a render is a pure function [render_tree : wtree -> Z -> rres buffer], and the
   model of a long-lived object (ContainerObject.v: run_ops) has the tree as its only state:
   after fix b8b32a9 the Python keeps nothing from one render() to the next except the items
   (self._numbering_widgets is rebuilt by every render, every buffer is cleared first).  Hence
   C16_idempotent .. C16_other_widget below are immediate consequences of that choice of state —
   they say what the property means for the model, they are NOT where the confidence comes from.
   The content of C16 is (a) C16_fuel_irrelevant, which makes "the" render of a tree well defined,
   (b) the correspondence run of checks/C16.py, which drives real long-lived objects through random
   histories and compares every get_lines() with [run_ops] and with a freshly built equal tree, and
   (c) C16_legacy_refuted_*, the pre-fix behaviour, for which the same statements are false. *)
From Coq Require Import ZArith NArith List.
From SL Require Import PyInt Widget TextWrap KeyPattern Containers ContainerObject LegacyContainers
     proofs.ContainersProofs proofs.ContainersHistory.
Import ListNotations.

(* the fuel of [render] only bounds the nesting depth: any sufficient fuel gives the same result *)
Theorem C16_fuel_irrelevant : forall f1 f2 t w,
  depth t <= f1 -> depth t <= f2 -> render f1 t w = render f2 t w.
Proof. exact render_fuel_irrelevant. Qed.

(* whatever the history (renders at any widths, additions anywhere in the tree, renders of other
   trees), a render at w shows the render of the current tree at w *)
Theorem C16_history_irrelevant : forall ops t w,
  run_ops t (ops ++ [ORender w]) = run_ops t ops ++ [render_tree (final_tree t ops) w].
Proof. exact history_irrelevant. Qed.

(* the current tree is the initial tree plus the additions: renders do not count *)
Theorem C16_renders_leave_tree : forall ops t, final_tree t ops = final_tree t (filter is_add ops).
Proof. exact final_tree_adds_only. Qed.

(* rendering again after any history without additions gives the same lines as the first time *)
Theorem C16_render_again : forall ops t w,
  (forall o, In o ops -> is_add o = false) ->
  run_ops t (ORender w :: ops ++ [ORender w]) = render_tree t w :: run_ops t ops ++ [render_tree t w].
Proof. exact render_again. Qed.

(* trivial corollaries (see the header) *)
Theorem C16_idempotent : forall t w, run_ops t [ORender w; ORender w] = [render_tree t w; render_tree t w].
Proof. reflexivity. Qed.

Theorem C16_width_roundtrip : forall t w w',
  run_ops t [ORender w; ORender w'; ORender w] = [render_tree t w; render_tree t w'; render_tree t w].
Proof. reflexivity. Qed.

(* adding after a render gives the render of the larger container built from scratch *)
Theorem C16_add_after_render : forall t p x w,
  run_ops t [ORender w; OAdd p x; ORender w] = [render_tree t w; render_tree (add_at p t x) w].
Proof. reflexivity. Qed.

Theorem C16_add_is_append : forall k c items f s kp xs,
  fold_left add_item xs (WList k c items f s kp) = WList k c (items ++ xs) f s kp.
Proof. exact add_items_list. Qed.

(* rendering one widget never changes how another renders *)
Theorem C16_other_widget : forall t t' w w',
  run_ops t [ORender w; OOther t' w'; ORender w] = [render_tree t w; render_tree t' w'; render_tree t w].
Proof. reflexivity. Qed.

(* ---------------------------------------------------------------- what fix b8b32a9 removed *)
Local Open Scope N_scope.
Definition tA := simple_text [97;97;97;32;98;98;98;32;99;99;99].   (* "aaa bbb ccc" *)
Definition tB := simple_text [100;100].                              (* "dd" *)
Definition tC := simple_text [99].                                   (* "c" *)

(* ListRowContainer(2, ["aaa bbb ccc", "dd"]): render(40) then render(20) keeps the column width
   of the first render and draws a 26 character line at width 20; a fresh object does not *)
Example C16_legacy_refuted_width :
  let o := legacy_new KRow 2%Z [tA; tB] None 3%Z (Some default_pattern) in
  let after40 := fst (legacy_render o 40%Z) in
  snd (legacy_render after40 20%Z) <> snd (legacy_render o 20%Z) /\
  snd (legacy_render after40 20%Z) =
    ROk [[49;41;32;97;97;97;32;98;98;98;32;99;99;99;32;32;32;32;32;32;32;50;41;32;100;100]] /\
  (* on a fresh object the legacy code and the current model agree *)
  snd (legacy_render o 20%Z) = render_tree (WList KRow 2%Z [WText tA; WText tB] None 3%Z (Some default_pattern)) 20%Z.
Proof. vm_compute. repeat split. discriminate. Qed.

(* ListRowContainer(1, [..2 items..]): render, add a third item, render: the third item is
   labelled "1)" (the label list of the first render was kept and indexed from 0) *)
Example C16_legacy_refuted_labels :
  let o := legacy_new KRow 1%Z [tA; tB] None 3%Z (Some default_pattern) in
  let o' := legacy_add (fst (legacy_render o 30%Z)) tC in
  snd (legacy_render o' 30%Z) =
    ROk [[49;41;32;97;97;97;32;98;98;98;32;99;99;99]; [50;41;32;100;100]; [49;41;32;99]] /\
  render_tree (WList KRow 1%Z [WText tA; WText tB; WText tC] None 3%Z (Some default_pattern)) 30%Z =
    ROk [[49;41;32;97;97;97;32;98;98;98;32;99;99;99]; [50;41;32;100;100]; [51;41;32;99]].
Proof. vm_compute. repeat split. Qed.

(* non-vacuity of the history theorems: a nested tree, renders at two widths around an addition
   into the inner list, and another tree rendered in between *)
Example C16_example :
  let inner := WList KCol 2%Z [WText tA; WText tB] None 1%Z (Some default_pattern) in
  let t := WWindow None [WText tC; inner] in
  let ops := [ORender 30%Z; ORender 12%Z; OOther inner 20%Z; OAdd [1%nat] (WText tC); ORender 30%Z] in
  final_tree t ops = WWindow None [WText tC; WList KCol 2%Z [WText tA; WText tB; WText tC] None 1%Z (Some default_pattern)] /\
  length (run_ops t ops) = 4%nat /\
  nth 3 (run_ops t ops) RValueError <> nth 0 (run_ops t ops) RValueError /\
  nth 3 (run_ops t ops) RValueError = render_tree (final_tree t ops) 30%Z.
Proof. vm_compute. repeat split. discriminate. Qed.

Print Assumptions C16_fuel_irrelevant.
Print Assumptions C16_history_irrelevant.
Print Assumptions C16_renders_leave_tree.
Print Assumptions C16_render_again.
Print Assumptions C16_idempotent.
Print Assumptions C16_width_roundtrip.
Print Assumptions C16_add_after_render.
Print Assumptions C16_add_is_append.
Print Assumptions C16_other_widget.
