(* C13 — list containers show every item once, in order, without overlap, within width.
   Only theorem statements; every proof is [exact] of a lemma in proofs/Containers*.v.
   Model: Containers.v (ordered_map_row/col, lines_per_every_row, render_all_items,
   draw_list_col(s), render), mirroring ListRowContainer / ListColumnContainer line by line. *)
From Coq Require Import ZArith NArith List Bool Permutation Sorted.
From SL Require Import PyInt Widget TextWrap KeyPattern Containers
     proofs.WidgetProofs proofs.ContainersProofs proofs.ContainersLayout proofs.ContainersGeom proofs.ContainersCells proofs.ContainersBlank proofs.ContainersFinal.
Import ListNotations.

(* ---------------------------------------------------------------- 1. row container: row-major *)
(* one list per column *)
Theorem C13_order_row_columns : forall n c, length (ordered_map_row n c) = c.
Proof. exact omap_row_length. Qed.

(* item i is found in column i mod c at row i / c *)
Theorem C13_order_row : forall n c i, 0 < c -> i < n ->
  nth_error (nth (i mod c) (ordered_map_row n c) []) (i / c) = Some i.
Proof. exact order_row_position. Qed.

(* and a grid position holds nothing else: (column k, row r) shows item r*c + k or nothing *)
Theorem C13_order_row_only : forall n c k r i, k < c ->
  nth_error (nth k (ordered_map_row n c) []) r = Some i -> i < n /\ i mod c = k /\ i / c = r.
Proof. exact order_row_position_inv. Qed.

(* every column lists its items in increasing order *)
Theorem C13_order_row_increasing : forall n c k, StronglySorted lt (nth k (ordered_map_row n c) []).
Proof. exact order_row_sorted. Qed.

(* the columns together hold exactly the items 0..n-1, each once *)
Theorem C13_order_row_partition : forall n c, 0 < c -> Permutation (concat (ordered_map_row n c)) (seq 0 n).
Proof. exact order_row_partition. Qed.

Theorem C13_order_row_once : forall n c i, 0 < c -> i < n ->
  count_occ Nat.eq_dec (concat (ordered_map_row n c)) i = 1.
Proof. intros n c i Hc Hi. exact (perm_seq_count _ n i (order_row_partition n c Hc) Hi). Qed.

(* ---------------------------------------------------------------- 2. column container: column-major *)
Theorem C13_order_col_columns : forall n c, length (ordered_map_col n c) = c.
Proof. exact omap_col_length. Qed.

(* with p = ceil(n / c) items per column, item i is found in column i / p at row i mod p *)
Theorem C13_order_col : forall n c i, 0 < c -> i < n ->
  let p := ceil_div n c in
  nth_error (nth (i / p) (ordered_map_col n c) []) (i mod p) = Some i.
Proof. exact order_col_position. Qed.

Theorem C13_order_col_only : forall n c k r i, k < c ->
  let p := ceil_div n c in
  nth_error (nth k (ordered_map_col n c) []) r = Some i -> i < n /\ i / p = k /\ i mod p = r.
Proof. exact order_col_position_inv. Qed.

Theorem C13_order_col_increasing : forall n c k, StronglySorted lt (nth k (ordered_map_col n c) []).
Proof. exact order_col_sorted. Qed.

(* column-major: reading column after column gives 0, 1, ..., n-1 (hence a partition) *)
Theorem C13_order_col_major : forall n c, 0 < c -> concat (ordered_map_col n c) = seq 0 n.
Proof. exact order_col_concat. Qed.

Theorem C13_order_col_partition : forall n c, 0 < c -> Permutation (concat (ordered_map_col n c)) (seq 0 n).
Proof. exact order_col_partition. Qed.

(* ---------------------------------------------------------------- 3. refusal *)
(* the column width render() computes: the forced one, or int((width - (columns-1)*spacing) / columns) *)
Theorem C13_columns_width_def : forall columns forced spacing width,
  list_columns_width columns forced spacing width =
  match forced with Some cw => cw | None => Z.quot (width - (columns - 1) * spacing) columns end.
Proof. reflexivity. Qed.

(* a list that is drawn had at least one character column for every item, next to its label *)
Theorem C13_refusal : forall kind columns items forced spacing kp w b,
  render_tree (WList kind columns items forced spacing kp) w = ROk b ->
  items = [] \/
  ((0 < list_columns_width columns forced spacing w)%Z /\
   forall i kp', i < length items -> kp = Some kp' ->
     (0 < list_columns_width columns forced spacing w - Z.of_nat (length (get_widget_label kp' i)))%Z).
Proof. exact list_ok_room. Qed.

(* conversely: items but no room for a column => ValueError *)
Theorem C13_refused_narrow : forall kind columns items forced spacing kp w,
  (0 < columns)%Z -> items <> [] -> (list_columns_width columns forced spacing w <= 0)%Z ->
  render_tree (WList kind columns items forced spacing kp) w = RValueError.
Proof. exact list_refused_narrow. Qed.

(* numbering on and some label leaves no room for its item => ValueError, provided the labels
   render (they are one-line texts rendered at their own length) and the items before it render *)
Theorem C13_refused_label : forall kind columns items forced spacing kp' w i,
  (0 < columns)%Z -> i < length items ->
  let cw := list_columns_width columns forced spacing w in
  (cw - Z.of_nat (length (get_widget_label kp' i)) <= 0)%Z ->
  (forall j, j <= i -> exists lb, label_buffer kp' j = ROk lb) ->
  (forall j it, j < i -> nth_error items j = Some it ->
     exists b, render_tree it (cw - Z.of_nat (length (get_widget_label kp' j)))%Z = ROk b) ->
  render_tree (WList kind columns items forced spacing (Some kp')) w = RValueError.
Proof. exact list_refused_label. Qed.

(* ---------------------------------------------------------------- 4. row heights *)
(* the height of row r is the maximum height of the items that sit in row r ... *)
Theorem C13_row_heights : forall omap heights r,
  nth r (lines_per_every_row omap heights) 0 =
  list_max (map (fun i => nth i heights 0) (row_items omap r)).
Proof. exact row_heights_max. Qed.

(* ... where the items of row r are, for the two containers: *)
Theorem C13_row_items_row : forall n c r i, 0 < c ->
  In i (row_items (ordered_map_row n c) r) <-> i < n /\ i / c = r.
Proof. exact row_items_row. Qed.

Theorem C13_row_items_col : forall n c r i, 0 < c ->
  In i (row_items (ordered_map_col n c) r) <-> i < n /\ i mod ceil_div n c = r.
Proof. exact row_items_col. Qed.

(* every item fits in its row; the row is no higher than its tallest item; the number of rows *)
Theorem C13_row_height_fits : forall omap heights r i,
  In i (row_items omap r) -> nth i heights 0 <= nth r (lines_per_every_row omap heights) 0.
Proof. exact row_height_bounds_item. Qed.

Theorem C13_row_height_attained : forall omap heights r,
  row_items omap r <> [] ->
  exists i, In i (row_items omap r) /\ nth r (lines_per_every_row omap heights) 0 = nth i heights 0.
Proof. exact row_height_attained. Qed.

Theorem C13_row_count : forall omap heights,
  length (lines_per_every_row omap heights) = list_max (map (@length nat) omap).
Proof. exact row_heights_count. Qed.

(* the height of a numbered item counts its label (fix e6103fb): an empty item keeps its row *)
Theorem C13_item_height_numbered : forall ib lb lw,
  item_height (ib, Some (lb, lw)) = Nat.max (length ib) (length lb).
Proof. reflexivity. Qed.

Theorem C13_item_height_plain : forall ib, item_height (ib, None) = length ib.
Proof. reflexivity. Qed.

(* ---------------------------------------------------------------- 5. within the requested width *)
(* one level, hypotheses on what the items and labels render to: every line is at most w long.
   _partial: the two hypotheses are C11-type facts about the sub-widgets (an item rendered at w'
   is at most w' wide; a label is at most as wide as its text), not proved here. *)
Theorem C13_within_width_partial : forall kind columns items spacing kp w b,
  (0 <= spacing)%Z ->
  (forall it w' b', In it items -> (0 < w')%Z -> render_tree it w' = ROk b' -> (Z.of_nat (buf_width b') <= w')%Z) ->
  (forall kp' i lb, kp = Some kp' -> label_buffer kp' i = ROk lb -> buf_width lb <= length (get_widget_label kp' i)) ->
  render_tree (WList kind columns items None spacing kp) w = ROk b ->
  Forall (fun l : line => (Z.of_nat (length l) <= w)%Z) b.
Proof. exact list_within_width. Qed.

(* with a forced column width the bound is columns * width + (columns - 1) * spacing *)
Theorem C13_width_bound_partial : forall kind columns items forced spacing kp w b,
  (0 <= spacing)%Z ->
  (forall it w' b', In it items -> (0 < w')%Z -> render_tree it w' = ROk b' -> (Z.of_nat (buf_width b') <= w')%Z) ->
  (forall kp' i lb, kp = Some kp' -> label_buffer kp' i = ROk lb -> buf_width lb <= length (get_widget_label kp' i)) ->
  render_tree (WList kind columns items forced spacing kp) w = ROk b ->
  b = [] \/
  ((0 < list_columns_width columns forced spacing w)%Z /\
   (Z.of_nat (buf_width b) <= columns * list_columns_width columns forced spacing w + (columns - 1) * spacing)%Z).
Proof. exact list_width_bound. Qed.

(* nested containers: for any tree built from texts, separators, centred widgets, list containers
   without forced width and with spacing >= 0, and windows — nested in any way — every line is at
   most w long.  _partial: relative to a class [text_ok] of texts for which TextWidget.render is
   known to respect its width (the C11 theorem is to be plugged in here). *)
Theorem C13_within_width_nested_partial : forall (text_ok : text -> Prop),
  (forall t w b, text_ok t -> (0 < w)%Z -> render_text t w = ROk b -> (Z.of_nat (buf_width b) <= w)%Z) ->
  forall t w b, fit_tree text_ok t -> (0 <= w)%Z -> render_tree t w = ROk b ->
  Forall (fun l : line => (Z.of_nat (length l) <= w)%Z) b.
Proof. exact fit_tree_within_width. Qed.

(* ---------------------------------------------------------------- 6. no overlap (geometry) *)
(* closed form of the drawing loops: under the same hypotheses the buffer of a non-empty list is
   the fold of [draw_item] over the placements (item, first row, first column), where the item at
   (column k, row r) is placed at row [rowstart r] = sum of the heights of the rows above and at
   column k * (columns_width + spacing) *)
Theorem C13_layout_partial : forall kind columns items forced spacing kp w b,
  (0 <= spacing)%Z ->
  (forall it w' b', In it items -> (0 < w')%Z -> render_tree it w' = ROk b' -> (Z.of_nat (buf_width b') <= w')%Z) ->
  (forall kp' i lb, kp = Some kp' -> label_buffer kp' i = ROk lb -> buf_width lb <= length (get_widget_label kp' i)) ->
  render_tree (WList kind columns items forced spacing kp) w = ROk b ->
  items <> [] ->
  let cw := list_columns_width columns forced spacing w in
  let omap := ordered_map kind (length items) (Z.to_nat columns) in
  exists rendered,
    render_all_items render_tree items 0 cw kp = ROk rendered /\
    Forall (item_fits (Z.to_nat cw)) rendered /\
    b = fold_left (draw_item rendered)
          (all_placements omap (lines_per_every_row omap (map item_height rendered)) 0 (Z.to_nat (cw + spacing))) [].
Proof. exact render_list_closed_form. Qed.

Theorem C13_placements : forall lpr pitch i rp cp omap k0,
  In (i, (rp, cp)) (all_placements omap lpr k0 pitch) <->
  exists k r, k < length omap /\ nth_error (nth k omap []) r = Some i /\
              rp = rowstart lpr r /\ cp = (k0 + k) * pitch.
Proof. exact in_all_placements. Qed.

Theorem C13_rowstart : forall lpr r, rowstart lpr 0 = 0 /\ rowstart lpr (S r) = rowstart lpr r + nth r lpr 0.
Proof. intros lpr r. split; [reflexivity|apply rowstart_S]. Qed.

(* the rectangles  rows [rowstart r, rowstart r + height_i) x columns [k*(cw+s), k*(cw+s)+cw)
   of the items at two different grid positions are disjoint *)
Theorem C13_no_overlap : forall omap heights cw s k r i k' r' i',
  k < length omap -> nth_error (nth k omap []) r = Some i ->
  k' < length omap -> nth_error (nth k' omap []) r' = Some i' ->
  (k, r) <> (k', r') ->
  let lpr := lines_per_every_row omap heights in
  let pitch := cw + s in
  k * pitch + cw <= k' * pitch \/ k' * pitch + cw <= k * pitch \/
  rowstart lpr r + nth i heights 0 <= rowstart lpr r' \/ rowstart lpr r' + nth i' heights 0 <= rowstart lpr r.
Proof. exact rects_disjoint. Qed.

(* what is drawn for an item (label at the left edge, the item right of it) stays inside its
   rectangle, and the label stays left of the item *)
Theorem C13_item_inside_rect : forall cw x,
  item_fits cw x ->
  length (fst x) <= item_height x /\
  match snd x with
  | Some (lb, lw) => length lb <= item_height x /\ buf_width lb <= lw /\ lw + buf_width (fst x) <= cw
  | None => buf_width (fst x) <= cw
  end.
Proof. exact item_inside_rect. Qed.

(* cell level: in the rendered list every label and every item can be read in full at its place
   (column k * (columns_width + spacing), row rowstart(r); the item right of its label): nothing
   that is drawn later overwrites it.  [shows b src r0 c0] says that every cell (y, x) of src is the
   cell (r0 + y, c0 + x) of b ([cell], [row_len]: proofs/WidgetProofs.v).  Same hypotheses as above. *)
Theorem C13_shows_def : forall b src r0 c0,
  shows b src r0 c0 <->
  forall y x, y < length src -> x < row_len src y -> cell b (r0 + y) (c0 + x) = cell src y x.
Proof. intros. reflexivity. Qed.

Theorem C13_item_shown_def : forall rendered b i rp cp,
  item_shown rendered b (i, (rp, cp)) <->
  match nth i rendered ([], None) with
  | (ib, Some (lb, lw)) => shows b lb rp cp /\ shows b ib rp (cp + lw)
  | (ib, None) => shows b ib rp cp
  end.
Proof. intros. reflexivity. Qed.

Theorem C13_cells_partial : forall kind columns items forced spacing kp w b,
  (0 <= spacing)%Z ->
  (forall it w' b', In it items -> (0 < w')%Z -> render_tree it w' = ROk b' -> (Z.of_nat (buf_width b') <= w')%Z) ->
  (forall kp' i lb, kp = Some kp' -> label_buffer kp' i = ROk lb -> buf_width lb <= length (get_widget_label kp' i)) ->
  render_tree (WList kind columns items forced spacing kp) w = ROk b ->
  let cw := list_columns_width columns forced spacing w in
  let omap := ordered_map kind (length items) (Z.to_nat columns) in
  exists rendered,
    render_all_items render_tree items 0 cw kp = ROk rendered /\
    forall k r i, k < length omap -> nth_error (nth k omap []) r = Some i ->
      item_shown rendered b
        (i, (rowstart (lines_per_every_row omap (map item_height rendered)) r, k * Z.to_nat (cw + spacing))).
Proof. exact render_list_cells. Qed.

(* ---------------------------------------------------------------- 7. the hypotheses discharged *)
(* With the width theorem of TextWidget.render (C11_width, proofs/TextWrapRender.v) the hypotheses of
   the _partial theorems hold for every "plain" tree: texts, separators, centred widgets, list
   containers without forced column width and with spacing >= 0, windows — nested in any way. *)
Theorem C13_plain_tree_def : forall t, plain_tree t <-> fit_tree (fun _ => True) t.
Proof. intros. reflexivity. Qed.

(* every line of a plain tree rendered at w is at most w long: containers nested in containers *)
Theorem C13_within_width : forall t w b,
  plain_tree t -> (0 <= w)%Z -> render_tree t w = ROk b -> Forall (fun l : line => (Z.of_nat (length l) <= w)%Z) b.
Proof. exact plain_tree_within_width. Qed.

(* a list container (forced width or not) of plain items: width bound, layout, cells *)
Theorem C13_width_bound : forall kind columns items forced spacing kp w b,
  (0 <= spacing)%Z -> Forall plain_tree items ->
  render_tree (WList kind columns items forced spacing kp) w = ROk b ->
  b = [] \/
  ((0 < list_columns_width columns forced spacing w)%Z /\
   (Z.of_nat (buf_width b) <= columns * list_columns_width columns forced spacing w + (columns - 1) * spacing)%Z).
Proof. exact plain_list_width_bound. Qed.

Theorem C13_layout : forall kind columns items forced spacing kp w b,
  (0 <= spacing)%Z -> Forall plain_tree items ->
  render_tree (WList kind columns items forced spacing kp) w = ROk b ->
  items <> [] ->
  let cw := list_columns_width columns forced spacing w in
  let omap := ordered_map kind (length items) (Z.to_nat columns) in
  exists rendered,
    render_all_items render_tree items 0 cw kp = ROk rendered /\
    Forall (item_fits (Z.to_nat cw)) rendered /\
    b = fold_left (draw_item rendered)
          (all_placements omap (lines_per_every_row omap (map item_height rendered)) 0 (Z.to_nat (cw + spacing))) [].
Proof. exact plain_list_closed_form. Qed.

Theorem C13_cells : forall kind columns items forced spacing kp w b,
  (0 <= spacing)%Z -> Forall plain_tree items ->
  render_tree (WList kind columns items forced spacing kp) w = ROk b ->
  let cw := list_columns_width columns forced spacing w in
  let omap := ordered_map kind (length items) (Z.to_nat columns) in
  exists rendered,
    render_all_items render_tree items 0 cw kp = ROk rendered /\
    forall k r i, k < length omap -> nth_error (nth k omap []) r = Some i ->
      item_shown rendered b
        (i, (rowstart (lines_per_every_row omap (map item_height rendered)) r, k * Z.to_nat (cw + spacing))).
Proof. exact plain_list_cells. Qed.

(* refusal, total for text items: numbering on and SOME label leaves no room => ValueError *)
Theorem C13_refused_label_texts : forall kind columns ts forced spacing kp' w i,
  (0 < columns)%Z -> i < length ts ->
  (list_columns_width columns forced spacing w - Z.of_nat (length (get_widget_label kp' i)) <= 0)%Z ->
  render_tree (WList kind columns (map WText ts) forced spacing (Some kp')) w = RValueError.
Proof. exact text_list_refused. Qed.

(* ---------------------------------------------------------------- 8. blank elsewhere; the buffer is determined *)
(* The drawing of a list container is a sequence of stamps ((row, col), source buffer): for every
   grid position (column k, row r, item i) the label at (rowstart r, k*(cw+s)) and the item right of
   it at column k*(cw+s) + len(label text), or the item alone without numbering. *)
Theorem C13_stamps_of_def : forall rendered i rp cp,
  stamps_of rendered (i, (rp, cp)) =
  match nth i rendered ([], None) with
  | (ib, Some (lb, lw)) => [((rp, cp), lb); ((rp, cp + lw), ib)]
  | (ib, None) => [((rp, cp), ib)]
  end.
Proof. intros. reflexivity. Qed.

Theorem C13_list_stamps : forall rendered omap lpr pitch s,
  In s (list_stamps rendered (all_placements omap lpr 0 pitch)) <->
  exists k r i, k < length omap /\ nth_error (nth k omap []) r = Some i /\
                In s (stamps_of rendered (i, (rowstart lpr r, k * pitch))).
Proof. exact in_list_stamps_grid. Qed.

(* the cells a stamp covers (row y of the source covers len(row y) columns: the same cells as in
   [shows] of C13_cells) and the cells to its left on its rows *)
Theorem C13_in_stamp_def : forall s i j,
  in_stamp s i j = true <->
  st_row s <= i < st_row s + length (st_src s) /\
  st_col s <= j < st_col s + row_len (st_src s) (i - st_row s).
Proof. exact in_stamp_iff. Qed.

Theorem C13_pads_def : forall s i j,
  pads s i j = true <-> st_row s <= i < st_row s + length (st_src s) /\ j < st_col s.
Proof. exact pads_iff. Qed.

Theorem C13_item_covers_def : forall rendered p i j,
  item_covers rendered p i j = existsb (fun s => in_stamp s i j) (stamps_of rendered p).
Proof. intros. reflexivity. Qed.

(* what is covered lies in the rectangle of C13_no_overlap / C13_item_inside_rect *)
Theorem C13_covers_inside_rect : forall cw rendered p i j,
  item_fits cw (nth (fst p) rendered ([], None)) ->
  item_covers rendered p i j = true ->
  fst (snd p) <= i < fst (snd p) + item_height (nth (fst p) rendered ([], None)) /\
  snd (snd p) <= j < snd (snd p) + cw.
Proof. exact covers_inside_rect. Qed.

(* C13_blank_elsewhere: every cell of the rendered list that lies in no label and no item is a
   blank: the padding between columns, the short last row, the lines of a row below a short item,
   the ragged right edge of an item.  _partial: hypotheses on the sub-widgets as before. *)
Theorem C13_blank_elsewhere_partial : forall kind columns items forced spacing kp w b,
  (0 <= spacing)%Z ->
  (forall it w' b', In it items -> (0 < w')%Z -> render_tree it w' = ROk b' -> (Z.of_nat (buf_width b') <= w')%Z) ->
  (forall kp' i lb, kp = Some kp' -> label_buffer kp' i = ROk lb -> buf_width lb <= length (get_widget_label kp' i)) ->
  render_tree (WList kind columns items forced spacing kp) w = ROk b ->
  let cw := list_columns_width columns forced spacing w in
  let omap := ordered_map kind (length items) (Z.to_nat columns) in
  exists rendered,
    render_all_items render_tree items 0 cw kp = ROk rendered /\
    let lpr := lines_per_every_row omap (map item_height rendered) in
    forall y x ch, cell b y x = Some ch ->
      (forall k r i, k < length omap -> nth_error (nth k omap []) r = Some i ->
         item_covers rendered (i, (rowstart lpr r, k * Z.to_nat (cw + spacing))) y x = false) ->
      ch = SP.
Proof. exact render_list_blank_elsewhere. Qed.

Theorem C13_blank_elsewhere : forall kind columns items forced spacing kp w b,
  (0 <= spacing)%Z -> Forall plain_tree items ->
  render_tree (WList kind columns items forced spacing kp) w = ROk b ->
  let cw := list_columns_width columns forced spacing w in
  let omap := ordered_map kind (length items) (Z.to_nat columns) in
  exists rendered,
    render_all_items render_tree items 0 cw kp = ROk rendered /\
    let lpr := lines_per_every_row omap (map item_height rendered) in
    forall y x ch, cell b y x = Some ch ->
      (forall k r i, k < length omap -> nth_error (nth k omap []) r = Some i ->
         item_covers rendered (i, (rowstart lpr r, k * Z.to_nat (cw + spacing))) y x = false) ->
      ch = SP.
Proof. exact plain_list_blank_elsewhere. Qed.

(* the same with the rectangles  rows [rowstart r, rowstart r + item_height) x columns
   [k*(cw+s), k*(cw+s) + cw)  of C13_no_overlap: a cell outside every rectangle is a blank *)
Theorem C13_blank_outside_rects_partial : forall kind columns items forced spacing kp w b,
  (0 <= spacing)%Z ->
  (forall it w' b', In it items -> (0 < w')%Z -> render_tree it w' = ROk b' -> (Z.of_nat (buf_width b') <= w')%Z) ->
  (forall kp' i lb, kp = Some kp' -> label_buffer kp' i = ROk lb -> buf_width lb <= length (get_widget_label kp' i)) ->
  render_tree (WList kind columns items forced spacing kp) w = ROk b ->
  let cw := list_columns_width columns forced spacing w in
  let omap := ordered_map kind (length items) (Z.to_nat columns) in
  exists rendered,
    render_all_items render_tree items 0 cw kp = ROk rendered /\
    let lpr := lines_per_every_row omap (map item_height rendered) in
    forall y x ch, cell b y x = Some ch ->
      (forall k r i, k < length omap -> nth_error (nth k omap []) r = Some i ->
         ~ (rowstart lpr r <= y < rowstart lpr r + item_height (nth i rendered ([], None)) /\
            k * Z.to_nat (cw + spacing) <= x < k * Z.to_nat (cw + spacing) + Z.to_nat cw)) ->
      ch = SP.
Proof. exact render_list_blank_outside_rects. Qed.

Theorem C13_blank_outside_rects : forall kind columns items forced spacing kp w b,
  (0 <= spacing)%Z -> Forall plain_tree items ->
  render_tree (WList kind columns items forced spacing kp) w = ROk b ->
  let cw := list_columns_width columns forced spacing w in
  let omap := ordered_map kind (length items) (Z.to_nat columns) in
  exists rendered,
    render_all_items render_tree items 0 cw kp = ROk rendered /\
    let lpr := lines_per_every_row omap (map item_height rendered) in
    forall y x ch, cell b y x = Some ch ->
      (forall k r i, k < length omap -> nth_error (nth k omap []) r = Some i ->
         ~ (rowstart lpr r <= y < rowstart lpr r + item_height (nth i rendered ([], None)) /\
            k * Z.to_nat (cw + spacing) <= x < k * Z.to_nat (cw + spacing) + Z.to_nat cw)) ->
      ch = SP.
Proof. exact plain_list_blank_outside_rects. Qed.

(* C13_render_determined: the rendered buffer is, cell for cell, the function [spec_cell] of its
   stamps — the content of the stamp that covers the cell (any stamp that covers it: third
   conjunct), a blank where some stamp on that row starts further right, no cell otherwise (fourth
   conjunct) — and its height is the lowest bottom edge of a stamp.  With C13_buffer_ext (height and
   cells determine a buffer) the layout theorems characterise the output completely. *)
Theorem C13_spec_cell_def : forall stamps i j,
  spec_cell stamps i j =
  match content stamps i j with
  | Some ch => Some ch
  | None => if existsb (fun s => pads s i j) stamps then Some SP else None
  end.
Proof. intros. reflexivity. Qed.

Theorem C13_content_def : forall s rest i j,
  content [] i j = None /\
  content (s :: rest) i j =
  match content rest i j with
  | Some ch => Some ch
  | None => if in_stamp s i j then cell (st_src s) (i - st_row s) (j - st_col s) else None
  end.
Proof. intros. split; reflexivity. Qed.

Theorem C13_buffer_ext : forall b1 b2 : buffer,
  length b1 = length b2 -> (forall i j, cell b1 i j = cell b2 i j) -> b1 = b2.
Proof. exact buffer_ext. Qed.

Theorem C13_render_determined_partial : forall kind columns items forced spacing kp w b,
  (0 <= spacing)%Z ->
  (forall it w' b', In it items -> (0 < w')%Z -> render_tree it w' = ROk b' -> (Z.of_nat (buf_width b') <= w')%Z) ->
  (forall kp' i lb, kp = Some kp' -> label_buffer kp' i = ROk lb -> buf_width lb <= length (get_widget_label kp' i)) ->
  render_tree (WList kind columns items forced spacing kp) w = ROk b ->
  let cw := list_columns_width columns forced spacing w in
  let omap := ordered_map kind (length items) (Z.to_nat columns) in
  exists rendered,
    render_all_items render_tree items 0 cw kp = ROk rendered /\
    Forall (item_fits (Z.to_nat cw)) rendered /\
    let ps := all_placements omap (lines_per_every_row omap (map item_height rendered)) 0 (Z.to_nat (cw + spacing)) in
    let stamps := list_stamps rendered ps in
    length b = spec_height stamps /\
    (forall i j, cell b i j = spec_cell stamps i j) /\
    (forall i j s, In s stamps -> in_stamp s i j = true ->
                   cell b i j = cell (st_src s) (i - st_row s) (j - st_col s)) /\
    (forall i j, (forall s, In s stamps -> in_stamp s i j = false) ->
                 cell b i j = if existsb (fun s => pads s i j) stamps then Some SP else None).
Proof. exact render_list_determined. Qed.

Theorem C13_render_determined : forall kind columns items forced spacing kp w b,
  (0 <= spacing)%Z -> Forall plain_tree items ->
  render_tree (WList kind columns items forced spacing kp) w = ROk b ->
  let cw := list_columns_width columns forced spacing w in
  let omap := ordered_map kind (length items) (Z.to_nat columns) in
  exists rendered,
    render_all_items render_tree items 0 cw kp = ROk rendered /\
    Forall (item_fits (Z.to_nat cw)) rendered /\
    let ps := all_placements omap (lines_per_every_row omap (map item_height rendered)) 0 (Z.to_nat (cw + spacing)) in
    let stamps := list_stamps rendered ps in
    length b = spec_height stamps /\
    (forall i j, cell b i j = spec_cell stamps i j) /\
    (forall i j s, In s stamps -> in_stamp s i j = true ->
                   cell b i j = cell (st_src s) (i - st_row s) (j - st_col s)) /\
    (forall i j, (forall s, In s stamps -> in_stamp s i j = false) ->
                 cell b i j = if existsb (fun s => pads s i j) stamps then Some SP else None).
Proof. exact plain_list_determined. Qed.

(* ---------------------------------------------------------------- non-vacuity *)
Local Open Scope N_scope.
Example C13_example :
  let t := fun s => WText (simple_text s) in
  let items := [t [97;97;97;32;98;98]; t []; t [99]; t [100;100;32;101;101;32;102;102]; t [103]] in
  ordered_map_row 5 2 = [[0;2;4]; [1;3]]%nat /\
  ordered_map_col 5 2 = [[0;1;2]; [3;4]]%nat /\
  (* "1) aaa   2)" / "   bb" / "3) c    4) dd" / "        ee" ... : the empty item 2 keeps its row *)
  render_tree (WList KRow 2%Z items None 2%Z (Some default_pattern)) 14%Z =
    ROk [[49;41;32;97;97;97;32;32;50;41];
         [32;32;32;98;98];
         [51;41;32;99;32;32;32;32;52;41;32;100;100];
         [32;32;32;32;32;32;32;32;32;32;32;101;101];
         [32;32;32;32;32;32;32;32;32;32;32;102;102];
         [53;41;32;103]] /\
  render_tree (WList KRow 2%Z items None 2%Z (Some default_pattern)) 9%Z = RValueError /\
  lines_per_every_row (ordered_map_row 5 2) [2;1;1;3;1]%nat = [2;3;1]%nat.
Proof. vm_compute. repeat split. Qed.

(* the hypotheses of C13_within_width are satisfiable: a list in a list in a window is a plain tree *)
Example C13_example_plain :
  let t := fun s => WText (simple_text s) in
  let inner := WList KCol 2%Z [t [97;97]; t [98]; t [99;99;99]] None 1%Z (Some default_pattern) in
  plain_tree (WWindow (Some (simple_text [84])) [WList KRow 2%Z [inner; t [100]] None 3%Z None; WCenter inner; WSep 1]).
Proof.
  unfold plain_tree. repeat (constructor; try exact I; try (intros; exact I); try (vm_compute; discriminate)).
Qed.

(* blank elsewhere / determined on a 2-column x 3-row container with a short last row and items of
   1, 0, 1, 3 and 1 lines ("aaa bb" wraps to 2):
     "1) aaa  2)" / "   bb" / "3) c    4) dd" / "           ee" / "           ff" / "5) g"
   10 stamps (5 labels, 5 items), height 6; on the 8 x 16 grid of positions the buffer equals
   spec_cell everywhere; of its 58 cells 23 are covered by a label or an item and the other 35
   (padding between the columns, left of "bb"/"ee"/"ff", between label and item) are blanks *)
Example C13_example_blank :
  let t := fun s => WText (simple_text s) in
  let items := [t [97;97;97;32;98;98]; t []; t [99]; t [100;100;32;101;101;32;102;102]; t [103]] in
  let omap := ordered_map KRow 5 2 in
  let opt_eqb := fun a b : option char =>
    match a, b with Some x, Some y => (x =? y)%N | None, None => true | _, _ => false end in
  match render_all_items render_tree items 0 6%Z (Some default_pattern),
        render_tree (WList KRow 2%Z items None 2%Z (Some default_pattern)) 14%Z with
  | ROk rendered, ROk b =>
    let stamps := list_stamps rendered (all_placements omap (lines_per_every_row omap (map item_height rendered)) 0 8) in
    let grid := list_prod (seq 0 8) (seq 0 16) in
    let covered := fun yx : nat * nat => existsb (fun s => in_stamp s (fst yx) (snd yx)) stamps in
    length stamps = 10%nat /\ length b = 6%nat /\ spec_height stamps = 6%nat /\
    forallb (fun yx => opt_eqb (cell b (fst yx) (snd yx)) (spec_cell stamps (fst yx) (snd yx))) grid = true /\
    length (filter (fun yx => match cell b (fst yx) (snd yx) with Some _ => true | None => false end) grid) = 58%nat /\
    length (filter covered grid) = 23%nat /\
    length (filter (fun yx => negb (covered yx) && opt_eqb (cell b (fst yx) (snd yx)) (Some SP)) grid) = 35%nat
  | _, _ => False
  end.
Proof. vm_compute. repeat split. Qed.

Print Assumptions C13_order_row_columns.
Print Assumptions C13_order_row.
Print Assumptions C13_order_row_only.
Print Assumptions C13_order_row_increasing.
Print Assumptions C13_order_row_partition.
Print Assumptions C13_order_row_once.
Print Assumptions C13_order_col_columns.
Print Assumptions C13_order_col.
Print Assumptions C13_order_col_only.
Print Assumptions C13_order_col_increasing.
Print Assumptions C13_order_col_major.
Print Assumptions C13_order_col_partition.
Print Assumptions C13_columns_width_def.
Print Assumptions C13_refusal.
Print Assumptions C13_refused_narrow.
Print Assumptions C13_refused_label.
Print Assumptions C13_row_heights.
Print Assumptions C13_row_items_row.
Print Assumptions C13_row_items_col.
Print Assumptions C13_row_height_fits.
Print Assumptions C13_row_height_attained.
Print Assumptions C13_row_count.
Print Assumptions C13_item_height_numbered.
Print Assumptions C13_item_height_plain.
Print Assumptions C13_within_width_partial.
Print Assumptions C13_width_bound_partial.
Print Assumptions C13_within_width_nested_partial.
Print Assumptions C13_layout_partial.
Print Assumptions C13_placements.
Print Assumptions C13_rowstart.
Print Assumptions C13_no_overlap.
Print Assumptions C13_item_inside_rect.
Print Assumptions C13_shows_def.
Print Assumptions C13_item_shown_def.
Print Assumptions C13_cells_partial.
Print Assumptions C13_plain_tree_def.
Print Assumptions C13_within_width.
Print Assumptions C13_width_bound.
Print Assumptions C13_layout.
Print Assumptions C13_cells.
Print Assumptions C13_refused_label_texts.
Print Assumptions C13_stamps_of_def.
Print Assumptions C13_list_stamps.
Print Assumptions C13_in_stamp_def.
Print Assumptions C13_pads_def.
Print Assumptions C13_item_covers_def.
Print Assumptions C13_covers_inside_rect.
Print Assumptions C13_blank_elsewhere_partial.
Print Assumptions C13_blank_elsewhere.
Print Assumptions C13_blank_outside_rects_partial.
Print Assumptions C13_blank_outside_rects.
Print Assumptions C13_spec_cell_def.
Print Assumptions C13_content_def.
Print Assumptions C13_buffer_ext.
Print Assumptions C13_render_determined_partial.
Print Assumptions C13_render_determined.
