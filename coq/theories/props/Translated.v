(* Translated — auxiliary theorem file (not a numbered property): the pieces of /repo that tools/translate.py
   regenerates from the CURRENT Python source on every build are equal to the hand-written model.
   Used by the checks of C07 (answer table, threshold), C14 (KeyPattern), C02 (exception priority), C12 (prompt keys). *)
From Coq Require Import ZArith NArith List Bool.
From SL Require Import PyInt KeyPattern LoopSem ScreenSem Prompt gen.Translated proofs.TranslatedEq.
Import ListNotations.

Theorem T_process_input_table : forall rv, t_process_input rv = action_of rv.
Proof. exact process_input_table. Qed.
Theorem T_threshold_exceeded : forall c, t_threshold_exceeded c = (Nat.modulo c 5 =? 0)%nat.
Proof. exact threshold_exceeded. Qed.
Theorem T_was_successful : forall a, t_was_successful a = match a with AError => false | _ => true end.
Proof. exact was_successful. Qed.
Theorem T_default_pattern : t_default_pattern = default_pattern.
Proof. exact default_pattern_eq. Qed.
Theorem T_get_widget_label : forall kp i, t_get_widget_label kp i = get_widget_label kp i.
Proof. exact get_widget_label_eq. Qed.
Theorem T_translate_input : forall kp s, t_translate_input_to_widget_id kp s = translate_input_to_widget_id kp s.
Proof. exact translate_eq. Qed.
Theorem T_exception_priority : t_exception_priority = sp_prio exception_spec.
Proof. exact exception_priority_eq. Qed.
Theorem T_default_priority : t_default_priority = sp_prio (render_spec None).
Proof. exact default_priority_eq. Qed.
Theorem T_prompt_keys :
  t_REFRESH = Prompt.REFRESH /\ t_CONTINUE = Prompt.CONTINUE /\ t_QUIT = Prompt.QUIT /\ t_HELP = Prompt.HELP /\
  t_DEFAULT_MESSAGE = Prompt.DEFAULT_MESSAGE /\ t_QUIT_DESCRIPTION = Prompt.QUIT_DESCRIPTION /\
  t_CONTINUE_DESCRIPTION = Prompt.CONTINUE_DESCRIPTION /\ t_REFRESH_DESCRIPTION = Prompt.REFRESH_DESCRIPTION /\
  t_HELP_DESCRIPTION = Prompt.HELP_DESCRIPTION.
Proof. exact prompt_keys_eq. Qed.

Print Assumptions T_process_input_table.
Print Assumptions T_threshold_exceeded.
Print Assumptions T_was_successful.
Print Assumptions T_default_pattern.
Print Assumptions T_get_widget_label.
Print Assumptions T_translate_input.
Print Assumptions T_exception_priority.
Print Assumptions T_default_priority.
Print Assumptions T_prompt_keys.
