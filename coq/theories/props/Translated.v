(* Translated — auxiliary theorem file (not a numbered property): the pieces of /repo that tools/translate.py
   regenerates from the CURRENT Python source on every build are equal to the hand-written model.
   Used by the checks of C07 (answer table, threshold, error counter, process_input_result), C14 (KeyPattern),
   C02 (signal priorities), C12 (prompt keys, option methods, __str__); the ticket machine (C10), the routing of enqueue_signal (C01, C03)
   and the screen stack (C04..C06) are covered as well.
   t_res is the translated methods' result: t_ok value | t_raise exception.  tm_inv (proofs/TranslatedEq.v): ticket
   ids are unique within a line and below the counter. *)
From Coq Require Import ZArith NArith List Bool.
From RecordUpdate Require Import RecordUpdate.
From SL Require Import PyInt KeyPattern LoopSem QueueSources ScreenSem Prompt ScreenOut gen.Translated proofs.TranslatedEq.
Import ListNotations.

Theorem T_process_input_table : forall rv, t_process_input rv = action_of rv.
Proof. exact process_input_table. Qed.
Theorem T_threshold_exceeded : forall c, t_threshold_exceeded c = (Nat.modulo c 5 =? 0)%nat.
Proof. exact threshold_exceeded. Qed.
Theorem T_was_successful : forall a, t_was_successful a = match a with AError => false | _ => true end.
Proof. exact was_successful. Qed.
Theorem T_default_pattern : t_default_pattern = default_pattern.
Proof. exact default_pattern_eq. Qed.
Theorem T_get_widget_label : forall kp i, t_get_widget_label kp i = get_widget_label kp i.
Proof. exact get_widget_label_eq. Qed.
Theorem T_translate_input : forall kp s, t_translate_input_to_widget_id kp s = translate_input_to_widget_id kp s.
Proof. exact translate_eq. Qed.
Theorem T_exception_priority : t_exception_priority = sp_prio exception_spec.
Proof. exact exception_priority_eq. Qed.
Theorem T_default_priority : t_default_priority = sp_prio (render_spec None).
Proof. exact default_priority_eq. Qed.
Theorem T_prompt_keys :
  t_REFRESH = Prompt.REFRESH /\ t_CONTINUE = Prompt.CONTINUE /\ t_QUIT = Prompt.QUIT /\ t_HELP = Prompt.HELP /\
  t_DEFAULT_MESSAGE = Prompt.DEFAULT_MESSAGE /\ t_QUIT_DESCRIPTION = Prompt.QUIT_DESCRIPTION /\
  t_CONTINUE_DESCRIPTION = Prompt.CONTINUE_DESCRIPTION /\ t_REFRESH_DESCRIPTION = Prompt.REFRESH_DESCRIPTION /\
  t_HELP_DESCRIPTION = Prompt.HELP_DESCRIPTION.
Proof. exact prompt_keys_eq. Qed.

(* ---- signals.py: every class and every creation site ---- *)
Theorem T_sig_render : forall src, t_sig_RenderScreenSignal src t_sig_RenderScreenSignal_default_priority = render_spec src.
Proof. exact sig_render_eq. Qed.
Theorem T_sig_close : forall scr, t_sig_CloseScreenSignal (Some scr) t_sig_CloseScreenSignal_default_priority = close_spec scr.
Proof. exact sig_close_eq. Qed.
Theorem T_sig_exception : t_sig_ExceptionSignal None = exception_spec.
Proof. exact sig_exception_eq. Qed.
Theorem T_sig_ready : forall src h d ok,
  t_sig_InputReadySignal src h d t_sig_InputReadySignal_default_priority ok = ready_spec src h d ok.
Proof. exact sig_ready_eq. Qed.
Theorem T_sig_received : forall req d,
  received_spec req d =
  let t := t_sig_InputReceivedSignal None d t_sig_InputReceivedSignal_default_priority in
  {| sp_cls := sp_cls t; sp_prio := sp_prio t; sp_src := sp_src t; sp_a := req; sp_b := sp_b t; sp_data := sp_data t |}.
Proof. exact sig_received_eq. Qed.
Theorem T_signal_priorities :
  t_sig_RenderScreenSignal_default_priority = sp_prio (render_spec None) /\
  t_sig_CloseScreenSignal_default_priority = sp_prio (close_spec 0) /\
  t_sig_InputReadySignal_default_priority = sp_prio (ready_spec None 0 [] true) /\
  t_sig_InputReceivedSignal_default_priority = sp_prio (received_spec 0 []) /\
  t_sh_create_signal_default_priority = sp_prio (render_spec None) /\
  sp_prio (t_sig_ExceptionSignal None) = sp_prio exception_spec.
Proof. exact signal_priorities_eq. Qed.
Theorem T_signal_sites :
  (forall src h d, t_req_emit_input_ready_signal src h d = ready_spec src h d true) /\
  (forall src h, t_req_emit_failed_input_ready_signal src h = ready_spec src h [] false) /\
  (forall req d, received_spec req d =
     let t := t_req_run_signal d in
     {| sp_cls := sp_cls t; sp_prio := sp_prio t; sp_src := sp_src t; sp_a := req; sp_b := sp_b t; sp_data := sp_data t |}) /\
  (forall s, t_sh_redraw_signal s = render_spec (Some s)) /\
  (forall s, t_sh_close_signal s = close_spec s) /\
  t_sched_redraw_signal = render_spec None /\
  t_sched_push_screen_modal_signal = render_spec None /\
  t_exception_signal = exception_spec.
Proof. exact signal_sites_eq. Qed.

(* ---- ticket_machine.py ---- *)
Theorem T_tm_init : t_tm_init = tm_empty.
Proof. exact tm_init_eq. Qed.
Theorem T_tm_take_ticket : forall tm line, tm_inv tm -> t_tm_take_ticket tm line = t_ok (take_ticket tm line).
Proof. exact tm_take_ticket_eq. Qed.
Theorem T_tm_check_ticket : forall tm line id, tm_inv tm ->
  t_tm_check_ticket tm line id = match check_ticket tm line id with Some r => t_ok r | None => t_raise t_KeyError end.
Proof. exact tm_check_ticket_eq. Qed.
Theorem T_tm_mark_line_to_go : forall tm line, tm_inv tm -> t_tm_mark_line_to_go tm line = t_ok (mark_line_to_go tm line).
Proof. exact tm_mark_line_to_go_eq. Qed.
Theorem T_tm_inv_empty : tm_inv tm_empty.
Proof. exact tm_inv_empty. Qed.
Theorem T_tm_inv_take : forall tm line, tm_inv tm -> tm_inv (snd (take_ticket tm line)).
Proof. exact tm_inv_take. Qed.
Theorem T_tm_inv_mark : forall tm line, tm_inv tm -> tm_inv (mark_line_to_go tm line).
Proof. exact tm_inv_mark. Qed.
Theorem T_tm_inv_check : forall tm line id b tm', tm_inv tm -> check_ticket tm line id = Some (b, tm') -> tm_inv tm'.
Proof. exact tm_inv_check. Qed.

(* ---- screen_stack.py (the model's st_stack is top first: rev) and the scheduler's use of it ---- *)
Theorem T_ss_init : t_ss_init = rev [].
Proof. exact ss_init_eq. Qed.
Theorem T_ss_empty : forall st, t_ss_empty (rev st) = t_ok (match st with [] => true | _ :: _ => false end).
Proof. exact ss_empty_eq. Qed.
Theorem T_ss_size : forall st, t_ss_size (rev st) = t_ok (length st).
Proof. exact ss_size_eq. Qed.
Theorem T_ss_append : forall st d, t_ss_append (rev st) d = t_ok (rev (d :: st)).
Proof. exact ss_append_eq. Qed.
Theorem T_ss_add_first : forall st d, t_ss_add_first (rev st) d = t_ok (rev (st ++ [d])).
Proof. exact ss_add_first_eq. Qed.
Theorem T_ss_pop : forall st,
  t_ss_pop (rev st) t_ss_pop_default_remove =
  match st with [] => t_raise t_ScreenStackEmptyException | top :: r => t_ok (top, rev r) end.
Proof. exact ss_pop_eq. Qed.
Theorem T_ss_peek : forall st,
  t_ss_pop (rev st) false =
  match st with [] => t_raise t_ScreenStackEmptyException | top :: _ => t_ok (top, rev st) end.
Proof. exact ss_peek_eq. Qed.
Theorem T_get_last_screen : forall st,
  t_sched_get_last_screen (rev st) =
  match st with [] => t_raise t_ExitMainLoop | top :: _ => t_ok (top, rev st) end.
Proof. exact get_last_screen_eq. Qed.
Theorem T_screen_data :
  (forall id s a m, t_ScreenData id s a m = {| sd_id := id; sd_scr := s; sd_args := a; sd_modal := m |}) /\
  (forall id s a, t_sched_schedule_screen_data id s a = {| sd_id := id; sd_scr := s; sd_args := a; sd_modal := false |}) /\
  (forall id s a, t_sched_push_screen_data id s a = {| sd_id := id; sd_scr := s; sd_args := a; sd_modal := false |}) /\
  (forall id s a, t_sched_push_screen_modal_data id s a = {| sd_id := id; sd_scr := s; sd_args := a; sd_modal := true |}) /\
  t_ScreenData_default_args = 0.
Proof. exact screen_data_eq. Qed.
Theorem T_sched_stack_ops : forall st d,
  t_sched_schedule_screen_stack (rev st) d = t_ok (rev (st ++ [d])) /\
  t_sched_push_screen_stack (rev st) d = t_ok (rev (d :: st)) /\
  t_sched_push_screen_modal_stack (rev st) d = t_ok (rev (d :: st)).
Proof. exact sched_stack_ops_eq. Qed.

(* ---- event_queue.py and MainLoop.enqueue_signal ---- *)
Theorem T_eq_init : t_eq_init = empty_queue.
Proof. exact eq_init_eq. Qed.
Theorem T_eq_empty : forall q, t_eq_empty q = t_ok (q_empty q).
Proof. exact eq_empty_eq. Qed.
Theorem T_eq_put : forall q sg, t_eq_put q sg = t_ok (q_put q sg).
Proof. exact eq_put_eq. Qed.
Theorem T_eq_enqueue : forall q sg, t_eq_enqueue q sg = t_ok (q_put q sg).
Proof. exact eq_enqueue_eq. Qed.
Theorem T_eq_contains_source : forall q src, t_eq_contains_source q src = t_ok (q_contains_source q src).
Proof. exact eq_contains_source_eq. Qed.
Theorem T_eq_add_source : forall q o, t_eq_add_source q o = t_ok (q_add_source q o).
Proof. exact eq_add_source_eq. Qed.
(* EventQueue.remove_source: it changes the set of sources and nothing else — the pending signals, and therefore the
   order in which they will be dispatched (C01), are untouched *)
Theorem T_eq_remove_source : forall q o, t_eq_remove_source q o = q_remove_source q o.
Proof. exact eq_remove_source_eq. Qed.
Theorem T_eq_remove_source_keeps_pending : forall q o q',
  q_remove_source q o = Some q' -> eq_entries q' = eq_entries q /\ eq_counter q' = eq_counter q.
Proof. exact eq_remove_source_keeps_pending. Qed.
Theorem T_eq_remove_source_removes : forall q o q',
  q_remove_source q o = Some q' ->
  q_contains_source q' (Some o) = false /\ forall x, x <> o -> q_contains_source q' (Some x) = q_contains_source q (Some x).
Proof. exact eq_remove_source_removes. Qed.
Theorem T_eq_remove_source_refuses : forall q o, q_contains_source q (Some o) = false -> q_remove_source q o = None.
Proof. exact eq_remove_source_refuses. Qed.
Theorem T_eq_enqueue_if_source_belongs : forall q sg src,
  t_eq_enqueue_if_source_belongs q sg src = t_ok (if q_contains_source q src then (true, q_put q sg) else (false, q)).
Proof. exact eq_enqueue_if_source_belongs_eq. Qed.
Theorem T_ml_enqueue_loop : forall U (s : lstate U) l sg,
  t_ml_enqueue_loop (qstore s) l sg =
  t_ok (match route s l (sg_src sg) with
        | Some q => (true, set_nth (qstore s) q (q_put (get_q s q) sg))
        | None => (false, qstore s)
        end).
Proof. exact (@ml_enqueue_loop_eq). Qed.
Theorem T_ml_enqueue_signal : forall U (s : lstate U) sg,
  t_ml_enqueue_signal (force_quit s) (qstore s) (levels s) (active s) sg = t_ok (qstore (do_enqueue s sg)).
Proof. exact (@ml_enqueue_signal_eq). Qed.

Theorem T_eq_get : forall q,
  t_eq_get q = match q_pop q with None => t_raise t_Blocked | Some ((_, _, sg), q') => t_ok (sg, q') end.
Proof. exact eq_get_eq. Qed.
Theorem T_eq_get_top_event_if_priority : forall q prio,
  t_eq_get_top_event_if_priority q prio =
  match q_pop q with
  | None => t_raise t_Blocked
  | Some ((p, cnt, sg), q') =>
    if (p =? prio)%Z then t_ok (Some sg, q') else t_ok (None, q_put_entry q' (p, cnt, sg))
  end.
Proof. exact eq_get_top_event_if_priority_eq. Qed.

(* ---- prompt.py: the option methods and __str__ ---- *)
Theorem T_prompt_init : forall m, t_prompt_init m = t_ok (Prompt.new_prompt m).
Proof. exact prompt_init_eq. Qed.
Theorem T_prompt_defaults :
  t_prompt_init_default_message = Some Prompt.DEFAULT_MESSAGE /\
  t_prompt_add_refresh_option_default_description = Prompt.REFRESH_DESCRIPTION /\
  t_prompt_add_continue_option_default_description = Prompt.CONTINUE_DESCRIPTION /\
  t_prompt_add_quit_option_default_description = Prompt.QUIT_DESCRIPTION /\
  t_prompt_add_help_option_default_description = Prompt.HELP_DESCRIPTION.
Proof. exact prompt_defaults_eq. Qed.
Theorem T_prompt_set_message : forall p m, t_prompt_set_message p m = t_ok (Prompt.set_message p m).
Proof. exact prompt_set_message_eq. Qed.
Theorem T_prompt_add_option : forall p k d, t_prompt_add_option p k d = t_ok (Prompt.add_option p k d).
Proof. exact prompt_add_option_eq. Qed.
Theorem T_prompt_update_option : forall p k d, t_prompt_update_option p k d = t_ok (Prompt.update_option p k d).
Proof. exact prompt_update_option_eq. Qed.
Theorem T_prompt_add_special : forall p d,
  t_prompt_add_refresh_option p d = t_ok (Prompt.add_refresh_option p d) /\
  t_prompt_add_continue_option p d = t_ok (Prompt.add_continue_option p d) /\
  t_prompt_add_quit_option p d = t_ok (Prompt.add_quit_option p d) /\
  t_prompt_add_help_option p d = t_ok (Prompt.add_help_option p d).
Proof. exact prompt_add_special_eq. Qed.
Theorem T_prompt_remove_option : forall p k,
  t_prompt_remove_option p k = t_ok (Prompt.dict_get (Prompt.p_options p) k, Prompt.remove_option p k).
Proof. exact prompt_remove_option_eq. Qed.
Theorem T_prompt_str : forall p, t_prompt_str p = Prompt.prompt_str p.
Proof. exact prompt_str_eq. Qed.

(* ---- what a draw prints around the widget: the separator, the press-ENTER message, the paging constant ---- *)
Theorem T_spacer : forall w, t_spacer w = ScreenOut.spacer w.
Proof. exact spacer_eq. Qed.
Theorem T_continue_message : t_continue_message = ScreenOut.continue_message /\ t_ENTER = ScreenOut.ENTER.
Proof. exact continue_message_eq. Qed.
Theorem T_prompt_height : t_prompt_height = 2%Z.
Proof. exact prompt_height_eq. Qed.

(* ---- InputManager.process_input's error counter, ScreenScheduler.process_input_result ---- *)
Theorem T_error_counter_update : forall act (s : scrst),
  match act with AError => s <| ss_err := S (ss_err s) |> | _ => s <| ss_err := 0 |> end =
  s <| ss_err := t_error_counter_update act (ss_err s) |>.
Proof. exact error_counter_update_eq. Qed.
Theorem T_process_input_after : forall act c,
  t_process_input_after act c =
  let c' := match act with AError => S c | _ => 0 end in (c', (act, (Nat.modulo c' 5 =? 0)%nat)).
Proof. exact process_input_after_eq. Qed.
Theorem T_is_input_expected : forall none c, t_is_input_expected none c = if none then (false, 0) else (true, c).
Proof. exact is_input_expected_eq. Qed.
Theorem T_process_input_result : forall spec act sr, t_process_input_result spec act sr = process_input_result spec act sr.
Proof. exact process_input_result_eq. Qed.

Print Assumptions T_process_input_table.
Print Assumptions T_threshold_exceeded.
Print Assumptions T_was_successful.
Print Assumptions T_default_pattern.
Print Assumptions T_get_widget_label.
Print Assumptions T_translate_input.
Print Assumptions T_exception_priority.
Print Assumptions T_default_priority.
Print Assumptions T_prompt_keys.
Print Assumptions T_sig_render.
Print Assumptions T_sig_close.
Print Assumptions T_sig_exception.
Print Assumptions T_sig_ready.
Print Assumptions T_sig_received.
Print Assumptions T_signal_priorities.
Print Assumptions T_signal_sites.
Print Assumptions T_tm_init.
Print Assumptions T_tm_take_ticket.
Print Assumptions T_tm_check_ticket.
Print Assumptions T_tm_mark_line_to_go.
Print Assumptions T_tm_inv_empty.
Print Assumptions T_tm_inv_take.
Print Assumptions T_tm_inv_mark.
Print Assumptions T_tm_inv_check.
Print Assumptions T_ss_init.
Print Assumptions T_ss_empty.
Print Assumptions T_ss_size.
Print Assumptions T_ss_append.
Print Assumptions T_ss_add_first.
Print Assumptions T_ss_pop.
Print Assumptions T_ss_peek.
Print Assumptions T_get_last_screen.
Print Assumptions T_screen_data.
Print Assumptions T_sched_stack_ops.
Print Assumptions T_eq_init.
Print Assumptions T_eq_empty.
Print Assumptions T_eq_put.
Print Assumptions T_eq_enqueue.
Print Assumptions T_eq_contains_source.
Print Assumptions T_eq_add_source.
Print Assumptions T_eq_remove_source.
Print Assumptions T_eq_remove_source_keeps_pending.
Print Assumptions T_eq_remove_source_removes.
Print Assumptions T_eq_remove_source_refuses.
Print Assumptions T_eq_enqueue_if_source_belongs.
Print Assumptions T_ml_enqueue_loop.
Print Assumptions T_ml_enqueue_signal.
Print Assumptions T_error_counter_update.
Print Assumptions T_process_input_after.
Print Assumptions T_is_input_expected.
Print Assumptions T_process_input_result.
Print Assumptions T_eq_get.
Print Assumptions T_eq_get_top_event_if_priority.
Print Assumptions T_prompt_init.
Print Assumptions T_prompt_defaults.
Print Assumptions T_prompt_set_message.
Print Assumptions T_prompt_add_option.
Print Assumptions T_prompt_update_option.
Print Assumptions T_prompt_add_special.
Print Assumptions T_prompt_remove_option.
Print Assumptions T_prompt_str.
Print Assumptions T_spacer.
Print Assumptions T_continue_message.
Print Assumptions T_prompt_height.
