(* C18 — one outstanding input request unless bypassed; bypass hands off cleanly.
   "Unless the requester opted out of the check, asking for input while another request is outstanding is refused
    with an error that names every requester involved.  With the check bypassed, when a line arrives exactly the
    most recent requester receives it as a successful result, every earlier requester is told exactly once that its
    request failed so that anything waiting on it wakes up, and afterwards the input subsystem is idle again so that
    a new request is served normally; a blocking wait returns only after its own request was answered or failed,
    and then reports the value and success flag accordingly."
   Only theorem statements; the proofs are in proofs/C18Proofs.v and proofs/InputLink.v (worker s2).

   Model: ScreenSem.v — InputThreadManager ([start_input_thread], [input_received_handler]), InputHandler
   ([handler_get_input], [input_ready_handler], the wait loop of [get_input_blocking]); the reader thread is the
   loop's [ext] mechanism.  Property: the acceptor [chk_C18] of ScreenMon.v over the world rebuilt from the events:
     T_REFUSED ids   only when a request is outstanding; ids = all outstanding requests oldest first, then the
                     refused one;
     T_PROMPT [n; k] a reader thread is started (k = 0) iff none is running, otherwise only the prompt is printed;
     T_READY [n; ok] text  is one of the ready signals announced by a hand-off (at EHandler H_RECEIVED the most
                     recent outstanding requester is announced (true, the line taken by the reader thread), every
                     earlier one (false, ""); the request stack is empty and no reader runs afterwards); each
                     announcement is consumed by its delivery;
     T_GOT [scr; n]  (a blocking wait returns) only after T_READY [n; _].
   [wf_session specl quit acts]: every screen id in the session's commands and the quit screen is one of specl. *)
From Coq Require Import ZArith NArith List Bool.
From SL Require Import PyInt LoopSem ScreenSem ScreenMon proofs.InputLink proofs.C18Proofs.
Import ListNotations.

(* every session of the model - any screens (bypassing the check or not), typed lines, actions, fuel - is accepted *)
Theorem C18_input_requests : forall specs specl typed quit run_empty fuel acts,
  (forall n, specs n = nth n specl default_spec) -> wf_session specl quit acts = true ->
  sok chk_C18 typed (rev (trace (snd (app_run_all specs specl typed quit run_empty fuel acts)))) = true.
Proof. exact input_requests. Qed.

(* "told exactly once": when the application has no InputHandler objects of its own ([no_handler_objects]: no
   SHandlerAsk anywhere - then every request has a fresh handler, which is all the framework itself ever does through
   InputManager) no input handler ever gets a second ready signal: the additional acceptor [chk_once]
   (proofs/InputLink.v: T_READY [n; _] only for a handler n that has not received one) accepts the session ... *)
Theorem C18_answered_at_most_once : forall specs specl typed quit run_empty fuel acts,
  (forall n, specs n = nth n specl default_spec) -> wf_session specl quit acts = true ->
  no_handler_objects specl acts = true ->
  sok chk_once typed (rev (trace (snd (app_run_all specs specl typed quit run_empty fuel acts)))) = true.
Proof. exact answered_once. Qed.

(* for REUSED handler objects "once" is per request, and that is the hand-off clause of chk_C18: an accepted ready
   signal consumes exactly one entry of the hand-off list, the one it matches (every session: C18_input_requests) *)
Theorem C18_ready_consumes_its_entry : forall w n ok t, chk_C18 w (EUser T_READY [n; ok] t) = true ->
  exists x, fst (fst x) = n /\ snd (fst x) = (ok =? 1)%nat /\ streq (snd x) t = true /\
            Permutation.Permutation (sw_handoff w) (x :: sw_handoff (sworld_step w (EUser T_READY [n; ok] t))).
Proof. exact ready_consumes_entry. Qed.

(* ... and a trace it accepts contains no two ready signals for the same handler *)
Theorem C18_no_second_ready : forall typed t1 n a1 x1 t2 a2 x2 t3,
  sok chk_once typed (t1 ++ EUser T_READY (n :: a1) x1 :: t2 ++ EUser T_READY (n :: a2) x2 :: t3) = true -> False.
Proof. exact no_second_ready. Qed.

(* what the acceptor says, clause by clause *)
Theorem C18_refused_names_everyone : forall w ids t, chk_C18 w (EUser T_REFUSED ids t) = true ->
  sw_istack w <> [] /\ exists n, ids = rev (sw_istack w) ++ [n].
Proof. exact C18_refused_meaning. Qed.

Theorem C18_reader_started_iff_idle : forall w n k t, chk_C18 w (EUser T_PROMPT [n; k] t) = true ->
  (k = 0 <-> sw_processing w = false).
Proof. exact C18_prompt_meaning. Qed.

Theorem C18_ready_was_announced : forall w n ok t, chk_C18 w (EUser T_READY [n; ok] t) = true ->
  exists x, In x (sw_handoff w) /\ fst (fst x) = n /\ snd (fst x) = (ok =? 1)%nat /\ streq (snd x) t = true.
Proof. exact C18_ready_meaning. Qed.

Theorem C18_wait_returns_after_answer : forall w scr n t, chk_C18 w (EUser T_GOT [scr; n] t) = true ->
  In n (sw_received w).
Proof. exact C18_got_meaning. Qed.

(* the application's own handler object h (InputHandler n): after h.wait_on_input() it sees (input_successful(), value)
   = those of the LAST ready signal delivered to n since n last asked ([sw_last]: T_PROMPT [n; _] pushes (n, None),
   T_READY [n; ok] text pushes (n, Some (ok, text))) - and there is one *)
Theorem C18_wait_reports_last_answer : forall w h n ok hv t, chk_C18 w (EUser T_WAITED [h; n; ok; hv] t) = true ->
  exists b v, alookup n (sw_last w) = Some (Some (b, v)) /\ b = (ok =? 1)%nat /\
              (b = true -> hv = 1 /\ streq v t = true).
Proof. exact C18_waited_meaning. Qed.

(* the hand-off itself: the most recent requester gets the line, every earlier one a failure (oldest first); the
   stack of requests is empty and no reader runs afterwards *)
Theorem C18_handoff_def : forall w sid d top rest, sw_istack w = top :: rest ->
  let w' := sworld_step w (EHandler H_RECEIVED sid d) in
  sw_handoff w' = sw_handoff w ++ (top, true, sw_line w) :: map (fun r => (r, false, [])) (rev rest) /\
  sw_istack w' = [] /\ sw_processing w' = false.
Proof. intros w sid d top rest E. cbn. rewrite E. repeat split. Qed.

(* a screen that bypasses the check redraws itself twice while its prompt is outstanding: three overlapping
   requests 0, 1, 2 (one reader thread: prompts [0;0] [1;1] [2;1]); the line "1" arrives: request 2 succeeds, 0 and 1
   are told they failed, oldest first; afterwards the subsystem is idle: request 3 starts a reader again; the end of
   file is delivered as the empty line.  The same screen without the bypass: the second request is refused, the
   error names [0; 1], the application is killed.  And the monitor is not vacuous. *)
Example C18_example :
  fst (ex18_run true) = [ONormal; OBlocked] /\
  sok chk_C18 ex18_typed (ex18_trace true) = true /\ sok chk_once ex18_typed (ex18_trace true) = true /\
  user_events T_PROMPT (ex18_trace true) = [([0; 0], []); ([1; 1], []); ([2; 1], []); ([3; 0], []); ([4; 0], []); ([5; 0], [])] /\
  user_events T_READY (ex18_trace true) = [([2; 1], [49%N]); ([0; 0], []); ([1; 0], []); ([3; 1], [50%N]); ([4; 1], [])] /\
  fst (ex18_run false) = [ONormal; OThrow XSysExit] /\
  sok chk_C18 ex18_typed (ex18_trace false) = true /\
  user_events T_REFUSED (ex18_trace false) = [([0; 1], [])] /\
  (* a second reader thread while one is running *)
  sok chk_C18 [] [EUser T_PROMPT [0; 0] []; EUser T_PROMPT [1; 0] []] = false /\
  (* a refusal that does not name the outstanding request *)
  sok chk_C18 [] [EUser T_PROMPT [0; 0] []; EUser T_REFUSED [1] []] = false /\
  (* the line goes to the older requester *)
  sok chk_C18 [Some [49%N]] [EUser T_PROMPT [0; 0] []; EUser T_PROMPT [1; 1] []; EHandler H_RECEIVED 0 0;
                             EUser T_READY [0; 1] [49%N]] = false /\
  (* a failure is announced twice *)
  sok chk_C18 [Some [49%N]] [EUser T_PROMPT [0; 0] []; EUser T_PROMPT [1; 1] []; EHandler H_RECEIVED 0 0;
                             EUser T_READY [0; 0] []; EUser T_READY [0; 0] []] = false /\
  (* a blocking wait returns without its answer *)
  sok chk_C18 [] [EUser T_ASK [0; 0] []; EUser T_PROMPT [0; 0] []; EUser T_GOT [0; 0] []] = false.
Proof. vm_compute. repeat split. Qed.

(* the application's own InputHandler objects and a user who types ahead (the reader's InputReceivedSignal is queued
   before the requesting code goes on):
   (1) one object asks, waits, asks again, waits again: chk_C18 accepts, each wait reports its own line; the object got
       two ready signals - one per request - so chk_once rejects: the hypothesis of C18_answered_at_most_once is needed;
   (2) three objects ask one after the other before anything is processed (prompts [0;0] [1;1] [2;1], ONE reader): the
       most recent gets "a", the two earlier ones are told they failed and their waits report (False, None); then object
       0 asks again and is superseded by object 1: its wait reports (False, None), object 1's ("b");
   and the T_WAITED clause is not vacuous: a stale success flag after a failure, and a wait that returns before any
   answer, are rejected *)
Example C18_example_handler_objects :
  wf_session [ex18_spec true] None ex18h_acts1 = true /\ no_handler_objects [ex18_spec true] ex18h_acts1 = false /\
  sok chk_C18 ex18h_typed1 (ex18h_trace ex18h_acts1 ex18h_typed1) = true /\
  sok chk_once ex18h_typed1 (ex18h_trace ex18h_acts1 ex18h_typed1) = false /\
  user_events T_WAITED (ex18h_trace ex18h_acts1 ex18h_typed1) = [([0; 0; 1; 1], [97%N]); ([0; 0; 1; 1], [98%N])] /\
  sok chk_C18 ex18h_typed2 (ex18h_trace ex18h_acts2 ex18h_typed2) = true /\
  user_events T_PROMPT (ex18h_trace ex18h_acts2 ex18h_typed2) = [([0; 0], []); ([1; 1], []); ([2; 1], []); ([0; 0], []); ([1; 1], [])] /\
  user_events T_READY (ex18h_trace ex18h_acts2 ex18h_typed2) =
    [([2; 1], [97%N]); ([0; 0], []); ([1; 0], []); ([1; 1], [98%N]); ([0; 0], [])] /\
  user_events T_WAITED (ex18h_trace ex18h_acts2 ex18h_typed2) =
    [([2; 2; 1; 1], [97%N]); ([0; 0; 0; 0], []); ([1; 1; 0; 0], []); ([0; 0; 0; 0], []); ([1; 1; 1; 1], [98%N])] /\
  sok chk_C18 [Some [97%N]] [EUser T_PROMPT [0; 0] []; EUser T_PROMPT [1; 1] []; EHandler H_RECEIVED 0 0;
                             EUser T_READY [1; 1] [97%N]; EUser T_READY [0; 0] []; EUser T_WAITED [0; 0; 1; 0] []] = false /\
  sok chk_C18 [Some [97%N]] [EUser T_PROMPT [0; 0] []; EUser T_WAITED [0; 0; 0; 0] []] = false /\
  sok chk_C18 [Some [97%N]] [EUser T_PROMPT [0; 0] []; EHandler H_RECEIVED 0 0; EUser T_READY [0; 1] [97%N];
                             EUser T_WAITED [0; 0; 1; 1] [98%N]] = false.
Proof. vm_compute. repeat split. Qed.

Print Assumptions C18_input_requests.
Print Assumptions C18_answered_at_most_once.
Print Assumptions C18_ready_consumes_its_entry.
Print Assumptions C18_wait_reports_last_answer.
Print Assumptions C18_no_second_ready.
Print Assumptions C18_refused_names_everyone.
Print Assumptions C18_reader_started_iff_idle.
Print Assumptions C18_ready_was_announced.
Print Assumptions C18_wait_returns_after_answer.
Print Assumptions C18_handoff_def.
