(* C12 — a screen prints exactly its content then its prompt; paging loses nothing.
   Only theorem statements; every proof is [exact] of a lemma in proofs/.
   Models: Paging.v (UIScreen._print_widget, show_all), Prompt.v (Prompt, text_prompt),
   Containers.v (WindowContainer.render).
   The paging theorems are stated for every screen height >= 3 (real height >= 1), which contains the
   heights >= 4 of the property text. *)
From Coq Require Import ZArith NArith List Sorting.Permutation Sorting.Sorted.
From SL Require Import PyInt Widget TextWrap Containers Paging Prompt
  proofs.PagingProofs proofs.PromptProofs proofs.C12Proofs.
Import ListNotations.

(* ======================= paging ========================================================== *)

(* every content line is printed exactly once and in order, whatever the length *)
Theorem C12_paging_prints_all : forall lines H, (3 <= H)%Z ->
  prints_of (print_widget lines H) = lines.
Proof. exact paging_prints_all. Qed.

(* the shape of the output: with P = H - 2, full pages of exactly P lines, each followed by one
   press-ENTER prompt, then a last page of 1..P lines (0 lines only when there is no content) with no
   prompt after it; content shorter than P is a single page *)
Theorem C12_paging_pages : forall lines H, (3 <= H)%Z ->
  let P := Z.to_nat (H - 2) in
  exists full last,
    print_widget lines H = page_events (full ++ [last]) /\
    concat full ++ last = lines /\
    Forall (fun p => length p = P) full /\
    length last <= P /\
    (lines <> [] -> 1 <= length last) /\
    (length lines < P -> full = []).
Proof. exact print_widget_pages. Qed.

(* content that fits (fewer than P lines): printed, and no typed line is consumed *)
Theorem C12_paging_short_no_prompt : forall lines H, (3 <= H)%Z ->
  (Z.of_nat (length lines) < H - 2)%Z -> print_widget lines H = map PPrint lines.
Proof. exact paging_short_no_prompt. Qed.

(* the number of typed lines consumed: (n - 1) / P, i.e. 0 for n = 0 and ceil(n / P) - 1 otherwise *)
Theorem C12_paging_ask_count : forall lines H, (3 <= H)%Z ->
  count_asks (print_widget lines H) = (length lines - 1) / Z.to_nat (H - 2).
Proof. exact paging_ask_count. Qed.

Theorem C12_paging_ask_count_ceil : forall lines H, (3 <= H)%Z -> lines <> [] ->
  S (count_asks (print_widget lines H)) = (length lines + Z.to_nat (H - 2) - 1) / Z.to_nat (H - 2).
Proof. exact paging_ask_count_ceil. Qed.

(* the loop of _print_widget always finishes *)
Theorem C12_paging_terminates : forall lines H, (3 <= H)%Z -> ~ In POutOfFuel (print_widget lines H).
Proof. exact paging_terminates_In. Qed.

(* ---- the typed lines -------------------------------------------------------------------- *)
(* print_widget_in threads the list of typed lines through the same loop; for every height it is
   print_widget plus the bookkeeping of the typed lines: enough lines -> same events, one line consumed
   per prompt; too few -> the events up to and including the prompt it blocks at *)
Theorem C12_paging_in_agrees : forall lines H typed,
  print_widget_in lines H typed = in_spec (print_widget lines H) typed.
Proof. exact paging_in_spec. Qed.

(* with at least (n-1)/P typed lines the run finishes, consumes exactly the first (n-1)/P of them
   (the suffix is left untouched, in order) whatever they contain — empty line or any text — and what
   is written is print_widget lines H, which does not mention the typed lines *)
Theorem C12_paging_consumes_one_line_per_prompt : forall lines H typed, (3 <= H)%Z ->
  let asks := (length lines - 1) / Z.to_nat (H - 2) in
  asks <= length typed ->
  print_widget_in lines H typed =
  {| pr_events := print_widget lines H; pr_left := skipn asks typed; pr_status := PgDone |}.
Proof. exact paging_consumes_one_line_per_prompt. Qed.

Theorem C12_paging_output_independent_of_typed : forall lines H typed1 typed2, (3 <= H)%Z ->
  (length lines - 1) / Z.to_nat (H - 2) <= length typed1 ->
  (length lines - 1) / Z.to_nat (H - 2) <= length typed2 ->
  pr_events (print_widget_in lines H typed1) = pr_events (print_widget_in lines H typed2).
Proof. exact paging_output_independent_of_typed. Qed.

(* with k < (n-1)/P typed lines the run blocks: status PgBlocked, every typed line consumed, the output
   is the prefix of print_widget's events ending with the (k+1)-th prompt, i.e. exactly the first k+1
   full pages ((k+1)*P content lines), each followed by its prompt *)
Theorem C12_paging_blocks_without_typed_line : forall lines H typed, (3 <= H)%Z ->
  let P := Z.to_nat (H - 2) in
  length typed < (length lines - 1) / P ->
  let r := print_widget_in lines H typed in
  pr_status r = PgBlocked /\ pr_left r = [] /\
  pr_events r = upto_ask (length typed) (print_widget lines H) /\
  prints_of (pr_events r) = firstn (S (length typed) * P) lines /\
  count_asks (pr_events r) = S (length typed) /\
  exists evs, pr_events r = evs ++ [PAskContinue].
Proof. exact paging_blocks_without_typed_line. Qed.

(* ======================= window content ================================================== *)

(* a window with a (non-empty) title: title lines, one blank line, then each item's own render, in
   the order added, and nothing else — and it renders exactly when title and items render *)
Theorem C12_window_titled : forall t items w b,
  t_text t <> [] ->
  (render_tree (WWindow (Some t) items) w = ROk b <->
   exists tb ibs, render_text t w = ROk tb /\
     Forall2 (fun it ib => render_tree it w = ROk ib) items ibs /\ b = tb ++ [[]] ++ concat ibs).
Proof. exact window_titled. Qed.

(* no title (None or ""): only the items *)
Theorem C12_window_untitled : forall title items w b,
  (title = None \/ exists t, title = Some t /\ t_text t = []) ->
  (render_tree (WWindow title items) w = ROk b <->
   exists ibs, Forall2 (fun it ib => render_tree it w = ROk ib) items ibs /\ b = concat ibs).
Proof. exact window_untitled. Qed.

(* add_separator(n) / add_with_separator(.., n) add a SeparatorWidget(n): exactly n blank lines *)
Theorem C12_separator : forall n w, render_tree (WSep n) w = ROk (repeat [] n).
Proof. reflexivity. Qed.

(* the lemma behind it: drawing at the cursor left by the previous draw appends *)
Theorem C12_draw_appends : forall b src,
  draw b (length b) 0 false src = (b ++ src, (length (b ++ src), 0)).
Proof. exact draw_end. Qed.

(* show_all = render the window, then page it: what is printed is the window's lines *)
Theorem C12_show_all : forall window w H evs,
  (3 <= H)%Z -> show_all window w H = ROk evs ->
  exists b, render_tree window w = ROk b /\ evs = print_widget b H /\ prints_of evs = b.
Proof. exact show_all_prints. Qed.

(* ======================= prompt ========================================================== *)

(* str comparison is the lexicographic order by code point (a proper prefix is smaller) *)
Theorem C12_str_lt_lexicographic : forall a b,
  str_lt a b <->
  (exists c r, b = a ++ c :: r) \/
  (exists p x y a' b', a = p ++ x :: a' /\ b = p ++ y :: b' /\ (x < y)%N).
Proof. exact str_lt_spec. Qed.

(* after any sequence of edits the dict has unique keys and holds exactly the options of the abstract
   map (last write wins, removed keys are gone), and the message is the last one set *)
Theorem C12_prompt_refines_map : forall m0 ops,
  let p := run_pops (new_prompt m0) ops in
  NoDup (dict_keys (p_options p)) /\
  (forall k, dict_get (p_options p) k = amap_of ops k) /\
  p_message p = amsg_of m0 ops.
Proof. exact prompt_refines_map. Qed.

(* the listed keys are strictly increasing, a permutation of the dict's keys, exactly the defined ones *)
Theorem C12_prompt_sorted : forall m0 ops,
  let p := run_pops (new_prompt m0) ops in
  let ks := sort_keys (dict_keys (p_options p)) in
  StronglySorted str_lt ks /\ Permutation ks (dict_keys (p_options p)) /\
  (forall k, In k ks <-> amap_of ops k <> None).
Proof. exact prompt_sorted. Qed.

(* the text: message, then "[" 'k' desc ", " ... "]", then ": " *)
Theorem C12_prompt_format : forall m0 ops,
  let p := run_pops (new_prompt m0) ops in
  prompt_str p =
  format_prompt (amsg_of m0 ops)
    (map (fun k => (k, default_desc (amap_of ops k))) (sort_keys (dict_keys (p_options p)))).
Proof. exact prompt_format. Qed.

(* all of it without the concrete dict: the string is the format of the strictly sorted list of
   exactly the defined keys ... *)
Theorem C12_prompt_str : forall m0 ops,
  exists ks,
    StronglySorted str_lt ks /\ (forall k, In k ks <-> amap_of ops k <> None) /\
    prompt_str (run_pops (new_prompt m0) ops)
    = format_prompt (amsg_of m0 ops) (map (fun k => (k, default_desc (amap_of ops k))) ks).
Proof. exact prompt_str_spec. Qed.

(* ... and that list is unique, so the string is determined by the abstract map and the message *)
Theorem C12_prompt_listing_unique : forall l1 l2,
  StronglySorted str_lt l1 -> StronglySorted str_lt l2 -> (forall k, In k l1 <-> In k l2) -> l1 = l2.
Proof. exact sorted_lt_unique. Qed.

(* ======================= examples ======================================================== *)
Local Open Scope N_scope.

(* UIScreen.prompt(): the default prompt *)
Example C12_default_prompt :
  prompt_str (run_pops (new_prompt (Some DEFAULT_MESSAGE))
                [PAddRefresh REFRESH_DESCRIPTION; PAddContinue CONTINUE_DESCRIPTION; PAddQuit QUIT_DESCRIPTION])
  = (* "Please make a selection from the above ['c' to continue, 'q' to quit, 'r' to refresh]: " *)
    [80;108;101;97;115;101;32;109;97;107;101;32;97;32;115;101;108;101;99;116;105;111;110;32;102;114;111;109;
     32;116;104;101;32;97;98;111;118;101;32;
     91;39;99;39;32;116;111;32;99;111;110;116;105;110;117;101;44;32;
     39;113;39;32;116;111;32;113;117;105;116;44;32;
     39;114;39;32;116;111;32;114;101;102;114;101;115;104;93;58;32].
Proof. vm_compute. reflexivity. Qed.

(* edits with an overwrite, a removal and keys that are prefixes of each other: "ab" < "b", "a" < "ab" *)
Example C12_prompt_edits :
  prompt_str (run_pops (new_prompt None)
                [PAdd [98] [49]; PAdd [97;98] [50]; PAdd [97] [51]; PUpdate [98] [52]; PAdd [122] [53]; PRemove [122]])
  = (* "['a' 3, 'ab' 2, 'b' 4]: " *)
    [91; 39;97;39;32;51; 44;32; 39;97;98;39;32;50; 44;32; 39;98;39;32;52; 93;58;32].
Proof. vm_compute. reflexivity. Qed.

(* 25 lines at height 10: pages of 8, 8, 8, 1 lines and three prompts *)
Example C12_paging_25_at_10 :
  let lines := map (fun i => [N.of_nat i]) (seq 0 25) in
  let page a n := map (fun i => [N.of_nat i]) (seq a n) in
  print_widget lines 10 = page_events [page 0 8; page 8 8; page 16 8; page 24 1]%nat /\
  count_asks (print_widget lines 10) = 3%nat /\
  prints_of (print_widget lines 10) = lines.
Proof. vm_compute. repeat split. Qed.

(* a titled window with a text, a separator of 2 and a text, paged at height 5 *)
Example C12_window_example :
  let t s := simple_text s in
  show_all (WWindow (Some (t [84])) [WText (t [97]); WSep 2; WText (t [98; 10; 99])]) 80 5
  = ROk (page_events [[[84]; []; [97]]; [[]; []; [98]]; [[99]]]).
Proof. vm_compute. reflexivity. Qed.

(* 7 lines at height 4 (pages of 2, 2, 2, 1 lines; three prompts): three typed lines of different
   content ("", "q", "any text") are all consumed; two more would be left; with one only, the run
   blocks at the second prompt after 4 lines *)
Example C12_paging_consumes_example :
  let lines := map (fun i => [N.of_nat i]) (seq 0 7) in
  let page a n := map (fun i => [N.of_nat i]) (seq a n) in
  let evs := page_events [page 0 2; page 2 2; page 4 2; page 6 1]%nat in
  let t1 := [] in let t2 := [113] in let t3 := [97;110;121;32;116;101;120;116] in
  print_widget_in lines 4 [t1; t2; t3] = {| pr_events := evs; pr_left := []; pr_status := PgDone |} /\
  print_widget_in lines 4 [t3; t3; t1; t2; t1] = {| pr_events := evs; pr_left := [t2; t1]; pr_status := PgDone |} /\
  print_widget_in lines 4 [t2]
  = {| pr_events := map PPrint (page 0 2)%nat ++ PAskContinue :: map PPrint (page 2 2)%nat ++ [PAskContinue];
       pr_left := []; pr_status := PgBlocked |}.
Proof. vm_compute. repeat split. Qed.

Print Assumptions C12_paging_prints_all.
Print Assumptions C12_paging_pages.
Print Assumptions C12_paging_short_no_prompt.
Print Assumptions C12_paging_ask_count.
Print Assumptions C12_paging_ask_count_ceil.
Print Assumptions C12_paging_terminates.
Print Assumptions C12_paging_in_agrees.
Print Assumptions C12_paging_consumes_one_line_per_prompt.
Print Assumptions C12_paging_output_independent_of_typed.
Print Assumptions C12_paging_blocks_without_typed_line.
Print Assumptions C12_window_titled.
Print Assumptions C12_window_untitled.
Print Assumptions C12_separator.
Print Assumptions C12_draw_appends.
Print Assumptions C12_show_all.
Print Assumptions C12_str_lt_lexicographic.
Print Assumptions C12_prompt_refines_map.
Print Assumptions C12_prompt_sorted.
Print Assumptions C12_prompt_format.
Print Assumptions C12_prompt_str.
Print Assumptions C12_prompt_listing_unique.
