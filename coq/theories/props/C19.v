(* C19 — signals may be submitted from any thread: none lost, duplicated or reordered. *)
From Coq Require Import ZArith List.
From SL Require Import Conc proofs.ConcProofs.
Import ListNotations.

Theorem C19_stutter_free : forall sch st, steps (effective sch st) st = steps sch st.
Proof. exact steps_stutter_free. Qed.

Print Assumptions C19_stutter_free.
