(* C19 — signals may be submitted from any thread: none lost, duplicated or reordered.
   Only theorem statements; every proof is [exact] of a lemma in proofs/Conc*.v.
   Model: Conc.v — threads are program-counter machines, one [step] = one shared access of
   enqueue_signal / execute_new_loop / close_loop / force_quit / register_signal_source / the dispatching
   get; [steps sch st] runs a schedule (list of thread ids; the turn of a blocked or finished thread is a
   stutter).  Every theorem quantifies over ALL programs, any number of threads and EVERY schedule.
   Thread 0 is the loop thread; [submitters_only] says the others only call enqueue_signal.
   Modelled, not verified: CPython executes each single access atomically (GIL, queue.Queue's mutex,
   itertools.count.__next__), sequential consistency, threading.Lock semantics. *)
From Coq Require Import ZArith List Bool Permutation.
From SL Require Import Conc proofs.ConcProofs proofs.ConcLocks proofs.ConcRoute proofs.ConcOrder proofs.ConcLive.
Import ListNotations.

(* 0. stutter-freedom: a schedule and its sub-schedule of enabled turns reach the same state, so the
      enumeration of stutter-free schedules used by the check (Conc.explore) covers every interleaving *)
Theorem C19_stutter_free : forall sch st, steps (effective sch st) st = steps sch st.
Proof. exact steps_stutter_free. Qed.

(* 1. conservation / no duplication.  [places st] lists, with multiplicity, every place a signal can be in:
      not yet put (still in a thread's program or in flight before its put) ++ held by the loop thread between
      get() and the put back ++ pending in some queue object ++ dispatched ++ discarded (its submitter read
      _force_quit = True).  In every reachable state it is a permutation of the submitted signals ... *)
Theorem C19_conservation : forall progs sch,
  Permutation (places (steps sch (init progs))) (all_sids progs).
Proof. exact conservation. Qed.

(*    ... hence, the submitted signals being distinct, no signal is ever in two places: never in two queues,
      never dispatched twice, never both pending and dispatched *)
Theorem C19_no_duplication : forall progs sch,
  NoDup (all_sids progs) -> NoDup (places (steps sch (init progs))).
Proof. exact no_duplication. Qed.

(* 2. nothing lost — partial: under the hypothesis that the loop thread neither closes a level nor
      force-quits (finding F10 shows the hypothesis is needed, see C19_lost_at_close_refuted): no pending
      signal sits in a queue the loop no longer knows, nothing is discarded, and
      not-yet-put ++ pending-in-live-queues ++ dispatched is a permutation of the submitted signals
      (for a complete run — every submitter finished, [unput st = []] — dispatched ++ pending-live = submitted) *)
Theorem C19_all_dispatched_partial : forall progs sch,
  submitters_only progs -> no_close_quit progs ->
  let st := steps sch (init progs) in
  pending_dead st = [] /\ held st = [] /\ h_drop (c_sh st) = [] /\ h_fq (c_sh st) = false /\
  Permutation (unput st ++ pending_live st ++ h_disp (c_sh st)) (all_sids progs).
Proof. exact all_dispatched_partial. Qed.

(* 3. per-thread order: if thread t submits s1 before s2 and both were put into the same queue object q
      (ghost put log: (thread, (queue, (priority, counter, sid)))), then s1 got the smaller counter, and if their
      priorities are equal and s2 has been dispatched then s1 was dispatched before it *)
Theorem C19_thread_order : forall progs sch,
  submitters_only progs -> NoDup (all_sids progs) ->
  let st := steps sch (init progs) in
  forall t p a s1 b s2 c q e1 e2,
    nth_error progs t = Some p -> prog_sids p = a ++ s1 :: b ++ s2 :: c ->
    In (t, (q, e1)) (plog st) -> e_sid e1 = s1 ->
    In (t, (q, e2)) (plog st) -> e_sid e2 = s2 ->
    e_cnt e1 < e_cnt e2 /\
    (e_prio e1 = e_prio e2 -> In s2 (h_disp (c_sh st)) ->
     exists d1 d2 d3, h_disp (c_sh st) = d1 ++ s1 :: d2 ++ s2 :: d3).
Proof. exact thread_order. Qed.

(* 4. routing: thread t holds MainLoop._lock and is about to iterate reversed(_event_queues) = lv for
      signal s of source o (state st0, reachable).  Whatever all threads do afterwards (any schedule sch):
      if force_quit has not been called, the submission has completed and some level of lv owned o in st0,
      then s was put into a level q of lv that owns o, and no level of lv inside q owned o in st0
      (registrations racing with the routing loop can only move the signal further in, to a level where
      its source is registered; appends and pops cannot interfere: they need the lock) *)
Theorem C19_routing : forall progs sch0 sch t prog s o,
  let st0 := steps sch0 (init progs) in
  nth_error (c_thr st0) t = Some (mk prog (PE s EMkIter)) -> s_src s = Some o ->
  let lv := h_evq (c_sh st0) in
  let src0 := h_src (c_sh st0) in
  let st := steps sch st0 in
  forall th, nth_error (c_thr st) t = Some th ->
  h_fq (c_sh st) = false ->
  (length (t_prog th) < length prog \/ t_pc th = P0) ->
  (exists i q, nth_error lv i = Some q /\ has_pair src0 q o = true) ->
  exists q c i, In (t, (q, (s_prio s, c, s_id s))) (h_putlog (c_sh st)) /\
    nth_error lv i = Some q /\ has_pair (h_src (c_sh st)) q o = true /\
    (forall j q', i < j -> nth_error lv j = Some q' -> has_pair src0 q' o = false).
Proof. exact routing. Qed.

(* 5. no deadlock: in every reachable state either some thread can take a non-stutter step, or every
      unfinished thread waits in PriorityQueue.get() on an empty queue ... *)
Theorem C19_no_deadlock : forall progs sch,
  let st := steps sch (init progs) in
  (exists t, enabled t st = true) \/
  (forall t th, nth_error (c_thr st) t = Some th -> finished th = true \/ waiting_get th (c_sh st) = true).
Proof. exact no_deadlock. Qed.

(*    ... which, when the other threads only submit, can only be the loop thread *)
Theorem C19_no_deadlock_loop : forall progs sch, submitters_only progs ->
  let st := steps sch (init progs) in
  (exists t, enabled t st = true) \/
  (forall t th, nth_error (c_thr st) t = Some th ->
     finished th = true \/ (t = 0 /\ waiting_get th (c_sh st) = true)).
Proof. exact no_deadlock_loop. Qed.

(*    the lock discipline behind it: a thread is at a program point inside `with self._lock` iff it is the
      holder, for MainLoop._lock and for every EventQueue._lock (acquisition order main -> queue only) *)
Theorem C19_lock_holders : forall progs sch,
  minv (steps sch (init progs)) /\ qinv (steps sch (init progs)).
Proof. intros; split; [apply minv_reach|apply qinv_reach]. Qed.

(* 6. finding F10 — the full "none lost" statement is false when a level is closed concurrently.
      Loop thread: execute_new_loop(signal 1); close_loop().  Submitter: enqueue_signal(signal 2, source
      registered nowhere).  Schedule: the loop thread opens the level (20 accesses); the submitter passes the
      locked routing loop without a match and loads _active_queue = queue 1 for the fallback (14 accesses);
      the loop thread runs close_loop completely (drain, lock, pop, re-point, unlock: 7 accesses) and its handler
      returns (1 step); the
      submitter puts signal 2 into queue object 1, which is no longer in _event_queues. *)
Definition f10_progs : list (list action) :=
  [ [AOpen {| s_id := 1; s_prio := 0; s_src := None |}; AClose];
    [ASubmit {| s_id := 2; s_prio := 0; s_src := None |}] ].
Definition f10_sched : list nat := repeat 0 20 ++ repeat 1 14 ++ repeat 0 8 ++ repeat 1 3.

Example C19_lost_at_close_refuted :
  let st := steps f10_sched (init f10_progs) in
  forallb finished (c_thr st) = true /\             (* both threads ran to completion *)
  h_fq (c_sh st) = false /\ unput st = [] /\
  h_disp (c_sh st) = [1] /\                          (* signal 2 was put but is not dispatched ... *)
  h_pend (c_sh st) = [(1, (0%Z, 1, 2))] /\           (* ... it sits in queue object 1 ... *)
  h_evq (c_sh st) = [0] /\ h_active (c_sh st) = 0 /\ (* ... which the loop no longer knows *)
  pending_live st = [] /\ pending_dead st = [2].
Proof. vm_compute. repeat split. Qed.

(* the variant with the fallback's put landing between close_loop's drain and its pop (moving the fallback
   under the lock would not cure it) *)
Example C19_lost_between_drain_and_pop :
  let st := steps (repeat 0 20 ++ repeat 1 14 ++ repeat 0 3 ++ repeat 1 3 ++ repeat 0 6) (init f10_progs) in
  forallb finished (c_thr st) = true /\ h_disp (c_sh st) = [1] /\ pending_dead st = [2].
Proof. vm_compute. repeat split. Qed.

(* 7. the gap after close_loop: close_loop() ends with `_run_loop = False`; the flag stays False while the
      handler that closed the level is still running ([PCRet]; every other thread is schedulable meanwhile) and is
      re-armed when the handler returns.  The submission path never reads the flag: a step of enqueue_signal
      is the same whatever the flag is, and leaves it alone — so a submission falling into the gap is routed and
      put exactly as at any other time (all theorems above quantify over schedules that put submissions there) *)
Theorem C19_submission_ignores_run_loop : forall t s e h b,
  estep t s e (with_run b h) =
  match estep t s e h with None => None | Some (e', h') => Some (e', with_run b h') end.
Proof. exact estep_ignores_run. Qed.

Theorem C19_submitter_ignores_run_loop : forall t th h b, submit_thread th = true ->
  tstep t th (with_run b h) =
  match tstep t th h with None => None | Some (th', h') => Some (th', with_run b h') end.
Proof. exact submit_ignores_run. Qed.

(*    non-vacuity of the gap: root source 5 registered at level 0, nested level opened and closed; the submitter
      runs its whole submission while the loop thread sits between close_loop() and the handler's return
      (_run_loop = False): the signal is put into the root queue and dispatched once the loop thread goes on *)
Definition gap_progs : list (list action) :=
  [ [ARegister 5; AOpen {| s_id := 1; s_prio := 0; s_src := None |}; AClose; ADispatch];
    [ASubmit {| s_id := 2; s_prio := 0; s_src := Some 5 |}] ].
Example C19_gap_example :
  let mid := steps (repeat 0 30) (init gap_progs) in
  let aft := steps (repeat 1 10) mid in
  let fin := steps [0; 0] aft in
  option_map t_pc (nth_error (c_thr mid) 0) = Some PCRet /\ h_run (c_sh mid) = false /\
  h_run (c_sh aft) = false /\ h_pend (c_sh aft) = [(0, (0%Z, 0, 2))] /\ h_drop (c_sh aft) = [] /\
  h_run (c_sh fin) = true /\ h_disp (c_sh fin) = [1; 2] /\ forallb finished (c_thr fin) = true.
Proof. vm_compute. repeat split. Qed.

(* non-vacuity: two submitters x two signals (equal priorities; thread 1's source 7 is registered at the
   nested level, thread 2's nowhere), the loop thread opens a nested level, registers 7 there and dispatches.
   The schedule switches inside submissions: thread 2 takes counter 1 of queue 1 for signal 3 and is
   preempted before its put; thread 1 takes counter 2 and puts signal 1 first (known fact (2): counters taken in
   one order, puts in the other); thread 2 is preempted again between reading _force_quit and the lock while
   thread 1 holds it.  Hypotheses of theorems 2 and 3 hold; all signals arrive exactly once, each thread's
   own in submission order (3 before 4, 1 before 2), the order between threads following the counters. *)
Definition ex_progs : list (list action) :=
  [ [AOpen {| s_id := 9; s_prio := 0; s_src := None |}; ARegister 7; ADispatch; ADispatch; ADispatch; ADispatch; ADispatch];
    [ASubmit {| s_id := 1; s_prio := 0; s_src := Some 7 |}; ASubmit {| s_id := 2; s_prio := 0; s_src := Some 7 |}];
    [ASubmit {| s_id := 3; s_prio := 0; s_src := None |}; ASubmit {| s_id := 4; s_prio := 0; s_src := None |}] ].
Definition ex_sched : list nat :=
  repeat 0 23 ++ repeat 2 15 ++ repeat 1 10 ++ [2] ++ repeat 1 4 ++ [2; 2] ++ repeat 1 6 ++ repeat 2 15 ++ repeat 0 5.

Example C19_example :
  let st := steps ex_sched (init ex_progs) in
  NoDup (all_sids ex_progs) /\
  (forall t p, nth_error ex_progs t = Some p -> t <> 0 -> forallb is_submit p = true) /\
  (forall t p, nth_error ex_progs t = Some p -> forallb okact p = true) /\
  forallb finished (c_thr st) = true /\
  h_disp (c_sh st) = [9; 3; 1; 2; 4] /\ pending st = [] /\ unput st = [] /\
  map (fun x => (fst x, fst (snd x), e_cnt (snd (snd x)), e_sid (snd (snd x)))) (rev (h_putlog (c_sh st)))
    = [(0, 1, 0, 9); (1, 1, 2, 1); (2, 1, 1, 3); (1, 1, 3, 2); (2, 1, 4, 4)].
Proof.
  split; [vm_compute; repeat constructor; cbn; intuition discriminate|].
  split; [intros [|[|[|[|t]]]] p H; inversion H; subst; intros; try reflexivity; congruence|].
  split; [intros [|[|[|[|t]]]] p H; inversion H; subst; reflexivity|].
  vm_compute. repeat split.
Qed.

Print Assumptions C19_stutter_free.
Print Assumptions C19_conservation.
Print Assumptions C19_no_duplication.
Print Assumptions C19_all_dispatched_partial.
Print Assumptions C19_thread_order.
Print Assumptions C19_routing.
Print Assumptions C19_no_deadlock.
Print Assumptions C19_no_deadlock_loop.
Print Assumptions C19_lock_holders.
Print Assumptions C19_submission_ignores_run_loop.
Print Assumptions C19_submitter_ignores_run_loop.
