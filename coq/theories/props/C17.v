(* C17 — console output is append-only and stays within the configured width.
   "Everything the framework itself emits is appended to the end of the output as plain lines: it never emits
    carriage returns, backspaces or cursor or erase sequences, so nothing already printed is rewritten.  Every
    screen draw is preceded by the two-line separator of exactly the configured width unless the screen disables
    it, and every line the framework produces - separator, title, wrapped text, list layout, prompt - is, ignoring
    trailing blanks, no longer than the configured width."
   Only theorem statements; every proof is [exact] of a lemma in proofs/C17Proofs.v.

   Model: ScreenOut.v.  [draw_output no_separator window w H] is the list of characters the process writes during
   one ScreenScheduler._draw_screen of a screen whose window is [window], at configured width [w] and screen height
   [H], with the outcome (ROk tt, or the exception that ended the draw: what was written before it is still there).
   It is built from [spacer] (ScreenScheduler._spacer), [Paging.show_all] (UIScreen.show_all: render the window,
   print it page by page) and [Prompt.text_prompt] (the press-ENTER prompt between pages).  [draw_terminal] is the
   same with the line feed echoed by the terminal when the user answers a press-ENTER prompt; [prompt_output] is
   the prompt written after the draw.  Characters are code points; [split_lines] cuts a stream at every line feed.
   Vocabulary (end of ScreenOut.v): [forbidden], [rstrip_sp], [texts_of_tree], [chars_of_tree], [tree_texts_ok],
   [fitting_tree], [prompt_app_chars], [prompt_literals], [own_chars]. *)
From Coq Require Import ZArith NArith List Bool.
From SL Require Import PyInt Widget TextWrap KeyPattern Containers Prompt Paging ScreenOut
     proofs.ContainersLayout proofs.ContainersFinal proofs.C17Proofs.
Import ListNotations.

(* ================================================================== 1. where the characters come from *)

(* a rendered widget tree (any nesting of texts, separators, centred widgets, columns, checkboxes, list containers,
   windows; any width) consists of blanks and of characters of the application's strings and labels that are NOT in
   textwrap._whitespace ("\t\n\v\f\r "): wrapping turns each of those into a blank, copies everything else *)
Theorem C17_charset_render : forall t w b c,
  tree_texts_ok t -> render_tree t w = ROk b -> In c (concat b) ->
  c = SP \/ (In c (chars_of_tree t) /\ is_tw_space c = false).
Proof. exact charset_render. Qed.

(* hence no rendered line contains a tab, line feed, vertical tab, form feed or carriage return, whatever the
   application's strings contain *)
Theorem C17_no_layout_controls : forall t w b c,
  tree_texts_ok t -> render_tree t w = ROk b -> In c (concat b) -> is_tw_space c = true -> c = SP.
Proof. exact render_no_layout_chars. Qed.

Theorem C17_lines_have_no_newline : forall t w b,
  tree_texts_ok t -> render_tree t w = ROk b -> Forall (Forall (fun c => c <> NL)) b.
Proof. exact render_lines_no_nl. Qed.

(* the building blocks (P: any set of characters containing the blank): drawing and typing only move characters *)
Theorem C17_chars_draw : forall (P : char -> Prop), P SP -> forall b row col block src,
  Forall (Forall P) b -> Forall (Forall P) src -> Forall (Forall P) (fst (draw b row col block src)).
Proof. exact chars_draw. Qed.

Theorem C17_chars_write : forall (P : char -> Prop), P SP -> forall b cur text row col width block,
  Forall (Forall P) b -> Forall (fun c => c = NL \/ P c) text ->
  Forall (Forall P) (fst (write b cur text row col width block)).
Proof. exact chars_write. Qed.

Theorem C17_chars_munge : forall s,
  Forall (fun c => c = SP \/ (In c s /\ is_tw_space c = false)) (munge s).
Proof. exact chars_munge. Qed.

(* Prompt.__str__ adds only the literals "[" "]" "'" " " "," ":" to the message, the keys and the descriptions *)
Theorem C17_prompt_str_chars : forall p c,
  In c (prompt_str p) -> In c prompt_literals \/ In c (prompt_app_chars p).
Proof. exact prompt_str_chars. Qed.

(* the prompt as written: line feeds (line breaks of the wrapping), blanks, and non-blank characters of str(prompt) *)
Theorem C17_charset_prompt : forall p chunks w s c,
  chunks_ok {| t_text := prompt_str p; t_chunks := chunks |} = true ->
  prompt_output p chunks w = ROk s -> In c s ->
  c = NL \/ c = SP \/ ((In c prompt_literals \/ In c (prompt_app_chars p)) /\ is_tw_space c = false).
Proof. exact chars_prompt_output. Qed.

(* one whole draw (separator, content page by page, press-ENTER prompts; complete or ended by an exception):
   every character is one of the framework's own ([own_chars]: line feed, blank, "=", the press-ENTER prompt),
   the terminal's echo, or a non-whitespace character of the application's strings *)
Theorem C17_charset_draw : forall echo ns win w H c,
  tree_texts_ok win -> In c (fst (draw_output_echo echo ns win w H)) ->
  In c own_chars \/ In c echo \/ (In c (chars_of_tree win) /\ is_tw_space c = false).
Proof. exact charset_draw. Qed.

(* the framework's own characters are the line feed and printable ASCII *)
Theorem C17_own_chars_plain : forall c, In c own_chars -> c = NL \/ (32 <= c /\ c < 127)%N.
Proof. exact own_chars_plain. Qed.

Theorem C17_prompt_literals_plain : forall c, In c prompt_literals -> (32 <= c /\ c < 127)%N.
Proof. exact prompt_literals_plain. Qed.

(* ================================================================== 2. no carriage return, backspace, escape ... *)

(* forbidden = BS, TAB, VT, FF, CR, ESC, DEL.  If the application's strings contain none of them - other than the
   blanks TAB, VT, FF, CR, which wrapping normalises - then a draw writes none, for every width, height, tree *)
Theorem C17_charset_framework : forall ns win w H,
  tree_texts_ok win ->
  (forall c, In c (chars_of_tree win) -> is_tw_space c = false -> forbidden c = false) ->
  Forall (fun c => forbidden c = false) (fst (draw_output ns win w H)).
Proof. exact charset_framework. Qed.

Theorem C17_charset_framework_prompt : forall p chunks w s,
  chunks_ok {| t_text := prompt_str p; t_chunks := chunks |} = true ->
  (forall c, In c (prompt_app_chars p) -> is_tw_space c = false -> forbidden c = false) ->
  prompt_output p chunks w = ROk s -> Forall (fun c => forbidden c = false) s.
Proof. exact charset_prompt. Qed.

(* append-only: the only control character (< 32, or DEL) the framework itself writes is the line feed; any other
   one is a non-whitespace character of the application's own strings, copied *)
Theorem C17_append_only : forall ns win w H c,
  tree_texts_ok win -> In c (fst (draw_output ns win w H)) -> (c < 32 \/ c = 127)%N ->
  c = NL \/ (In c (chars_of_tree win) /\ is_tw_space c = false).
Proof. exact append_only. Qed.

(* and every line feed is the end of a printed line: content that fits the screen (fewer than H - 2 lines) is
   written as the separator and then the window's lines, each followed by one line feed, nothing else;
   reading the stream back gives exactly those lines *)
Theorem C17_stream_fits_screen : forall echo ns win w H b,
  render_tree win w = ROk b -> (Z.of_nat (length b) < H - 2)%Z ->
  draw_output_echo echo ns win w H = ((if ns then [] else py_print (spacer w)) ++ emit_lines b, ROk tt).
Proof. exact draw_fits_screen. Qed.

Theorem C17_stream_lines : forall ns win w H b,
  tree_texts_ok win -> render_tree win w = ROk b -> (Z.of_nat (length b) < H - 2)%Z ->
  split_lines (fst (draw_output ns win w H)) = (if ns then [] else [rule w; rule w]) ++ b ++ [[]].
Proof. exact draw_stream_lines. Qed.

(* ================================================================== 3. the separator *)

(* exactly two lines of exactly w "=" (w = 0, or negative: two empty lines) *)
Theorem C17_separator_width : forall w,
  split_lines (spacer w) = [rule w; rule w] /\ length (rule w) = Z.to_nat w /\ Forall (fun c => c = EQS) (rule w).
Proof. exact separator_width. Qed.

(* a draw with the separator enabled starts with it (printed: followed by a line feed) and continues as the draw
   without it, with the same outcome - also when the draw ends with an exception *)
Theorem C17_separator_first : forall echo win w H,
  fst (draw_output_echo echo false win w H) = py_print (spacer w) ++ fst (draw_output_echo echo true win w H) /\
  snd (draw_output_echo echo false win w H) = snd (draw_output_echo echo true win w H).
Proof. exact draw_starts_with_separator. Qed.

Theorem C17_separator_lines : forall echo win w H,
  split_lines (fst (draw_output_echo echo false win w H)) =
  rule w :: rule w :: split_lines (fst (draw_output_echo echo true win w H)).
Proof. exact draw_separator_lines. Qed.

(* with the separator disabled only show_all writes, and any "=" in the output is the application's *)
Theorem C17_no_separator : forall echo win w H, draw_output_echo echo true win w H = show_all_output echo win w H.
Proof. exact draw_no_separator. Qed.

Theorem C17_no_separator_no_rule : forall win w H,
  tree_texts_ok win -> In EQS (fst (draw_output true win w H)) -> In EQS (chars_of_tree win).
Proof. exact no_separator_no_rule. Qed.

(* ================================================================== 4. width *)

(* every line of a rendered fitting tree (see [fitting_tree] in ScreenOut.v: texts, separators, centred widgets,
   checkboxes with a title or text, list containers without forced column width, windows; nested) is at most w long.
   Extends C13_within_width (plain trees) by the checkbox *)
Theorem C17_tree_within_width : forall t w b,
  fitting_tree t -> (0 <= w)%Z -> render_tree t w = ROk b -> Forall (fun l : line => (Z.of_nat (length l) <= w)%Z) b.
Proof. exact fitting_tree_within_width. Qed.

Theorem C17_plain_is_fitting : forall t, plain_tree t -> fitting_tree t.
Proof. exact plain_fitting. Qed.

(* every line of one draw, as it stands on the terminal (the user answering press-ENTER prompts with ENTER):
   separator, title, wrapped texts, list layout, press-ENTER prompt - its trailing blanks removed, it is at most w long.
   For every w >= 0, every height, every fitting tree, complete or interrupted draw. *)
Theorem C17_width : forall ns win w H,
  fitting_tree win -> (0 <= w)%Z ->
  Forall (fun l => (Z.of_nat (length (rstrip_sp l)) <= w)%Z) (split_lines (fst (draw_terminal ns win w H))).
Proof. exact width_draw_fitting. Qed.

(* _partial: the same for ANY window, under the hypothesis that the window itself renders within w.  What the
   hypothesis excludes (and C17_width's [fitting_tree] does not contain): ColumnWidget, list containers with a
   forced columns_width, title-less checkboxes - see C17_overflow_* and C17_titleless_checkbox_refuted: they CAN
   exceed the width *)
Theorem C17_width_partial : forall ns win w H,
  (0 <= w)%Z ->
  (forall b, render_tree win w = ROk b -> Forall (fun l : line => (Z.of_nat (length l) <= w)%Z) b) ->
  Forall (fun l => (length (rstrip_sp l) <= Z.to_nat w)%nat) (split_lines (fst (draw_terminal ns win w H))).
Proof. exact width_draw_gen. Qed.

(* the stream the process writes (no echo), when the content fits the screen: every line at most w, no stripping *)
Theorem C17_width_fits_screen : forall ns win w H b,
  fitting_tree win -> (0 <= w)%Z -> render_tree win w = ROk b -> (Z.of_nat (length b) < H - 2)%Z ->
  Forall (fun l => (Z.of_nat (length l) <= w)%Z) (split_lines (fst (draw_output ns win w H))).
Proof. exact width_draw_fits_screen. Qed.

(* the prompt: lines of at most w characters joined by line feeds, then ONE blank: the last line is at most w + 1
   long, and at most w once its trailing blanks are removed *)
Theorem C17_width_prompt : forall p chunks w s,
  (0 <= w)%Z -> prompt_output p chunks w = ROk s ->
  (exists b, s = join_nl b ++ [SP] /\ Forall (fun l : line => (Z.of_nat (length l) <= w)%Z) b) /\
  Forall (fun l => (Z.of_nat (length (rstrip_sp l)) <= w)%Z) (split_lines s) /\
  Forall (fun l => (Z.of_nat (length l) <= w + 1)%Z) (split_lines s).
Proof. exact width_prompt. Qed.

(* ================================================================== examples *)
Local Open Scope N_scope.
Definition ex_t (s : str) : wtree := WText (simple_text s).

(* a window titled "Menu" with a numbered 2-column list of "aa bb cc", "d", "ee", at width 20, height 30 *)
Definition ex_win : wtree :=
  WWindow (Some (simple_text [77;101;110;117]))
    [WList KRow 2%Z [ex_t [97;97;32;98;98;32;99;99]; ex_t [100]; ex_t [101;101]] None 3%Z (Some default_pattern)].

Example C17_example_stream :
  draw_output false ex_win 20 30 =
    ( (* "====================\n====================\nMenu\n\n1) aa bb   2) d\n   cc\n3) ee\n" *)
      [61;61;61;61;61;61;61;61;61;61;61;61;61;61;61;61;61;61;61;61;10;
       61;61;61;61;61;61;61;61;61;61;61;61;61;61;61;61;61;61;61;61;10;
       77;101;110;117;10; 10;
       49;41;32;97;97;32;98;98;32;32;32;50;41;32;100;10;
       32;32;32;99;99;10;
       51;41;32;101;101;10], ROk tt) /\
  fst (draw_output true ex_win 20 30) =
      [77;101;110;117;10; 10; 49;41;32;97;97;32;98;98;32;32;32;50;41;32;100;10; 32;32;32;99;99;10; 51;41;32;101;101;10].
Proof. vm_compute. split; reflexivity. Qed.

(* the hypotheses of the theorems hold for it *)
Example C17_example_hypotheses :
  tree_texts_ok ex_win /\ fitting_tree ex_win /\
  (forall c, In c (chars_of_tree ex_win) -> is_tw_space c = false -> forbidden c = false).
Proof.
  split; [|split].
  - unfold tree_texts_ok. vm_compute. repeat constructor.
  - unfold ex_win, ex_t. repeat (constructor; try (vm_compute; discriminate)).
  - assert (E : forallb (fun c => is_tw_space c || negb (forbidden c)) (chars_of_tree ex_win) = true) by (vm_compute; reflexivity).
    intros c Hc Hs. rewrite forallb_forall in E. specialize (E c Hc). rewrite Hs in E. cbn [orb] in E.
    now destruct (forbidden c).
Qed.

(* paging at height 4 (pages of 2 lines), no separator, width 8: the stream as written, and as the terminal shows it
   after ENTER; the press-ENTER prompt "\nPress ENTER to continue: " is wrapped at 8 like everything else *)
Example C17_example_paging :
  draw_output true (WWindow None [ex_t [97;10;98;10;99;10;100]]) 8 4 =
    ( (* "a\nb\n" "\nPress\nENTER to\ncontinue\n: " "c\nd\n" *)
      [97;10;98;10; 10;80;114;101;115;115;10;69;78;84;69;82;32;116;111;10;99;111;110;116;105;110;117;101;10;58;32;
       99;10;100;10], ROk tt) /\
  split_lines (fst (draw_terminal true (WWindow None [ex_t [97;10;98;10;99;10;100]]) 8 4)) =
    [[97]; [98]; []; [80;114;101;115;115]; [69;78;84;69;82;32;116;111]; [99;111;110;116;105;110;117;101]; [58;32];
     [99]; [100]; []].
Proof. vm_compute. split; reflexivity. Qed.

(* application text "a\tb\rc\vd\fe\x1bf": TAB is expanded, CR, VT, FF become blanks; ESC is not whitespace for
   textwrap and is copied (it is the application's, not the framework's) *)
Example C17_example_controls :
  render_tree (ex_t [97;9;98;13;99;11;100;12;101;27;102]) 40 =
    ROk [[97;32;32;32;32;32;32;32;98;32;99;32;100;32;101;27;102]].
Proof. vm_compute. reflexivity. Qed.

(* a draw that ends with an exception (list of 2 columns at width 3: ValueError) has written the separator only *)
Example C17_example_exception :
  draw_output false (WWindow None [WList KRow 2%Z [ex_t [97]; ex_t [98]] None 3%Z None]) 3 30 =
    ([61;61;61;10;61;61;61;10], RValueError).
Proof. vm_compute. reflexivity. Qed.

(* the default prompt of a screen at width 40 *)
Example C17_example_prompt :
  let p := run_pops (new_prompt (Some DEFAULT_MESSAGE))
             [PAddRefresh REFRESH_DESCRIPTION; PAddContinue CONTINUE_DESCRIPTION; PAddQuit QUIT_DESCRIPTION] in
  prompt_output p (t_chunks (simple_text (prompt_str p))) 40 =
    ROk (* "Please make a selection from the above\n['c' to continue, 'q' to quit, 'r' to\nrefresh]: " *)
      [80;108;101;97;115;101;32;109;97;107;101;32;97;32;115;101;108;101;99;116;105;111;110;32;102;114;111;109;32;
       116;104;101;32;97;98;111;118;101;10;
       91;39;99;39;32;116;111;32;99;111;110;116;105;110;117;101;44;32;39;113;39;32;116;111;32;113;117;105;116;44;32;
       39;114;39;32;116;111;10;
       114;101;102;114;101;115;104;93;58;32].
Proof. vm_compute. reflexivity. Qed.

(* the texts the framework supplies by default are ASCII letters and blanks (one line feed in the press-ENTER
   message, which text_prompt turns into a line break) *)
Example C17_default_texts_plain :
  forallb (fun c => (c =? 32) || ((65 <=? c) && (c <=? 90)) || ((97 <=? c) && (c <=? 122)))
          (DEFAULT_MESSAGE ++ QUIT ++ QUIT_DESCRIPTION ++ CONTINUE ++ CONTINUE_DESCRIPTION ++ REFRESH ++
           REFRESH_DESCRIPTION ++ HELP ++ HELP_DESCRIPTION ++ ENTER ++ tl continue_message) = true /\
  hd 0 continue_message = NL /\
  own_chars = [10; 32; 61; 10; 80;114;101;115;115;32;69;78;84;69;82;32;116;111;32;99;111;110;116;105;110;117;101;58;32].
Proof. vm_compute. repeat split. Qed.

(* what the width theorems exclude can really exceed the width: fixed-width columns *)
Example C17_overflow_forced_list_width :        (* ListRowContainer(2, ["a"*10, "b"*10], columns_width=10).render(12): 23 characters *)
  render_tree (WList KRow 2%Z [ex_t (repeat 97 10); ex_t (repeat 98 10)] (Some 10%Z) 3%Z None) 12 =
    ROk [repeat 97 10 ++ [32;32;32] ++ repeat 98 10].
Proof. vm_compute. reflexivity. Qed.

Example C17_overflow_column_widget :            (* ColumnWidget([(15, ["a"*15])], 1).render(10): 15 characters *)
  render_tree (WColumn [(Some 15%Z, [ex_t (repeat 97 15)])] 1%Z) 10 = ROk [repeat 97 15].
Proof. vm_compute. reflexivity. Qed.

(* FINDING (known_findings: titleless-checkbox-wider-than-width): a CheckboxWidget with neither title nor text is
   its box "[x]", a fixed column of 3, and nothing is rendered at width - 4 that could raise ValueError: at width 2 it
   renders a 3-character line; in a numbered list at width 5 the line "1) [x]" has 6 characters - also inside a
   window, hence on the screen.  With a title or text the render raises ValueError below width 5 and fits from 5 on
   (C17_tree_within_width). *)
Example C17_titleless_checkbox_refuted :
  render_tree (WCheckbox (simple_text [91;120;93]) []) 2 = ROk [[91;120;93]] /\
  render_tree (WList KRow 1%Z [WCheckbox (simple_text [91;120;93]) []] None 3%Z (Some default_pattern)) 5 =
    ROk [[49;41;32;91;120;93]] /\
  fst (draw_output true (WWindow None [WList KRow 1%Z [WCheckbox (simple_text [91;120;93]) []] None 3%Z (Some default_pattern)]) 5 30) =
    [49;41;32;91;120;93;10] /\
  render_tree (WCheckbox (simple_text [91;120;93]) [simple_text [97;98]]) 5 = ROk [[91;120;93;32;97]; [32;32;32;32;98]] /\
  render_tree (WCheckbox (simple_text [91;120;93]) [simple_text [97;98]]) 4 = RValueError.
Proof. vm_compute. repeat split. Qed.

Print Assumptions C17_charset_render.
Print Assumptions C17_no_layout_controls.
Print Assumptions C17_lines_have_no_newline.
Print Assumptions C17_chars_draw.
Print Assumptions C17_chars_write.
Print Assumptions C17_chars_munge.
Print Assumptions C17_prompt_str_chars.
Print Assumptions C17_charset_prompt.
Print Assumptions C17_charset_draw.
Print Assumptions C17_own_chars_plain.
Print Assumptions C17_prompt_literals_plain.
Print Assumptions C17_charset_framework.
Print Assumptions C17_charset_framework_prompt.
Print Assumptions C17_append_only.
Print Assumptions C17_stream_fits_screen.
Print Assumptions C17_stream_lines.
Print Assumptions C17_separator_width.
Print Assumptions C17_separator_first.
Print Assumptions C17_separator_lines.
Print Assumptions C17_no_separator.
Print Assumptions C17_no_separator_no_rule.
Print Assumptions C17_tree_within_width.
Print Assumptions C17_plain_is_fitting.
Print Assumptions C17_width.
Print Assumptions C17_width_partial.
Print Assumptions C17_width_fits_screen.
Print Assumptions C17_width_prompt.

(* ================================================================== session level (coordinator) ===========
   RESERVED: "every screen draw is preceded by the separator unless the screen disables it" over whole sessions
   belongs to the screen-layer model (ScreenSem.v, draw_screen).  The coordinator adds that theorem, its monitor
   and their Print Assumptions BELOW this comment.  Link to this file: one draw of the session model writes
   [draw_output (no_separator of the screen) (its window) (configured width) (its screen height)], and
   C17_separator_first / C17_separator_lines say that this stream starts with the separator iff no_separator = false.
   ========================================================================================================= *)
