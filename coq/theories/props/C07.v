(* C07 — what input() returns decides exactly one follow-up action.
   "After a line is handled, exactly one thing happens, determined by the screen's answer: 'processed' - nothing
    further; 'processed and redraw' or the refresh key - one refresh and draw of the top screen; 'processed and
    close' or the continue key - the top screen closes; the quit key - the application quits, or, when a quit
    dialog is configured, quits only if the dialog's answer is yes (or it has no answer).  A rejected or
    unrecognised line only re-issues the prompt, except that every fifth consecutive rejection redraws the screen
    first, and any accepted line resets that count."
   Only theorem statements; the proofs are in proofs/C07Proofs.v and proofs/InputLink.v (worker s2).

   Model: ScreenSem.v [process_input] / [action_of] / [process_input_result] (InputManager.process_input,
   InputManager._process_input, ScreenScheduler.process_input_result) inside the event loop LoopSem.v.
   Property: the acceptor [chk_C07 quit] of ScreenMon.v.  [T_ACTION [scr; act]] is emitted right after the screen's
   input() answered (act: 0 NOOP, 1 REDRAW, 2 CLOSE, 3 QUIT, 4 INPUT_ERROR); the observer keeps the count of
   consecutive rejections per screen and demands the NEXT event:
     NOOP: the handler's end;  REDRAW: the creation of one RenderScreenSignal by the scheduler, its enqueueing,
     then the handler's end;  CLOSE: T_OP [O_CLOSE; 0; _] (close_screen());  QUIT: the modal push of the configured
     quit screen - and after it returned either ExitMainLoop or one redraw - or ExitMainLoop at once when no quit
     screen is configured;  INPUT_ERROR: the re-prompt T_REQ of the TOP screen with its arguments (or the handler's
     end when its prompt() is None), but one redraw when the count of consecutive rejections is a multiple of 5;
     with an empty stack: ExitMainLoop.
   [wf_session specl quit acts]: every screen id in the session's commands and the quit screen is one of specl. *)
From Coq Require Import ZArith NArith List Bool.
From RecordUpdate Require Import RecordUpdate.
From SL Require Import PyInt LoopSem ScreenSem ScreenMon proofs.InputLink proofs.C07Proofs.
Import ListNotations.

(* 1. every session of the model is accepted *)
Theorem C07_one_followup : forall specs specl typed quit run_empty fuel acts,
  (forall n, specs n = nth n specl default_spec) -> wf_session specl quit acts = true ->
  sok (chk_C07 quit) typed (rev (trace (snd (app_run_all specs specl typed quit run_empty fuel acts)))) = true.
Proof. exact one_followup. Qed.

(* 2. the table: what the screen's input() returned -> the action ("r" = 114, "c" = 99, "q" = 113) *)
Theorem C07_table :
  action_of RProcessed = ANoop /\ action_of RRedraw = ARedraw /\ action_of RClose = AClose /\
  action_of RDiscarded = AError /\ action_of RNone = AError /\
  action_of (RKey [114%N]) = ARedraw /\ action_of (RKey [99%N]) = AClose /\ action_of (RKey [113%N]) = AQuit /\
  (forall s, s <> [114%N] -> s <> [99%N] -> s <> [113%N] -> action_of (RKey s) = AError).
Proof. exact action_table. Qed.

(* 3. the counter: process_input updates the screen's error counter with [err_step] and decides on the redraw from
      the updated counter ... *)
Theorem C07_counter_update : forall specs scr line,
  process_input specs scr line =
  (wr (fun u => u <| st_rb := false |>) ;;
   PTry (call_input specs scr line ;; wr (fun u => u <| st_rb := true |>))
        (raise_exception_signal ;; wr (fun u => u <| st_rb := false |>)) ;;
   rd (fun u => if st_rb u then
      let act := action_of (st_rv u) in
      ev T_ACTION [scr; match act with ANoop => 0 | ARedraw => 1 | AClose => 2 | AQuit => 3 | AError => 4 end] ;;
      wr (upd_scr scr (err_step act)) ;;
      rd (fun u => process_input_result specs act (Nat.modulo (ss_err (scr_of u scr)) 5 =? 0)%nat)
    else PRet)).
Proof. exact process_input_uses_err_step. Qed.

(* ... so after any sequence of actions the counter is the length of the current run of rejections *)
Theorem C07_counter : forall acts s,
  ss_err (fold_left (fun s a => err_step a s) acts s) = rejection_run acts (ss_err s).
Proof. exact counter_is_run. Qed.

(* in particular k rejections after an accepted line leave the counter at k, whatever happened before *)
Theorem C07_counter_streak : forall acts a k s, is_rejection a = false ->
  ss_err (fold_left (fun s x => err_step x s) (acts ++ a :: repeat AError k) s) = k.
Proof. exact streak_after_accept. Qed.

(* a session: five rejections (the fifth redraws), the refresh key, a rejection, the quit key answered "no" (one
   redraw), the quit key answered "yes" (the application quits: run() returns); and the monitor is not vacuous *)
Example C07_example :
  wf_session ex07_specl (Some 1) ex07_acts = true /\
  fst ex07_run = [ONormal; ONormal] /\
  sok (chk_C07 (Some 1)) ex07_typed ex07_trace = true /\
  actions_of ex07_trace = [4; 4; 4; 4; 4; 1; 4; 3; 2; 3; 2] /\ count_tag T_SHOW ex07_trace = 6 /\
  (* REDRAW demanded, the handler just ends *)
  sok (chk_C07 None) [] [EUser T_STACK [K_APPEND; 0; 0; 0; 0] []; EUser T_ACTION [0; 1] []; EHandlerEnd 10 0 None] = false /\
  (* NOOP demanded, a redraw happens *)
  sok (chk_C07 None) [] [EUser T_STACK [K_APPEND; 0; 0; 0; 0] []; EUser T_ACTION [0; 0] []; ESigNew 0 CLS_RENDER 0 None] = false /\
  (* first rejection: the prompt must be re-issued, not a redraw *)
  sok (chk_C07 None) [] [EUser T_STACK [K_APPEND; 0; 0; 0; 0] []; EUser T_ACTION [0; 4] []; ESigNew 0 CLS_RENDER 0 None] = false /\
  (* the re-prompt must be the TOP screen's *)
  sok (chk_C07 None) [] [EUser T_STACK [K_APPEND; 0; 0; 0; 0] []; EUser T_ACTION [0; 4] []; EUser T_REQ [1; 0; 0] []] = false /\
  (* QUIT with a quit dialog configured: quitting at once is rejected *)
  sok (chk_C07 (Some 1)) [] [EUser T_STACK [K_APPEND; 0; 0; 0; 0] []; EUser T_ACTION [0; 3] []; EHandlerEnd 10 0 (Some XExit)] = false.
Proof. vm_compute. repeat split. Qed.

Print Assumptions C07_one_followup.
Print Assumptions C07_table.
Print Assumptions C07_counter_update.
Print Assumptions C07_counter.
Print Assumptions C07_counter_streak.
