(* C17sep — the separator clause of C17 (worker s2; to be merged into props/C17.v):
   "Every screen draw is preceded by the two-line separator of exactly the configured width unless the screen
    disables it."  (The width of the separator is C17_separator_width in props/C17.v; here: WHEN it is printed.)
   Only theorem statements; the proofs are in proofs/C17sepProofs.v (a projection of proofs/InputLink.v).

   Model: ScreenSem.v ([draw_screen]: T_SEPARATOR [scr] is the event of printing the separator, T_SHOW [entry; scr]
   the event of show_all()).  Property: the acceptor [chk_C17sep nosep] of ScreenMon.v, nosep = the screens'
   no_separator flags: every T_SHOW [id; scr] is immediately preceded (previous screen-layer event) by
   T_SEPARATOR [scr] iff the screen does not disable it, and T_SEPARATOR is only emitted for screens that do not.
   [wf_session]: every screen id used by the session's commands is one of the session's screens. *)
From Coq Require Import ZArith NArith List Bool.
From SL Require Import PyInt LoopSem ScreenSem ScreenMon proofs.InputLink proofs.C17sepProofs.
Import ListNotations.

(* every session of the model (any screens, any typed lines, any actions, any fuel) is accepted *)
Theorem C17_separator_every_draw : forall specs specl typed quit run_empty fuel acts,
  (forall n, specs n = nth n specl default_spec) -> wf_session specl quit acts = true ->
  sok (chk_C17sep (map sc_no_separator specl)) typed
      (rev (trace (snd (app_run_all specs specl typed quit run_empty fuel acts)))) = true.
Proof. exact separator_every_draw. Qed.

(* what the acceptor says about one draw: the previous screen-layer event is this screen's separator exactly when
   the screen does not disable it *)
Theorem C17_separator_meaning : forall nosep w id scr t,
  chk_C17sep nosep w (EUser T_SHOW [id; scr] t) = true ->
  (nth scr nosep false = false <-> exists pa, sw_prev_user w = Some (T_SEPARATOR, pa) /\ nth0 pa 0 = scr).
Proof. exact C17sep_show_meaning. Qed.

(* a session with 5 draws, 2 of them of a screen that disables the separator; and the monitor is not vacuous:
   a draw without its separator, and a separator for a screen that disables it, are rejected *)
Example C17sep_example :
  wf_session ex17_specl None ex17_acts = true /\
  sok (chk_C17sep (map sc_no_separator ex17_specl)) ex17_typed ex17_trace = true /\
  count_tag T_SHOW ex17_trace = 5 /\ count_tag T_SEPARATOR ex17_trace = 3 /\
  sok (chk_C17sep [false]) [] [EUser T_SHOW [0; 0] []] = false /\
  sok (chk_C17sep [true]) [] [EUser T_SEPARATOR [0] []; EUser T_SHOW [0; 0] []] = false /\
  sok (chk_C17sep [false]) [] [EUser T_SEPARATOR [0] []; EUser T_MARK [0; 1] []; EUser T_SHOW [0; 0] []] = false.
Proof. vm_compute. repeat split. Qed.

Print Assumptions C17_separator_every_draw.
Print Assumptions C17_separator_meaning.
