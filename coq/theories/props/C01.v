(* C01 — signals are dispatched by priority, first-in first-out within a priority.
   Only theorem statements; every proof is [exact] of a lemma in proofs/. *)
From Coq Require Import ZArith NArith List Bool Sorted.
From SL Require Import LoopSem LoopProg Monitors LegacyHeapq proofs.LoopLink proofs.C01Proofs.
Import ListNotations.

(* Every trace of every session (any handlers, any calls from outside or from inside handlers, any number of
   pending signals) is accepted by the monitor: each signal taken from a queue — for dispatch, or looked at
   and put back by a partial batch — is the head of that queue's reference stable priority queue. *)
Theorem C01_dispatch_order : forall U (code : nat -> signal -> nat -> prog U) fuel acts (u : U),
  ok_C01 (rev (trace (snd (run_session code fuel acts (init_state u))))) = true.
Proof. exact @dispatch_order. Qed.

(* The reference queue is "most urgent first, FIFO within a priority": the new element goes after every
   element of priority <= its own and before the first element of greater priority ... *)
Theorem C01_stable_insert_spec : forall p sid q,
  exists l1 l2, q = l1 ++ l2 /\ stable_insert p sid q = l1 ++ (p, sid) :: l2 /\
                Forall (fun x => (fst x <= p)%Z) l1 /\
                match l2 with [] => True | x :: _ => (p < fst x)%Z end.
Proof. exact stable_insert_spec. Qed.

(* ... it stays sorted by priority ... *)
Theorem C01_stable_insert_sorted : forall p sid q,
  StronglySorted (fun a b => (fst a <= fst b)%Z) q ->
  StronglySorted (fun a b => (fst a <= fst b)%Z) (stable_insert p sid q).
Proof. exact stable_insert_sorted. Qed.

(* ... and the reference content of every queue is sorted by priority along ANY trace: its head is a most
   urgent pending signal. *)
Theorem C01_pend_sorted : forall (t : list event) q,
  StronglySorted (fun a b => (fst a <= fst b)%Z) (pend (world_of t) q).
Proof. exact pend_sorted. Qed.

(* Queue level, no traces: what EventQueue.get() returns is strictly below every remaining entry in
   (priority, arrival counter) order. *)
Theorem C01_pop_is_most_urgent : forall q p c sg q',
  qwf q -> q_pop q = Some ((p, c, sg), q') ->
  forall p' c' sg', In (p', c', sg') (eq_entries q') -> (p < p')%Z \/ (p = p' /\ c < c').
Proof. exact pop_is_most_urgent. Qed.

(* Queue level: the sorted content after a put is the stable insertion (used by the link lemma) *)
Theorem C01_put_is_stable_insert : forall q sg,
  qwf q -> abs (q_put q sg) = stable_insert (sg_prio sg) (sg_id sg) (abs q).
Proof. exact q_put_abs. Qed.

(* FIFO within a priority: two enqueues of equal priority sit next to each other in put order ... *)
Theorem C01_fifo_within_priority : forall p a b q,
  exists l1 l2, stable_insert p b (stable_insert p a q) = l1 ++ (p, a) :: (p, b) :: l2 /\ q = l1 ++ l2.
Proof. exact fifo_two_inserts. Qed.

Theorem C01_fifo_two_puts : forall q sa sb, qwf q -> sg_prio sa = sg_prio sb ->
  exists l1 l2, abs (q_put (q_put q sa) sb) = l1 ++ (sg_prio sa, sg_id sa) :: (sg_prio sa, sg_id sb) :: l2 /\
                abs q = l1 ++ l2.
Proof. exact fifo_two_puts. Qed.

(* ... whatever happens in between: an equal-priority element enqueued later goes after one already pending,
   later enqueues of any priority and dispatches of other signals never reorder two pending signals. *)
Theorem C01_fifo_later_enqueue : forall p a b q,
  StronglySorted (fun a b => (fst a <= fst b)%Z) q -> In (p, a) q -> before (p, a) (p, b) (stable_insert p b q).
Proof. exact fifo_insert_sorted. Qed.
Theorem C01_order_kept_by_enqueue : forall x y p sid q, before x y q -> before x y (stable_insert p sid q).
Proof. exact before_stable_insert. Qed.
Theorem C01_order_kept_by_dispatch : forall x y q, before x y q -> hd x q <> x -> before x y (tl q).
Proof. exact before_tl. Qed.

(* non-vacuity: a handler enqueues three ties (priority 5) and a less urgent signal, then calls
   process_signals(); the first tie's handler enqueues another tie and a MORE urgent signal (priority 3), which
   ends the batch: ERequeue.  Then 7 (priority 3), the ties 3,5,6 in enqueue order, then priority 7. *)
Definition C01_bodies : list (list cmd) :=
  [ [CmEnqueue 2 5 None; CmEnqueue 2 5 None; CmEnqueue 3 7 None; CmEnqueue 2 5 None; CmProcess None; CmMark 9];
    [CmIfCount 1 [CmEnqueue 2 5 None; CmEnqueue 4 3 None] [CmMark 1]];
    [CmExit];
    [CmMark 4] ].
Definition C01_acts : list (top counters) :=
  [ TProg (compile_cmds 0 [CmRegHandler 1 0 0; CmRegHandler 2 1 0; CmRegHandler 3 2 0; CmRegHandler 4 3 0;
                           CmEnqueue 3 7 None; CmEnqueue 1 0 None]);
    TRun ].
Definition C01_trace : list event :=
  rev (trace (snd (run_session (handler_prog C01_bodies) 200 C01_acts (init_state [])))).
Definition dispatched (t : list event) : list nat :=
  flat_map (fun e => match e with EDispatch sid _ _ => [sid] | _ => [] end) t.
Example C01_example :
  ok_C01 C01_trace = true /\ dispatched C01_trace = [1; 2; 7; 3; 5; 6; 0] /\
  existsb (fun e => match e with ERequeue 7 0 => true | _ => false end) C01_trace = true.
Proof. vm_compute. repeat split. Qed.

(* the defect fixed by commit 5bf8464: CPython's heapq over signals compared by priority only is not stable *)
Example C01_legacy_refuted :
  map snd (pop_n 4 (push_all [] [(0%Z, 0); (0%Z, 1); (0%Z, 2); (0%Z, 3)])) = [0; 2; 1; 3].
Proof. vm_compute. reflexivity. Qed.

Print Assumptions C01_dispatch_order.
Print Assumptions C01_stable_insert_spec.
Print Assumptions C01_stable_insert_sorted.
Print Assumptions C01_pend_sorted.
Print Assumptions C01_pop_is_most_urgent.
Print Assumptions C01_put_is_stable_insert.
Print Assumptions C01_fifo_within_priority.
Print Assumptions C01_fifo_two_puts.
Print Assumptions C01_fifo_later_enqueue.
Print Assumptions C01_order_kept_by_enqueue.
Print Assumptions C01_order_kept_by_dispatch.
