(* C05 — "A modal screen blocks its caller and shields everything beneath it".
   Only theorem statements; every proof is [exact] of a lemma of proofs/C05Proofs.v (worker s3), the
   [Example]s are evaluated by [vm_compute].
   Model: ScreenSem.v (the screen layer as programs over the event loop LoopSem.v); the property is the
   acceptor [chk_C05_gen] of ScreenMon.v evaluated on the ghost trace.  [chk_C05_gen strict] is the
   conjunction of
     - [chk_C05_shield_gen strict] (proofs/C05Proofs.v): T_SETUP / T_REFRESH / T_SHOW never concern an entry
       strictly beneath the current entry of a modal frame that is still open; T_MODAL_RETURN [id; _] only
       for a frame with [mf_orig = id] which (strict) is already closed;
     - [chk_C05_input]: T_INPUT never goes to a screen all of whose stack entries are shielded.
   The first conjunct is PROVED for every session (the strict form under the trace hypothesis [no_f13]:
   no force_quit and no nested loop entered while the stop flag is cleared — finding F13), together with
   [chk_C05_below]: what lies beneath an open modal frame stays in place.
   The second conjunct is REFUTED in general (finding F16, six sessions below, each reproduced event-for-event
   on the real implementation) and PROVED under three conditions decided on the trace (section 3), each of
   which is needed.
   setup() with commands of its own (sc_setup_cmds, section 6): the theorems of sections 1 and 3 that speak of the
   T_SETUP / T_REFRESH clauses are stated for [plain_setup specs] (no setup() runs commands); the stack theorem
   [C05_beneath_untouched] and the T_INPUT clause [C05_input_shield_partial] hold under the weaker
   [setup_cmds_ok specs] (a setup() that runs commands never reports failure), and so do the shield acceptors
   without their clauses for the RETURN of such a setup() and the refresh() of its screen ([relax_setup]).
   Without [setup_cmds_ok] the strict form is false even under [no_f13] (session su1 of section 6). *)
From Coq Require Import ZArith NArith List Bool.
From RecordUpdate Require Import RecordUpdate.
From SL Require Import PyInt LoopSem ScreenSem ScreenMon proofs.C05Proofs proofs.C05Hyp proofs.C05Input.
From SL Require Monitors.
Import ListNotations.

(* ================================================================== 0. what is proved of the acceptor *)
Theorem C05_acceptor_split : forall strict w e,
  chk_C05_gen strict w e = chk_C05_shield_gen strict w e && chk_C05_input w e.
Proof. exact chk_C05_gen_split. Qed.

(* ================================================================== 1. every session *)
(* For every application (every table of screens [specs], whatever the screens' callbacks do: push, push
   modal, replace, schedule, close, redraw, raise, exit, force_quit, blocking input, at any depth), every
   sequence of typed lines, every fuel and every list of top-level actions (commands outside callbacks,
   App.run() any number of times): no screen entry strictly beneath the current entry of an open modal
   frame is ever set up, refreshed or drawn, and every return of a modal push matches a frame opened by
   exactly that push and not yet returned.  (No hypothesis relating [specs] and [specl] is needed.)
   PARTIAL with respect to the requested [chk_C05_partial]: the T_INPUT clause is false, see section 3. *)
Theorem C05_modal_shield_partial :
  forall specs specl typed quit run_empty fuel acts,
    plain_setup specs ->
    sok chk_C05_shield_partial typed
        (rev (trace (snd (app_run_all specs specl typed quit run_empty fuel acts)))) = true.
Proof. intros specs specl typed quit run_empty fuel acts Hplain. exact (proj1 (C05_shield_session specs Hplain specl typed quit run_empty fuel acts)). Qed.

(* "returns to the caller only after that screen (or whatever replaced it) has been closed": when the
   trace shows no force_quit and no execute_new_loop entered while the loops had been told to stop
   ([no_f13], decided on the trace: the pattern of finding F13), every T_MODAL_RETURN finds its frame
   closed.  Without the hypothesis the statement is false: section 2. *)
Theorem C05_returns_only_after_close_partial :
  forall specs specl typed quit run_empty fuel acts,
    plain_setup specs ->
    let t := rev (trace (snd (app_run_all specs specl typed quit run_empty fuel acts))) in
    no_f13 t = true -> sok chk_C05_shield typed t = true.
Proof. intros specs specl typed quit run_empty fuel acts Hplain. exact (proj1 (proj2 (C05_shield_session specs Hplain specl typed quit run_empty fuel acts))). Qed.

(* the hypothesis in the vocabulary of the event-loop monitors (Monitors.v): no EForceQuit event, and the
   world rebuilt from the trace records no level "opened while the loops were already told to stop" *)
Theorem C05_hypothesis_meaning : forall t,
  no_f13 t = no_force_quit t && isnil (Monitors.w_stillborn (loop_world t)).
Proof. exact no_f13_spec. Qed.

(* consequently the monitors of ScreenMon.v accept a session trace iff its T_INPUT events are accepted *)
Theorem C05_modulo_input :
  forall specs specl typed quit run_empty fuel acts,
    plain_setup specs ->
    let t := rev (trace (snd (app_run_all specs specl typed quit run_empty fuel acts))) in
    sok chk_C05_partial typed t = sok chk_C05_input typed t /\
    (no_f13 t = true -> sok chk_C05 typed t = sok chk_C05_input typed t).
Proof. intros specs specl typed quit run_empty fuel acts Hplain. exact (C05_session_modulo_input specs Hplain specl typed quit run_empty fuel acts). Qed.

(* ================================================================== 2. the strict form is false (F13) *)
(* input() of a modal screen closes it and pushes another modal screen: the second push returns at once,
   its screen still open on the stack *)
Example C05_strict_refuted :
  fst C05Ex.f13 = [ONormal; ONormal] /\
  sok chk_C05 C05Ex.f13_typed (snd C05Ex.f13) = false /\
  sok chk_C05_shield C05Ex.f13_typed (snd C05Ex.f13) = false /\
  sok chk_C05_partial C05Ex.f13_typed (snd C05Ex.f13) = true /\
  sok chk_C04 C05Ex.f13_typed (snd C05Ex.f13) = true /\
  no_f13 (snd C05Ex.f13) = false.
Proof. vm_compute. repeat split. Qed.

(* ================================================================== 3. the T_INPUT clause *)
(* "no screen beneath it is given input": input() is never called on a screen all of whose stack entries lie
   beneath an open modal frame, PROVIDED (conditions decided on the trace, proofs/C05Input.v; "unanswered"
   = a request T_REQ [screen; args; handler] not yet answered by a typed line T_READY [handler; 1]):
     no_stale_prompt         every prompt is issued on behalf of the screen of the TOP entry,
     no_orphan_prompt        no entry of a screen is popped (closed, replaced, discarded) while a request of
                             that screen is unanswered,
     no_modal_during_prompt  no modal screen is pushed while a request is unanswered.
   Behind it: while a request of screen S is unanswered, S has a stack entry with no modal entry above it.
   Neither no_f13 nor any condition on force_quit is needed for this clause. *)
Theorem C05_input_shield_partial :
  forall specs specl typed quit run_empty fuel acts,
    setup_cmds_ok specs ->
    let t := rev (trace (snd (app_run_all specs specl typed quit run_empty fuel acts))) in
    no_stale_prompt t = true -> no_orphan_prompt t = true -> no_modal_during_prompt t = true ->
    sok chk_C05_input typed t = true.
Proof. intros specs specl typed quit run_empty fuel acts Hcok. exact (proj2 (proj2 (proj2 (C05_input_session_cmds specs Hcok specl typed quit run_empty fuel acts)))). Qed.

(* the whole acceptor of ScreenMon.v: chk_C05_partial under the three conditions, the strict chk_C05 under
   no_f13 in addition *)
Theorem C05_full_partial :
  forall specs specl typed quit run_empty fuel acts,
    plain_setup specs ->
    let t := rev (trace (snd (app_run_all specs specl typed quit run_empty fuel acts))) in
    no_stale_prompt t = true -> no_orphan_prompt t = true -> no_modal_during_prompt t = true ->
    sok chk_C05_partial typed t = true /\ (no_f13 t = true -> sok chk_C05 typed t = true).
Proof. intros specs specl typed quit run_empty fuel acts Hplain. exact (C05_full_session specs Hplain specl typed quit run_empty fuel acts). Qed.

(* Without the conditions the clause is false (finding F16).  Six sessions; in each the stack discipline
   (chk_C04) is respected, the shield of setup/refresh/show holds, and input() is given to a screen whose
   every stack entry is beneath an open modal frame.  Each violates exactly ONE of the three conditions, so
   each condition is needed:
     cx1  the same screen twice on the stack, the upper (asking) entry closes          -> orphan
     cx3  the asking entry closes, its screen is scheduled again at the bottom         -> orphan
     cx5  _process_screen prompts for a screen whose entry was replaced in show_all    -> stale
     cx2  force_quit, second App.run(), modal pushed from refresh while prompting      -> modal during prompt
     cx4  re-prompt of a never drawn (unregistered) top screen, then a modal push      -> modal during prompt
     cx6  the asking screen's only registration level is closed, then a modal push     -> modal during prompt *)
Definition C05_row (ty : list (option str)) (x : list outcome * list event) :=
  (no_stale_prompt (snd x), no_orphan_prompt (snd x), no_modal_during_prompt (snd x),
   sok chk_C05_input ty (snd x), sok chk_C05_partial ty (snd x), sok chk_C05_shield_partial ty (snd x), sok chk_C04 ty (snd x)).
Example C05_input_beneath_modal_refuted :
  C05_row C05Ex.cx1_typed C05Ex.cx1     = (true, false, true, false, false, true, true) /\
  C05_row C05InEx.cx3_typed C05InEx.cx3 = (true, false, true, false, false, true, true) /\
  C05_row C05InEx.cx5_typed C05InEx.cx5 = (false, true, true, false, false, true, true) /\
  C05_row C05Ex.cx2_typed C05Ex.cx2     = (true, true, false, false, false, true, true) /\
  C05_row C05InEx.cx4_typed C05InEx.cx4 = (true, true, false, false, false, true, true) /\
  C05_row C05InEx.cx6_typed C05InEx.cx6 = (true, true, false, false, false, true, true).
Proof. vm_compute. repeat split. Qed.
(* no_f13: cx2 contains a force_quit; the five others satisfy it, the F13 session of section 2 violates only it *)
Example C05_conditions_independent :
  no_f13 (snd C05Ex.cx1) = true /\ no_f13 (snd C05InEx.cx3) = true /\ no_f13 (snd C05InEx.cx4) = true /\
  no_f13 (snd C05InEx.cx5) = true /\ no_f13 (snd C05InEx.cx6) = true /\ no_f13 (snd C05Ex.cx2) = false /\
  C05_row C05Ex.f13_typed C05Ex.f13 = (true, true, true, true, true, true, true) /\ no_f13 (snd C05Ex.f13) = false /\
  sok chk_C05 C05Ex.f13_typed (snd C05Ex.f13) = false.
Proof. vm_compute. repeat split. Qed.
(* the conditions are satisfiable together on non-trivial sessions (section 5: modal from input / depth 3) *)
Example C05_conditions_satisfiable :
  C05_row C05Ex.ex1_typed C05Ex.ex1 = (true, true, true, true, true, true, true) /\ no_f13 (snd C05Ex.ex1) = true /\
  C05_row C05Ex.ex4_typed C05Ex.ex4 = (true, true, true, true, true, true, true) /\ no_f13 (snd C05Ex.ex4) = true /\
  C05Ex.count_tag T_INPUT (snd C05Ex.ex4) = 9 /\ C05Ex.count_tag T_MODAL_RETURN (snd C05Ex.ex4) = 3.
Proof. vm_compute. repeat split. Qed.

(* ================================================================== 4. the caller resumes *)
(* push_screen_modal in the middle of a callback's command list: the nested loop is run; when it returns
   normally the very next step is T_MODAL_RETURN and then the REST of the caller's commands, from the state
   the nested loop left; any other outcome (ExitMainLoop, SystemExit, blocked) is passed on unchanged *)
Theorem C05_caller_resumes :
  forall specs f cn self cnt scr a rest (s : lstate sstate),
    let d := {| sd_id := st_next_sd (ust s); sd_scr := scr; sd_args := a; sd_modal := true |} in
    let s1 := emit (EUser T_STACK [K_APPEND; sd_id d; scr; a; 1] [])
                   ((emit (EUser T_OP [O_PUSH_MODAL; scr; a] []) s)
                      <| ust := (ust s) <| st_next_sd := S (st_next_sd (ust s)) |> <| st_stack := d :: st_stack (ust s) |> |>) in
    exec (screen_code specs) (8 + f) (CProg (do_scmds specs cn self cnt (SPushModal scr a :: rest))) s =
    let '(o, s2) := exec (screen_code specs) f (CApi (ANewLoop (render_spec None))) s1 in
    match o with
    | ONormal => exec (screen_code specs) (7 + f) (CProg (do_scmds specs cn self cnt rest))
                      (emit (EUser T_MODAL_RETURN [sd_id d; scr] []) s2)
    | _ => (o, s2)
    end.
Proof. exact caller_resumes_eq. Qed.

(* "When the call returns the caller's screen is still on the stack in its place": what the model guarantees.
   [below w f] = the entries strictly beneath the current entry of frame f (the pushed entry or what replaced
   it).  At every stack primitive (append, add_first, pop), for every frame open before it and still open
   after it, these entries are the same, in the same order; the only possible additions are further down, at
   the very bottom of the stack (add_first).  Nothing is said of a frame once it is closed: after a modal
   screen has closed itself its callback may go on closing the screens beneath it. *)
Theorem C05_beneath_untouched :
  forall specs specl typed quit run_empty fuel acts,
    setup_cmds_ok specs ->
    sok chk_C05_below typed (rev (trace (snd (app_run_all specs specl typed quit run_empty fuel acts)))) = true.
Proof. intros specs specl typed quit run_empty fuel acts Hcok. exact (proj2 (proj2 (C05_shield_session_cmds specs Hcok specl typed quit run_empty fuel acts))). Qed.

(* ... and no other event touches the stack, the entry being replaced, or a frame's current entry: the frames
   are the same list, or (T_MODAL_RETURN) the same list without the returning frame *)
Theorem C05_only_stack_primitives_move : forall w e,
  match e with EUser tag _ _ => tag <> T_STACK | _ => True end ->
  sw_stack (sworld_step w e) = sw_stack w /\ sw_replaced (sworld_step w e) = sw_replaced w /\
  (sw_modal (sworld_step w e) = sw_modal w \/
   exists id, sw_modal (sworld_step w e) = remove_first (fun f => (mf_orig f =? id)%nat) (sw_modal w)).
Proof. exact step_not_stack. Qed.

(* ================================================================== 5. examples *)
(* modal pushed from input(), from refresh(), from show_all(), from another modal (depth 3), with pushes,
   replaces and closes inside: the full strict monitor accepts, every push returned *)
Example C05_example_from_input :
  sok chk_C05 C05Ex.ex1_typed (snd C05Ex.ex1) = true /\ no_f13 (snd C05Ex.ex1) = true /\
  sok chk_C05_below C05Ex.ex1_typed (snd C05Ex.ex1) = true /\
  C05Ex.count_tag T_MODAL_RETURN (snd C05Ex.ex1) = 1 /\ C05Ex.count_tag T_INPUT (snd C05Ex.ex1) = 5.
Proof. vm_compute. repeat split. Qed.
Example C05_example_from_refresh :
  sok chk_C05 C05Ex.ex2_typed (snd C05Ex.ex2) = true /\ C05Ex.count_tag T_MODAL_RETURN (snd C05Ex.ex2) = 1.
Proof. vm_compute. repeat split. Qed.
Example C05_example_from_show_all :
  sok chk_C05 C05Ex.ex3_typed (snd C05Ex.ex3) = true /\ C05Ex.count_tag T_MODAL_RETURN (snd C05Ex.ex3) = 1.
Proof. vm_compute. repeat split. Qed.
Example C05_example_depth3 :
  sok chk_C05 C05Ex.ex4_typed (snd C05Ex.ex4) = true /\ no_f13 (snd C05Ex.ex4) = true /\
  sok chk_C05_below C05Ex.ex4_typed (snd C05Ex.ex4) = true /\
  C05Ex.count_tag T_MODAL_RETURN (snd C05Ex.ex4) = 3.
Proof. vm_compute. repeat split. Qed.
(* a refresh of the entry beneath an open modal entry is rejected; so is the loss of the entry beneath a
   modal entry whose frame is open *)
Example C05_monitor_rejects :
  sok chk_C05_shield_partial [] C05Ex.bad_trace = false /\ sok chk_C05_partial [] C05Ex.bad_trace = false /\
  sok chk_C05_below [] C05Ex.bad_trace = true /\ sok chk_C05_below [] C05Ex.bad_below = false.
Proof. vm_compute. repeat split. Qed.

(* ================================================================== 6. setup() with commands of its own *)
(* [setup_cmds_ok specs]: every screen whose setup() runs commands (sc_setup_cmds <> []) reports success every time.
   It is weaker than [plain_setup] and decided on a table of screens by [setup_cmds_okb]. *)
Theorem C05_setup_cmds_hypothesis :
  (forall specs, plain_setup specs -> setup_cmds_ok specs) /\
  (forall l, setup_cmds_okb l = true -> setup_cmds_ok (fun n => nth n l default_spec)).
Proof. split; [exact plain_setup_cmds_ok|exact setup_cmds_okb_ok]. Qed.

(* [relax_setup specs chk]: [chk] except that T_SETUP [id; scr; ..] (the return of setup()) and T_REFRESH [id; scr; ..]
   are not examined when screen scr has a setup() with commands; it is implied by [chk], and is [chk] itself when no
   setup() runs commands *)
Theorem C05_relaxed_acceptor_meaning : forall specs chk,
  (forall w e, relax_setup specs chk w e =
     match e with
     | EUser tag a _ => if ((tag =? T_SETUP)%nat || (tag =? T_REFRESH)%nat) && has_cmds (specs (nth0 a 1)) then true else chk w e
     | _ => chk w e
     end) /\
  (forall w e, chk w e = true -> relax_setup specs chk w e = true) /\
  (plain_setup specs -> forall w e, relax_setup specs chk w e = chk w e).
Proof.
  intros specs chk. split; [reflexivity|]. split; [intros w e; apply relax_setup_of|apply relax_setup_plain].
Qed.

(* every session whose setups with commands never fail: the entry of such a setup() (T_SETUP_BEGIN), every show_all(),
   every setup()/refresh() of the other screens never concern an entry beneath an open modal frame, every return of a
   modal push matches its frame, and (no_f13) finds it closed.  PARTIAL: that the entry is not beneath an open modal
   frame when a setup() with commands RETURNS and when its screen is refreshed is not proved (the commands may have
   changed the stack; the entry is then not the top entry any more). *)
Theorem C05_modal_shield_setup_cmds_partial :
  forall specs specl typed quit run_empty fuel acts,
    setup_cmds_ok specs ->
    let t := rev (trace (snd (app_run_all specs specl typed quit run_empty fuel acts))) in
    sok (relax_setup specs chk_C05_shield_partial) typed t = true /\
    (no_f13 t = true -> sok (relax_setup specs chk_C05_shield) typed t = true).
Proof.
  intros specs specl typed quit run_empty fuel acts Hcok t.
  destruct (C05_shield_session_cmds specs Hcok specl typed quit run_empty fuel acts) as (H1 & H2 & _). split; assumption.
Qed.

(* without [setup_cmds_ok] the strict form is false although no_f13 holds: setup() of a modal screen pushes a screen
   and reports failure; the scheduler discards the pushed screen and stops the modal screen's loop: the modal push
   returns while its screen is still on the stack (su1).  With setups that succeed the full strict monitor accepts (su2:
   setup() opens a modal dialog, which opens another one, then pushes a screen) *)
Example C05_failing_setup_with_commands_refuted :
  fst C05InEx.su1 = [ONormal; ONormal] /\ setup_cmds_okb C05InEx.su1_specs = false /\ no_f13 (snd C05InEx.su1) = true /\
  sok chk_C05_shield C05InEx.su1_typed (snd C05InEx.su1) = false /\
  sok (relax_setup (C05InEx.fspecs C05InEx.su1_specs) chk_C05_shield) C05InEx.su1_typed (snd C05InEx.su1) = false /\
  sok chk_C05_shield_partial C05InEx.su1_typed (snd C05InEx.su1) = true /\
  sok chk_C05_below C05InEx.su1_typed (snd C05InEx.su1) = true.
Proof. vm_compute. repeat split. Qed.
Example C05_example_setup_with_commands :
  fst C05InEx.su2 = [ONormal; ONormal] /\ setup_cmds_okb C05InEx.su2_specs = true /\ no_f13 (snd C05InEx.su2) = true /\
  sok chk_C05 C05InEx.su2_typed (snd C05InEx.su2) = true /\ sok chk_C05_below C05InEx.su2_typed (snd C05InEx.su2) = true /\
  C05Ex.count_tag T_SETUP_BEGIN (snd C05InEx.su2) = 1 /\ C05Ex.count_tag T_MODAL_RETURN (snd C05InEx.su2) = 2.
Proof. vm_compute. repeat split. Qed.

Print Assumptions C05_acceptor_split.
Print Assumptions C05_modal_shield_partial.
Print Assumptions C05_returns_only_after_close_partial.
Print Assumptions C05_hypothesis_meaning.
Print Assumptions C05_modulo_input.
Print Assumptions C05_input_shield_partial.
Print Assumptions C05_full_partial.
Print Assumptions C05_caller_resumes.
Print Assumptions C05_beneath_untouched.
Print Assumptions C05_only_stack_primitives_move.
Print Assumptions C05_setup_cmds_hypothesis.
Print Assumptions C05_relaxed_acceptor_meaning.
Print Assumptions C05_modal_shield_setup_cmds_partial.
