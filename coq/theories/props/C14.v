(* C14 — the number shown next to an item is the number that selects it.
   Only theorem statements; every proof is [exact] of a lemma in proofs/. *)
From Coq Require Import ZArith NArith List.
From SL Require Import PyInt KeyPattern proofs.PyIntProofs proofs.C14Proofs.
Import ListNotations.
Local Open Scope Z_scope.

(* the displayed label is prefix ++ number ++ suffix, for every pattern of the family *)
Theorem C14_label_shows_number kp i :
  get_widget_label kp i = kp_prefix kp ++ shown_number kp i ++ kp_suffix kp.
Proof. reflexivity. Qed.

(* typing exactly the displayed number fires exactly that item's callback once, handled *)
Theorem C14_roundtrip : forall kp items i it,
  nth_error items i = Some it ->
  process_user_input (Some kp) items (KStr (shown_number kp i)) = (true, fire it).
Proof. exact roundtrip. Qed.

(* distinct items show distinct numbers, for every offset *)
Theorem C14_numbers_distinct : forall kp i j, shown_number kp i = shown_number kp j -> i = j.
Proof. exact numbers_distinct. Qed.

(* any key that int() reads as the displayed number selects that item ... *)
Theorem C14_selected : forall kp items s i it,
  parse_int s = Some (Z.of_nat i + kp_offset kp) ->
  nth_error items i = Some it ->
  process_user_input (Some kp) items (KStr s) = (true, fire it).
Proof. exact selected. Qed.

(* ... and every other string (zero / negative / too large relative to the displayed range,
   text, empty) fires nothing and is reported as not handled *)
Theorem C14_nothing_else : forall kp items s,
  (forall i, (i < length items)%nat -> parse_int s <> Some (Z.of_nat i + kp_offset kp)) ->
  process_user_input (Some kp) items (KStr s) = (false, []).
Proof. exact not_selected. Qed.

Theorem C14_not_a_string : forall kp items, process_user_input kp items KNotStr = (false, []).
Proof. intros [kp|] items; reflexivity. Qed.

Theorem C14_numbering_off : forall items k, process_user_input None items k = (false, []).
Proof. reflexivity. Qed.

Theorem C14_at_most_one_callback : forall kp items k,
  (length (snd (process_user_input kp items k)) <= 1)%nat.
Proof. exact at_most_one. Qed.

Theorem C14_parse_int_dec : forall z, parse_int (dec z) = Some z.
Proof. exact parse_int_dec. Qed.

(* non-vacuity: offset 5, three items, the middle one without callback *)
Example C14_example :
  let kp := {| kp_prefix := []; kp_suffix := [41; 32]%N; kp_offset := 5 |} in
  let items := [ {| it_callback := Some 7%nat; it_data := 70%nat |};
                 {| it_callback := None; it_data := 0%nat |};
                 {| it_callback := Some 9%nat; it_data := 90%nat |} ] in
  get_widget_label kp 2 = [55; 41; 32]%N /\
  process_user_input (Some kp) items (KStr [55]%N) = (true, [(9%nat, 90%nat)]) /\
  process_user_input (Some kp) items (KStr [54]%N) = (true, []) /\
  process_user_input (Some kp) items (KStr [49]%N) = (false, []) /\
  process_user_input (Some kp) items (KStr [56]%N) = (false, []).
Proof. vm_compute. repeat split. Qed.

Print Assumptions C14_label_shows_number.
Print Assumptions C14_roundtrip.
Print Assumptions C14_numbers_distinct.
Print Assumptions C14_selected.
Print Assumptions C14_nothing_else.
Print Assumptions C14_not_a_string.
Print Assumptions C14_numbering_off.
Print Assumptions C14_at_most_one_callback.
Print Assumptions C14_parse_int_dec.
