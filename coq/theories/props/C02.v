(* C02 — every dispatched signal reaches every handler of its class exactly once.
   Only theorem statements; every proof is [exact] of a lemma in proofs/C02Proofs.v.
   The property is the trace acceptor [chk_C02] of Monitors.v (the same function, extracted, judges
   the traces recorded from the implementation):
     - [EHandler h sid d] only as the next not-yet-started entry (h, d) of the live handler list of the
       class of the signal whose dispatch is innermost, never after force_quit;
     - [EDispatchEnd] only when every registered handler was started (or force_quit);
     - a handler ending with an ordinary exception is followed at once by the creation of one
       ExceptionSignal (priority -20) and its enqueueing into the active queue; the dispatch goes on;
     - [EKill] only for an ExceptionSignal with no handler registered; after it nothing but unwinding. *)
From Coq Require Import ZArith NArith List Bool.
From RecordUpdate Require Import RecordUpdate.
From SL Require Import LoopSem LoopProg Monitors proofs.C02Link proofs.C02Proofs.
Import ListNotations.

(* 1. every trace the loop can produce — any handler code (hence any registration table, any signals,
      any set of raising invocations), any sequence of top-level calls, any fuel — is accepted *)
Theorem C02_delivery : forall U (code : nat -> signal -> nat -> prog U) fuel acts (u : U),
  ok_C02 (rev (trace (snd (run_session code fuel acts (init_state u))))) = true.
Proof. exact @delivery. Qed.

(* the Hoare-style statement behind it: from a state whose trace is accepted and linked to the world
   ([good 0 F]: F = the open dispatch frames), every call leaves the frames as it found them
   (_process_signal: pops its own) — or the application was killed, or the run is blocked / out of fuel
   with everything so far accepted *)
Theorem C02_exec_discipline : forall U (code : nat -> signal -> nat -> prog U) f c s F o s',
  pre c F s -> exec code f c s = (o, s') -> res F o s'.
Proof. exact @exec_res. Qed.

(* what acceptance means after a kill: only SystemExit unwinding follows — no handler, no quit callback *)
Theorem C02_after_kill : forall t1 t2,
  ok_C02 (t1 ++ EKill :: t2) = true ->
  forall e, In e t2 -> exists h sid, e = EHandlerEnd h sid (Some XSysExit).
Proof. exact after_kill_shape. Qed.

(* 2. the ExceptionSignal (priority -20) overtakes everything pending of lower urgency ... *)
Theorem C02_exception_overtakes : forall x q,
  (forall p s, In (p, s) q -> (-20 < p)%Z) -> stable_insert (-20)%Z x q = ((-20)%Z, x) :: q.
Proof. exact stable_insert_head. Qed.

(* ... and in general stands behind entries of priority <= -20 only *)
Theorem C02_exception_position : forall p x q,
  exists l1 l2, q = l1 ++ l2 /\ stable_insert p x q = l1 ++ (p, x) :: l2 /\
                (forall p' s', In (p', s') l1 -> (p' <= p)%Z) /\
                match l2 with [] => True | (p', _) :: _ => (p < p')%Z end.
Proof. exact stable_insert_split. Qed.

(* the ExceptionSignal has no source: it is put into the active queue (dropped after force_quit) *)
Theorem C02_exception_enqueue : forall U (s : lstate U) id,
  do_enqueue s (mk_signal id exception_spec) =
  if force_quit s then emit (EDropped id) s
  else emit (EEnq id (active s)) (set_q s (active s) (q_put (get_q s (active s)) (mk_signal id exception_spec))).
Proof. exact @enqueue_exception. Qed.

(* 3. an ExceptionSignal nobody handles kills the application: no handler runs, nothing else happens *)
Theorem C02_unhandled_kills : forall U (code : nat -> signal -> nat -> prog U) f sg s,
  handlers_of s CLS_EXCEPTION = None -> sg_cls sg = CLS_EXCEPTION ->
  exec code (S f) (CProcessSignal sg 0) s =
  (OThrow XSysExit, emit EKill (s <| tickets := mark_line_to_go (tickets s) CLS_EXCEPTION |>)).
Proof. exact @unhandled_kills. Qed.

(* SystemExit leaves _process_signals_loop, _mainloop and run() unchanged ... *)
Theorem C02_kill_leaves_procloop : forall U (code : nat -> signal -> nat -> prog U) f s sg s1 s3,
  run_loop s = true -> do_get s = inl (Some (sg, s1)) ->
  exec code f (CProcessSignal sg 0) (emit (EDispatch (sg_id sg) (active s) (length (levels s))) s1)
    = (OThrow XSysExit, s3) ->
  exec code (S f) CProcLoop s = (OThrow XSysExit, s3).
Proof. exact @sysexit_through_procloop. Qed.

Theorem C02_kill_leaves_mainloop : forall U (code : nat -> signal -> nat -> prog U) f s s1,
  run_loop s = true -> exec code f CProcLoop s = (OThrow XSysExit, s1) ->
  exec code (S f) CMainloop s = (OThrow XSysExit, s1).
Proof. exact @sysexit_through_mainloop. Qed.

(* ... run() adds nothing (no quit callback, no return) to what its main loop did *)
Theorem C02_kill_leaves_run : forall U (code : nat -> signal -> nat -> prog U) f s s',
  exec code (S f) CRun s = (OThrow XSysExit, s') <->
  exec code f CMainloop (run_entry s) = (OThrow XSysExit, s').
Proof. exact @sysexit_through_run. Qed.

(* run() returns normally (quit callback, ERunReturn) only from a normal end or ExitMainLoop of its main loop *)
Theorem C02_run_returns_only : forall U (code : nat -> signal -> nat -> prog U) f s s',
  exec code (S f) CRun s = (ONormal, s') ->
  exists s1, s' = run_exit s1 /\
             (exec code f CMainloop (run_entry s) = (ONormal, s1) \/
              exec code f CMainloop (run_entry s) = (OThrow XExit, s1)).
Proof. exact @run_normal_only. Qed.

(* 4. a handler that raises: its end is recorded, exactly one ExceptionSignal is created and enqueued,
      and the dispatch continues with the next handler *)
Theorem C02_failure_isolated : forall U (code : nat -> signal -> nat -> prog U) f sg idx s hs hid data s2,
  handlers_of (ps_state sg idx s) (sg_cls sg) = Some hs -> force_quit (ps_state sg idx s) = false ->
  nth_error hs idx = Some (hid, data) ->
  exec code f (CProg (code hid sg data)) (emit (EHandler hid (sg_id sg) data) (ps_state sg idx s)) = (OThrow XError, s2) ->
  exec code (S f) (CProcessSignal sg idx) s =
  let s3 := emit (EHandlerEnd hid (sg_id sg) (Some XError)) s2 in
  let '(xs, s4) := new_signal s3 exception_spec in
  exec code f (CProcessSignal sg (S idx)) (do_enqueue s4 xs).
Proof. exact @failure_isolated. Qed.

(* _process_signal never lets an ordinary exception out *)
Theorem C02_dispatch_catches : forall U (code : nat -> signal -> nat -> prog U) f sg idx s o s',
  exec code f (CProcessSignal sg idx) s = (o, s') -> o <> OThrow XError.
Proof. exact @exec_ps_noerr. Qed.

(* 5. non-vacuity.  Three classes; class 1 has three handlers, the middle one raises; class 2 has two,
      the first registers a third for its own class during the dispatch, which ends run();
      two signals pending; the ExceptionSignal (sid 2) overtakes the pending signal 1. *)
Definition ex_bodies : list (list cmd) :=
  [ [CmMark 100];                                   (* h0: class 1 *)
    [CmMark 101; CmRaise];                          (* h1: class 1, raises *)
    [CmMark 102];                                   (* h2: class 1 *)
    [CmIfCount 1 [CmRegHandler 2 5 25] []];         (* h3: class 2, registers h5 for its own class *)
    [CmMark 104];                                   (* h4: class 2 *)
    [CmExit];                                       (* h5: class 2, raises ExitMainLoop *)
    [CmMark 106];                                   (* h6: class 3 *)
    [CmMark 107] ].                                 (* h7: the ExceptionSignal handler *)
Definition ex_table : list cmd :=
  [CmRegHandler 1 0 10; CmRegHandler 1 1 11; CmRegHandler 1 2 12;
   CmRegHandler 2 3 20; CmRegHandler 2 4 21; CmRegHandler 3 6 30].
Definition ex_signals : list cmd := [CmSetQuitCb 9; CmEnqueue 1 0%Z None; CmEnqueue 2 0%Z None].
Definition is_handler (e : event) : bool := match e with EHandler _ _ _ => true | _ => false end.

Example C02_example :
  let '(os, st) := run_session (handler_prog ex_bodies) 100
                     [TProg (compile_cmds 0 (ex_table ++ [CmRegHandler 0 7 70] ++ ex_signals)); TRun] (init_state []) in
  os = [ONormal; ONormal] /\
  ok_C02 (rev (trace st)) = true /\
  filter is_handler (rev (trace st)) =
    [EHandler 0 0 10; EHandler 1 0 11; EHandler 2 0 12;      (* signal 0, class 1: all three, in order *)
     EHandler 7 2 70;                                         (* the ExceptionSignal overtakes signal 1 *)
     EHandler 3 1 20; EHandler 4 1 21; EHandler 5 1 25].      (* signal 1, class 2, incl. the late handler *)
Proof. vm_compute. repeat split. Qed.

(* the same without an ExceptionSignal handler: the application is killed, run() does not return and the
   quit callback is not called *)
Example C02_example_kill :
  let '(os, st) := run_session (handler_prog ex_bodies) 100
                     [TProg (compile_cmds 0 (ex_table ++ ex_signals)); TRun] (init_state []) in
  os = [ONormal; OThrow XSysExit] /\
  ok_C02 (rev (trace st)) = true /\
  hd ETop (trace st) = EKill /\
  filter is_handler (rev (trace st)) = [EHandler 0 0 10; EHandler 1 0 11; EHandler 2 0 12] /\
  existsb (fun e => match e with EQuitCb _ | ERunReturn => true | _ => false end) (trace st) = false.
Proof. vm_compute. repeat split. Qed.

Print Assumptions C02_delivery.
Print Assumptions C02_exec_discipline.
Print Assumptions C02_after_kill.
Print Assumptions C02_exception_overtakes.
Print Assumptions C02_exception_position.
Print Assumptions C02_exception_enqueue.
Print Assumptions C02_unhandled_kills.
Print Assumptions C02_kill_leaves_procloop.
Print Assumptions C02_kill_leaves_mainloop.
Print Assumptions C02_kill_leaves_run.
Print Assumptions C02_run_returns_only.
Print Assumptions C02_failure_isolated.
Print Assumptions C02_dispatch_catches.
