(* C08 — screen lifecycle: set up once, refreshed before every draw, closed once.
   "A screen's setup runs before its first refresh and never again once it has succeeded, and every draw of
    a screen is immediately preceded by a refresh of that same screen with the arguments it was scheduled
    with.  A screen whose setup reports failure is discarded without ever being refreshed, drawn or prompted
    and the next screen on the stack is processed instead; the closed callback fires exactly once for each
    close of a screen and never for a replace."
   Only theorem statements; every proof is [exact] of a lemma in proofs/C08Proofs.v or proofs/ScreenLink.v.
   The property is the trace acceptor [chk_C08] of ScreenMon.v (the same function, extracted, judges the
   traces recorded from the implementation):
     - while the entry popped by close_screen waits for its closed() no other screen-layer event is
       accepted; T_CLOSED only for that entry (so: never after the pop of a replace or of a discard);
     - T_SETUP only for a screen not yet ready, with the arguments of the top entry, at the start of a
       _process_screen frame; T_REFRESH only for a ready screen, same conditions;
       a setup() that runs commands of its own logs T_SETUP_BEGIN when it is entered — the conditions are checked
       there (not ready, the top entry's arguments, first thing of the frame) — and the T_SETUP of its return and the
       T_REFRESH that follows are recognised by the frame's state [in_setup_of] (the stack may have changed meanwhile);
     - T_SHOW only in a frame whose last lifecycle event is the T_REFRESH of the same entry;
     - after a failed setup the next stack / operation / prompt event is the pop of that entry.
   Hypothesis [failing_setup_plain specs]: a screen whose setup() can report failure (sc_setup contains false) has no
   setup commands; [plain_setup specs] implies it.  Without it the statement is false: a setup() that pushes a screen and
   then reports failure makes the scheduler discard the pushed screen ([C08_failed_setup_after_push_refuted]).
   Hypothesis [wf_session]: every screen id occurring in a push / push_modal / replace / schedule command
   (of the actions and of every callback list of every screen — setup() included —, through SIfCount) and the quit screen is
   < length specl, i.e. every screen that can reach the stack owns a slot of per-screen state.  In the
   Python every screen is an object of its own; in the model a screen without a slot cannot remember that
   its setup succeeded (counter-example: [C08_needs_wf]). *)
From Coq Require Import ZArith NArith List Bool.
From RecordUpdate Require Import RecordUpdate.
From SL Require Import PyInt LoopSem ScreenSem ScreenMon proofs.ScreenLink proofs.C04Proofs proofs.C08Proofs.
Import ListNotations.

(* 1. every well-formed session produces a trace the monitor accepts *)
Theorem C08_lifecycle : forall specs specl typed quit run_empty fuel acts,
  failing_setup_plain specs ->
  (forall n, specs n = nth n specl default_spec) -> wf_session specl quit acts = true ->
  sok chk_C08 typed (rev (trace (snd (app_run_all specs specl typed quit run_empty fuel acts)))) = true.
Proof. exact C08_lifecycle_proof. Qed.

(* the link behind it: at the end of a session that ran to its end, the observer's set of ready screens
   is exactly the set of screens whose setup flag is set, and no closed() is outstanding *)
Theorem C08_ready_link : forall specs specl typed quit run_empty fuel acts,
  failing_setup_plain specs ->
  (forall n, specs n = nth n specl default_spec) -> wf_session specl quit acts = true ->
  Forall finished (fst (app_run_all specs specl typed quit run_empty fuel acts)) ->
  slink typed (snd (app_run_all specs specl typed quit run_empty fuel acts)).
Proof. exact ready_link. Qed.

Theorem C08_ready_is_flag : forall typed nscr Ps pf s,
  Inv typed true nscr Ps pf s -> forall x, mem x (sw_ready (SW typed s)) = ss_ready (scr_of (ust s) x).
Proof. exact Inv_ready. Qed.

(* every _process_screen leaves the frames of the enclosing ones alone: through every loop-level call *)
Theorem C08_frames_balanced : forall typed specs nscr Ps pf f c s o s',
  failing_setup_plain specs ->
  (forall x, spec_wf nscr (specs x) = true) ->
  is_prog c = false -> Inv typed true nscr Ps pf s ->
  exec (screen_code specs) f c s = (o, s') ->
  match o with
  | OFuel | OBlocked => acc_tr (chkb true) typed (trace s')
  | _ => Inv typed true nscr Ps pf s' /\ sw_pframes (SW typed s') = pf
  end.
Proof. exact frames_balanced. Qed.

(* 2. what acceptance means, event by event.  [world typed t] = the observer's world after the events t *)
(* closed() fires only for the entry just popped by close_screen ... *)
Theorem C08_closed_only_after_close : forall typed t1 i scr tx t2,
  sok chk_C08 typed (t1 ++ EUser T_CLOSED [i; scr] tx :: t2) = true ->
  sw_closed_pending (fold_left sworld_step t1 (sworld0 typed)) = Some i.
Proof. exact accepted_closed. Qed.

(* ... which only the pop announced by close_screen arms (not a replace's pop, not the discard) ... *)
Theorem C08_closed_pending_armed : forall w e i,
  sw_closed_pending (sworld_step w e) = Some i -> sw_closed_pending w = Some i \/
  exists a t r, e = EUser T_STACK a t /\ sw_expect w = XPop true :: r /\ nth0 a 1 = i.
Proof. exact closed_pending_armed. Qed.

(* ... and at once: the next screen-layer event after that pop is the closed() of that entry *)
Theorem C08_closed_at_once : forall typed t1 tag a tx t2 i,
  sok chk_C08 typed (t1 ++ EUser tag a tx :: t2) = true ->
  sw_closed_pending (fold_left sworld_step t1 (sworld0 typed)) = Some i -> tag = T_CLOSED /\ nth0 a 0 = i.
Proof. exact accepted_closed_next. Qed.

(* a draw happens only in a _process_screen frame whose state is "refreshed entry i" ... *)
Theorem C08_show_after_refresh : forall typed t1 i scr tx t2,
  sok chk_C08 typed (t1 ++ EUser T_SHOW [i; scr] tx :: t2) = true ->
  exists f r, sw_pframes (fold_left sworld_step t1 (sworld0 typed)) = f :: r /\ pf_state f = 1 /\ pf_id f = i.
Proof. exact accepted_show. Qed.

(* ... a state only T_REFRESH of entry i creates, any other lifecycle event of the frame destroys, and
   nested frames (pushed by EHandler, popped by EHandlerEnd) leave alone *)
Theorem C08_refreshed_state : forall w e f r,
  sw_pframes (sworld_step w e) = f :: r -> pf_state f = 1 ->
  (exists a t, e = EUser T_REFRESH a t /\ pf_id f = nth0 a 0) \/
  (sw_pframes w = f :: r) \/ (exists h sid how g, e = EHandlerEnd h sid how /\ sw_pframes w = g :: f :: r).
Proof. exact pframe_refreshed. Qed.

(* setup() only for a screen not yet ready, with the top entry's arguments, at the start of a frame — or the return of
   a setup() with commands that was entered under these conditions (C08_setup_begin_once, C08_in_setup_state) *)
Theorem C08_setup_once : forall typed t1 i scr args ok tx t2,
  sok chk_C08 typed (t1 ++ EUser T_SETUP [i; scr; args; ok] tx :: t2) = true ->
  (mem scr (sw_ready (fold_left sworld_step t1 (sworld0 typed))) = false /\
   (exists e, top_entry (fold_left sworld_step t1 (sworld0 typed)) = Some e /\ en_args e = args) \/
   in_setup_of (fold_left sworld_step t1 (sworld0 typed)) i = true) /\
  exists f r, sw_pframes (fold_left sworld_step t1 (sworld0 typed)) = f :: r /\ pf_state f = 0.
Proof. exact accepted_setup. Qed.

(* a setup() with commands is entered only for a screen not yet ready, with the top entry's arguments, as the first thing
   of a frame, and never while a failed entry waits for its discard *)
Theorem C08_setup_begin_once : forall typed t1 i scr args tx t2,
  sok chk_C08 typed (t1 ++ EUser T_SETUP_BEGIN [i; scr; args] tx :: t2) = true ->
  mem scr (sw_ready (fold_left sworld_step t1 (sworld0 typed))) = false /\
  (exists e, top_entry (fold_left sworld_step t1 (sworld0 typed)) = Some e /\ en_args e = args) /\
  (exists f r, sw_pframes (fold_left sworld_step t1 (sworld0 typed)) = f :: r /\ pf_state f = 0 /\ pf_id f = 0) /\
  sw_failed (fold_left sworld_step t1 (sworld0 typed)) = None.
Proof. exact accepted_setup_begin. Qed.

(* "inside the setup() of entry i" is a state of the innermost frame that only T_SETUP_BEGIN of entry i creates (the
   frame's refresh / draw end it; an inner frame that ends reveals the state of the enclosing one) *)
Theorem C08_in_setup_state : forall w e i,
  in_setup_of (sworld_step w e) i = true ->
  (exists a t, e = EUser T_SETUP_BEGIN a t /\ nth0 a 0 = i) \/ in_setup_of w i = true \/
  (exists h sid how g r, e = EHandlerEnd h sid how /\ sw_pframes w = g :: r /\ sw_pframes (sworld_step w e) = r).
Proof. exact in_setup_armed. Qed.

(* refresh() only for a ready screen (its setup has succeeded), with the top entry's arguments — or right after the
   return of that entry's setup() with commands *)
Theorem C08_refresh_ready : forall typed t1 i scr args tx t2,
  sok chk_C08 typed (t1 ++ EUser T_REFRESH [i; scr; args] tx :: t2) = true ->
  mem scr (sw_ready (fold_left sworld_step t1 (sworld0 typed))) = true /\
  ((exists e, top_entry (fold_left sworld_step t1 (sworld0 typed)) = Some e /\ en_args e = args) \/
   in_setup_of (fold_left sworld_step t1 (sworld0 typed)) i = true) /\
  exists f r, sw_pframes (fold_left sworld_step t1 (sworld0 typed)) = f :: r /\ pf_state f = 0.
Proof. exact accepted_refresh. Qed.

(* once ready, always ready: no second setup *)
Theorem C08_ready_for_ever : forall w e x, mem x (sw_ready w) = true -> mem x (sw_ready (sworld_step w e)) = true.
Proof. exact ready_grows. Qed.

(* a failed setup is followed by the discard of that entry: no operation, prompt, separator, ... before *)
Theorem C08_failed_setup_discarded : forall typed t1 i scr args tx0 tag a tx t2,
  sok chk_C08 typed (t1 ++ EUser T_SETUP [i; scr; args; 0] tx0 :: EUser tag a tx :: t2) = true ->
  tag <> T_SETUP -> tag <> T_REFRESH -> tag <> T_SHOW -> tag <> T_CLOSED ->
  tag = T_STACK /\ nth0 a 0 = K_POP /\ nth0 a 1 = i.
Proof. exact accepted_failed_discard. Qed.

(* 3. non-vacuity.  The hypothesis is satisfiable by non-trivial sessions; the two example sessions of C04
      (modal dialog replaced then closed; a setup that fails once) are accepted and contain what the
      clauses speak about *)
Example C08_example_modal_replace :
  wf_session ex_specl None ex_acts1 = true /\
  sok chk_C08 ex_typed1 ex_trace1 = true /\
  shows ex_trace1 = [(0, 0); (1, 1); (2, 2); (0, 0)] /\
  (* three screens set up once each, four refreshes and draws, two closes (the replaced dialog: none) *)
  count_tag T_SETUP ex_trace1 = 3 /\ count_tag T_REFRESH ex_trace1 = 4 /\ count_tag T_SHOW ex_trace1 = 4 /\
  count_tag T_CLOSED ex_trace1 = 2.
Proof. vm_compute. repeat split. Qed.

Example C08_example_failed_setup :
  wf_session ex_specl None ex_acts2 = true /\
  sok chk_C08 ex_typed2 ex_trace2 = true /\
  shows ex_trace2 = [(1, 0); (2, 3); (1, 0)] /\
  (* the shy screen: setup fails (entry 0, discarded, never drawn), later succeeds (entry 2) *)
  filter (fun e => match e with EUser g _ _ => (g =? T_SETUP)%nat | _ => false end) ex_trace2 =
    [EUser T_SETUP [0; 3; 4; 0] []; EUser T_SETUP [1; 0; 0; 1] []; EUser T_SETUP [2; 3; 0; 1] []].
Proof. vm_compute. repeat split. Qed.

(* the monitor is not vacuous *)
Example C08_monitor_rejects :
  sok chk_C08 [] bad_show_without_refresh = false /\
  sok chk_C08 [] good_setup_refresh_show = true /\
  sok chk_C08 [] bad_closed_after_replace = false /\
  sok chk_C08 [] good_closed_after_close = true /\
  sok chk_C08 [] bad_closed_twice = false /\
  sok chk_C08 [] bad_close_without_closed = false /\
  sok chk_C08 [] bad_setup_twice = false /\
  sok chk_C08 [] bad_refresh_after_failed_setup = false.
Proof. vm_compute. repeat split. Qed.

(* why [wf_session]: a screen id without a slot (no screens declared at all, screen 0 scheduled) is set up
   again on every redraw ('r'): the model's trace is rejected *)
Example C08_needs_wf :
  let specl := @nil screen_spec in
  let typed := [Some [114%N]; None] in
  let acts := [SACmds [SSchedule 0 0]; SARun] in
  wf_session specl None acts = false /\
  sok chk_C08 typed (rev (trace (snd (app_run_all (fun n => nth n specl default_spec) specl typed None false 500 acts)))) = false /\
  sok chk_C04 typed (rev (trace (snd (app_run_all (fun n => nth n specl default_spec) specl typed None false 500 acts)))) = true.
Proof. vm_compute. repeat split. Qed.

(* setup() with commands.  Screen 0's setup() pushes screen 1 and reports FAILURE (session [fs_specl] of
   proofs/C04Proofs.v): the entry the scheduler discards is the pushed screen, not the one whose setup failed — "a screen
   whose setup reports failure is discarded" is violated by the code; the model's own trace is rejected *)
Example C08_failed_setup_after_push_refuted :
  sok chk_C08 fs_typed (rev (trace (snd (app_run_all (fs_specs [false]) (fs_specl [false]) fs_typed None false fs_fuel fs_acts)))) = false.
Proof. vm_compute; reflexivity. Qed.

Example C08_failed_setup_after_push_trace :
  filter (fun e => match e with EUser g _ _ => (g =? T_SETUP)%nat || (g =? T_SETUP_BEGIN)%nat || (g =? T_STACK)%nat | _ => false end)
         (firstn 22 (rev (trace (snd (app_run_all (fs_specs [false]) (fs_specl [false]) fs_typed None false fs_fuel fs_acts))))) =
  [EUser T_STACK [K_ADD_FIRST; 0; 0; 0; 0] []; EUser T_SETUP_BEGIN [0; 0; 0] []; EUser T_STACK [K_APPEND; 1; 1; 0; 0] [];
   EUser T_SETUP [0; 0; 0; 0] []; EUser T_STACK [K_POP; 1; 1; 0; 0] []].
Proof. vm_compute. reflexivity. Qed.

(* the same session with a setup() that succeeds satisfies the hypotheses of C08_lifecycle (so they are satisfiable by a
   setup() that changes the stack), is accepted, and runs to its end *)
Theorem C08_setup_push_hypothesis : failing_setup_plain (fs_specs []) /\ ~ failing_setup_plain (fs_specs [false]).
Proof. exact (conj fs_failing_setup_plain fs_not_failing_setup_plain). Qed.

Example C08_setup_push_accepted :
  wf_session (fs_specl []) None fs_acts = true /\
  sok chk_C08 fs_typed (rev (trace (snd (app_run_all (fs_specs []) (fs_specl []) fs_typed None false fs_fuel fs_acts)))) = true /\
  fst (app_run_all (fs_specs []) (fs_specl []) fs_typed None false fs_fuel fs_acts) = [ONormal; ONormal].
Proof. vm_compute. repeat split. Qed.

Print Assumptions C08_lifecycle.
Print Assumptions C08_ready_link.
Print Assumptions C08_ready_is_flag.
Print Assumptions C08_frames_balanced.
Print Assumptions C08_closed_only_after_close.
Print Assumptions C08_closed_pending_armed.
Print Assumptions C08_closed_at_once.
Print Assumptions C08_show_after_refresh.
Print Assumptions C08_refreshed_state.
Print Assumptions C08_setup_once.
Print Assumptions C08_setup_begin_once.
Print Assumptions C08_in_setup_state.
Print Assumptions C08_setup_push_hypothesis.
Print Assumptions C08_refresh_ready.
Print Assumptions C08_ready_for_ever.
Print Assumptions C08_failed_setup_discarded.
