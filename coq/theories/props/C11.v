(* C11 — Text never exceeds its width and nothing but whitespace is lost in wrapping.
   "Rendering text at a width of w >= 1 yields lines of at most w characters in which every non-blank
    character of the source appears exactly once and in order, each line break of the source starts a new
    line, and words longer than w are split rather than overflowing.  The result is exactly the greedy
    word-wrap of each source line - no spurious blank lines, no dropped or repeated words - for every text
    and every width."
   Only theorem statements; every proof is [exact] of a lemma in proofs/TextWrapProofs.v, TextWrapRender.v.

   Model: TextWrap.v ([render_text] = TextWidget.render, [wrap_chunks] = TextWrapper._wrap_chunks,
   [wrap_step] = one iteration of its outer loop, [take_fitting] = its inner loop, [break_point] =
   _handle_long_word, [munge] = _munge_whitespace), Widget.v ([typewriter] = Widget.write).
   The chunker (one regex) is an oracle: a [text] carries per source line the chunks CPython produced;
   [chunks_ok] is the contract (concatenation of a line's chunks = munge of the line; no empty chunk).
   Theorems that need the contract say so; the others hold for ARBITRARY chunk lists. *)
From Coq Require Import ZArith NArith List Bool.
From SL Require Import PyInt Widget TextWrap TextWrite proofs.WidgetProofs proofs.TextWrapProofs proofs.TextWrapRender
  proofs.TextWrapWrite.
Import ListNotations.

(* ---- vocabulary (defined in proofs/, restated here; each restatement is checked by reflexivity) ---- *)
Remark C11_def_nonblank s : nonblank s = filter (fun c => negb (is_py_space c)) s.      (* drop str.isspace() chars *)
Proof. reflexivity. Qed.
Remark C11_def_wrap_chunks' cs w :                                                       (* textwrap.wrap, total *)
  wrap_chunks' cs w = match wrap_chunks cs w with Some ls => ls | None => [] end.
Proof. reflexivity. Qed.
Remark C11_def_or_blank ls : or_blank ls = match ls with [] => [[]] | _ => ls end.       (* '\n'.join([]) is one empty line *)
Proof. reflexivity. Qed.
Remark C11_def_drop_lone_empty ls : drop_lone_empty ls = match ls with [[]] => [] | _ => ls end.   (* typing '' types nothing *)
Proof. reflexivity. Qed.
Remark C11_def_drop_lead chunks first :                                    (* a blank chunk at the start of a later line *)
  drop_lead chunks first = match chunks with c :: r => if all_blank c && negb first then r else chunks | [] => [] end.
Proof. reflexivity. Qed.
Remark C11_def_trim_last cur :                                                      (* a blank chunk at the end of a line *)
  trim_last cur = match rev cur with lastc :: before => if all_blank lastc then rev before else cur | [] => cur end.
Proof. reflexivity. Qed.
Remark C11_def_line_of cur : line_of cur = match cur with [] => None | _ => Some (concat cur) end.
Proof. reflexivity. Qed.
Remark C11_def_nonempty (c : str) : nonempty c = (c <> []).
Proof. reflexivity. Qed.
Remark C11_def_no_nl l : no_nl l = Forall (fun c => c <> NL) l.
Proof. reflexivity. Qed.

(* ---- 1. termination: the loop of _wrap_chunks ends; the model's fuel suffices -------------------------
   Measure: (total length of the chunks) + (number of chunks) strictly decreases in every iteration.
   No hypothesis is needed: empty chunks and width 0 included (space_left is forced to 1 then). *)
Theorem C11_step_progress : forall chunks w first,
  chunks <> [] -> measure (snd (wrap_step chunks w first)) < measure chunks.
Proof. exact wrap_step_decreases. Qed.

Theorem C11_fuel_enough : forall cs w, wrap_chunks cs w <> None.
Proof. exact wrap_chunks_fuel_enough. Qed.

Theorem C11_never_out_of_model : forall t w, render_text t w <> ROutOfModel.
Proof. exact render_never_out_of_model. Qed.

(* ---- 2. width: no rendered line is longer than w (any chunk oracle, even a wrong one) ---------------- *)
Theorem C11_width : forall t w b,
  render_text t w = ROk b -> Forall (fun l => (Z.of_nat (length l) <= w)%Z) b.
Proof. exact render_width. Qed.

(* the typewriter, run without a width on '\n'.join(ls), reproduces exactly the lines ls *)
Theorem C11_typewriter_reproduces_lines : forall ls,
  Forall no_nl ls -> fst (typewriter (join_nl ls) [] 0 0 0 None false) = drop_lone_empty ls.
Proof. exact typewriter_join. Qed.

(* ---- 3. conservation: every non-blank character exactly once and in order ----------------------------- *)
Theorem C11_conservation : forall t w b,
  chunks_ok t = true -> render_text t w = ROk b -> nonblank (concat b) = nonblank (t_text t).
Proof. exact render_conservation. Qed.

(* ---- 4. line structure ----------------------------------------------------------------------------------
   The rendered lines are the wrapped lines of the 1st source line, then those of the 2nd, ...; a source
   line that wraps to nothing contributes exactly one empty line.  Single exception: when all of that is
   the single empty line (one source line, wrapping to nothing, e.g. " ") nothing is typed: no line. *)
Theorem C11_line_structure : forall t w b,
  chunks_ok t = true -> render_text t w = ROk b ->
  b = drop_lone_empty (concat (map (fun cs => or_blank (wrap_chunks' cs (Z.to_nat w))) (t_chunks t))).
Proof. exact render_structure. Qed.

(* wrapping never produces an empty line ... *)
Theorem C11_wrapped_lines_nonempty : forall t w,
  chunks_ok t = true -> (1 <= w)%Z ->
  Forall (fun cs => Forall nonempty (wrap_chunks' cs (Z.to_nat w))) (t_chunks t).
Proof. exact wrapped_lines_nonempty. Qed.

(* ... so an empty line in the output stands for a source line without any non-blank character *)
Theorem C11_blank_line_only_from_blank_source : forall t w,
  chunks_ok t = true ->
  Forall2 (fun line cs => wrap_chunks' cs w = [] -> nonblank line = []) (split_lines (t_text t)) (t_chunks t).
Proof. exact blank_only_from_blank. Qed.

(* conversely: a source line of whitespace only is ONE blank chunk for the splitter (no chunk if empty); it wraps
   to nothing for every width, however long the run, and so renders as exactly one empty line *)
Theorem C11_blank_run_wraps_to_nothing : forall c w,
  all_blank c = true -> wrap_chunks' [c] w = [] /\ wrap_chunks' [] w = [].
Proof. exact blank_run_wraps_to_nothing. Qed.

(* each line break of the source starts a new line *)
Theorem C11_every_source_line_starts_a_line : forall t w b,
  chunks_ok t = true -> render_text t w = ROk b ->
  b = [] \/ length (split_lines (t_text t)) <= length b.
Proof. exact render_line_count. Qed.

(* ---- 5. greediness ---------------------------------------------------------------------------------------
   the inner loop takes the longest prefix of the chunks that fits: the next chunk would overflow *)
Theorem C11_greedy_inner : forall chunks w cur cl rest,
  take_fitting chunks [] 0 w = (cur, cl, rest) ->
  chunks = cur ++ rest /\ cl = total_len cur /\ cl <= w /\
  (forall c r, rest = c :: r -> cl + length c > w).
Proof. exact take_fitting_greedy. Qed.

(* one line: after the optional removal of a leading blank chunk, chunks = cur ++ rest with cur the longest
   fitting prefix; the line is cur (extended, if the next chunk fits on no line at all, by its piece up to
   the break point in the space left), minus one trailing blank chunk; nothing else is touched *)
Theorem C11_greedy : forall chunks w first,
  1 <= w ->
  exists cur rest,
    drop_lead chunks first = cur ++ rest /\ total_len cur <= w /\
    match rest with
    | [] => wrap_step chunks w first = (line_of (trim_last cur), [])
    | c :: r =>
        total_len cur + length c > w /\
        wrap_step chunks w first =
          if w <? length c then
            let e := break_point c (w - total_len cur) in
            (line_of (trim_last (cur ++ [firstn e c])), skipn e c :: r)
          else (line_of (trim_last cur), c :: r)
    end.
Proof. exact wrap_step_greedy. Qed.

(* ---- 6. words longer than the width are split, never overflowing, always progressing ------------------- *)
Theorem C11_break_point_bounds : forall c w, 1 <= w -> 1 <= break_point c w <= w.
Proof. exact break_point_bounds. Qed.

Theorem C11_long_words_split : forall c r w first,
  1 <= w -> w < length c -> (first = true \/ all_blank c = false) ->
  wrap_step (c :: r) w first =
    ((if all_blank (firstn (break_point c w) c) then None else Some (firstn (break_point c w) c)),
     skipn (break_point c w) c :: r).
Proof. exact wrap_step_long_word. Qed.

(* ---- 7. widths <= 0 are rejected; the empty text renders to nothing ---------------------------------------- *)
Theorem C11_nonpositive_width_rejected : forall t w,
  t_text t <> [] -> (w <= 0)%Z -> render_text t w = RValueError.
Proof. exact render_nonpositive. Qed.

Theorem C11_empty_text : forall t w, t_text t = [] -> render_text t w = ROk [].
Proof. exact render_empty. Qed.

(* ---- 8. non-vacuity ---------------------------------------------------------------------------------------
   the oracle-free chunker meets the contract for every text: the hypotheses above are satisfiable *)
Theorem C11_simple_text_ok : forall s, chunks_ok (simple_text s) = true.
Proof. exact simple_text_ok. Qed.

(* "aaaa bb\n\n cccccccccc d" at widths 1, 4, 5 (the values TextWidget.render gives) and at 0 *)
Definition ex_s : str := [97; 97; 97; 97; 32; 98; 98; 10; 10; 32; 99; 99; 99; 99; 99; 99; 99; 99; 99; 99; 32; 100]%N.

Example C11_example :
  chunks_ok (simple_text ex_s) = true /\
  render_text (simple_text ex_s) 1 =
    ROk [[97]; [97]; [97]; [97]; [98]; [98]; []; [32]; [99]; [99]; [99]; [99]; [99]; [99]; [99]; [99]; [99]; [99]; [100]]%N /\
  render_text (simple_text ex_s) 4 =
    ROk [[97; 97; 97; 97]; [98; 98]; []; [32; 99; 99; 99]; [99; 99; 99; 99]; [99; 99; 99]; [100]]%N /\
  render_text (simple_text ex_s) 5 =
    ROk [[97; 97; 97; 97]; [98; 98]; []; [32; 99; 99; 99; 99]; [99; 99; 99; 99; 99]; [99; 32; 100]]%N /\
  render_text (simple_text ex_s) 0 = RValueError /\
  render_text (simple_text [32]%N) 3 = ROk [].
Proof. vm_compute. repeat split. Qed.

(* ==== 9. Widget.write(text, row, col, width, block, wordwrap=True) on ANY widget state =========================
   Model: TextWrite.write_wrapped b cur maxw t row col width block, the widget being (buffer b, cursor cur,
   max_width maxw); row / col = None means "not given: take it from the cursor" -- an explicit 0 is 0;
   width None is defaulted to max_width - col when max_width is truthy ([eff_width]).
   [cell b i j] (proofs/WidgetProofs.v) is the character at row i, column j, None when there is no such cell. *)
Remark C11_def_wrapped_lines t w :              (* the greedy wrap of every source line, "" for one that wraps to nothing *)
  wrapped_lines t w = concat (map (fun cs => or_blank (wrap_chunks' cs w)) (t_chunks t)).
Proof. reflexivity. Qed.
Remark C11_def_line_start col block k :         (* first line at col, the others at col (block) or at column 0 *)
  line_start col block k = match k with O => col | S _ => if block then col else 0 end.
Proof. reflexivity. Qed.
Remark C11_def_covered L row col block i j :    (* cell (i, j) receives a character of line k *)
  covered L row col block i j =
  exists k l, nth_error L k = Some l /\ i = row + k /\ line_start col block k <= j < line_start col block k + length l.
Proof. reflexivity. Qed.
Remark C11_def_opt_or o d : opt_or o d = match o with Some v => v | None => d end.
Proof. reflexivity. Qed.
Remark C11_def_eff_width maxw col width :
  eff_width maxw col width =
  match width with
  | Some w => Some w
  | None => match maxw with Some m => if (m =? 0)%Z then None else Some (m - Z.of_nat col)%Z | None => None end
  end.
Proof. reflexivity. Qed.

(* TextWidget.render is the special case: empty buffer, cursor (0, 0), row and col not given, not block *)
Theorem C11_render_is_write : forall t w maxw,
  render_text t w = rres_of_wres (write_wrapped [] (0, 0) maxw t None None (Some w) false).
Proof. exact render_text_is_write. Qed.

(* the text typed is '\n'.join of the wrapped lines, from (row, col), without a width: a function of the GIVEN
   row / col (cursor only when not given), never of anything else in the widget *)
Theorem C11_write_is_typing_the_wrap : forall b cur maxw t row col width block w,
  t_text t <> [] -> eff_width maxw (opt_or col (snd cur)) width = Some w -> (1 <= w)%Z ->
  write_wrapped b cur maxw t row col width block =
  WOk (fst (typewriter (join_nl (wrapped_lines t (Z.to_nat w))) b (opt_or row (fst cur)) (opt_or col (snd cur))
                       (opt_or col (snd cur)) None block))
      (snd (typewriter (join_nl (wrapped_lines t (Z.to_nat w))) b (opt_or row (fst cur)) (opt_or col (snd cur))
                       (opt_or col (snd cur)) None block)).
Proof. exact write_wrapped_ok. Qed.

(* every wrapped line is at most w long (they are the lines of C11_line_structure / C11_greedy) *)
Theorem C11_write_lines_width : forall t w,
  (1 <= w)%Z -> Forall (fun l => (Z.of_nat (length l) <= w)%Z) (wrapped_lines t (Z.to_nat w)).
Proof. exact wrapped_lines_width_z. Qed.

(* line k of the wrap is found at row + k, from column line_start col block k on *)
Theorem C11_write_lines_placed : forall b cur maxw t row col width block w b' cur',
  t_text t <> [] -> chunks_ok t = true ->
  eff_width maxw (opt_or col (snd cur)) width = Some w -> (1 <= w)%Z ->
  write_wrapped b cur maxw t row col width block = WOk b' cur' ->
  forall k l j ch,
    nth_error (wrapped_lines t (Z.to_nat w)) k = Some l -> nth_error l j = Some ch ->
    cell b' (opt_or row (fst cur) + k) (line_start (opt_or col (snd cur)) block k + j) = Some ch.
Proof. exact placed_written. Qed.

(* every other cell of the buffer keeps its character *)
Theorem C11_write_other_cells_kept : forall b cur maxw t row col width block w b' cur',
  t_text t <> [] -> chunks_ok t = true ->
  eff_width maxw (opt_or col (snd cur)) width = Some w -> (1 <= w)%Z ->
  write_wrapped b cur maxw t row col width block = WOk b' cur' ->
  forall i j v,
    cell b i j = Some v ->
    ~ covered (wrapped_lines t (Z.to_nat w)) (opt_or row (fst cur)) (opt_or col (snd cur)) block i j ->
    cell b' i j = Some v.
Proof. exact placed_kept. Qed.

(* a cell that did not exist becomes a blank iff it lies left of a written cell of its row ... *)
Theorem C11_write_padding : forall b cur maxw t row col width block w b' cur',
  t_text t <> [] -> chunks_ok t = true ->
  eff_width maxw (opt_or col (snd cur)) width = Some w -> (1 <= w)%Z ->
  write_wrapped b cur maxw t row col width block = WOk b' cur' ->
  forall i j j',
    cell b i j = None ->
    ~ covered (wrapped_lines t (Z.to_nat w)) (opt_or row (fst cur)) (opt_or col (snd cur)) block i j ->
    covered (wrapped_lines t (Z.to_nat w)) (opt_or row (fst cur)) (opt_or col (snd cur)) block i j' -> j < j' ->
    cell b' i j = Some SP.
Proof. exact placed_padding. Qed.

(* ... and still does not exist otherwise *)
Theorem C11_write_no_other_cell : forall b cur maxw t row col width block w b' cur',
  t_text t <> [] -> chunks_ok t = true ->
  eff_width maxw (opt_or col (snd cur)) width = Some w -> (1 <= w)%Z ->
  write_wrapped b cur maxw t row col width block = WOk b' cur' ->
  forall i j,
    cell b i j = None ->
    ~ covered (wrapped_lines t (Z.to_nat w)) (opt_or row (fst cur)) (opt_or col (snd cur)) block i j ->
    (forall j', covered (wrapped_lines t (Z.to_nat w)) (opt_or row (fst cur)) (opt_or col (snd cur)) block i j' -> j' < j) ->
    cell b' i j = None.
Proof. exact placed_absent. Qed.

(* number of rows afterwards: rows row .. row + #lines - 1 exist; nothing is created when the wrap is one empty line *)
Theorem C11_write_height : forall b cur maxw t row col width block w b' cur',
  t_text t <> [] -> chunks_ok t = true ->
  eff_width maxw (opt_or col (snd cur)) width = Some w -> (1 <= w)%Z ->
  write_wrapped b cur maxw t row col width block = WOk b' cur' ->
  length b' = Nat.max (length b)
                (match wrapped_lines t (Z.to_nat w) with
                 | [[]] => 0
                 | _ => opt_or row (fst cur) + length (wrapped_lines t (Z.to_nat w))
                 end).
Proof. exact placed_height. Qed.

(* the cursor is left right behind the last line *)
Theorem C11_write_cursor : forall b cur maxw t row col width block w b' cur',
  t_text t <> [] -> chunks_ok t = true ->
  eff_width maxw (opt_or col (snd cur)) width = Some w -> (1 <= w)%Z ->
  write_wrapped b cur maxw t row col width block = WOk b' cur' ->
  cur' = (opt_or row (fst cur) + (length (wrapped_lines t (Z.to_nat w)) - 1),
          line_start (opt_or col (snd cur)) block (length (wrapped_lines t (Z.to_nat w)) - 1)
          + length (last (wrapped_lines t (Z.to_nat w)) [])).
Proof. exact placed_cursor. Qed.

(* the other outcomes: nothing for the empty text; ValueError for a width <= 0 (given, or max_width - col);
   TypeError when there is no width at all; the model never runs out of fuel *)
Theorem C11_write_empty_text : forall b cur maxw t row col width block,
  t_text t = [] -> write_wrapped b cur maxw t row col width block = WOk b cur.
Proof. exact write_wrapped_empty. Qed.

Theorem C11_write_nonpositive_width : forall b cur maxw t row col width block w,
  t_text t <> [] -> eff_width maxw (opt_or col (snd cur)) width = Some w -> (w <= 0)%Z ->
  write_wrapped b cur maxw t row col width block = WValueError.
Proof. exact write_wrapped_nonpositive. Qed.

Theorem C11_write_no_width : forall b cur maxw t row col width block,
  t_text t <> [] -> eff_width maxw (opt_or col (snd cur)) width = None ->
  write_wrapped b cur maxw t row col width block = WTypeError.
Proof. exact write_wrapped_no_width. Qed.

Theorem C11_write_never_out_of_model : forall b cur maxw t row col width block,
  write_wrapped b cur maxw t row col width block <> WOutOfModel.
Proof. exact write_wrapped_never_out_of_model. Qed.

(* a heading "H" (cursor left at (0, 1)), then "alpha beta" word-wrapped at width 7:
   row 1 / col 0 given; col not given (taken from the cursor: 1); nothing given; block mode at col 2; " " at (3, 2) *)
Example C11_write_example :
  let ab := simple_text [97; 108; 112; 104; 97; 32; 98; 101; 116; 97]%N in
  write_wrapped [[72]]%N (0, 1) None ab (Some 1) (Some 0) (Some 7%Z) false
    = WOk [[72]; [97; 108; 112; 104; 97]; [98; 101; 116; 97]]%N (2, 4) /\
  write_wrapped [[72]]%N (0, 1) None ab (Some 1) None (Some 7%Z) false
    = WOk [[72]; [32; 97; 108; 112; 104; 97]; [98; 101; 116; 97]]%N (2, 4) /\
  write_wrapped [[72]]%N (0, 1) None ab None None (Some 7%Z) false
    = WOk [[72; 97; 108; 112; 104; 97]; [98; 101; 116; 97]]%N (1, 4) /\
  write_wrapped [[72]]%N (0, 1) None ab (Some 1) (Some 2) (Some 7%Z) true
    = WOk [[72]; [32; 32; 97; 108; 112; 104; 97]; [32; 32; 98; 101; 116; 97]]%N (2, 6) /\
  write_wrapped [[72]]%N (0, 1) None (simple_text [32]%N) (Some 3) (Some 2) (Some 7%Z) false = WOk [[72]]%N (3, 2) /\
  write_wrapped [[72]]%N (0, 1) None ab None None None false = WTypeError /\
  write_wrapped [[72; 120; 121; 122]]%N (0, 4) (Some 3%Z) ab None None None false = WValueError.
Proof. vm_compute. repeat split. Qed.


(* the defect repaired by commit 628ec11 (F3), on the model of the old code: "abcd\nef" at width 4 *)
Example C11_legacy_refuted :
  legacy_render_text (simple_text [97; 98; 99; 100; 10; 101; 102]%N) 4 = [[97; 98; 99; 100]; []; [101; 102]]%N /\
  render_text (simple_text [97; 98; 99; 100; 10; 101; 102]%N) 4 = ROk [[97; 98; 99; 100]; [101; 102]]%N.
Proof. vm_compute. split; reflexivity. Qed.

Print Assumptions C11_step_progress.
Print Assumptions C11_fuel_enough.
Print Assumptions C11_never_out_of_model.
Print Assumptions C11_width.
Print Assumptions C11_typewriter_reproduces_lines.
Print Assumptions C11_conservation.
Print Assumptions C11_line_structure.
Print Assumptions C11_wrapped_lines_nonempty.
Print Assumptions C11_blank_line_only_from_blank_source.
Print Assumptions C11_blank_run_wraps_to_nothing.
Print Assumptions C11_every_source_line_starts_a_line.
Print Assumptions C11_greedy_inner.
Print Assumptions C11_greedy.
Print Assumptions C11_break_point_bounds.
Print Assumptions C11_long_words_split.
Print Assumptions C11_nonpositive_width_rejected.
Print Assumptions C11_empty_text.
Print Assumptions C11_simple_text_ok.
Print Assumptions C11_render_is_write.
Print Assumptions C11_write_is_typing_the_wrap.
Print Assumptions C11_write_lines_width.
Print Assumptions C11_write_lines_placed.
Print Assumptions C11_write_other_cells_kept.
Print Assumptions C11_write_padding.
Print Assumptions C11_write_no_other_cell.
Print Assumptions C11_write_height.
Print Assumptions C11_write_cursor.
Print Assumptions C11_write_empty_text.
Print Assumptions C11_write_nonpositive_width.
Print Assumptions C11_write_no_width.
Print Assumptions C11_write_never_out_of_model.
