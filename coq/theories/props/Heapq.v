(* Heapq — auxiliary theorems (not a numbered property): CPython's heapq, as used by queue.PriorityQueue under
   simpleline's EventQueue, refines the abstract queue (q_put / q_pop of LoopSem.v) on which every event-loop
   property is proved.  This removes "PriorityQueue.get() returns the least entry" from what is taken on trust:
   what remains trusted is that Heapq.v transcribes Lib/heapq.py (checked by checks/heapq_corr.py against the
   real heapq, C and pure-Python versions, and queue.PriorityQueue) and that tuples whose (priority, counter)
   pairs differ compare by [entry_lt].
   The theorems are about the EXACT CPython algorithm: _siftup bubbles the smaller child up until a leaf is
   reached and then calls _siftdown (not the textbook early-exit variant).
   Only theorem statements; every proof is [exact] of a lemma in proofs/HeapqProofs.v. *)
From Coq Require Import ZArith NArith List Bool Permutation.
Require Import SL.LoopSem SL.Heapq SL.proofs.LoopLink SL.proofs.HeapqProofs.
Import ListNotations.

(* the heap-shape invariant: no element is below its parent *)
Theorem Heapq_heap_inv_def : forall h,
  heap_inv h <->
  (forall i a b, 0 < i -> nth_error h i = Some a -> nth_error h ((i - 1) / 2) = Some b -> entry_lt a b = false).
Proof. intros h. reflexivity. Qed.

(* 1. the invariant holds for [] and is kept by heappush and heappop: it holds for every reachable list *)
Theorem Heapq_inv_nil : heap_inv [].
Proof. exact heap_inv_nil. Qed.
Theorem Heapq_inv_push : forall h e, heap_inv h -> heap_inv (heappush h e).
Proof. exact heappush_inv. Qed.
Theorem Heapq_inv_pop : forall h m h', heap_inv h -> heappop h = Some (m, h') -> heap_inv h'.
Proof. exact heappop_inv. Qed.
Theorem Heapq_inv_reachable : forall h, heap_reachable h -> heap_inv h.
Proof. exact heap_reachable_inv. Qed.

(* 2. nothing is lost, nothing is duplicated (no invariant needed) *)
Theorem Heapq_heappush_perm : forall h e, Permutation (heappush h e) (e :: h).
Proof. exact heappush_perm. Qed.
Theorem Heapq_heappop_perm : forall h m h', heappop h = Some (m, h') -> Permutation h (m :: h').
Proof. exact heappop_perm. Qed.

(* 3. heappop returns the root, and the root of a heap is a least element *)
Theorem Heapq_heappop_root : forall h m h', heappop h = Some (m, h') -> nth_error h 0 = Some m.
Proof. exact heappop_root. Qed.
Theorem Heapq_heappop_min : forall h m h', heap_inv h -> heappop h = Some (m, h') ->
  forall e, In e h' -> entry_lt e m = false.
Proof. exact heappop_min. Qed.

(* 4. the refinement: a heap whose content is that of a well-formed abstract queue (arrival counters pairwise
   distinct: [qwf]) pops exactly what q_pop pops and stays in correspondence; a put keeps the correspondence;
   heappop fails (IndexError: the real PriorityQueue.get() blocks) exactly when q_pop has nothing *)
Theorem Heapq_heap_refines : forall h q m h',
  heap_inv h -> Permutation h (eq_entries q) -> qwf q -> heappop h = Some (m, h') ->
  exists q', q_pop q = Some (m, q') /\ Permutation h' (eq_entries q').
Proof. exact heap_refines. Qed.
Theorem Heapq_heap_refines_none : forall h q,
  Permutation h (eq_entries q) -> (heappop h = None <-> q_pop q = None).
Proof. exact heap_refines_none. Qed.
Theorem Heapq_heap_refines_put : forall h q s,
  Permutation h (eq_entries q) ->
  Permutation (heappush h (sg_prio s, eq_counter q, s)) (eq_entries (q_put q s)).
Proof. exact heap_refines_put. Qed.

(* the general simulation, from any pair of corresponding states ... *)
Theorem Heapq_run_refines : forall ops h q,
  heap_inv h -> Permutation h (eq_entries q) -> qwf q -> run_heap ops h (eq_counter q) = run_abs ops q.
Proof. exact run_refines. Qed.
(* ... and from the empty queue: for every sequence of put(signal) / get() the concrete EventQueue (heapq list +
   itertools.count) and the abstract one return the same entries in the same order *)
Theorem Heapq_sequence_refines : forall ops, run_heap ops [] 0 = run_abs ops empty_queue.
Proof. exact heapq_sequence_refines. Qed.

(* 5. termination and absence of IndexError: the fuel (= the length of the list) always suffices, every heap[i]
   is in range; so the fall-back branches in the definitions of heappush / heappop are never taken and
   [heappop h = None] means "pop from an empty list" *)
Theorem Heapq_siftdown_fuel_ok : forall h pos x, pos < length h ->
  siftdown_loop (length h) h 0 pos x <> OutOfFuel /\ siftdown_loop (length h) h 0 pos x <> IndexError.
Proof. exact siftdown_fuel_ok. Qed.
Theorem Heapq_siftup_fuel_ok : forall h, h <> [] ->
  siftup_loop (length h) h 0 (length h) <> OutOfFuel /\ siftup_loop (length h) h 0 (length h) <> IndexError /\
  siftup h 0 <> OutOfFuel /\ siftup h 0 <> IndexError.
Proof. exact siftup_fuel_ok. Qed.
Theorem Heapq_heappush_total : forall h e, heappush_res h e = Done (heappush h e).
Proof. exact heappush_res_ok. Qed.
Theorem Heapq_heappop_total : forall h, h <> [] ->
  exists m h', heappop_res h = Done (m, h') /\ heappop h = Some (m, h').
Proof. exact heappop_res_ok. Qed.
Theorem Heapq_heappop_none : forall h, heappop h = None <-> h = [].
Proof. exact heappop_none. Qed.

(* 6. examples.  Four signals of equal priority (ids 0..3) come out in arrival order: the counter is in the key
   (compare C01_legacy_refuted in props/C01.v: without it the same heap code gives 0,2,1,3) *)
Definition sig_ex (id : nat) (p : Z) : signal :=
  mk_signal id {| sp_cls := 1; sp_prio := p; sp_src := None; sp_a := 0; sp_b := false; sp_data := [] |}.
Definition popped_ids (l : list (option entry)) : list (option nat) :=
  map (option_map (fun e : entry => sg_id (snd e))) l.

Example Heapq_example_fifo :
  popped_ids (run_heap [QPut (sig_ex 0 0); QPut (sig_ex 1 0); QPut (sig_ex 2 0); QPut (sig_ex 3 0);
                        QGet; QGet; QGet; QGet; QGet] [] 0)
  = [Some 0; Some 1; Some 2; Some 3; None].
Proof. vm_compute. reflexivity. Qed.

(* mixed priorities, interleaved gets; the hypotheses of the refinement hold on a non-trivial state *)
Definition ops_ex : list qop :=
  [QPut (sig_ex 0 5); QPut (sig_ex 1 0); QPut (sig_ex 2 5); QPut (sig_ex 3 (-20)); QPut (sig_ex 4 0); QGet;
   QPut (sig_ex 5 0); QPut (sig_ex 6 (-20)); QGet; QGet; QGet; QGet; QGet; QGet; QGet].
Example Heapq_example_mixed :
  popped_ids (run_heap ops_ex [] 0) = [Some 3; Some 6; Some 1; Some 4; Some 5; Some 0; Some 2; None] /\
  run_heap ops_ex [] 0 = run_abs ops_ex empty_queue.
Proof. vm_compute. split; reflexivity. Qed.

(* the hypotheses of Heapq_heap_refines hold together on a non-trivial pair of states *)
Example Heapq_example_hyps :
  let q := q_put (q_put (q_put empty_queue (sig_ex 0 5)) (sig_ex 1 0)) (sig_ex 2 5) in
  let h := heappush (heappush (heappush [] (5%Z, 0, sig_ex 0 5)) (0%Z, 1, sig_ex 1 0)) (5%Z, 2, sig_ex 2 5) in
  heap_inv h /\ Permutation h (eq_entries q) /\ qwf q /\
  map (fun e : entry => sg_id (snd e)) h = [1; 0; 2] /\ map (fun e : entry => sg_id (snd e)) (eq_entries q) = [0; 1; 2] /\
  exists h', heappop h = Some ((0%Z, 1, sig_ex 1 0), h').
Proof.
  cbv zeta. split; [|split; [|split; [|split; [|split]]]].
  - repeat apply heappush_inv. apply heap_inv_nil.
  - apply (heap_refines_put _ (q_put (q_put empty_queue (sig_ex 0 5)) (sig_ex 1 0)) (sig_ex 2 5)).
    apply (heap_refines_put _ (q_put empty_queue (sig_ex 0 5)) (sig_ex 1 0)).
    apply (heap_refines_put _ empty_queue (sig_ex 0 5)). constructor.
  - repeat apply q_put_qwf. apply qwf_empty.
  - vm_compute. reflexivity.
  - vm_compute. reflexivity.
  - vm_compute. eexists. reflexivity.
Qed.

Example Heapq_example_shape :
  let h := fold_left (fun h k => heappush h (0%Z, k, sig_ex k 0)) [6; 5; 4; 3; 2; 1; 0] [] in
  map (fun e : entry => snd (fst e)) h = [0; 3; 1; 6; 4; 5; 2] /\
  (exists m h', heappop h = Some (m, h') /\ snd (fst m) = 0 /\ map (fun e : entry => snd (fst e)) h' = [1; 3; 2; 6; 4; 5]).
Proof. vm_compute. split; [reflexivity|]. eexists. eexists. split; [reflexivity|split; reflexivity]. Qed.

Print Assumptions Heapq_heap_inv_def.
Print Assumptions Heapq_inv_nil.
Print Assumptions Heapq_inv_push.
Print Assumptions Heapq_inv_pop.
Print Assumptions Heapq_inv_reachable.
Print Assumptions Heapq_heappush_perm.
Print Assumptions Heapq_heappop_perm.
Print Assumptions Heapq_heappop_root.
Print Assumptions Heapq_heappop_min.
Print Assumptions Heapq_heap_refines.
Print Assumptions Heapq_heap_refines_none.
Print Assumptions Heapq_heap_refines_put.
Print Assumptions Heapq_run_refines.
Print Assumptions Heapq_sequence_refines.
Print Assumptions Heapq_siftdown_fuel_ok.
Print Assumptions Heapq_siftup_fuel_ok.
Print Assumptions Heapq_heappush_total.
Print Assumptions Heapq_heappop_total.
Print Assumptions Heapq_heappop_none.
