(* C09s — the screen-level part of C09: "... or the last screen closes ... run() returns ...; run() refuses
   to start with nothing scheduled unless configured otherwise".
   Only theorem statements; every proof is [exact] of a lemma in proofs/C09sProofs.v. *)
From Coq Require Import ZArith NArith List Bool.
From RecordUpdate Require Import RecordUpdate.
From SL Require Import PyInt LoopSem ScreenSem ScreenMon proofs.C02Proofs proofs.ScreenLink proofs.C04Proofs proofs.C09sProofs.
Import ListNotations.

(* 1. App.run() with an empty stack and should_run_with_empty_stack = False: NothingScheduledError; the
      only event of the action is ETop (no ERunEnter, no dispatch), and the session goes on with the rest.
      [continue_session specs fuel r (o, s1)] = "the session ends here if o is blocked / out of fuel /
      SystemExit, otherwise o is followed by the session r from s1" *)
Theorem C09s_run_refuses_empty : forall specs fuel r s,
  st_stack (ust s) = [] -> st_run_empty (ust s) = false ->
  app_session specs fuel (SARun :: r) s = continue_session specs fuel r (OThrow XError, emit ETop s).
Proof. exact run_refuses_empty. Qed.

Theorem C09s_run_refuses_empty_outcomes : forall specs fuel r s,
  st_stack (ust s) = [] -> st_run_empty (ust s) = false ->
  app_session specs fuel (SARun :: r) s =
  (OThrow XError :: fst (app_session specs fuel r (emit ETop s)), snd (app_session specs fuel r (emit ETop s))).
Proof. exact run_refuses_empty_events. Qed.

(* conversely: with something scheduled, or configured to run with an empty stack, the action is the loop's run() *)
Theorem C09s_run_starts : forall specs fuel r s,
  st_stack (ust s) <> [] \/ st_run_empty (ust s) = true ->
  app_session specs fuel (SARun :: r) s =
  continue_session specs fuel r (exec (screen_code specs) fuel CRun (emit ETop s)).
Proof. exact run_starts. Qed.

(* 2. close_screen never returns normally with an empty stack: when the close leaves the stack empty the
      outcome is ExitMainLoop or an earlier exception (closed(), the foreign-close check, close_loop) *)
Theorem C09s_last_screen_closes_exits : forall specs f cf s o s',
  exec (screen_code specs) f (CProg (close_screen specs cf)) s = (o, s') ->
  o = ONormal -> st_stack (ust s') <> [].
Proof. exact close_normal_nonempty. Qed.

Theorem C09s_close_empties_not_normal : forall specs f cf s o s',
  exec (screen_code specs) f (CProg (close_screen specs cf)) s = (o, s') ->
  st_stack (ust s') = [] -> o <> ONormal.
Proof. exact close_empties_not_normal. Qed.

(* the positive form: the only screen, not modal, closed by the scheduler, closed() does nothing:
   exactly ExitMainLoop after T_OP, the pop, closed() — no redraw is scheduled *)
Theorem C09s_close_last_exits : forall specs f s top,
  st_stack (ust s) = [top] -> sd_modal top = false -> sc_closed (specs (sd_scr top)) = [] ->
  exists s', exec (screen_code specs) (30 + f) (CProg (close_screen specs None)) s = (OThrow XExit, s') /\
    trace s' = [EUser T_CLOSED [sd_id top; sd_scr top] [];
                EUser T_STACK [K_POP; sd_id top; sd_scr top; sd_args top; 0] [];
                EUser T_OP [O_CLOSE; 0; 0] []] ++ trace s /\
    st_stack (ust s') = [].
Proof. exact close_last_exits. Qed.

(* 3. with an empty stack _process_screen and process_input_result raise ExitMainLoop at once (_get_last_screen) *)
Theorem C09s_process_screen_empty_exits : forall specs f s,
  st_stack (ust s) = [] -> exec (screen_code specs) (S (S f)) (CProg (process_screen specs)) s = (OThrow XExit, s).
Proof. exact process_screen_empty_exits. Qed.

Theorem C09s_process_input_result_empty_exits : forall specs f act sr s,
  st_stack (ust s) = [] ->
  exec (screen_code specs) (S (S f)) (CProg (process_input_result specs act sr)) s = (OThrow XExit, s).
Proof. exact process_input_result_empty_exits. Qed.

(* 4. ExitMainLoop raised in a handler body reaches run() unchanged ...
      through ';' and try/except Exception *)
Theorem C09s_exit_through_seq : forall U (code : nat -> signal -> nat -> prog U) f p q s s1,
  exec code f (CProg p) s = (OThrow XExit, s1) -> exec code (S f) (CProg (PSeq p q)) s = (OThrow XExit, s1).
Proof. exact @exit_through_seq_l. Qed.

Theorem C09s_exit_through_try : forall U (code : nat -> signal -> nat -> prog U) f p h s s1,
  exec code f (CProg p) s = (OThrow XExit, s1) -> exec code (S f) (CProg (PTry p h)) s = (OThrow XExit, s1).
Proof. exact @exit_through_try. Qed.

(* ... out of _process_signal (the handler's end is recorded; no ExceptionSignal; later handlers do not run) *)
Theorem C09s_exit_through_dispatch : forall U (code : nat -> signal -> nat -> prog U) f sg idx s hs hid data s2,
  handlers_of (ps_state sg idx s) (sg_cls sg) = Some hs -> force_quit (ps_state sg idx s) = false ->
  nth_error hs idx = Some (hid, data) ->
  exec code f (CProg (code hid sg data)) (emit (EHandler hid (sg_id sg) data) (ps_state sg idx s)) = (OThrow XExit, s2) ->
  exec code (S f) (CProcessSignal sg idx) s = (OThrow XExit, emit (EHandlerEnd hid (sg_id sg) (Some XExit)) s2).
Proof. exact @exit_through_dispatch. Qed.

Theorem C09s_exit_through_dispatch_next : forall U (code : nat -> signal -> nat -> prog U) f sg idx s hs hid data s2 s3,
  handlers_of (ps_state sg idx s) (sg_cls sg) = Some hs -> force_quit (ps_state sg idx s) = false ->
  nth_error hs idx = Some (hid, data) ->
  exec code f (CProg (code hid sg data)) (emit (EHandler hid (sg_id sg) data) (ps_state sg idx s)) = (ONormal, s2) ->
  exec code f (CProcessSignal sg (S idx)) (emit (EHandlerEnd hid (sg_id sg) None) s2) = (OThrow XExit, s3) ->
  exec code (S f) (CProcessSignal sg idx) s = (OThrow XExit, s3).
Proof. exact @exit_through_dispatch_next. Qed.

(* ... out of _process_signals_loop and _mainloop (at the first or a later iteration) *)
Theorem C09s_exit_through_procloop : forall U (code : nat -> signal -> nat -> prog U) f s sg s1 s3,
  run_loop s = true -> do_get s = inl (Some (sg, s1)) ->
  exec code f (CProcessSignal sg 0) (emit (EDispatch (sg_id sg) (active s) (length (levels s))) s1) = (OThrow XExit, s3) ->
  exec code (S f) CProcLoop s = (OThrow XExit, s3).
Proof. exact @exit_through_procloop. Qed.

Theorem C09s_exit_through_procloop_next : forall U (code : nat -> signal -> nat -> prog U) f s sg s1 s3 s4,
  run_loop s = true -> do_get s = inl (Some (sg, s1)) ->
  exec code f (CProcessSignal sg 0) (emit (EDispatch (sg_id sg) (active s) (length (levels s))) s1) = (ONormal, s3) ->
  exec code f CProcLoop s3 = (OThrow XExit, s4) ->
  exec code (S f) CProcLoop s = (OThrow XExit, s4).
Proof. exact @exit_through_procloop_next. Qed.

Theorem C09s_exit_through_mainloop : forall U (code : nat -> signal -> nat -> prog U) f s s1,
  run_loop s = true -> exec code f CProcLoop s = (OThrow XExit, s1) -> exec code (S f) CMainloop s = (OThrow XExit, s1).
Proof. exact @exit_through_mainloop. Qed.

Theorem C09s_exit_through_mainloop_next : forall U (code : nat -> signal -> nat -> prog U) f s s1 s2,
  run_loop s = true -> exec code f CProcLoop s = (ONormal, s1) -> exec code f CMainloop s1 = (OThrow XExit, s2) ->
  exec code (S f) CMainloop s = (OThrow XExit, s2).
Proof. exact @exit_through_mainloop_next. Qed.

(* ... out of a nested loop (a modal screen's execute_new_loop): no ENewLoopReturn, the caller does not resume *)
Theorem C09s_exit_through_newloop : forall U (code : nat -> signal -> nat -> prog U) f s sp s4,
  force_quit s = false ->
  exec code f CMainloop (newloop_entry s sp) = (OThrow XExit, s4) ->
  exec code (S f) (CApi (ANewLoop sp)) s = (OThrow XExit, s4).
Proof. exact @exit_through_newloop. Qed.

(* ... and run() swallows it: the quit callback (if registered), ERunReturn, a normal return *)
Theorem C09s_exit_reaches_run : forall U (code : nat -> signal -> nat -> prog U) f s s1,
  exec code f CMainloop (run_entry s) = (OThrow XExit, s1) ->
  exec code (S f) CRun s = (ONormal, run_exit s1) /\
  trace (run_exit s1) = ERunReturn :: match quit_cb s1 with Some a => [EQuitCb a] | None => [] end ++ trace s1.
Proof. exact @exit_ends_run. Qed.

(* non-vacuity: the hub session of C04 (the last screen is closed by 'q'): run() returns normally, the last
   events are the pop of the last entry, its closed(), the unwinding of the handler with ExitMainLoop and
   ERunReturn; and App.run() on a fresh application raises *)
Example C09s_example :
  fst (app_run_all ex_specs ex_specl ex_typed1 None false 400 ex_acts1) = [ONormal; ONormal] /\
  firstn 2 (trace (snd (app_run_all ex_specs ex_specl ex_typed1 None false 400 ex_acts1))) =
    [ERunReturn; EHandlerEnd (H_READY 3) 11 (Some XExit)] /\
  st_stack (ust (snd (app_run_all ex_specs ex_specl ex_typed1 None false 400 ex_acts1))) = [] /\
  fst (app_run_all ex_specs ex_specl [] None false 400 [SARun; SARun]) = [OThrow XError; OThrow XError] /\
  trace (snd (app_run_all ex_specs ex_specl [] None false 400 [SARun])) =
    [ETop; ERegHandler CLS_RECEIVED H_RECEIVED 0; ERegHandler CLS_CLOSE H_CLOSE 0; ERegHandler CLS_RENDER H_RENDER 0].
Proof. vm_compute. repeat split. Qed.

Print Assumptions C09s_run_refuses_empty.
Print Assumptions C09s_run_refuses_empty_outcomes.
Print Assumptions C09s_run_starts.
Print Assumptions C09s_last_screen_closes_exits.
Print Assumptions C09s_close_empties_not_normal.
Print Assumptions C09s_close_last_exits.
Print Assumptions C09s_process_screen_empty_exits.
Print Assumptions C09s_process_input_result_empty_exits.
Print Assumptions C09s_exit_through_seq.
Print Assumptions C09s_exit_through_try.
Print Assumptions C09s_exit_through_dispatch.
Print Assumptions C09s_exit_through_dispatch_next.
Print Assumptions C09s_exit_through_procloop.
Print Assumptions C09s_exit_through_procloop_next.
Print Assumptions C09s_exit_through_mainloop.
Print Assumptions C09s_exit_through_mainloop_next.
Print Assumptions C09s_exit_through_newloop.
Print Assumptions C09s_exit_reaches_run.
