(* C15 — drawing and writing into a widget change exactly the intended cells.
   Only theorem statements; every proof is [exact] of a lemma in proofs/WidgetProofs.v.

   Vocabulary (defined in proofs/WidgetProofs.v):
     cell b i j     : option char   the character at row i, column j of buffer b (None: no such cell)
     row_len b i    : nat           length of row i (0 if the row does not exist)
     path text x y col width block  the positions written by the typewriter, one per non-newline character
     visible text                   the non-newline characters of text, in order
     path_end / need_rows           final cursor / number of rows made to exist, same recursion, no buffer
     pos_lt                         reading order on positions (row first, then column)
   Model (Widget.v): draw T r c block S = (buffer, cursor) for T.draw(S, r, c, block);
                     write b cur text row col width block = (buffer, cursor) for b.write(text, row, col, width, block). *)
From Coq Require Import ZArith NArith List Bool.
From SL Require Import Widget proofs.WidgetProofs.
Import ListNotations.

(* ================================================================== draw *)

(* every cell of the result, in one formula: source character inside the rectangle; otherwise the old
   character if there was one; otherwise a blank if the row is a drawn row and the column is left of
   the start column (padding, also for an empty source row); otherwise nothing *)
Theorem C15_draw_cells : forall T r c block S i j,
  cell (fst (draw T r c block S)) i j =
  if (r <=? i) && (i <? r + length S) && (c <=? j) && (j <? c + row_len S (i - r))
  then cell S (i - r) (j - c)
  else match cell T i j with
       | Some ch => Some ch
       | None => if (r <=? i) && (i <? r + length S) && (j <? c) then Some SP else None
       end.
Proof. exact draw_cells. Qed.

(* the same, as four separate implications that together cover every (i, j) *)
Theorem C15_draw_inside : forall T r c block S i j,
  r <= i -> i < r + length S -> c <= j -> j < c + row_len S (i - r) ->
  cell (fst (draw T r c block S)) i j = cell S (i - r) (j - c).
Proof. exact draw_inside. Qed.

Theorem C15_draw_outside_kept : forall T r c block S i j ch,
  ~ (r <= i < r + length S /\ c <= j < c + row_len S (i - r)) ->
  cell T i j = Some ch ->
  cell (fst (draw T r c block S)) i j = Some ch.
Proof. exact draw_outside_kept. Qed.

Theorem C15_draw_padding : forall T r c block S i j,
  r <= i -> i < r + length S -> row_len T i <= j -> j < c ->
  cell (fst (draw T r c block S)) i j = Some SP.
Proof. exact draw_padding. Qed.

Theorem C15_draw_absent : forall T r c block S i j,
  ~ (r <= i < r + length S /\ j < c + row_len S (i - r)) ->
  cell T i j = None ->
  cell (fst (draw T r c block S)) i j = None.
Proof. exact draw_absent. Qed.

(* the target grows only as far as needed: number of rows, and the length of every row *)
Theorem C15_draw_height : forall T r c block S,
  length (fst (draw T r c block S)) = Nat.max (length T) (r + length S).
Proof. exact draw_height. Qed.

Theorem C15_draw_row_length : forall T r c block S i,
  row_len (fst (draw T r c block S)) i =
  if (r <=? i) && (i <? r + length S) then Nat.max (row_len T i) (c + row_len S (i - r)) else row_len T i.
Proof. exact draw_row_len. Qed.

(* the cursor is left on the row below, same column in block mode, first column otherwise *)
Theorem C15_draw_cursor : forall T r c block S,
  snd (draw T r c block S) = (r + length S, if block then c else 0).
Proof. exact draw_cursor. Qed.

(* ================================================================== write *)

Theorem C15_write_empty : forall b cur row col width block,
  write b cur [] row col width block = (b, cur).
Proof. reflexivity. Qed.

(* one position per written character; positions strictly increase in reading order, so no position
   is written twice *)
Theorem C15_write_path_length : forall text x y col width block,
  length (path text x y col width block) = length (visible text).
Proof. exact path_length. Qed.

Theorem C15_write_path_increasing : forall text x y col width block k1 k2 p1 p2,
  k1 < k2 ->
  nth_error (path text x y col width block) k1 = Some p1 ->
  nth_error (path text x y col width block) k2 = Some p2 ->
  pos_lt p1 p2.
Proof. exact path_increasing. Qed.

Theorem C15_write_path_distinct : forall text x y col width block,
  NoDup (path text x y col width block).
Proof. exact path_NoDup. Qed.

(* the k-th written character is found at the k-th position of the path *)
Theorem C15_write_path : forall b cur text row col width block k p ch,
  nth_error (path text row col col width block) k = Some p ->
  nth_error (visible text) k = Some ch ->
  cell (fst (write b cur text row col width block)) (fst p) (snd p) = Some ch.
Proof. exact write_written. Qed.

(* a cell off the path: unchanged if it existed; a blank if it lies left of a written position on the
   same row beyond the old row end; absent otherwise *)
Theorem C15_write_elsewhere_kept : forall b cur text row col width block i j v,
  ~ In (i, j) (path text row col col width block) ->
  cell b i j = Some v ->
  cell (fst (write b cur text row col width block)) i j = Some v.
Proof. exact write_kept. Qed.

Theorem C15_write_elsewhere_padding : forall b cur text row col width block i j j',
  ~ In (i, j) (path text row col col width block) ->
  cell b i j = None ->
  In (i, j') (path text row col col width block) -> j < j' ->
  cell (fst (write b cur text row col width block)) i j = Some SP.
Proof. exact write_padding. Qed.

Theorem C15_write_elsewhere_absent : forall b cur text row col width block i j,
  ~ In (i, j) (path text row col col width block) ->
  cell b i j = None ->
  (forall j', In (i, j') (path text row col col width block) -> j' < j) ->
  cell (fst (write b cur text row col width block)) i j = None.
Proof. exact write_absent. Qed.

(* rows: the rows of the written characters and the rows entered by a newline are made to exist (empty) *)
Theorem C15_write_height : forall b cur text row col width block,
  length (fst (write b cur text row col width block)) =
  Nat.max (length b) (need_rows text row col col width block).
Proof. exact write_height. Qed.

Theorem C15_write_cursor : forall b cur text row col width block,
  text <> [] ->
  snd (write b cur text row col width block) = path_end text row col col width block.
Proof. exact write_cursor. Qed.

(* wrapping: with a width w >= 1 no character is written at or right of column col + w, and in block
   mode none left of col *)
Theorem C15_write_wraps : forall text row col w block i j,
  1 <= w ->
  In (i, j) (path text row col col (Some w) block) ->
  j < col + w /\ (block = true -> col <= j).
Proof. exact write_wraps. Qed.

(* reading order, closed form for a text without newlines:
   block mode     — rows of w characters starting at column col;
   non-block mode — the first row starts at col, every row ends before col + w, later rows start at 0;
   no width       — a single row *)
Theorem C15_write_block_reading_order : forall text row col w k,
  1 <= w ->
  Forall (fun ch => (ch =? NL)%N = false) text ->
  k < length text ->
  nth_error (path text row col col (Some w) true) k = Some (row + k / w, col + k mod w).
Proof. exact write_block_reading_order. Qed.

Theorem C15_write_nonblock_reading_order : forall text row col w k,
  1 <= w ->
  Forall (fun ch => (ch =? NL)%N = false) text ->
  k < length text ->
  nth_error (path text row col col (Some w) false) k =
  Some (row + (col + k) / (col + w), (col + k) mod (col + w)).
Proof. exact write_nonblock_reading_order. Qed.

Theorem C15_write_nowidth_reading_order : forall text x y col block k,
  Forall (fun ch => (ch =? NL)%N = false) text ->
  k < length text ->
  nth_error (path text x y col None block) k = Some (x, y + k).
Proof. exact path_nowidth_closed_form. Qed.

(* a newline: what follows continues one row below the current one, at col (block) or at 0 *)
Theorem C15_write_newline : forall t1 t2 x y col width block,
  path (t1 ++ NL :: t2) x y col width block =
  path t1 x y col width block ++
  path t2 (S (fst (path_end t1 x y col width block))) (if block then col else 0) col width block.
Proof. exact path_newline. Qed.

(* ================================================================== non-vacuity *)
(* target "abcde" / "fg" / "hijk", source "XY" / "Z":
   drawn at (2,3) it overwrites the end of row 2, extends it, and creates row 3 padded with blanks;
   drawn at (1,4) in block mode it pads row 1 and extends row 2;
   "123\n4" written at (1,1) with width 2 in block mode *)
Example C15_example :
  let T := [[97; 98; 99; 100; 101]; [102; 103]; [104; 105; 106; 107]]%N in
  let S := [[88; 89]; [90]]%N in
  draw T 2 3 false S =
    ([[97; 98; 99; 100; 101]; [102; 103]; [104; 105; 106; 88; 89]; [32; 32; 32; 90]]%N, (4, 0)) /\
  draw T 1 4 true S =
    ([[97; 98; 99; 100; 101]; [102; 103; 32; 32; 88; 89]; [104; 105; 106; 107; 90]]%N, (3, 4)) /\
  write T (0, 0) [49; 50; 51; 10; 52]%N 1 1 (Some 2) true =
    ([[97; 98; 99; 100; 101]; [102; 49; 50]; [104; 51; 106; 107]; [32; 52]]%N, (3, 2)) /\
  path [49; 50; 51; 10; 52]%N 1 1 1 (Some 2) true = [(1, 1); (1, 2); (2, 1); (3, 1)].
Proof. vm_compute. repeat split. Qed.

Print Assumptions C15_draw_cells.
Print Assumptions C15_draw_inside.
Print Assumptions C15_draw_outside_kept.
Print Assumptions C15_draw_padding.
Print Assumptions C15_draw_absent.
Print Assumptions C15_draw_height.
Print Assumptions C15_draw_row_length.
Print Assumptions C15_draw_cursor.
Print Assumptions C15_write_empty.
Print Assumptions C15_write_path_length.
Print Assumptions C15_write_path_increasing.
Print Assumptions C15_write_path_distinct.
Print Assumptions C15_write_path.
Print Assumptions C15_write_elsewhere_kept.
Print Assumptions C15_write_elsewhere_padding.
Print Assumptions C15_write_elsewhere_absent.
Print Assumptions C15_write_height.
Print Assumptions C15_write_cursor.
Print Assumptions C15_write_wraps.
Print Assumptions C15_write_block_reading_order.
Print Assumptions C15_write_nonblock_reading_order.
Print Assumptions C15_write_nowidth_reading_order.
Print Assumptions C15_write_newline.
