(* C09 — the application stops exactly when told to, completely, and says so once.
   Only theorem statements; every proof is [exact] of a lemma in proofs/C09*.v.
   Scope: the event loop (simpleline/event_loop).  The clauses about screens ("the last screen closes",
   "run() refuses to start with nothing scheduled") belong to the screen layer and are not stated here. *)
From Coq Require Import ZArith NArith List Bool.
From RecordUpdate Require Import RecordUpdate.
From SL Require Import LoopSem LoopProg Monitors.
From SL Require Import proofs.C09Exec proofs.C09Base proofs.C09Passes proofs.C09Acc proofs.C09Proofs.
Import ListNotations.

(* For every program of handlers ([code]: any [prog] per handler, signal and data), every session of top-level
   calls (run() or any program executed outside handlers), every fuel and initial user state: the whole event
   trace is accepted by the C09 monitor [Monitors.chk_C09], i.e. at every point of the trace
   (a) while force-quit is in effect no handler is invoked, nothing is enqueued, no signal is dispatched and no
       nested loop is entered;
   (b) once an ExitMainLoop is in flight inside run() (a handler raised it, or the outermost loop was closed)
       nothing happens but the unwinding of the open handler frames, the quit callback and run()'s return;
   (c) the quit callback is invoked only inside run(), at most once per run(), with the registered argument;
   (d) run() returns only inside run(), after the quit callback when one is registered, and - when entered with
       exactly one open level - only if since its entry an exit was raised, the last level was closed, or
       force-quit was called: nothing else ends the loop. *)
Theorem C09_stops : forall U (code : nat -> signal -> nat -> prog U) fuel acts (u : U),
  ok_C09 (rev (trace (snd (run_session code fuel acts (init_state u))))) = true.
Proof. exact @stops. Qed.

(* the counting argument behind (d), as a statement about the interpreter: a main loop (run()'s or a nested
   one) returns normally only after force-quit, or after the potential "open levels + (stop flag raised)" has
   dropped by one: a close_loop was spent on it *)
Theorem C09_mainloop_returns_only_when_told : forall U (code : nat -> signal -> nat -> prog U) f s s',
  exec code f CMainloop s = (ONormal, s') ->
  force_quit s' = true \/
  length (levels s') + (if run_loop s' then 0 else 1) + 1 <= length (levels s) + (if run_loop s then 0 else 1).
Proof. exact @mainloop_return. Qed.

(* ... and no call other than run() that ends normally or with an ordinary exception, without force-quit,
   increases that potential or empties the list of levels *)
Theorem C09_call_potential : forall U (code : nat -> signal -> nat -> prog U) f c s o s',
  c <> CRun -> exec code f c s = (o, s') -> o = ONormal \/ o = OThrow XError -> force_quit s' = false ->
  force_quit s = false /\
  length (levels s') + (if run_loop s' then 0 else 1) <= length (levels s) + (if run_loop s then 0 else 1) /\
  (levels s <> [] -> levels s' <> []).
Proof. exact @call_potential. Qed.

(* after a force-quit a newly enqueued signal is created and discarded: no queue changes *)
Theorem C09_force_quit_discards : forall U (code : nat -> signal -> nat -> prog U) f sp s,
  force_quit s = true ->
  exists s', exec code (S f) (CApi (AEnqueue sp)) s = (ONormal, s') /\
             qstore s' = qstore s /\ levels s' = levels s /\
             trace s' = EDropped (next_sig s) :: ESigNew (next_sig s) (sp_cls sp) (sp_prio sp) (sp_src sp) :: trace s.
Proof. exact @fq_enqueue. Qed.

(* ... execute_new_loop returns at once: the signal object is created, no level is opened, no loop runs *)
Theorem C09_force_quit_no_new_loop : forall U (code : nat -> signal -> nat -> prog U) f sp s,
  force_quit s = true ->
  exec code (S f) (CApi (ANewLoop sp)) s =
  (ONormal, emit (ESigNew (next_sig s) (sp_cls sp) (sp_prio sp) (sp_src sp)) (s <| next_sig := S (next_sig s) |>)).
Proof. exact @fq_new_loop. Qed.

(* ... and the dispatch of a signal calls no handler (from any handler index: the remaining ones are skipped) *)
Theorem C09_force_quit_no_handler : forall U (code : nat -> signal -> nat -> prog U) f sg idx s o s',
  force_quit s = true -> exec code (S f) (CProcessSignal sg idx) s = (o, s') ->
  trace s' = EDispatchEnd (sg_id sg) :: trace s \/ trace s' = EKill :: trace s.
Proof. exact @fq_no_handler. Qed.

(* a failing handler ends neither the dispatch, nor the loop, nor run(): an ordinary exception never comes out *)
Theorem C09_failing_handler_does_not_stop : forall U (code : nat -> signal -> nat -> prog U) f s o s',
  (forall sg idx, exec code f (CProcessSignal sg idx) s = (o, s') -> o <> OThrow XError) /\
  (exec code f CProcLoop s = (o, s') -> o <> OThrow XError) /\
  (exec code f CMainloop s = (o, s') -> o <> OThrow XError) /\
  (exec code f CRun s = (o, s') -> o <> OThrow XError).
Proof. exact @failing_handler. Qed.

(* ... the dispatch goes on with the next handler, after enqueueing one ExceptionSignal *)
Theorem C09_failing_handler_continues : forall U (code : nat -> signal -> nat -> prog U) f sg idx s hs hid data s2,
  handlers_of (ps_mark sg idx s) (sg_cls sg) = Some hs -> force_quit s = false ->
  nth_error hs idx = Some (hid, data) ->
  exec code f (CProg (code hid sg data)) (emit (EHandler hid (sg_id sg) data) (ps_mark sg idx s)) = (OThrow XError, s2) ->
  let s3 := emit (EHandlerEnd hid (sg_id sg) (Some XError)) s2 in
  exec code (S f) (CProcessSignal sg idx) s =
  exec code f (CProcessSignal sg (S idx)) (do_enqueue (snd (new_signal s3 exception_spec)) (fst (new_signal s3 exception_spec))).
Proof. exact @failing_handler_continues. Qed.

(* an empty queue is a wait (the outcome OBlocked, state unchanged), never a return *)
Theorem C09_empty_queue_blocks_not_stops : forall U (code : nat -> signal -> nat -> prog U) f s,
  q_empty (get_q s (active s)) = true -> ext s = [] -> run_loop s = true ->
  exec code (S f) CProcLoop s = (OBlocked, s) /\
  exec code (S (S f)) CMainloop s = (OBlocked, s).
Proof. exact @empty_queue_blocks. Qed.

(* ---- examples ---- *)
Local Open Scope Z_scope.

(* exit requested at depth 2 (handler 1, inside the loop opened by handler 0), one signal pending at each
   level, quit callback registered with argument 7: both handler frames unwind, the callback is called once
   with 7, run() returns; the pending signals stay where they are *)
Example C09_example_exit_at_depth_2 :
  let bodies := [ [CmEnqueue 3 0 None; CmNewLoop 2 0 None; CmMark 99];
                  [CmEnqueue 3 0 None; CmExit; CmMark 98];
                  [CmMark 97] ] in
  let acts := [ TProg (compile_cmds 0 [CmRegHandler 1 0 0; CmRegHandler 2 1 0; CmRegHandler 3 2 0;
                                       CmSetQuitCb 7; CmEnqueue 1 0 None]); TRun ] in
  let r := run_session (handler_prog bodies) 50 acts (init_state []) in
  fst r = [ONormal; ONormal] /\
  rev (trace (snd r)) =
    [ETop; ERegHandler 1 0 0; ERegHandler 2 1 0; ERegHandler 3 2 0; ESetQuitCb 7; ESigNew 0 1 0 None; EEnq 0 0;
     ETop; ERunEnter; EDispatch 0 0 1; EHandler 0 0 0; ESigNew 1 3 0 None; EEnq 1 0; ESigNew 2 2 0 None;
     ENewLoopEnter 1; EEnq 2 1; EDispatch 2 1 2; EHandler 1 2 0; ESigNew 3 3 0 None; EEnq 3 1;
     EHandlerEnd 1 2 (Some XExit); EHandlerEnd 0 0 (Some XExit); EQuitCb 7; ERunReturn]%nat /\
  map (fun q => length (eq_entries q)) (qstore (snd r)) = [1; 1]%nat /\
  ok_C09 (rev (trace (snd r))) = true.
Proof. vm_compute. repeat split. Qed.

(* force-quit at depth 1 by the first of two handlers of class 1: the second handler is not called, the
   enqueue is dropped, execute_new_loop opens nothing, the pending class-2 signal is never dispatched, the
   callback is called with 5 and run() returns; an enqueue after run() is still dropped *)
Example C09_example_force_quit :
  let bodies := [ [CmForceQuit; CmEnqueue 2 0 None; CmNewLoop 2 0 None; CmMark 99]; [CmMark 98] ] in
  let acts := [ TProg (compile_cmds 0 [CmRegHandler 1 0 0; CmRegHandler 1 1 0; CmRegHandler 2 1 0; CmSetQuitCb 5;
                                       CmEnqueue 1 0 None; CmEnqueue 2 0 None]); TRun;
                TProg (compile_cmds 0 [CmEnqueue 2 0 None]) ] in
  let r := run_session (handler_prog bodies) 50 acts (init_state []) in
  fst r = [ONormal; ONormal; ONormal] /\
  rev (trace (snd r)) =
    [ETop; ERegHandler 1 0 0; ERegHandler 1 1 0; ERegHandler 2 1 0; ESetQuitCb 5; ESigNew 0 1 0 None; EEnq 0 0;
     ESigNew 1 2 0 None; EEnq 1 0; ETop; ERunEnter; EDispatch 0 0 1; EHandler 0 0 0; EForceQuit;
     ESigNew 2 2 0 None; EDropped 2; ESigNew 3 2 0 None; EMark 99; EHandlerEnd 0 0 None; EDispatchEnd 0;
     EQuitCb 5; ERunReturn; ETop; ESigNew 4 2 0 None; EDropped 4]%nat /\
  map (fun q => length (eq_entries q)) (qstore (snd r)) = [1]%nat /\
  ok_C09 (rev (trace (snd r))) = true.
Proof. vm_compute. repeat split. Qed.

(* the monitor is not vacuous: a second quit callback, a return without cause, a handler after force-quit,
   or activity after an exit are all rejected *)
Example C09_monitor_rejects :
  ok_C09 [ESetQuitCb 1; ERunEnter; EForceQuit; EQuitCb 1; EQuitCb 1; ERunReturn]%nat = false /\
  ok_C09 [ERunEnter; ERunReturn] = false /\
  ok_C09 [ERunEnter; EForceQuit; EHandler 0 0 0; ERunReturn]%nat = false /\
  ok_C09 [ERunEnter; EHandlerEnd 0 0 (Some XExit); EEnq 0 0; ERunReturn]%nat = false /\
  ok_C09 [ESetQuitCb 1; ERunEnter; EForceQuit; ERunReturn]%nat = false /\
  ok_C09 [ESetQuitCb 1; ERunEnter; EForceQuit; EQuitCb 2; ERunReturn]%nat = false /\
  ok_C09 [ESetQuitCb 1; ERunEnter; EForceQuit; EQuitCb 1; ERunReturn]%nat = true.
Proof. vm_compute. repeat split. Qed.

Print Assumptions C09_stops.
Print Assumptions C09_mainloop_returns_only_when_told.
Print Assumptions C09_call_potential.
Print Assumptions C09_force_quit_discards.
Print Assumptions C09_force_quit_no_new_loop.
Print Assumptions C09_force_quit_no_handler.
Print Assumptions C09_failing_handler_does_not_stop.
Print Assumptions C09_failing_handler_continues.
Print Assumptions C09_empty_queue_blocks_not_stops.
