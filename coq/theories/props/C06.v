(* C06 — each typed line reaches exactly the screen that asked - once, in order, intact.
   "Every line the user types in answer to a screen's prompt is delivered exactly once, unmodified, to the input
    method of that same screen together with the arguments the screen was scheduled with, and lines are delivered in
    the order typed.  No line is dropped, duplicated, altered or handed to a different screen, across redraws,
    pushes, replaces, closes and nested modal screens; a line that ends the input (end-of-file) is delivered as an
    empty line."
   Only theorem statements; the proofs are in proofs/C06Proofs.v and proofs/InputLink.v (worker s2).

   Model: ScreenSem.v — [get_input] (T_REQ [scr; args; n]: screen scr asks, request = handler n), the reader thread
   ([start_thread]: takes the next typed line, EOF -> ""), the hand-off [input_received_handler], the ready signal
   reaching its handler ([input_ready_handler]: T_READY [n; ok] text) and the one-shot callback
   [process_input] -> [call_input] (T_INPUT [scr; args] text: the screen's input(args, text) is called).
   Property: the acceptor [chk_C06] of ScreenMon.v:
     - every T_READY [n; ok] text is one of the ready signals announced by a hand-off (the most recent outstanding
       requester gets (true, the line the reader took), every earlier one (false, "")), each consumed by its delivery;
     - when a successful ready signal reaches a SCREEN request n (recorded by T_REQ [scr; args; n]) whose callback
       has not fired, the very next screen-layer event is T_INPUT [scr; args] text with that same text and the
       arguments OF THAT REQUEST, and the handler does not end before it;
     - T_INPUT occurs only then.
   It holds for EVERY well-formed session (screen ids in range), whatever the screens' setup() methods do themselves
   (a setup() that pushes screens, asks for input, raises ...: [sc_setup_cmds], event T_SETUP_BEGIN; [wf_session] ranges
   over those commands too - C06_setup_commands_example).  The comparison of the arguments used to fail
   (finding F15: InputManager._input_args was one slot per screen, read at delivery time); since the fix the callback
   of a request carries that request's arguments.  The refutation is kept on the legacy model
   (C06_args_overwritten_refuted_legacy; proofs/C06Proofs.v [legacy_input_ready_handler]).
   "In the order typed" is FALSE in general, for the model and the implementation (finding F18,
   corpus/screen/order_modal_overtakes.json, C06_order_refuted: with a line typed ahead, the ready signal of a screen
   of an outer event queue waits while a modal screen pushed meanwhile asks, reads the next line and gets it first).
   PARTIAL: it holds for every session in which no nested event loop is ever opened (C06_lines_in_order_partial; no
   well-formedness needed): the texts of the successful ready signals - every delivery of a typed line, to a screen's
   input() or to a blocking / handler-object request - are, in trace order, typed lines in typed order ([Subseq], an
   order-preserving embedding: force_quit or a kill can lose a taken line, so it is not a prefix); the texts handed to
   input() are a sub-sequence of those (C06_inputs_among_deliveries).  Definitions and the invariant:
   proofs/InputOrder.v.  For every session: every delivered line IS a typed line, unmodified, and each hand-off entry
   is consumed by exactly one ready signal. *)
From Coq Require Import ZArith NArith List Bool.
From SL Require Import PyInt LoopSem ScreenSem ScreenMon proofs.InputLink proofs.C06Proofs proofs.C18Proofs proofs.InputOrder proofs.InputOrderSyn.
Import ListNotations.

(* 1. every session: the line goes to the screen that asked, at once, unmodified, with the arguments of that request *)
Theorem C06_lines_delivered : forall specs specl typed quit run_empty fuel acts,
  (forall n, specs n = nth n specl default_spec) -> wf_session specl quit acts = true ->
  sok chk_C06 typed (rev (trace (snd (app_run_all specs specl typed quit run_empty fuel acts)))) = true.
Proof. exact lines_delivered. Qed.

(* "exactly once": no request is answered twice.  Without InputHandler objects of the application's own every handler
   carries ONE request and gets at most one ready signal ([chk_once], proofs/InputLink.v; see C18_no_second_ready);
   with re-used handler objects "once" is per REQUEST: see C18_ready_consumes_its_entry.  chk_C06 allows input()
   only for a request whose callback has not fired *)
Theorem C06_no_duplicate_delivery : forall specs specl typed quit run_empty fuel acts,
  (forall n, specs n = nth n specl default_spec) -> wf_session specl quit acts = true ->
  no_handler_objects specl acts = true ->
  sok chk_once typed (rev (trace (snd (app_run_all specs specl typed quit run_empty fuel acts)))) = true.
Proof. exact answered_once. Qed.

(* what acceptance means *)
Theorem C06_delivered_at_once : forall w scr args text e,
  sw_must_input w = Some (scr, args, text) -> chk_C06 w e = true ->
  match e with
  | EUser tag a t => tag = T_INPUT /\ nth0 a 0 = scr /\ nth0 a 1 = args /\ streq t text = true
  | EHandlerEnd _ _ _ => False
  | _ => True
  end.
Proof. exact C06_must_input_meaning. Qed.

Theorem C06_input_only_for_a_delivered_line : forall w a t,
  chk_C06 w (EUser T_INPUT a t) = true -> sw_must_input w <> None.
Proof. exact C06_input_only_when_due_full. Qed.

(* 3. pure corollary of acceptance: a line delivered as a successful result is one of the typed lines (the empty
      line for end of file, or when no line was ever taken), character for character *)
Theorem C06_lines_intact : forall typed t1 n text t2,
  sok chk_C06 typed (t1 ++ EUser T_READY [n; 1] text :: t2) = true ->
  streq [] text = true \/ exists l, In l typed /\ streq (line_of l) text = true.
Proof. exact delivered_lines_intact_full. Qed.

(* a session with 3 screens - screen 1 pushed with arguments 3, screen 2 pushed modally - and 7 typed lines,
   one empty, the last the end of file: each line reaches the screen whose prompt was showing, with the
   arguments that screen was scheduled with; the full acceptor accepts it; and the monitor is not vacuous *)
Example C06_example :
  wf_session ex06_specl None ex06_acts = true /\
  fst ex06_run = [ONormal; OBlocked] /\
  sok chk_C06 ex06_typed ex06_trace = true /\
  user_events T_INPUT ex06_trace =
    [([0; 0], [49%N]); ([1; 3], []); ([1; 3], [104%N; 101%N; 108%N; 108%N; 111%N]); ([1; 3], [99%N]);
     ([0; 0], [50%N]); ([2; 0], [32%N; 120%N; 32%N]); ([2; 0], [])] /\
  (* the line is handed to another screen *)
  sok chk_C06 [Some [49%N]] [EUser T_REQ [0; 0; 0] []; EUser T_PROMPT [0; 0] []; EHandler H_RECEIVED 0 0;
                             EUser T_READY [0; 1] [49%N]; EUser T_INPUT [1; 0] [49%N]] = false /\
  (* the line is altered *)
  sok chk_C06 [Some [49%N]] [EUser T_REQ [0; 0; 0] []; EUser T_PROMPT [0; 0] []; EHandler H_RECEIVED 0 0;
                             EUser T_READY [0; 1] [50%N]] = false /\
  (* the line is dropped: the handler ends without calling input() *)
  sok chk_C06 [Some [49%N]] [EUser T_REQ [0; 0; 0] []; EUser T_PROMPT [0; 0] []; EHandler H_RECEIVED 0 0;
                             EUser T_READY [0; 1] [49%N]; EHandlerEnd 10 0 None] = false /\
  (* the line is delivered twice *)
  sok chk_C06 [Some [49%N]] [EUser T_REQ [0; 0; 0] []; EUser T_PROMPT [0; 0] []; EHandler H_RECEIVED 0 0;
                             EUser T_READY [0; 1] [49%N]; EUser T_INPUT [0; 0] [49%N]; EUser T_INPUT [0; 0] [49%N]] = false /\
  (* other arguments than the screen was scheduled with *)
  sok chk_C06 [Some [49%N]] [EUser T_REQ [0; 7; 0] []; EUser T_PROMPT [0; 0] []; EHandler H_RECEIVED 0 0;
                             EUser T_READY [0; 1] [49%N]; EUser T_INPUT [0; 0] [49%N]] = false.
Proof. vm_compute. repeat split. Qed.

(* a setup() that runs commands (no hypothesis on setup() in the theorems above): screen 0's setup() pushes screen 1
   modally with arguments 5; inside that setup() call the modal screen is set up, asks, gets the FIRST typed line with ITS
   arguments and closes; then setup() of screen 0 reports success, screen 0 asks and gets the second line and the end of file *)
Example C06_setup_commands_example :
  wf_session su06_specl None su06_acts = true /\
  fst su06_run = [ONormal; OBlocked] /\
  sok chk_C06 su06_typed su06_trace = true /\
  user_events T_SETUP_BEGIN su06_trace = [([0; 0; 0], [])] /\
  user_events T_SETUP su06_trace = [([1; 1; 5; 1], []); ([0; 0; 0; 1], [])] /\
  user_events T_INPUT su06_trace = [([1; 5], [49%N]); ([0; 0], [50%N]); ([0; 0], [])] /\
  (* the decidable hypothesis of part 5 looks into the setup commands as well *)
  no_modal_syntax su06_specl None su06_acts = false.
Proof. vm_compute. repeat split. Qed.

(* finding F15, fixed (corpus/screen/regression_F15_args_overwritten.json): run() twice after force_quit; the refused second request
   of the same screen (scheduled a second time with arguments 2) wrote InputManager._input_args and the error was
   dropped by force_quit.  LEGACY model (arguments read from the manager at delivery time): the line typed for the
   first request (arguments 1) is delivered with arguments 2 and chk_C06 rejects the trace.  Current model (the
   request's callback carries its arguments): delivered with arguments 1, accepted. *)
Example C06_args_overwritten_refuted_legacy :
  wf_session [f15_spec] None f15_acts = true /\
  sok chk_C06 f15_typed f15_legacy_trace = false /\
  user_events T_REQ f15_legacy_trace = [([0; 1; 0], []); ([0; 2; 1], [])] /\
  user_events T_INPUT f15_legacy_trace = [([0; 2], [49%N])] /\
  sok chk_C06 f15_typed f15_trace = true /\
  user_events T_REQ f15_trace = [([0; 1; 0], []); ([0; 2; 1], [])] /\
  user_events T_INPUT f15_trace = [([0; 1], [49%N])].
Proof. vm_compute. repeat split. Qed.

(* 4. "in the order typed", for sessions with a single event queue.
   [no_nested_loop t]: no ENewLoopEnter in t (execute_new_loop never ran: no modal screen was shown, no quit dialog);
   [ready_texts t]: the texts of the events T_READY [n; 1] text of t, in order; [input_texts t]: those of T_INPUT;
   [Subseq a b]: a embeds into b, order preserved (sub_nil / sub_skip / sub_take) *)
Theorem C06_lines_in_order_partial : forall specs specl typed quit run_empty fuel acts,
  let t := rev (trace (snd (app_run_all specs specl typed quit run_empty fuel acts))) in
  no_nested_loop t = true -> Subseq (ready_texts t) (map line_of typed).
Proof. exact lines_in_order. Qed.

(* pure corollary of acceptance: the lines handed to input() are among the delivered ones, in the same order *)
Theorem C06_inputs_among_deliveries : forall typed t,
  sok chk_C06 typed t = true -> Subseq (input_texts t) (ready_texts t).
Proof. exact inputs_among_deliveries. Qed.

(* hence, for well-formed sessions with a single event queue: input() gets typed lines in typed order *)
Theorem C06_inputs_in_order_partial : forall specs specl typed quit run_empty fuel acts,
  (forall n, specs n = nth n specl default_spec) -> wf_session specl quit acts = true ->
  let t := rev (trace (snd (app_run_all specs specl typed quit run_empty fuel acts))) in
  no_nested_loop t = true -> Subseq (input_texts t) (map line_of typed).
Proof.
  intros specs specl typed quit run_empty fuel acts HS WF t NN.
  eapply Subseq_trans; [apply (inputs_among_deliveries typed), (lines_delivered specs specl typed quit run_empty fuel acts HS WF)|].
  apply (lines_in_order specs specl typed quit run_empty fuel acts NN).
Qed.

(* the hypothesis is needed (finding F18): a modal screen pushed between the hand-off of line "1" and its delivery gets
   line "2" first; the session is well-formed, accepted by chk_C06, and a nested loop was opened *)
Example C06_order_refuted :
  wf_session f18_specl None f18_acts = true /\
  sok chk_C06 f18_typed f18_trace = true /\
  no_nested_loop f18_trace = false /\
  map line_of f18_typed = [[49%N]; [50%N]] /\
  ready_texts f18_trace = [[50%N]; [49%N]] /\
  input_texts f18_trace = [[50%N]; [49%N]] /\
  user_events T_INPUT f18_trace = [([1; 0], [50%N]); ([0; 0], [49%N])] /\
  ~ Subseq (ready_texts f18_trace) (map line_of f18_typed).
Proof.
  assert (E : ready_texts f18_trace = [[50%N]; [49%N]]) by (vm_compute; reflexivity).
  repeat split; try (vm_compute; reflexivity).
  rewrite E. apply (Subseq_swap_refuted [49%N] [50%N]). discriminate.
Qed.

(* 5. the same under a decidable hypothesis on the SESSION: [no_modal_syntax specl quit acts] (proofs/InputOrderSyn.v) =
   no SPushModal in any command list (setup / refresh / show_all / closed / input / signal callbacks, SIfCount branches, the
   application's own actions) and no quit dialog (quit = None).  Such a session never calls execute_new_loop ... *)
Theorem C06_no_modal_no_nested_loop : forall specs specl typed quit run_empty fuel acts,
  (forall n, specs n = nth n specl default_spec) -> no_modal_syntax specl quit acts = true ->
  no_nested_loop (rev (trace (snd (app_run_all specs specl typed quit run_empty fuel acts)))) = true.
Proof. exact no_modal_no_nested. Qed.

(* ... hence its typed lines are delivered in the order typed *)
Theorem C06_lines_in_order_syntactic : forall specs specl typed quit run_empty fuel acts,
  (forall n, specs n = nth n specl default_spec) -> no_modal_syntax specl quit acts = true ->
  Subseq (ready_texts (rev (trace (snd (app_run_all specs specl typed quit run_empty fuel acts))))) (map line_of typed).
Proof. exact lines_in_order_syn. Qed.

(* the hypothesis holds for the F15 session, not for the F18 session (screen 0 pushes screen 1 modally) nor for C06_example *)
Example C06_no_modal_example :
  no_modal_syntax [f15_spec] None f15_acts = true /\
  no_modal_syntax f18_specl None f18_acts = false /\
  no_modal_syntax ex06_specl None ex06_acts = false /\
  no_modal_syntax [f15_spec] (Some 0) f15_acts = false.
Proof. vm_compute. repeat split. Qed.

Print Assumptions C06_lines_delivered.
Print Assumptions C06_no_duplicate_delivery.
Print Assumptions C06_delivered_at_once.
Print Assumptions C06_input_only_for_a_delivered_line.
Print Assumptions C06_lines_intact.
Print Assumptions C06_lines_in_order_partial.
Print Assumptions C06_inputs_among_deliveries.
Print Assumptions C06_inputs_in_order_partial.
Print Assumptions C06_no_modal_no_nested_loop.
Print Assumptions C06_lines_in_order_syntactic.
