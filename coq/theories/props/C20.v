(* C20 — both event loops drive an application identically.
   "An application run on the GLib-based loop shows the same screens in the same order, delivers the same input
   lines to the same screens and invokes the same handlers in the same order as when run on the default loop,
   for every application and every user session, up to the moment the application quits."

   Models: LoopSem.exec (MainLoop, verified against /repo by C01/C02/C03/C09/C10 and by this check) and
   GLibSem.gexec (GLibEventLoop on a model of libglib's main context — that part models an external C library:
   NOT verified, validated against the real library by corpus/glib/glib_experiments.py and by the
   correspondence run of checks/C20.py).  Observable: [main_obs] / [glib_obs] = outcomes of the top-level calls
   and the EHandler/EMark sequence up to the first ERunReturn.

   The full statement is FALSE of the code as it is (C20_refuted, one witness per class of difference: the
   known findings F9(a)-(j); each witness is replayed on the two real loops by the check).
   It HOLDS on a decidable fragment of sessions (C20_agree_partial).
   Only theorem statements here; every proof is [exact] of a lemma in proofs/C20Proofs.v. *)
From Coq Require Import ZArith NArith List Bool.
From SL Require Import PyInt LoopSem LoopProg ScreenSem GLibSem GLibFrag GLibApp drv.Drv_loop proofs.C20Proofs proofs.C20Sim.
Import ListNotations.

(* the universally quantified statement of C20, on the handler/mark sequence alone, does not hold *)
Theorem C20_refuted :
  ~ (forall bodies acts fuel,
        no_fuel (fst (main_obs bodies acts fuel)) = true -> no_fuel (fst (glib_obs bodies acts fuel)) = true ->
        snd (main_obs bodies acts fuel) = snd (glib_obs bodies acts fuel)).
Proof. exact not_identical. Qed.

(* F9(a)  key glib-raise-skips-handlers: handlers 0 (raises) and 1 on one class *)
Theorem C20_refuted_raise_skips_handlers : differ_handlers w_a_bodies w_a_acts 200 /\
  main_obs w_a_bodies w_a_acts 200 = ([ONormal; OThrow XSysExit], [EHandler 0 0 0; EHandler 1 0 0; EMark 1]) /\
  glib_obs w_a_bodies w_a_acts 200 = ([ONormal; OThrow XSysExit], [EHandler 0 0 0]).
Proof. exact refuted_raise_skips_handlers. Qed.

(* F9(b)  key glib-exception-not-overtaking: the ExceptionSignal (handled by handler 2) waits for the batch *)
Theorem C20_refuted_exception_not_overtaking : differ_handlers w_b_bodies w_b_acts 200 /\
  snd (main_obs w_b_bodies w_b_acts 200) = [EHandler 0 0 0; EHandler 2 3 0; EMark 2; EHandler 1 1 0; EMark 1] /\
  snd (glib_obs w_b_bodies w_b_acts 200) = [EHandler 0 0 0; EHandler 1 1 0; EMark 1; EHandler 2 3 0; EMark 2].
Proof. exact refuted_exception_not_overtaking. Qed.

(* F9(c)  key glib-exit-batch-continues *)
Theorem C20_refuted_exit_batch_continues : differ_handlers w_c_bodies w_c_acts 200 /\
  main_obs w_c_bodies w_c_acts 200 = ([ONormal; ONormal], [EHandler 0 0 0]) /\
  glib_obs w_c_bodies w_c_acts 200 = ([ONormal; ONormal], [EHandler 0 0 0; EHandler 1 1 0; EMark 1]).
Proof. exact refuted_exit_batch_continues. Qed.

(* F9(d)  key glib-close-no-drain *)
Theorem C20_refuted_close_no_drain : differ_handlers w_d_bodies w_d_acts 200 /\
  snd (main_obs w_d_bodies w_d_acts 200) = [EHandler 0 0 0; EHandler 1 1 0; EHandler 2 2 0; EMark 2; EMark 1; EMark 9] /\
  snd (glib_obs w_d_bodies w_d_acts 200) = [EHandler 0 0 0; EHandler 1 1 0; EMark 1; EMark 9].
Proof. exact refuted_close_no_drain. Qed.

(* F9(e)  key glib-mark-after-handlers: observable only once the level stack is empty (see proofs/C20Proofs.v) *)
Theorem C20_refuted_mark_after_handlers :
  glib_obs w_e_bodies w_e_acts 200 = ([ONormal; OBlocked], [EHandler 2 1 0; EHandler 0 0 0; EHandler 1 0 0]) /\
  glib_obs_gen true w_e_bodies w_e_acts 200 =
    ([ONormal; ONormal; OThrow XError], [EHandler 2 1 0; EHandler 0 0 0; EHandler 1 0 0; EMark 1]) /\
  differ_handlers w_e_bodies w_e_acts 200.
Proof. exact refuted_mark_after_handlers. Qed.

(* further classes found while building the check (keys: glib-urgent-not-overtaking, glib-exit-not-unwinding,
   glib-handler-after-force-quit, glib-after-force-quit, glib-process-one-batch, glib-wait-not-stopped,
   glib-wait-finishes-batch, glib-handlers-bound-at-enqueue, glib-close-last-level) *)
Theorem C20_refuted_more :
  differ_handlers w_b2_bodies w_b2_acts 200 /\ differ_handlers w_c2_bodies w_c2_acts 200 /\
  differ_handlers w_f_bodies w_f_acts 200 /\ differ w_f2_bodies w_f2_acts 200 /\
  differ_handlers w_g_bodies w_g_acts 200 /\ differ_handlers w_h_bodies w_h_acts 200 /\
  differ_handlers w_h2_bodies w_h2_acts 200 /\ differ_handlers w_i_bodies w_i_acts 200 /\
  differ_handlers w_j_bodies w_j_acts 200.
Proof.
  exact (conj refuted_urgent_not_overtaking (conj refuted_exit_not_unwinding (conj refuted_handler_after_force_quit
        (conj refuted_after_force_quit (conj refuted_process_one_batch (conj refuted_wait_not_stopped
        (conj refuted_wait_finishes_batch (conj refuted_handlers_bound_at_enqueue refuted_close_last_level)))))))).
Qed.

(* ---- agreement on a fragment (partial) ----
   [in_fragment] (GLibFrag.v) is decidable: it runs the session on the MainLoop model with state checks at the points
   where the two loops are known to part: one signal pending per level at a time, its class has a handler when it is
   enqueued, no handler ends with an ordinary exception, ExitMainLoop only with no nested loop open, close_loop only
   inside a nested loop with nothing left to drain and once per dispatch, no execute_new_loop after a close_loop in
   the same dispatch, no force_quit / process_signals; a submission from another thread arrives when the loop is
   idle, into an empty queue, for a handled class.
   For every handler code over every user state, every fuel and every list of top-level calls in the fragment, the
   GLibEventLoop model (given enough fuel, and any larger amount) ends every top-level call with the same outcome and
   produces the same user-visible sequence [vseq] (EHandler, EMark, EUser) up to the quit.  Proved by a simulation relation between lstate (queues)
   and gstate (contexts), proofs/C20Sim.v. *)
Theorem C20_agree_partial : forall U (code : nat -> signal -> nat -> prog U) fuel acts u,
  in_fragment code fuel acts u = true ->
  exists fuel', forall fuel'', fuel' <= fuel'' ->
    fst (grun_session false code fuel'' acts (ginit_state u)) = fst (run_session code fuel acts (init_state u)) /\
    vseq (gtrace (snd (grun_session false code fuel'' acts (ginit_state u)))) =
    vseq (trace (snd (run_session code fuel acts (init_state u)))).
Proof. exact (@agree_partial_gen). Qed.

(* [vseq] = EHandler, EMark and EUser events (everything the layers above the loop show: screens set up / refreshed /
   shown, prompts, input lines delivered to screens, screens closed, modal returns) up to the quit; the sequences of
   handler invocations alone ([hseq]) and of user-level events alone ([useq]) are projections of it *)
Theorem C20_vseq_projections : forall t, hseq t = filter is_hm (vseq t) /\ useq t = filter is_user (vseq t).
Proof. exact (fun t => conj (hseq_vseq t) (useq_vseq t)). Qed.

(* APPLICATIONS: for every table of screens (what their callbacks do), typed lines, quit dialog, configuration, fuel and
   application actions whose run on the MainLoop model stays in the fragment ([in_app_fragment], GLibApp.v: the
   checked run of App.initialize + the session), the same application on the GLibEventLoop model ends every top-level
   call in the same way and shows the same screens in the same order, delivers the same input lines to the same screens
   and invokes the same handlers in the same order, up to the quit.  Typed input is inside the fragment: the reader
   thread's submission arrives when the loop is idle (the timing the models have). *)
Theorem C20_applications_agree_partial : forall specs specl typed quit run_empty fuel acts,
  in_app_fragment specs specl typed quit run_empty fuel acts = true ->
  exists fuel', forall fuel'', fuel' <= fuel'' ->
    fst (gapp_run_all specs specl typed quit run_empty fuel'' acts) = fst (app_run_all specs specl typed quit run_empty fuel acts) /\
    vseq (gtrace (snd (gapp_run_all specs specl typed quit run_empty fuel'' acts))) =
    vseq (trace (snd (app_run_all specs specl typed quit run_empty fuel acts))).
Proof. exact applications_agree_partial. Qed.

(* the same for sessions written in the command language of the harness *)
Theorem C20_agree_partial_sessions : forall bodies acts fuel,
  in_fragment (handler_prog bodies) fuel (map top_of acts) [] = true ->
  exists fuel', forall fuel'', fuel' <= fuel'' -> glib_obs bodies acts fuel'' = main_obs bodies acts fuel.
Proof. exact agree_partial. Qed.

(* non-vacuity at application level: a session with two screens, a modal push and two typed lines is in the fragment;
   on both models: screen 1 (modal) shown, "1" delivered to it, it is closed, push_screen_modal returns, screen 0 shown,
   "3" delivered to it, it is closed, the application quits normally *)
Example C20_application_in_fragment :
  in_app_fragment ex_specs ex_specl ex_typed None false 300 ex_acts = true /\
  (let '(os, st) := app_run_all ex_specs ex_specl ex_typed None false 300 ex_acts in (os, key_events (trace st)))
    = ([ONormal; ONormal], ex_expected) /\
  (let '(os, st) := gapp_run_all ex_specs ex_specl ex_typed None false 600 ex_acts in (os, key_events (gtrace st)))
    = ([ONormal; ONormal], ex_expected).
Proof. exact example_application. Qed.

(* [fexec], the checked interpreter behind [in_fragment], only adds checks: where it answers, it answers as [exec] *)
Theorem C20_fragment_is_mainloop : forall U (code : nat -> signal -> nat -> prog U) f c s o s',
  fexec code f c s = Some (o, s') -> exec code f c s = (o, s').
Proof. exact (@fexec_is_exec). Qed.

(* non-vacuity: the six scheduler scenarios are in the fragment, the refutation witnesses are not *)
Example C20_fragment_nonempty :
  in_fragment (handler_prog s_replace_screen_bodies) 200 (map top_of s_acts) [] = true /\
  in_fragment (handler_prog s_switch_screen_bodies) 200 (map top_of s_acts) [] = true /\
  in_fragment (handler_prog s_modal_in_render_bodies) 200 (map top_of s_acts) [] = true /\
  in_fragment (handler_prog s_modal_in_refresh_bodies) 200 (map top_of s_acts) [] = true /\
  in_fragment (handler_prog s_modal_refresh_and_render_bodies) 200 (map top_of s_acts) [] = true /\
  in_fragment (handler_prog s_modal_render_recursive_bodies) 200 (map top_of s_acts) [] = true /\
  in_fragment (handler_prog w_a_bodies) 200 (map top_of w_a_acts) [] = false /\
  in_fragment (handler_prog w_b_bodies) 200 (map top_of w_b_acts) [] = false /\
  in_fragment (handler_prog w_c_bodies) 200 (map top_of w_c_acts) [] = false /\
  in_fragment (handler_prog w_d_bodies) 200 (map top_of w_d_acts) [] = false.
Proof. exact example_fragment. Qed.

(* agreement on the six scenarios of tests/units/main/screen_scheduler_test.py translated to the loop API *)
Example C20_scenario_replace_screen : agree s_replace_screen_bodies s_acts 200.
Proof. exact example_agree_replace_screen. Qed.
Example C20_scenario_switch_screen : agree s_switch_screen_bodies s_acts 200.
Proof. exact example_agree_switch_screen. Qed.
Example C20_scenario_modal_in_render : agree s_modal_in_render_bodies s_acts 200 /\
  snd (main_obs s_modal_in_render_bodies s_acts 200) =
  [EHandler 0 0 0; EMark 3; EHandler 0 1 0; EHandler 1 2 0; EMark 4; EHandler 1 3 0].
Proof. exact example_agree_modal_in_render. Qed.
Example C20_scenario_modal_in_refresh : agree s_modal_in_refresh_bodies s_acts 200.
Proof. exact example_agree_modal_in_refresh. Qed.
Example C20_scenario_modal_refresh_and_render : agree s_modal_refresh_and_render_bodies s_acts 200.
Proof. exact example_agree_modal_refresh_and_render. Qed.
Example C20_scenario_modal_render_recursive : agree s_modal_render_recursive_bodies s_acts 200 /\
  length (snd (main_obs s_modal_render_recursive_bodies s_acts 200)) = 10%nat.
Proof. exact example_agree_modal_render_recursive. Qed.

Print Assumptions C20_refuted.
Print Assumptions C20_refuted_raise_skips_handlers.
Print Assumptions C20_refuted_exception_not_overtaking.
Print Assumptions C20_refuted_exit_batch_continues.
Print Assumptions C20_refuted_close_no_drain.
Print Assumptions C20_refuted_mark_after_handlers.
Print Assumptions C20_refuted_more.
Print Assumptions C20_agree_partial.
Print Assumptions C20_vseq_projections.
Print Assumptions C20_applications_agree_partial.
Print Assumptions C20_agree_partial_sessions.
Print Assumptions C20_fragment_is_mainloop.
