(* C10 — waiting for a signal wakes up for that signal, and only for it.
   Only theorem statements; every proof is [exact] of a lemma in proofs/ (TicketProofs, C10Proofs). *)
From Coq Require Import ZArith NArith List Bool.
From SL Require Import LoopSem LoopProg Monitors LegacyTicket proofs.TicketProofs proofs.C10Proofs.
Import ListNotations.

(* ================================================================== 1. every session, every handler code *)
(* The acceptor chk_C10 (Monitors.v) accepts every event of every trace the loop can produce:
   - process_signals(return_after=c) returns (EProcReturn (Some c) t) only for an outstanding waiter with
     that ticket and class, after a signal whose class is exactly c was dispatched since the call began
     (at any nesting depth), or after the loops were told to stop (close_loop / force_quit);
   - a waiter that has been released dispatches nothing more in its own frame;
   - inside process_signals() all own-depth dispatches have the priority of the first one.
   Quantified over the user state type, every handler code (arbitrary Gallina terms of type prog over the API, hence
   every nesting of waiting and non-waiting calls and every set of simultaneous waiters), every fuel, every
   list of top-level calls (hence every queue content). *)
Theorem C10_waiting :
  forall U (code : nat -> signal -> nat -> prog U) fuel acts (u : U),
    ok_C10 (rev (trace (snd (run_session code fuel acts (init_state u))))) = true.
Proof. exact @C10_waiting_proof. Qed.

(* the stop flag seen by an observer of the trace is never set while the loop's own flag is cleared,
   and the force-quit flags agree (what makes "or the loop quited" observable) *)
Theorem C10_stop_flag_link :
  forall U (code : nat -> signal -> nat -> prog U) fuel acts (u : U),
    let s := snd (run_session code fuel acts (init_state u)) in
    let w := world_of (rev (trace s)) in
    force_quit s = w_fq w /\ (run_loop s = false -> w_runloop w = false).
Proof. exact @stop_flag_link. Qed.

(* ================================================================== 2. the ticket machine alone *)
(* for every sequence of operations: the check answers True exactly for a ticket taken on that line, whose
   line was marked after the take (first such mark), and not checked since that mark (a check after the
   mark is successful and removes the ticket) *)
Theorem C10_ticket_machine : forall ops line id,
  (exists tm', check_ticket (run_ops ops) line id = Some (true, tm')) <->
  (exists pre mid post,
      ops = pre ++ TkTake line :: mid ++ TkMark line :: post /\ takes pre = id /\
      ~ In (TkMark line) mid /\ ~ In (TkCheck line id) post).
Proof. exact ticket_machine_released. Qed.

(* ... and answers False, keeping the ticket, exactly for a ticket taken and not marked since *)
Theorem C10_ticket_machine_waiting : forall ops line id,
  check_ticket (run_ops ops) line id = Some (false, run_ops ops) <->
  (exists pre mid, ops = pre ++ TkTake line :: mid /\ takes pre = id /\ ~ In (TkMark line) mid).
Proof. exact ticket_machine_waiting. Qed.

(* one mark releases ALL tickets outstanding on the line (concurrent waiters on the same class) *)
Theorem C10_mark_releases_all : forall tm line id,
  check_ticket tm line id <> None ->
  exists tm', check_ticket (mark_line_to_go tm line) line id = Some (true, tm').
Proof. exact mark_releases_all. Qed.

(* ... and none on another line (signals of other classes) *)
Theorem C10_mark_other_line_untouched : forall tm line line' id,
  line' <> line ->
  option_map fst (check_ticket (mark_line_to_go tm line) line' id) = option_map fst (check_ticket tm line' id).
Proof. exact mark_other_line_untouched. Qed.

(* a dispatch that preceded the call does not satisfy it: a ticket taken after the mark is not released *)
Theorem C10_not_before : forall ops line,
  let tm := mark_line_to_go (run_ops ops) line in
  let '(id, tm') := take_ticket tm line in
  check_ticket tm' line id = Some (false, tm').
Proof. exact not_before. Qed.

(* tickets are fresh *)
Theorem C10_take_fresh : forall ops line line',
  check_ticket (run_ops ops) line' (fst (take_ticket (run_ops ops) line)) = None.
Proof. exact take_fresh. Qed.

(* ================================================================== 3. the non-waiting form never blocks *)
Theorem C10_iteration_nonblocking :
  forall U (code : nat -> signal -> nat -> prog U) f (s : lstate U),
    q_empty (get_q s (active s)) = true ->
    exec code (S (S f)) (CApi (AProcess None)) s =
    (ONormal, emit (EProcReturn None 0) (emit (EProcEnter None 0) s)).
Proof. exact @iteration_nonblocking. Qed.

(* process_signals() is blocked only if a handler it started was: some EHandler event was added *)
Theorem C10_iteration_blocks_only_in_handler :
  forall U (code : nat -> signal -> nat -> prog U) f po (s s' : lstate U),
    exec code f (CProcIter po) s = (OBlocked, s') ->
    exists tr h sid d, trace s' = tr ++ trace s /\ In (EHandler h sid d) tr.
Proof. exact @iter_blocked. Qed.

(* ================================================================== 4. one priority batch *)
(* at the first head whose priority differs from the batch priority, the entry goes back and the call returns *)
Theorem C10_iteration_one_batch :
  forall U (code : nat -> signal -> nat -> prog U) f (s : lstate U) p0 p cnt sg q',
    q_pop (get_q s (active s)) = Some ((p, cnt, sg), q') -> run_loop s = true -> p <> p0 ->
    exec code (S f) (CProcIter (Some p0)) s =
    (ONormal, emit (ERequeue (sg_id sg) (active s)) (set_q s (active s) (q_put_entry q' (p, cnt, sg)))).
Proof. exact @iteration_stops_at_other_priority. Qed.

(* the batch priority is that of the first signal taken; heads of that priority are dispatched *)
Theorem C10_iteration_batch_priority :
  forall U (code : nat -> signal -> nat -> prog U) f (s : lstate U) po p cnt sg q',
    q_pop (get_q s (active s)) = Some ((p, cnt, sg), q') -> run_loop s = true ->
    po = None \/ po = Some p ->
    exec code (S f) (CProcIter po) s =
    (let '(o, s3) := exec code f (CProcessSignal sg 0)
                       (emit (EDispatch (sg_id sg) (active s) (length (levels s))) (set_q s (active s) q')) in
     match o with ONormal => exec code f (CProcIter (Some p)) s3 | _ => (o, s3) end).
Proof. exact @iteration_dispatches_batch_priority. Qed.

(* ================================================================== 5. the defect fixed by 7e1f12d *)
(* with lines keyed by class NAME, a waiter is released by a dispatch of any class of the same name;
   keyed by the class itself (name = identity), only by its own class *)
Theorem C10_legacy_keying : forall name ops waited dispatched,
  legacy_wait_then_dispatch name (run_ops ops) waited dispatched = Some (name waited =? name dispatched)%nat.
Proof. exact legacy_wait_then_dispatch_spec. Qed.

Example C10_legacy_refuted :
  let name := fun c : nat => match c with 1 | 2 => 7 | _ => c end in      (* classes 1 and 2 share a name *)
  legacy_wait_then_dispatch name tm_empty 1 2 = Some true /\             (* before the fix: released by the wrong class *)
  legacy_wait_then_dispatch (fun c => c) tm_empty 1 2 = Some false /\    (* after: not released *)
  legacy_wait_then_dispatch (fun c => c) tm_empty 1 1 = Some true.
Proof. vm_compute. repeat split. Qed.

(* ================================================================== 6. nested waiters on one class *)
(* classes: 1 = W, 2 = X, 3 = Y, 4 = Z.  W's handler enqueues Y, Y, X, Z and waits for X; the first Y's handler
   waits for X too (nested, same class); the second Y's handler does not.  The single dispatch of X happens
   inside the nested call and releases both waiters; neither dispatches Z (the top-level process_signals()
   does, afterwards).  Checked against the real MainLoop. *)
Definition ex_bodies : list (list cmd) :=
  [ [CmEnqueue 3 0 None; CmEnqueue 3 0 None; CmEnqueue 2 0 None; CmEnqueue 4 0 None; CmProcess (Some 2); CmMark 100];
    [CmIfCount 1 [CmProcess (Some 2); CmMark 101] [CmMark 102]];
    [CmMark 103];
    [CmMark 104] ].
Definition ex_acts : list (top counters) :=
  [TProg (compile_cmds 0 [CmRegHandler 1 0 0; CmRegHandler 3 1 0; CmRegHandler 2 2 0; CmRegHandler 4 3 0;
                           CmEnqueue 1 0 None; CmProcess None])].
(* 1 sid = dispatch | 2 c t = wait enters | 3 c t = wait returns | 4 / 5 = process_signals() enters / returns | 6 tag = mark *)
Definition ex_view (e : event) : list (nat * nat * nat) :=
  match e with
  | EDispatch sid _ _ => [(1, sid, 0)]
  | EProcEnter (Some c) t => [(2, c, t)]
  | EProcReturn (Some c) t => [(3, c, t)]
  | EProcEnter None _ => [(4, 0, 0)]
  | EProcReturn None _ => [(5, 0, 0)]
  | EMark t => [(6, t, 0)]
  | _ => []
  end.

Example C10_example_nested_waiters :
  let '(os, st) := run_session (handler_prog ex_bodies) 100 ex_acts (init_state []) in
  os = [ONormal] /\
  ok_C10 (rev (trace st)) = true /\
  flat_map ex_view (rev (trace st)) =
    [ (4, 0, 0); (1, 0, 0);            (* process_signals(): W dispatched *)
      (2, 2, 0); (1, 1, 0);            (* outer wait for X (ticket 0): first Y dispatched *)
      (2, 2, 1); (1, 2, 0); (6, 102, 0);   (* nested wait for X (ticket 1): second Y dispatched *)
      (1, 3, 0); (6, 103, 0);          (* X dispatched inside the nested call *)
      (3, 2, 1); (6, 101, 0);          (* the nested wait returns *)
      (3, 2, 0); (6, 100, 0);          (* the outer wait returns without dispatching anything more *)
      (1, 4, 0); (6, 104, 0); (5, 0, 0) ].   (* Z is dispatched by the top-level call *)
Proof. vm_compute. repeat split. Qed.

(* non-vacuity of the monitor: it rejects a wait that returns without its signal, a released waiter that goes
   on dispatching, and a second batch *)
Example C10_monitor_rejects :
  ok_C10 [ESigNew 0 3 0%Z None; EEnq 0 0; EProcEnter (Some 2) 0; EDispatch 0 0 1; EDispatchEnd 0;
          EProcReturn (Some 2) 0] = false /\
  ok_C10 [ESigNew 0 2 0%Z None; EEnq 0 0; ESigNew 1 3 0%Z None; EEnq 1 0; EProcEnter (Some 2) 0;
          EDispatch 0 0 1; EDispatchEnd 0; EDispatch 1 0 1] = false /\
  ok_C10 [ESigNew 0 2 0%Z None; EEnq 0 0; ESigNew 1 3 5%Z None; EEnq 1 0; EProcEnter None 0;
          EDispatch 0 0 1; EDispatchEnd 0; EDispatch 1 0 1] = false /\
  ok_C10 [ESigNew 0 2 0%Z None; EEnq 0 0; EProcEnter (Some 2) 0; EDispatch 0 0 1; EDispatchEnd 0;
          EProcReturn (Some 2) 0] = true.
Proof. vm_compute. repeat split. Qed.

Print Assumptions C10_waiting.
Print Assumptions C10_stop_flag_link.
Print Assumptions C10_ticket_machine.
Print Assumptions C10_ticket_machine_waiting.
Print Assumptions C10_mark_releases_all.
Print Assumptions C10_mark_other_line_untouched.
Print Assumptions C10_not_before.
Print Assumptions C10_take_fresh.
Print Assumptions C10_iteration_nonblocking.
Print Assumptions C10_iteration_blocks_only_in_handler.
Print Assumptions C10_iteration_one_batch.
Print Assumptions C10_iteration_batch_priority.
Print Assumptions C10_legacy_keying.
