(* C04 — the screen shown is always the top of an honest stack.
   "Screens behave as a stack: pushing puts a screen on top, scheduling puts it at the bottom (so it is shown
    last), replacing substitutes the top screen and inherits its modality, closing removes the top and reveals
    the screen beneath, and when the stack becomes empty the application ends.  For every sequence of such
    operations the sequence of screens drawn equals the one an ideal stack would produce; a screen is never
    drawn while another is above it, and the order of the screens beneath the top never changes."
   Only theorem statements; every proof is [exact] of a lemma in proofs/C04Proofs.v or proofs/ScreenLink.v.
   The property is the trace acceptor [chk_C04] of ScreenMon.v (the same function, extracted, judges the
   traces recorded from the implementation).  [sworld] rebuilds the IDEAL stack [sw_stack] from the
   T_STACK events alone; [chk_C04] accepts
     - a stack primitive only if it is the one announced by the scheduler operation in progress (T_OP):
       same screen, same arguments, announced modality (a replace inherits the modality of the entry it
       has just popped), a fresh entry id; or the discard of the entry whose setup has just failed;
     - a pop only of the ideal top;
     - T_SETUP / T_REFRESH / T_SHOW / T_SEPARATOR only for the ideal top entry (id and screen); so is T_SETUP_BEGIN
       (a setup() that runs commands of its own is entered); the T_SETUP that reports the return of such a setup() and
       the T_REFRESH that follows it concern the entry the setup() was entered for ([in_setup_of]) even when that setup()
       changed the stack (nothing is drawn then: the scheduler compares the top with the entry).
   Hypothesis [failing_setup_plain specs] of the session theorems: a screen whose setup() can report failure
   (sc_setup contains false) has no setup commands.  Without it the statement is false
   ([C04_failed_setup_after_push_refuted]); [plain_setup specs] (no setup() runs commands) implies it. *)
From Coq Require Import ZArith NArith List Bool.
From RecordUpdate Require Import RecordUpdate.
From SL Require Import PyInt LoopSem ScreenSem ScreenMon proofs.ScreenLink proofs.C04Proofs.
Import ListNotations.

(* 1. every session of every application — any screens (callbacks are arbitrary command lists, setup() included as
      long as a setup() that can fail does nothing else), any typed lines, any top-level actions, any fuel — produces a
      trace the monitor accepts *)
Theorem C04_plain_setup_suffices : forall specs, plain_setup specs -> failing_setup_plain specs.
Proof. exact plain_setup_failing. Qed.

Theorem C04_honest_stack : forall specs specl typed quit run_empty fuel acts,
  failing_setup_plain specs ->
  (forall n, specs n = nth n specl default_spec) ->
  sok chk_C04 typed (rev (trace (snd (app_run_all specs specl typed quit run_empty fuel acts)))) = true.
Proof. exact C04_honest_stack_proof. Qed.

(* 2. the ideal stack is a stack: append = cons on top, add_first = append at the bottom, pop = tail;
      no other event touches it *)
Theorem C04_ideal_stack_ops : forall w i scr args m t,
  sw_stack (sworld_step w (EUser T_STACK [K_APPEND; i; scr; args; m] t)) = mk_entry i scr args m :: sw_stack w /\
  sw_stack (sworld_step w (EUser T_STACK [K_ADD_FIRST; i; scr; args; m] t)) = sw_stack w ++ [mk_entry i scr args m] /\
  sw_stack (sworld_step w (EUser T_STACK [K_POP; i; scr; args; m] t)) = tl (sw_stack w).
Proof. exact ideal_stack_ops. Qed.

Theorem C04_ideal_stack_other : forall w e,
  match e with EUser tag _ _ => tag <> T_STACK | _ => True end -> sw_stack (sworld_step w e) = sw_stack w.
Proof. exact ideal_other. Qed.

(* hence the entries beneath the top keep their order: a push leaves the whole old stack beneath the new
   top, a schedule adds at the very bottom and keeps the top, a pop reveals the entry beneath *)
Theorem C04_beneath_push : forall w i scr args m t,
  tl (sw_stack (sworld_step w (EUser T_STACK [K_APPEND; i; scr; args; m] t))) = sw_stack w.
Proof. exact beneath_append. Qed.

Theorem C04_beneath_schedule : forall w i scr args m t, sw_stack w <> [] ->
  tl (sw_stack (sworld_step w (EUser T_STACK [K_ADD_FIRST; i; scr; args; m] t))) = tl (sw_stack w) ++ [mk_entry i scr args m] /\
  top_entry (sworld_step w (EUser T_STACK [K_ADD_FIRST; i; scr; args; m] t)) = top_entry w.
Proof. exact beneath_schedule. Qed.

(* 3. what acceptance means: every draw in an accepted trace is of the entry on top of the ideal stack at
      that moment (so never of a screen with another one above it), every pop removes the ideal top *)
Theorem C04_drawn_is_top : forall typed t1 i scr tx t2,
  sok chk_C04 typed (t1 ++ EUser T_SHOW [i; scr] tx :: t2) = true ->
  exists e rest, sw_stack (fold_left sworld_step t1 (sworld0 typed)) = e :: rest /\ en_id e = i /\ en_scr e = scr.
Proof. exact accepted_show_top. Qed.

Theorem C04_pop_is_top : forall typed t1 i scr args m tx t2,
  sok chk_C04 typed (t1 ++ EUser T_STACK [K_POP; i; scr; args; m] tx :: t2) = true ->
  exists e rest, sw_stack (fold_left sworld_step t1 (sworld0 typed)) = e :: rest /\ en_id e = i.
Proof. exact accepted_pop_top. Qed.

(* 4. the link behind it: after every session that ran to its end the ideal stack IS the concrete
      ScreenStack (same entries, same order), entry ids are pairwise distinct and below the allocation
      counter, and no announced primitive is outstanding *)
Theorem C04_stack_link : forall specs specl typed quit run_empty fuel acts,
  failing_setup_plain specs ->
  Forall finished (fst (app_run_all specs specl typed quit run_empty fuel acts)) ->
  slink typed (snd (app_run_all specs specl typed quit run_empty fuel acts)).
Proof. exact stack_link. Qed.

(* the same, through every loop-level call of the model (Hoare style): from a linked state whose open
   _process_screen frames are [pf], a call that comes back leaves a linked state with the same frames *)
Theorem C04_exec_link : forall typed specs Ps pf f c s o s',
  failing_setup_plain specs ->
  is_prog c = false -> Inv typed false 0 Ps pf s ->
  exec (screen_code specs) f c s = (o, s') ->
  match o with
  | OFuel | OBlocked => acc_tr (chkb false) typed (trace s')
  | _ => Inv typed false 0 Ps pf s'
  end.
Proof. exact exec_link. Qed.

(* non-vacuity: a hub pushes a modal dialog ('p'), the dialog replaces itself ('r'), the replacement is
   closed ('c'), the hub is drawn again and closed ('q'): the draws are hub, dialog, replacement, hub *)
Example C04_example_modal_replace :
  sok chk_C04 ex_typed1 ex_trace1 = true /\
  shows ex_trace1 = [(0, 0); (1, 1); (2, 2); (0, 0)] /\
  fst (app_run_all ex_specs ex_specl ex_typed1 None false 400 ex_acts1) = [ONormal; ONormal] /\
  map sd_id (st_stack (ust (snd (app_run_all ex_specs ex_specl ex_typed1 None false 400 ex_acts1)))) = [].
Proof. vm_compute. repeat split. Qed.

(* a screen scheduled on top whose setup fails is discarded and the hub beneath is drawn; pushed again
   ('s') its setup succeeds and it is drawn; closed ('c'), the hub again *)
Example C04_example_failed_setup :
  sok chk_C04 ex_typed2 ex_trace2 = true /\
  shows ex_trace2 = [(1, 0); (2, 3); (1, 0)].
Proof. vm_compute. repeat split. Qed.

(* the monitor is not vacuous: drawing the entry beneath the top, a stack primitive nobody announced,
   a replace that changes the modality are rejected; drawing the top is accepted *)
Example C04_monitor_rejects :
  sok chk_C04 [] bad_show_beneath = false /\
  sok chk_C04 [] good_show_top = true /\
  sok chk_C04 [] bad_unannounced_pop = false /\
  sok chk_C04 [] bad_replace_modality = false.
Proof. vm_compute. repeat split. Qed.

(* setup() with commands.  A setup() that pushes a screen and then reports FAILURE: the scheduler's discard
   (`self._screen_stack.pop()`) removes the screen that setup() pushed, not the entry whose setup failed — a pop the
   honest stack does not allow (the failed entry stays and is set up again on every redraw).  The model's own trace is
   rejected: [C04_honest_stack] needs its hypothesis about setups *)
Example C04_failed_setup_after_push_refuted :
  sok chk_C04 fs_typed (rev (trace (snd (app_run_all (fs_specs [false]) (fs_specl [false]) fs_typed None false fs_fuel fs_acts)))) = false.
Proof. vm_compute; reflexivity. Qed.

(* the same session with a setup() that succeeds is accepted: the pushed screen is drawn, closed, then the screen
   whose setup() pushed it *)
Example C04_setup_push_accepted :
  sok chk_C04 fs_typed (rev (trace (snd (app_run_all (fs_specs []) (fs_specl []) fs_typed None false fs_fuel fs_acts)))) = true /\
  fst (app_run_all (fs_specs []) (fs_specl []) fs_typed None false fs_fuel fs_acts) = [ONormal; ONormal] /\
  shows (rev (trace (snd (app_run_all (fs_specs []) (fs_specl []) fs_typed None false fs_fuel fs_acts)))) = [(1, 1); (0, 0)].
Proof. vm_compute. repeat split. Qed.

Print Assumptions C04_plain_setup_suffices.
Print Assumptions C04_honest_stack.
Print Assumptions C04_ideal_stack_ops.
Print Assumptions C04_ideal_stack_other.
Print Assumptions C04_beneath_push.
Print Assumptions C04_beneath_schedule.
Print Assumptions C04_drawn_is_top.
Print Assumptions C04_pop_is_top.
Print Assumptions C04_stack_link.
Print Assumptions C04_exec_link.
