(* Sx.v — the wire format between the Python harness and the extracted model.
   An s-expression of integers.  All decoding of cases and encoding of results
   is written in Gallina (type-checked, extracted), so that the hand-written
   OCaml glue is a 60-line tokenizer/printer and nothing else. *)
From Coq Require Import ZArith List Bool.
Import ListNotations.
Local Open Scope Z_scope.

Inductive sx := I (z : Z) | L (l : list sx).

Definition bad_input : sx := I (-999).   (* a bare atom: every normal result is a list *)

Definition as_Z (s : sx) : option Z := match s with I z => Some z | _ => None end.
Definition as_nat (s : sx) : option nat :=
  match s with I z => if z <? 0 then None else Some (Z.to_nat z) | _ => None end.
Definition as_N (s : sx) : option N :=
  match s with I z => if z <? 0 then None else Some (Z.to_N z) | _ => None end.
Definition as_bool (s : sx) : option bool :=
  match s with I 0 => Some false | I 1 => Some true | _ => None end.

Fixpoint all_some {A} (l : list (option A)) : option (list A) :=
  match l with
  | [] => Some []
  | None :: _ => None
  | Some a :: r => match all_some r with Some r' => Some (a :: r') | None => None end
  end.

Definition as_list {A} (f : sx -> option A) (s : sx) : option (list A) :=
  match s with L l => all_some (map f l) | _ => None end.

Definition as_opt {A} (f : sx -> option A) (s : sx) : option (option A) :=
  match s with
  | L [] => Some None
  | L [x] => match f x with Some a => Some (Some a) | None => None end
  | _ => None
  end.

Definition as_pair {A B} (f : sx -> option A) (g : sx -> option B) (s : sx) : option (A * B) :=
  match s with
  | L [x; y] => match f x, g y with Some a, Some b => Some (a, b) | _, _ => None end
  | _ => None
  end.

Definition as_str : sx -> option (list N) := as_list as_N.

Definition of_nat (n : nat) : sx := I (Z.of_nat n).
Definition of_N (n : N) : sx := I (Z.of_N n).
Definition of_bool (b : bool) : sx := I (if b then 1 else 0).
Definition of_list {A} (f : A -> sx) (l : list A) : sx := L (map f l).
Definition of_opt {A} (f : A -> sx) (o : option A) : sx :=
  match o with None => L [] | Some a => L [f a] end.
Definition of_pair {A B} (f : A -> sx) (g : B -> sx) (p : A * B) : sx := L [f (fst p); g (snd p)].
Definition of_str (s : list N) : sx := of_list of_N s.

Notation "'do' x <- e ; k" := (match e with Some x => k | None => bad_input end)
  (at level 200, x pattern, e at level 100, k at level 200).
