(* GLibSem.v — simpleline/event_loop/glib_event_loop.py (GLibEventLoop) as an interpreter, on top of a model
   of the part of GLib it uses.  Same handler programs ([prog U]), same [api], same [event] vocabulary and
   the same [code] parameter as LoopSem.exec, so that one session can be run on both loops.

   (a) THE GLIB PART IS A MODEL OF AN EXTERNAL C LIBRARY.  It is not verified; it is validated against the
       real libglib-2.0 (2.74) by corpus/glib/glib_experiments.py and by the C20 correspondence run:
       * a main context = the idle sources attached to it, in attach order, each with a priority and the
         flag in-call (a destroyed source leaves the context), plus the list of pending dispatches of the iteration in progress;
       * g_main_context_iteration(ctx, may_block): the pending list is cleared (so an iteration started from
         inside a callback takes over whatever an outer iteration of the same context had left); the ready
         sources are the attached, not in-call ones (an idle source is always ready); those of
         the numerically lowest priority among them, in attach order, form the batch; they are dispatched one
         after the other, skipping those destroyed meanwhile; sources attached during the dispatch wait for a
         later iteration whatever their priority; a callback answering FALSE destroys its source;
       * g_main_loop_run sets is_running and iterates until it is cleared; g_main_loop_quit clears it (a quit
         before run is lost; a quit inside a batch lets the batch finish);
       * nothing ready and may_block: the thread would sleep until another thread attaches something — the
         next external submission [gext] is delivered (one per iteration), or the outcome is [OBlocked].
       PyGObject's marshalling (replaced by harness/glib_shim in the correspondence run): an ordinary
       exception leaving a source callback is printed and the callback answers FALSE; SystemExit leaving a
       callback terminates the process (PyErr_Print) = the outcome [OThrow XSysExit] unwinding everything.
   (b) GLibEventLoop line by line: one GLib.MainLoop + own MainContext per level ([glevel], id = creation
       order, numbered as MainLoop's queues are). *)
From Coq Require Import ZArith NArith List Bool.
From RecordUpdate Require Import RecordUpdate.
From SL Require Import LoopSem.
Import ListNotations.

(* ------------------------------------------------------------------ GLib: sources and contexts *)
Record gsource := {
  gs_seq : N;              (* attach order (global counter): identity of the source *)
  gs_prio : Z;             (* g_source_set_priority(signal.priority) *)
  gs_sig : signal;         (* CallbackArgs.signal *)
  gs_bound : bool;         (* CallbackArgs.handlers is the live list object self._handlers[type(signal)]
                              (the class had a handler list when the signal was enqueued); otherwise a
                              private list: [] or, for an ExceptionSignal, [kill_app_with_traceback] *)
  gs_incall : bool }.      (* G_HOOK_FLAG_IN_CALL: being dispatched, hence blocked for recursive iterations *)
#[export] Instance eta_gsource : Settable _ :=
  settable! Build_gsource <gs_seq; gs_prio; gs_sig; gs_bound; gs_incall>.

(* one entry of GLibEventLoop._event_loops: EventLoopData(loop) with its GLib.MainLoop and the loop's context *)
Record glevel := {
  gl_sources : list gsource;     (* the context: attached sources, attach order; g_source_destroy removes *)
  gl_pending : list N;           (* context->pending_dispatches of the iteration in progress (gs_seq) *)
  gl_running : bool;             (* loop->is_running *)
  gl_srcs : list nat }.          (* EventLoopData.sources: registered signal sources *)
#[export] Instance eta_glevel : Settable _ := settable! Build_glevel <gl_sources; gl_pending; gl_running; gl_srcs>.
Definition empty_level : glevel := {| gl_sources := []; gl_pending := []; gl_running := false; gl_srcs := [] |}.

Definition gs_live (x : gsource) : bool := negb (gs_incall x).

(* the least priority value among the ready sources *)
Fixpoint min_prio (acc : option Z) (l : list gsource) : option Z :=
  match l with
  | [] => acc
  | x :: r =>
    min_prio (if gs_live x then match acc with
                                | None => Some (gs_prio x)
                                | Some p => Some (if (gs_prio x <? p)%Z then gs_prio x else p)
                                end
              else acc) r
  end.
(* the batch of one iteration: ready sources of that priority, attach order *)
Definition batch_of (l : list gsource) : list N :=
  match min_prio None l with
  | None => []
  | Some p => map gs_seq (filter (fun x => gs_live x && (gs_prio x =? p)%Z) l)
  end.
Definition find_source (l : list gsource) (q : N) : option gsource :=
  find (fun x => (gs_seq x =? q)%N) l.
Definition upd_source (l : list gsource) (q : N) (f : gsource -> gsource) : list gsource :=
  map (fun x => if (gs_seq x =? q)%N then f x else x) l.
(* g_source_destroy: the source leaves its context (a pending dispatch of it is skipped) *)
Definition del_source (l : list gsource) (q : N) : list gsource :=
  filter (fun x => negb (gs_seq x =? q)%N) l.

(* what successive iterations would dispatch: attached sources by (priority, attach order) *)
Fixpoint insert_src (x : gsource) (l : list gsource) : list gsource :=
  match l with
  | [] => [x]
  | y :: r => if (gs_prio x <? gs_prio y)%Z then x :: l else y :: insert_src x r
  end.
Definition attached_in_order (l : list gsource) : list gsource :=
  fold_left (fun acc x => insert_src x acc) l [].

Section GLoop.
  Context {U : Type}.

  Record gstate := {
    gstore : list glevel;                 (* every level ever created; id = index *)
    glevels : list nat;                   (* _event_loops, bottom .. top *)
    ghandlers : list (nat * list (nat * nat));
    gtickets : tmachine;
    gforce_quit : bool;
    gquit_cb : option nat;
    gnext_sig : nat;
    gnext_seq : N;
    gext : list sigspec;
    gtrace : list event;                  (* newest first *)
    gust : U }.
  #[export] Instance eta_gstate : Settable _ :=
    settable! Build_gstate <gstore; glevels; ghandlers; gtickets; gforce_quit; gquit_cb; gnext_sig; gnext_seq;
                            gext; gtrace; gust>.

  (* GLibEventLoop.__init__: one level on the default main context *)
  Definition ginit_state (u : U) : gstate :=
    {| gstore := [empty_level]; glevels := [0]; ghandlers := []; gtickets := tm_empty; gforce_quit := false;
       gquit_cb := None; gnext_sig := 0; gnext_seq := 0%N; gext := []; gtrace := []; gust := u |}.

  Definition gemit (e : event) (s : gstate) : gstate := s <| gtrace := e :: gtrace s |>.
  Definition guser_event (e : event) : event :=
    match e with EMark _ | EUser _ _ _ => e | _ => EMark 0 end.

  Definition get_l (s : gstate) (l : nat) : glevel := nth l (gstore s) empty_level.
  Definition set_l (s : gstate) (l : nat) (v : glevel) : gstate := s <| gstore := set_nth (gstore s) l v |>.
  Definition upd_l (s : gstate) (l : nat) (f : glevel -> glevel) : gstate := set_l s l (f (get_l s l)).

  Definition ghandlers_of (s : gstate) (cls : nat) : option (list (nat * nat)) :=
    option_map snd (find (fun p => (fst p =? cls)%nat) (ghandlers s)).

  Definition gnew_signal (s : gstate) (sp : sigspec) : signal * gstate :=
    (mk_signal (gnext_sig s) sp,
     gemit (ESigNew (gnext_sig s) (sp_cls sp) (sp_prio sp) (sp_src sp)) (s <| gnext_sig := S (gnext_sig s) |>)).

  (* _find_loop_data_for_source: for loop_data in reversed(self._event_loops): if source in loop_data.sources *)
  Fixpoint groute (s : gstate) (rev_levels : list nat) (src : option nat) : option nat :=
    match rev_levels with
    | [] => None
    | l :: r =>
      if match src with Some o => existsb (Nat.eqb o) (gl_srcs (get_l s l)) | None => false end
      then Some l else groute s r src
    end.

  (* GLibEventLoop.enqueue_signal for an already created signal; None = IndexError (self._event_loops[-1] on []) *)
  Definition g_enqueue (s : gstate) (sg : signal) : option gstate :=
    if gforce_quit s then Some (gemit (EDropped (sg_id sg)) s)
    else
      match (match groute s (rev (glevels s)) (sg_src sg) with
             | Some l => Some l
             | None => match rev (glevels s) with top :: _ => Some top | [] => None end
             end) with
      | None => None
      | Some l =>
        let src := {| gs_seq := gnext_seq s; gs_prio := sg_prio sg; gs_sig := sg;
                      gs_bound := match ghandlers_of s (sg_cls sg) with Some _ => true | None => false end;
                      gs_incall := false |} in
        Some (upd_l (gemit (EEnq (sg_id sg) l) (s <| gnext_seq := N.succ (gnext_seq s) |>)) l
                    (fun v => v <| gl_sources := gl_sources v ++ [src] |>))
      end.

  (* _quit_all_loops: for loop_data in reversed(self._event_loops): loop_data.loop.quit() *)
  Definition quit_all (s : gstate) : gstate :=
    fold_left (fun st l => upd_l st l (fun v => v <| gl_running := false |>)) (glevels s) s.

  (* COUNTERFACTUAL SWITCH, [false] in the model of the code as it is.  [mark_first = true] is the variant that
     marks the waiting line of the signal's class BEFORE the handlers (as MainLoop._process_signal does) instead
     of after them; it exists only so that the check can search for sessions on which that ordering is observable
     (finding F9(e)) — every theorem and every correspondence run uses [false]. *)
  Variable mark_first : bool.

  (* source.destroy(); self._mark_signal_processed(signal) — the tail of _run_handlers *)
  Definition finish_source (s : gstate) (l : nat) (src : gsource) : gstate :=
    let s1 := upd_l s l (fun v => v <| gl_sources := del_source (gl_sources v) (gs_seq src) |>) in
    gemit (EDispatchEnd (sg_id (gs_sig src)))
          (if mark_first then s1
           else s1 <| gtickets := mark_line_to_go (gtickets s1) (sg_cls (gs_sig src)) |>).

  Inductive gcall :=
  | GRun                                   (* AbstractEventLoop.run + GLibEventLoop._run *)
  | GLoopRun (l : nat)                     (* g_main_loop_run after is_running := TRUE: while is_running: iterate(TRUE) *)
  | GIter (l : nat) (may_block : bool)     (* g_main_context_iteration(context of level l, may_block) *)
  | GDispatch (l : nat)                    (* g_main_dispatch: the pending list of that context *)
  | GRunHandlers (l : nat) (src : gsource)            (* GLibEventLoop._run_handlers(data) *)
  | GHandlerLoop (src : gsource) (idx : nat)          (* its `for handler in handlers` from index idx *)
  | GProcWait (l cls ticket : nat)         (* the while loop of process_signals(return_after) *)
  | GApi (a : api)
  | GProg (p : prog U).

  Variable code : nat -> signal -> nat -> prog U.

  Fixpoint gexec (fuel : nat) (c : gcall) (s : gstate) {struct fuel} : outcome * gstate :=
    match fuel with
    | O => (OFuel, s)
    | S f =>
      match c with
      (* ---- run(): _force_quit = False; _run(); quit callback ---- *)
      | GRun =>
        let s0 := gemit ERunEnter (s <| gforce_quit := false |>) in
        match glevels s0 with
        | [l0] =>                                   (* self._event_loops[0].loop.run() *)
          let '(o, s1) := gexec f (GLoopRun l0) (upd_l s0 l0 (fun v => v <| gl_running := true |>)) in
          match o with
          | ONormal =>
            let s2 := match gquit_cb s1 with Some a => gemit (EQuitCb a) s1 | None => s1 end in
            (ONormal, gemit ERunReturn s2)
          | _ => (o, s1)
          end
        | _ => (OThrow XError, s0)                  (* ValueError("Can't run event loop multiple times.") *)
        end
      (* ---- g_main_loop_run ---- *)
      | GLoopRun l =>
        if gl_running (get_l s l) then
          let '(o, s1) := gexec f (GIter l true) s in
          match o with
          | ONormal => gexec f (GLoopRun l) s1
          | _ => (o, s1)
          end
        else (ONormal, s)
      (* ---- g_main_context_iteration: prepare + check, then dispatch ---- *)
      | GIter l may_block =>
        let batch := batch_of (gl_sources (get_l s l)) in
        match batch with
        | [] =>
          let s0 := upd_l s l (fun v => v <| gl_pending := [] |>) in
          if may_block then
            match gext s0 with
            | sp :: r =>                            (* another thread's enqueue_signal wakes the context up *)
              let '(sg, s1) := gnew_signal (s0 <| gext := r |>) sp in
              let s2 := gemit (EExt (sg_id sg)) s1 in
              (ONormal, match g_enqueue s2 sg with Some s3 => s3 | None => s2 end)
            | [] => (OBlocked, s0)
            end
          else (ONormal, s0)
        | _ => gexec f (GDispatch l) (upd_l s l (fun v => v <| gl_pending := batch |>))
        end
      (* ---- g_main_dispatch ---- *)
      | GDispatch l =>
        match gl_pending (get_l s l) with
        | [] => (ONormal, s)
        | q :: rest =>
          let s1 := upd_l s l (fun v => v <| gl_pending := rest |>) in
          match find_source (gl_sources (get_l s1 l)) q with
          | None => gexec f (GDispatch l) s1           (* destroyed meanwhile: skipped *)
          | Some src =>
              let s2 := upd_l s1 l (fun v => v <| gl_sources := upd_source (gl_sources v) q
                                                                           (fun x => x <| gs_incall := true |>) |>) in
              let '(o, s3) := gexec f (GRunHandlers l src) s2 in
              (* the callback answered None (FALSE), or an ordinary exception was printed (FALSE): the
                 in-call flag is dropped and the source destroyed *)
              let after st := upd_l st l (fun v => v <| gl_sources := del_source (gl_sources v) q |>) in
              match o with
              | ONormal | OThrow XError | OThrow XExit => gexec f (GDispatch l) (after s3)
              | _ => (o, s3)
              end
          end
        end
      (* ---- _run_handlers ---- *)
      | GRunHandlers l src =>
        let sg := gs_sig src in
        let s00 := gemit (EDispatch (sg_id sg) l (length (glevels s))) s in
        let s0 := if mark_first then s00 <| gtickets := mark_line_to_go (gtickets s00) (sg_cls sg) |> else s00 in
        let '(o, s1) := if gforce_quit s0 then (ONormal, s0) else gexec f (GHandlerLoop src 0) s0 in
        match o with
        | ONormal => (ONormal, finish_source s1 l src)
        | OThrow XExit => (ONormal, finish_source (quit_all s1) l src)       (* except ExitMainLoop *)
        | OThrow XError =>                                                   (* except Exception *)
          let '(xs, s2) := gnew_signal s1 exception_spec in
          match g_enqueue s2 xs with
          | Some s3 => (ONormal, finish_source s3 l src)
          | None => (OThrow XError, s2)              (* IndexError inside the except clause *)
          end
        | _ => (o, s1)
        end
      | GHandlerLoop src idx =>
        let sg := gs_sig src in
        match (if gs_bound src then ghandlers_of s (sg_cls sg) else None) with
        | Some hs =>
          match nth_error hs idx with
          | None => (ONormal, s)
          | Some (hid, data) =>
            let s1 := gemit (EHandler hid (sg_id sg) data) s in
            let '(o, s2) := gexec f (GProg (code hid sg data)) s1 in
            match o with
            | ONormal => gexec f (GHandlerLoop src (S idx)) (gemit (EHandlerEnd hid (sg_id sg) None) s2)
            | OThrow e => (o, gemit (EHandlerEnd hid (sg_id sg) (Some e)) s2)
            | _ => (o, s2)
            end
          end
        | None =>
          if (sg_cls sg =? CLS_EXCEPTION)%nat then (OThrow XSysExit, gemit EKill s)   (* kill_app_with_traceback *)
          else (ONormal, s)
        end
      (* ---- while not self._check_if_signal_processed(..) and not self._force_quit: iterate ---- *)
      | GProcWait l cls ticket =>
        match check_ticket (gtickets s) cls ticket with
        | None => (OThrow XError, s)
        | Some (true, t') => (ONormal, s <| gtickets := t' |>)
        | Some (false, _) =>
          if gforce_quit s then (ONormal, s)
          else
            let '(o, s1) := gexec f (GIter l true) s in
            match o with
            | ONormal => gexec f (GProcWait l cls ticket) s1
            | _ => (o, s1)
            end
        end
      (* ---- the public API ---- *)
      | GApi a =>
        match a with
        | AEnqueue sp =>
          let '(sg, s1) := gnew_signal s sp in
          match g_enqueue s1 sg with Some s2 => (ONormal, s2) | None => (OThrow XError, s1) end
        | AForceQuit => (ONormal, gemit EForceQuit (quit_all (s <| gforce_quit := true |>)))
        | ANewLoop sp =>
          let '(sg, s1) := gnew_signal s sp in
          if gforce_quit s1 then (ONormal, s1)
          else
            let q := length (gstore s1) in
            let s2 := gemit (ENewLoopEnter q) s1 <| gstore := gstore s1 ++ [empty_level] |>
                                                 <| glevels := glevels s1 ++ [q] |> in
            match g_enqueue s2 sg with
            | None => (OThrow XError, s2)            (* unreachable: the new level is there *)
            | Some s3 =>
              let '(o, s4) := gexec f (GLoopRun q) (upd_l s3 q (fun v => v <| gl_running := true |>)) in
              match o with
              | ONormal => (ONormal, gemit (ENewLoopReturn q) s4)
              | _ => (o, s4)
              end
            end
        | ACloseLoop =>
          match rev (glevels s) with
          | [] => (OThrow XError, s)                 (* pop from empty list *)
          | top :: rest_rev =>
            (ONormal, upd_l (gemit (EClosePop top) (s <| glevels := rev rest_rev |>)) top
                            (fun v => v <| gl_running := false |>))
          end
        | AProcess None =>
          let s0 := gemit (EProcEnter None 0) s in
          match rev (glevels s0) with
          | [] => (OThrow XError, s0)
          | top :: _ =>
            let '(o, s1) := gexec f (GIter top false) s0 in
            match o with
            | ONormal => (ONormal, gemit (EProcReturn None 0) s1)
            | _ => (o, s1)
            end
          end
        | AProcess (Some cls) =>
          let t0 := tm_counter (gtickets s) in
          let s0 := gemit (EProcEnter (Some cls) t0) s in
          match rev (glevels s0) with
          | [] => (OThrow XError, s0)
          | top :: _ =>
            let '(t, tm) := take_ticket (gtickets s0) cls in
            let '(o, s2) := gexec f (GProcWait top cls t) (s0 <| gtickets := tm |>) in
            match o with
            | ONormal => (ONormal, gemit (EProcReturn (Some cls) t) s2)
            | _ => (o, s2)
            end
          end
        | ARegSource o =>
          match rev (glevels s) with
          | [] => (OThrow XError, s)
          | top :: _ =>
            (ONormal, gemit (ERegSource o top)
                            (upd_l s top (fun v => if existsb (Nat.eqb o) (gl_srcs v) then v
                                                   else v <| gl_srcs := gl_srcs v ++ [o] |>)))
          end
        | ARegHandler cls hid data =>
          (ONormal, gemit (ERegHandler cls hid data) (s <| ghandlers := add_handler (ghandlers s) cls hid data |>))
        | ASetQuitCb arg => (ONormal, gemit (ESetQuitCb arg) (s <| gquit_cb := Some arg |>))
        | AExtAdd sp => (ONormal, s <| gext := gext s ++ [sp] |>)
        end
      (* ---- handler bodies: exactly as in LoopSem.exec ---- *)
      | GProg p =>
        match p with
        | PRet => (ONormal, s)
        | PThrow e => (OThrow e, s)
        | PSeq p1 p2 =>
          let '(o, s1) := gexec f (GProg p1) s in
          match o with ONormal => gexec f (GProg p2) s1 | _ => (o, s1) end
        | PTry p1 h =>
          let '(o, s1) := gexec f (GProg p1) s in
          match o with OThrow XError => gexec f (GProg h) s1 | _ => (o, s1) end
        | PApi a => gexec f (GApi a) s
        | PSt g => let '(u', p') := g (gust s) in gexec f (GProg p') (s <| gust := u' |>)
        | PWhile c b =>
          if c (gust s) then
            let '(o, s1) := gexec f (GProg b) s in
            match o with ONormal => gexec f (GProg (PWhile c b)) s1 | _ => (o, s1) end
          else (ONormal, s)
        | PEmit e => (ONormal, gemit (guser_event e) s)
        end
      end
    end.

  (* ---- a session, as LoopSem.run_session ---- *)
  Fixpoint grun_session (fuel : nat) (acts : list (top U)) (s : gstate) : list outcome * gstate :=
    match acts with
    | [] => ([], s)
    | a :: r =>
      let '(o, s1) := gexec fuel (match a with TRun => GRun | TProg p => GProg p end) (gemit ETop s) in
      match o with
      | OBlocked | OFuel | OThrow XSysExit => ([o], s1)
      | _ => let '(os, s2) := grun_session fuel r s1 in (o :: os, s2)
      end
    end.
End GLoop.

Arguments gstate : clear implicits.
Arguments gcall : clear implicits.
