(* LoopProg.v — a first-order command language for handler bodies (what the harness can put on the
   wire and interpret on the Python side with closures), compiled to [prog (list nat)]:
   the handlers' own state is one invocation counter per handler id. *)
From Coq Require Import ZArith NArith List Bool.
From SL Require Import LoopSem.
Import ListNotations.

Inductive cmd :=
| CmEnqueue (cls : nat) (prio : Z) (src : option nat)
| CmRaise                                       (* raise RuntimeError *)
| CmExit                                        (* raise ExitMainLoop *)
| CmForceQuit
| CmNewLoop (cls : nat) (prio : Z) (src : option nat)
| CmCloseLoop
| CmProcess (return_after : option nat)
| CmRegSource (o : nat)
| CmRegHandler (cls hid data : nat)
| CmIfCount (k : nat) (then_ else_ : list cmd)  (* earlier invocations of this handler < k *)
| CmMark (tag : nat)
| CmExt (cls : nat) (prio : Z) (src : option nat)   (* ghost: another thread will submit this *)
| CmSetQuitCb (arg : nat).

Definition spec_of (cls : nat) (prio : Z) (src : option nat) : sigspec :=
  {| sp_cls := cls; sp_prio := prio; sp_src := src; sp_a := 0; sp_b := false; sp_data := [] |}.

Definition counters := list nat.
Fixpoint bump_counter (cs : counters) (h : nat) : counters :=
  match h, cs with
  | O, c :: r => S c :: r
  | O, [] => [1]
  | S k, c :: r => c :: bump_counter r k
  | S k, [] => 0 :: bump_counter [] k
  end.

(* [count] = the number of earlier invocations, read once at handler entry *)
Fixpoint compile_cmd (count : nat) (c : cmd) : prog counters :=
  match c with
  | CmEnqueue cls p src => PApi (AEnqueue (spec_of cls p src))
  | CmRaise => PThrow XError
  | CmExit => PThrow XExit
  | CmForceQuit => PApi AForceQuit
  | CmNewLoop cls p src => PApi (ANewLoop (spec_of cls p src))
  | CmCloseLoop => PApi ACloseLoop
  | CmProcess r => PApi (AProcess r)
  | CmRegSource o => PApi (ARegSource o)
  | CmRegHandler cls hid data => PApi (ARegHandler cls hid data)
  | CmIfCount k t e =>
    let fix seq (l : list cmd) : prog counters :=
        match l with [] => PRet | x :: r => PSeq (compile_cmd count x) (seq r) end in
    if (count <? k)%nat then seq t else seq e
  | CmMark tag => PEmit (EMark tag)
  | CmExt cls p src => PApi (AExtAdd (spec_of cls p src))
  | CmSetQuitCb arg => PApi (ASetQuitCb arg)
  end.
Fixpoint compile_cmds (count : nat) (l : list cmd) : prog counters :=
  match l with [] => PRet | x :: r => PSeq (compile_cmd count x) (compile_cmds count r) end.

(* a handler body: read-and-bump the invocation counter, then the commands *)
Definition handler_prog (bodies : list (list cmd)) (hid : nat) (_ : signal) (_ : nat) : prog counters :=
  PSt (fun cs => (bump_counter cs hid, compile_cmds (nth hid cs 0) (nth hid bodies []))).
