(* ContainerObject.v — a long-lived widget tree under a history of operations (C16).
   After fix b8b32a9 a container keeps nothing from one render() to the next except its items
   (self._numbering_widgets is rebuilt by every render), so the state of the model object is the
   tree itself:  render(w) reads it, Container.add appends to the items of one container in it,
   rendering some other widget does not touch it.  Definitions only. *)
From Coq Require Import ZArith NArith List Bool.
From SL Require Import PyInt Widget TextWrap KeyPattern Containers.
Import ListNotations.

(* Container.add(item): self._items.append(ContainerItem(item)) *)
Definition add_item (t x : wtree) : wtree :=
  match t with
  | WList k c items f s kp => WList k c (items ++ [x]) f s kp
  | WWindow title items => WWindow title (items ++ [x])
  | _ => t                                   (* not a container: no add() *)
  end.

Fixpoint update_at {A} (i : nat) (f : A -> A) (l : list A) : list A :=
  match l, i with
  | [], _ => []
  | a :: r, O => f a :: r
  | a :: r, S j => a :: update_at j f r
  end.

(* add to the container reached by a path of child indices (items of a list / window, the child
   of a CenterWidget) *)
Fixpoint add_at (path : list nat) (t x : wtree) : wtree :=
  match path with
  | [] => add_item t x
  | i :: p =>
    match t with
    | WList k c items f s kp => WList k c (update_at i (fun ch => add_at p ch x) items) f s kp
    | WWindow title items => WWindow title (update_at i (fun ch => add_at p ch x) items)
    | WCenter ch => WCenter (add_at p ch x)
    | _ => t
    end
  end.

Inductive op :=
| ORender (w : Z)                               (* obj.render(w); obj.get_lines() *)
| OAdd (path : list nat) (x : wtree)            (* container_at(path).add(x) *)
| OOther (t' : wtree) (w : Z).                  (* some other widget tree is built and rendered *)

(* the outputs of the history, in order (one per ORender / OOther) *)
Fixpoint run_ops (t : wtree) (ops : list op) : list (rres buffer) :=
  match ops with
  | [] => []
  | ORender w :: r => render_tree t w :: run_ops t r
  | OAdd p x :: r => run_ops (add_at p t x) r
  | OOther t' w :: r => render_tree t' w :: run_ops t r
  end.

(* the tree after the history: only the additions count *)
Definition final_tree (t : wtree) (ops : list op) : wtree :=
  fold_left (fun t o => match o with OAdd p x => add_at p t x | _ => t end) ops t.

Definition is_add (o : op) : bool := match o with OAdd _ _ => true | _ => false end.
