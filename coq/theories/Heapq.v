(* Heapq.v — CPython's Lib/heapq.py (heappush, heappop, _siftdown, _siftup), the code behind
   queue.PriorityQueue._put / ._get, over the entries EventQueue stores:
       (signal.priority, next(self._counter), signal)
   compared as Python compares those tuples as long as the (priority, counter) pairs differ: [entry_lt] of
   LoopSem.v (lexicographic on the first two components; the signal is never looked at).
   Transcribed line by line.  A Python list is a Gallina list; heap[i] is [nth_error] (None = IndexError);
   the two while loops run on explicit fuel (the length of the heap).  An internal result is
       Done v | IndexError | OutOfFuel
   and proofs/HeapqProofs.v shows that from heappush/heappop neither IndexError (other than heappop on an empty
   list) nor OutOfFuel can happen.  Definitions only. *)
From Coq Require Import ZArith List Bool Arith.
From SL Require Import LoopSem.
Import ListNotations.

Inductive hres (A : Type) : Type := Done (a : A) | IndexError | OutOfFuel.
Arguments Done {A} a.
Arguments IndexError {A}.
Arguments OutOfFuel {A}.

(* heap[n] = x  (n is always an index that has just been read: the [] case is never reached) *)
Fixpoint hset (l : list entry) (n : nat) (x : entry) : list entry :=
  match l, n with
  | [], _ => []
  | _ :: r, O => x :: r
  | a :: r, S k => a :: hset r k x
  end.

(* def _siftdown(heap, startpos, pos):
       newitem = heap[pos]
       while pos > startpos:
           parentpos = (pos - 1) >> 1
           parent = heap[parentpos]
           if newitem < parent:
               heap[pos] = parent
               pos = parentpos
               continue
           break
       heap[pos] = newitem *)
Fixpoint siftdown_loop (fuel : nat) (heap : list entry) (startpos pos : nat) (newitem : entry)
  : hres (list entry) :=
  match fuel with
  | O => OutOfFuel
  | S f =>
    if (startpos <? pos)%nat then
      let parentpos := ((pos - 1) / 2)%nat in
      match nth_error heap parentpos with
      | None => IndexError
      | Some parent =>
        if entry_lt newitem parent then siftdown_loop f (hset heap pos parent) startpos parentpos newitem
        else Done (hset heap pos newitem)
      end
    else Done (hset heap pos newitem)
  end.

Definition siftdown (heap : list entry) (startpos pos : nat) : hres (list entry) :=
  match nth_error heap pos with
  | None => IndexError
  | Some newitem => siftdown_loop (length heap) heap startpos pos newitem
  end.

(* def heappush(heap, item):
       heap.append(item)
       _siftdown(heap, 0, len(heap)-1) *)
Definition heappush_res (heap : list entry) (item : entry) : hres (list entry) :=
  let heap := heap ++ [item] in
  siftdown heap 0 (length heap - 1).

(* the while loop of _siftup:
       childpos = 2*pos + 1
       while childpos < endpos:
           rightpos = childpos + 1
           if rightpos < endpos and not heap[childpos] < heap[rightpos]:
               childpos = rightpos
           heap[pos] = heap[childpos]
           pos = childpos
           childpos = 2*pos + 1
   returns the list and the final pos *)
Fixpoint siftup_loop (fuel : nat) (heap : list entry) (pos endpos : nat) : hres (list entry * nat) :=
  match fuel with
  | O => OutOfFuel
  | S f =>
    let childpos := (2 * pos + 1)%nat in
    if (childpos <? endpos)%nat then
      let rightpos := (childpos + 1)%nat in
      let smaller : hres nat :=
        if (rightpos <? endpos)%nat then
          match nth_error heap childpos, nth_error heap rightpos with
          | Some l, Some r => Done (if negb (entry_lt l r) then rightpos else childpos)
          | _, _ => IndexError
          end
        else Done childpos in
      match smaller with
      | Done childpos =>
        match nth_error heap childpos with
        | None => IndexError
        | Some child => siftup_loop f (hset heap pos child) childpos endpos
        end
      | IndexError => IndexError
      | OutOfFuel => OutOfFuel
      end
    else Done (heap, pos)
  end.

(* def _siftup(heap, pos):
       endpos = len(heap)
       startpos = pos
       newitem = heap[pos]
       <the loop>
       heap[pos] = newitem
       _siftdown(heap, startpos, pos) *)
Definition siftup (heap : list entry) (pos : nat) : hres (list entry) :=
  let endpos := length heap in
  let startpos := pos in
  match nth_error heap pos with
  | None => IndexError
  | Some newitem =>
    match siftup_loop (length heap) heap pos endpos with
    | Done (heap, pos) => siftdown (hset heap pos newitem) startpos pos
    | IndexError => IndexError
    | OutOfFuel => OutOfFuel
    end
  end.

(* def heappop(heap):
       lastelt = heap.pop()    # raises appropriate IndexError if heap is empty
       if heap:
           returnitem = heap[0]
           heap[0] = lastelt
           _siftup(heap, 0)
           return returnitem
       return lastelt *)
Definition heappop_res (heap : list entry) : hres (entry * list entry) :=
  match heap with
  | [] => IndexError
  | e0 :: _ =>
    let lastelt := last heap e0 in
    let heap := removelast heap in
    match heap with
    | [] => Done (lastelt, [])
    | returnitem :: _ =>
      match siftup (hset heap 0 lastelt) 0 with
      | Done heap => Done (returnitem, heap)
      | IndexError => IndexError
      | OutOfFuel => OutOfFuel
      end
    end
  end.

(* The functions the theorems speak about.  The fall-back values of the two catch-all branches are never
   produced: heappush_res is always Done, heappop_res is Done on a non-empty list (HeapqProofs.v:
   heappush_res_done, heappop_res_done), so [heappop h = None] means exactly "IndexError: pop from an
   empty list". *)
Definition heappush (heap : list entry) (item : entry) : list entry :=
  match heappush_res heap item with Done h => h | _ => heap ++ [item] end.

Definition heappop (heap : list entry) : option (entry * list entry) :=
  match heappop_res heap with Done r => Some r | _ => None end.

(* ---- sequences of EventQueue operations: put(signal) / get(), on the heap and on the abstract queue ---- *)
Inductive qop := QPut (s : signal) | QGet.

(* the concrete EventQueue: the list inside PriorityQueue and the itertools.count();
   a get() on an empty queue is recorded as None (the real one would block) and changes nothing *)
Fixpoint run_heap (ops : list qop) (heap : list entry) (counter : nat) : list (option entry) :=
  match ops with
  | [] => []
  | QPut s :: r => run_heap r (heappush heap (sg_prio s, counter, s)) (S counter)
  | QGet :: r =>
    match heappop heap with
    | Some (m, heap') => Some m :: run_heap r heap' counter
    | None => None :: run_heap r heap counter
    end
  end.

(* the same operations on the abstract queue of LoopSem.v *)
Fixpoint run_abs (ops : list qop) (q : equeue) : list (option entry) :=
  match ops with
  | [] => []
  | QPut s :: r => run_abs r (q_put q s)
  | QGet :: r =>
    match q_pop q with
    | Some (m, q') => Some m :: run_abs r q'
    | None => None :: run_abs r q
    end
  end.
