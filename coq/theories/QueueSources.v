(* QueueSources.v — EventQueue.remove_source (event_queue.py): public API of the queue that the library itself never calls.
   None = EventQueueError ("Can't remove non-existing event source!").  It changes the set of registered sources and nothing
   else: the pending entries stay. *)
From Coq Require Import ZArith NArith List Bool.
From RecordUpdate Require Import RecordUpdate.
From SL Require Import PyInt LoopSem.
Import ListNotations.

Definition q_remove_source (q : equeue) (o : nat) : option equeue :=
  if existsb (Nat.eqb o) (eq_sources q)
  then Some (q <| eq_sources := filter (fun x => negb (Nat.eqb o x)) (eq_sources q) |>) else None.
