(* ScreenMon.v — the screen-layer properties (C04..C08, C18, the separator clause of C17) as executable
   acceptors of traces, in the style of Monitors.v: a [sworld] is rebuilt from the events (the IDEAL
   screen stack, open modal frames, outstanding input requests, what the user typed, ...) and each
   property is a predicate [sworld -> event -> bool] evaluated before the world is updated.
   The session's inputs the observer knows are parameters: the typed lines, the configured quit
   screen, which screens disable the separator. *)
From Coq Require Import ZArith NArith List Bool.
From RecordUpdate Require Import RecordUpdate.
From SL Require Import PyInt LoopSem ScreenSem.
Import ListNotations.

Record entry := { en_id : nat; en_scr : nat; en_args : nat; en_modal : bool }.

Inductive sexp := XPop (closing : bool)                 (* a pop; closing = issued by close_screen *)
                | XAppend (s a : nat) (modal : option bool)   (* None = inherit the modality of the entry just popped *)
                | XAddFirst (s a : nat).

Record mframe := { mf_orig : nat; mf_cur : nat; mf_closed : bool }.
#[export] Instance eta_mframe : Settable _ := settable! Build_mframe <mf_orig; mf_cur; mf_closed>.

Inductive follow := FEnd                 (* nothing further: the handler returns *)
                  | FRedraw (stage : nat) (* 0: a render signal is created, 1: enqueued, then FEnd *)
                  | FClose | FQuit | FQuitBack (qs : nat) | FReprompt | FAfterQuit.

Record pframe := { pf_state : nat; pf_id : nat }.     (* one _process_screen: 0 fresh | 1 refreshed pf_id | 2 shown *)

Record sworld := {
  sw_stack : list entry;                 (* the ideal stack, top first *)
  sw_expect : list sexp;                 (* stack primitives announced by the last operation *)
  sw_popped_modal : bool;                (* modality of the entry popped by the running replace *)
  sw_failed : option nat;                (* entry whose setup just failed *)
  sw_ready : list nat;                   (* screens whose setup succeeded *)
  sw_closed_pending : option nat;        (* entry popped by close_screen: its closed() must fire next *)
  sw_pframes : list pframe;              (* open _process_screen invocations, innermost first *)
  sw_modal : list mframe;                (* open modal frames, innermost first *)
  sw_replaced : option nat;              (* entry popped by the running replace *)
  sw_req : list (nat * (nat * nat));     (* handler -> (screen, args) for screen prompts *)
  sw_blocking : list nat;                (* handlers of blocking requests *)
  sw_typed : list (option str);
  sw_line : str;                         (* the line the running reader thread has taken *)
  sw_istack : list nat;                  (* outstanding requests, most recent first *)
  sw_processing : bool;
  sw_handoff : list (nat * bool * str);  (* ready signals that must still be delivered *)
  sw_received : list nat;                (* handlers that got their ready signal *)
  sw_fired : list nat;                   (* screen requests whose callback fired *)
  sw_must_input : option (nat * nat * str);
  sw_err : list (nat * nat);             (* screen -> consecutive rejections *)
  sw_follow : option follow;
  sw_prev_user : option (nat * list nat); (* the previous EUser event (tag, args) *)
  sw_last : list (nat * option (bool * str))   (* per input handler, newest first: Some = the ready signal it got last
                                                  (success, data); None = it has asked again since *)
}.
#[export] Instance eta_sworld : Settable _ :=
  settable! Build_sworld <sw_stack; sw_expect; sw_popped_modal; sw_failed; sw_ready; sw_closed_pending; sw_pframes;
                          sw_modal; sw_replaced; sw_req; sw_blocking; sw_typed; sw_line; sw_istack; sw_processing;
                          sw_handoff; sw_received; sw_fired; sw_must_input; sw_err; sw_follow; sw_prev_user; sw_last>.

Definition sworld0 (typed : list (option str)) : sworld :=
  {| sw_stack := []; sw_expect := []; sw_popped_modal := false; sw_failed := None; sw_ready := [];
     sw_closed_pending := None; sw_pframes := []; sw_modal := []; sw_replaced := None; sw_req := [];
     sw_blocking := []; sw_typed := typed; sw_line := []; sw_istack := []; sw_processing := false;
     sw_handoff := []; sw_received := []; sw_fired := []; sw_must_input := None; sw_err := [];
     sw_follow := None; sw_prev_user := None; sw_last := [] |}.

Definition mem (n : nat) (l : list nat) : bool := existsb (Nat.eqb n) l.
Fixpoint alookup {A} (k : nat) (m : list (nat * A)) : option A :=
  match m with [] => None | (k', v) :: r => if (k =? k')%nat then Some v else alookup k r end.
Definition streq (a b : str) : bool :=
  (length a =? length b)%nat && forallb (fun p => (fst p =? snd p)%N) (combine a b).
Fixpoint pos_of (id : nat) (st : list entry) (i : nat) : option nat :=
  match st with [] => None | e :: r => if (en_id e =? id)%nat then Some i else pos_of id r (S i) end.
Definition top_entry (w : sworld) : option entry := match sw_stack w with e :: _ => Some e | [] => None end.
Definition err_of (w : sworld) (scr : nat) : nat := match alookup scr (sw_err w) with Some n => n | None => 0 end.
Fixpoint remove_first {A} (f : A -> bool) (l : list A) : list A :=
  match l with [] => [] | x :: r => if f x then r else x :: remove_first f r end.
Definition nth0 (l : list nat) (i : nat) : nat := nth i l 0.

(* ---- the world transformer ---- *)
Definition user_step (w : sworld) (tag : nat) (a : list nat) (text : str) : sworld :=
  let w := w <| sw_prev_user := Some (tag, a) |> in
  if (tag =? T_OP)%nat then
    let kind := nth0 a 0 in
    let nonempty := match sw_stack w with [] => false | _ => true end in
    let w := w <| sw_follow := match sw_follow w with
                                | Some FClose => None
                                | Some FQuit => if (kind =? O_PUSH_MODAL)%nat then Some (FQuitBack (nth0 a 1)) else None
                                | Some (FQuitBack _) => None     (* a further operation inside the quit dialog's loop ends the tracking *)
                                | x => x end |> in
    w <| sw_expect :=
           if (kind =? O_SCHEDULE)%nat then [XAddFirst (nth0 a 1) (nth0 a 2)]
           else if (kind =? O_PUSH)%nat then [XAppend (nth0 a 1) (nth0 a 2) (Some false)]
           else if (kind =? O_PUSH_MODAL)%nat then [XAppend (nth0 a 1) (nth0 a 2) (Some true)]
           else if (kind =? O_REPLACE)%nat then (if nonempty then [XPop false; XAppend (nth0 a 1) (nth0 a 2) None] else [])
           else (if nonempty then [XPop true] else []) |>
  else if (tag =? T_STACK)%nat then
    let kind := nth0 a 0 in
    let e := {| en_id := nth0 a 1; en_scr := nth0 a 2; en_args := nth0 a 3; en_modal := (nth0 a 4 =? 1)%nat |} in
    if (kind =? K_APPEND)%nat then
      let w1 := w <| sw_stack := e :: sw_stack w |> <| sw_expect := tl (sw_expect w) |> in
      match sw_replaced w with
      | Some old =>        (* the replacement takes over the modal frame of the replaced entry *)
        w1 <| sw_modal := map (fun f => if (mf_cur f =? old)%nat then f <| mf_cur := en_id e |> else f) (sw_modal w) |>
           <| sw_replaced := None |>
      | None => if en_modal e
                then w1 <| sw_modal := {| mf_orig := en_id e; mf_cur := en_id e; mf_closed := false |} :: sw_modal w |>
                else w1
      end
    else if (kind =? K_ADD_FIRST)%nat then
      w <| sw_stack := sw_stack w ++ [e] |> <| sw_expect := tl (sw_expect w) |>
    else
      let w1 := w <| sw_stack := tl (sw_stack w) |> <| sw_failed := None |> <| sw_popped_modal := en_modal e |> in
      match sw_expect w with
      | XPop true :: r =>
        w1 <| sw_expect := r |> <| sw_closed_pending := Some (en_id e) |>
           <| sw_modal := map (fun f => if (mf_cur f =? en_id e)%nat then f <| mf_closed := true |> else f) (sw_modal w) |>
      | XPop false :: r => w1 <| sw_expect := r |> <| sw_replaced := Some (en_id e) |>
      | _ =>                 (* the discard of an entry whose setup failed *)
        w1 <| sw_modal := map (fun f => if (mf_cur f =? en_id e)%nat then f <| mf_closed := true |> else f) (sw_modal w) |>
      end
  else if (tag =? T_SETUP)%nat then
    let w1 := w <| sw_pframes := match sw_pframes w with f :: r => f :: r | [] => [] end |> in
    if (nth0 a 3 =? 1)%nat then w1 <| sw_ready := nth0 a 1 :: sw_ready w |> else w1 <| sw_failed := Some (nth0 a 0) |>
  else if (tag =? T_REFRESH)%nat then
    w <| sw_pframes := match sw_pframes w with _ :: r => {| pf_state := 1; pf_id := nth0 a 0 |} :: r | [] => [] end |>
  else if (tag =? T_SHOW)%nat then
    w <| sw_pframes := match sw_pframes w with _ :: r => {| pf_state := 2; pf_id := nth0 a 0 |} :: r | [] => [] end |>
  else if (tag =? T_CLOSED)%nat then w <| sw_closed_pending := None |>
  else if (tag =? T_MODAL_RETURN)%nat then
    w <| sw_modal := remove_first (fun f => (mf_orig f =? nth0 a 0)%nat) (sw_modal w) |>
      <| sw_follow := match sw_follow w with Some (FQuitBack _) => Some FAfterQuit | x => x end |>
  else if (tag =? T_REQ)%nat then
    w <| sw_req := (nth0 a 2, (nth0 a 0, nth0 a 1)) :: sw_req w |>
      <| sw_follow := match sw_follow w with Some FReprompt => None | x => x end |>
  else if (tag =? T_ASK)%nat then w <| sw_blocking := nth0 a 1 :: sw_blocking w |>
  else if (tag =? T_PROMPT)%nat then
    let w1 := w <| sw_istack := nth0 a 0 :: sw_istack w |> <| sw_last := (nth0 a 0, None) :: sw_last w |> in
    if (nth0 a 1 =? 0)%nat then
      w1 <| sw_processing := true |>
         <| sw_line := match sw_typed w with Some l :: _ => l | _ => [] end |>
         <| sw_typed := tl (sw_typed w) |>
    else w1
  else if (tag =? T_READY)%nat then
    let n := nth0 a 0 in
    let ok := (nth0 a 1 =? 1)%nat in
    let w1 := w <| sw_received := n :: sw_received w |>
                <| sw_last := (n, Some (ok, text)) :: sw_last w |>
                <| sw_handoff := remove_first (fun x => (fst (fst x) =? n)%nat && Bool.eqb (snd (fst x)) ok && streq (snd x) text)
                                              (sw_handoff w) |> in
    if ok && negb (mem n (sw_fired w)) then
      match alookup n (sw_req w) with
      | Some (scr, args) => w1 <| sw_must_input := Some (scr, args, text) |> <| sw_fired := n :: sw_fired w |>
      | None => w1
      end
    else w1
  else if (tag =? T_INPUT)%nat then w <| sw_must_input := None |>
  else if (tag =? T_ACTION)%nat then
    let scr := nth0 a 0 in let act := nth0 a 1 in
    let e := if (act =? 4)%nat then S (err_of w scr) else 0 in
    w <| sw_err := (scr, e) :: sw_err w |>
      <| sw_follow := Some (if (act =? 0)%nat then FEnd
                            else if (act =? 1)%nat then FRedraw 0
                            else if (act =? 2)%nat then FClose
                            else if (act =? 3)%nat then FQuit
                            else if (Nat.modulo e 5 =? 0)%nat then FRedraw 0 else FReprompt) |>
  else if (tag =? T_SETUP_BEGIN)%nat then
    (* a setup() with commands of its own is entered for entry a0: the open _process_screen remembers it (state 0, id + 1) *)
    w <| sw_pframes := match sw_pframes w with _ :: r => {| pf_state := 0; pf_id := S (nth0 a 0) |} :: r | [] => [] end |>
  else w.

Definition sworld_step (w : sworld) (e : event) : sworld :=
  match e with
  | EUser tag a text => user_step w tag a text
  | EHandler h sid _ =>
    if (h =? H_RENDER)%nat then w <| sw_pframes := {| pf_state := 0; pf_id := 0 |} :: sw_pframes w |>
    else if (h =? H_RECEIVED)%nat then
      (* the hand-off: the most recent requester gets the line, every earlier one a failure *)
      match sw_istack w with
      | top :: rest =>
        w <| sw_handoff := sw_handoff w ++ (top, true, sw_line w) :: map (fun r => (r, false, [])) (rev rest) |>
          <| sw_istack := [] |> <| sw_processing := false |>
      | [] => w
      end
    else w
  | EHandlerEnd h _ _ =>
    let w1 := if (h =? H_RENDER)%nat then w <| sw_pframes := tl (sw_pframes w) |> else w in
    w1 <| sw_follow := None |> <| sw_must_input := None |> <| sw_closed_pending := None |> <| sw_expect := [] |>
  | ESigNew _ c _ _ =>
    match sw_follow w with
    | Some (FRedraw 0) => if (c =? CLS_RENDER)%nat then w <| sw_follow := Some (FRedraw 1) |> else w
    | Some FAfterQuit => if (c =? CLS_RENDER)%nat then w <| sw_follow := Some (FRedraw 1) |> else w
    | _ => w
    end
  | EEnq _ _ | EDropped _ =>
    match sw_follow w with Some (FRedraw 1) => w <| sw_follow := Some FEnd |> | _ => w end
  | ETop => w <| sw_pframes := [] |> <| sw_follow := None |> <| sw_must_input := None |> <| sw_closed_pending := None |>
              <| sw_expect := [] |>
  | _ => w
  end.

(* the innermost open _process_screen is the one whose setup() — one that runs commands — was entered for entry [id]
   and has not been followed by a refresh yet.  Such a setup() may have changed the stack: the entry it belongs to need
   not be the top any more when setup() returns and when the scheduler then calls refresh() (which is followed by the
   identity check `top_screen != self._get_last_screen()`, so nothing is drawn) *)
Definition in_setup_of (w : sworld) (id : nat) : bool :=
  match sw_pframes w with f :: _ => (pf_state f =? 0)%nat && (pf_id f =? S id)%nat | [] => false end.

(* ================================================================== C04: the honest stack *)
Definition chk_C04 (w : sworld) (e : event) : bool :=
  match e with
  | EUser tag a _ =>
    if (tag =? T_STACK)%nat then
      let kind := nth0 a 0 in
      if (kind =? K_APPEND)%nat then
        match sw_expect w with
        | XAppend s ar m :: _ =>
          (nth0 a 2 =? s)%nat && (nth0 a 3 =? ar)%nat &&
          Bool.eqb (nth0 a 4 =? 1)%nat (match m with Some b => b | None => sw_popped_modal w end) &&
          negb (existsb (fun x => (en_id x =? nth0 a 1)%nat) (sw_stack w))
        | _ => false
        end
      else if (kind =? K_ADD_FIRST)%nat then
        match sw_expect w with
        | XAddFirst s ar :: _ => (nth0 a 2 =? s)%nat && (nth0 a 3 =? ar)%nat && (nth0 a 4 =? 0)%nat
        | _ => false
        end
      else
        match top_entry w with
        | Some t =>
          (en_id t =? nth0 a 1)%nat &&
          match sw_expect w with
          | XPop _ :: _ => true
          | [] => match sw_failed w with Some f => (f =? en_id t)%nat | None => false end
          | _ => false
          end
        | None => false
        end
    else if (tag =? T_OP)%nat then match sw_expect w with [] => true | _ => false end
    else if (tag =? T_SETUP)%nat || (tag =? T_REFRESH)%nat || (tag =? T_SHOW)%nat || (tag =? T_SETUP_BEGIN)%nat then
      (* only the top of the stack is set up, refreshed, drawn; the return of a setup() that ran commands, and the
         refresh() that follows it, concern the entry that setup() was entered for *)
      match top_entry w with
      | Some t => (en_id t =? nth0 a 0)%nat && (en_scr t =? nth0 a 1)%nat
      | None => false
      end || (negb (tag =? T_SHOW)%nat && negb (tag =? T_SETUP_BEGIN)%nat && in_setup_of w (nth0 a 0))
    else if (tag =? T_SEPARATOR)%nat then
      match top_entry w with Some t => (en_scr t =? nth0 a 0)%nat | None => false end
    else true
  | _ => true
  end.

(* ================================================================== C08: lifecycle *)
Definition chk_C08 (w : sworld) (e : event) : bool :=
  (* the closed() callback of an entry popped by close_screen fires before anything else of this layer *)
  (match sw_closed_pending w, e with
   | Some id, EUser tag a _ => (tag =? T_CLOSED)%nat && (nth0 a 0 =? id)%nat
   | _, _ => true end) &&
  match e with
  | EUser tag a _ =>
    let args_ok := match top_entry w with Some t => (en_args t =? nth0 a 2)%nat | None => false end in
    if (tag =? T_SETUP)%nat then
      (negb (mem (nth0 a 1) (sw_ready w)) && args_ok || in_setup_of w (nth0 a 0)) &&
      match sw_pframes w with f :: _ => (pf_state f =? 0)%nat | [] => false end
    else if (tag =? T_SETUP_BEGIN)%nat then
      (* a setup() is entered only for a screen that is not ready, with the entry's arguments, at the start of a _process_screen *)
      negb (mem (nth0 a 1) (sw_ready w)) && args_ok &&
      match sw_pframes w with f :: _ => (pf_state f =? 0)%nat && (pf_id f =? 0)%nat | [] => false end &&
      match sw_failed w with Some _ => false | None => true end
    else if (tag =? T_REFRESH)%nat then
      mem (nth0 a 1) (sw_ready w) && (args_ok || in_setup_of w (nth0 a 0)) &&
      match sw_pframes w with f :: _ => (pf_state f =? 0)%nat | [] => false end
    else if (tag =? T_SHOW)%nat then
      (* drawn only right after the refresh of the same entry, in the same _process_screen *)
      match sw_pframes w with f :: _ => (pf_state f =? 1)%nat && (pf_id f =? nth0 a 0)%nat | [] => false end
    else if (tag =? T_CLOSED)%nat then
      match sw_closed_pending w with Some id => (id =? nth0 a 0)%nat | None => false end
    else if (tag =? T_STACK)%nat && (nth0 a 0 =? K_POP)%nat then
      (* an entry whose setup failed is discarded at once: nothing else may happen to it *)
      match sw_failed w with Some f => (f =? nth0 a 1)%nat | None => true end
    else match sw_failed w with Some _ => false | None => true end
  | _ => true
  end.

(* ================================================================== C05: the modal shield *)
Definition shielded (w : sworld) (id : nat) : bool :=
  (* is entry [id] strictly beneath the entry of some modal frame that is still open (not yet closed)? *)
  existsb (fun f => negb (mf_closed f) &&
                    match pos_of id (sw_stack w) 0, pos_of (mf_cur f) (sw_stack w) 0 with
                    | Some pi, Some pf => (pf <? pi)%nat
                    | _, _ => false
                    end) (sw_modal w).

Definition scr_visible (w : sworld) (scr : nat) : bool :=
  (* some entry of this screen is not shielded — or the screen is not on the stack at all (a prompt that
     outlived its screen: the line still goes to the screen that asked, which is C06's business) *)
  existsb (fun e => (en_scr e =? scr)%nat && negb (shielded w (en_id e))) (sw_stack w) ||
  negb (existsb (fun e => (en_scr e =? scr)%nat) (sw_stack w)).

Definition chk_C05_gen (strict : bool) (w : sworld) (e : event) : bool :=
  match e with
  | EUser tag a _ =>
    if (tag =? T_SETUP)%nat || (tag =? T_REFRESH)%nat || (tag =? T_SHOW)%nat || (tag =? T_SETUP_BEGIN)%nat
    then negb (shielded w (nth0 a 0))
    else if (tag =? T_INPUT)%nat then scr_visible w (nth0 a 0)
    else if (tag =? T_MODAL_RETURN)%nat then
      (* the modal push returns only after the entry (or what replaced it) was closed.  Not so when the
         push is issued by a callback that had already closed a modal screen (finding F13): [strict] *)
      match find (fun f => (mf_orig f =? nth0 a 0)%nat) (sw_modal w) with
      | Some f => mf_closed f || negb strict
      | None => false
      end
    else true
  | _ => true
  end.
Definition chk_C05 := chk_C05_gen true.
Definition chk_C05_partial := chk_C05_gen false.

(* ================================================================== C06: every typed line reaches its screen *)
Definition chk_C06 (w : sworld) (e : event) : bool :=
  (* a line delivered to a screen's request is handed to that screen's input() at once *)
  (match sw_must_input w, e with
   | Some (scr, args, text), EUser tag a t =>
     (tag =? T_INPUT)%nat && (nth0 a 0 =? scr)%nat && (nth0 a 1 =? args)%nat && streq t text
   | Some _, EHandlerEnd _ _ _ => false
   | _, _ => true end) &&
  match e with
  | EUser tag a text =>
    if (tag =? T_READY)%nat then
      (* the ready signal is one announced by the hand-off: the line itself for the most recent requester *)
      existsb (fun x => (fst (fst x) =? nth0 a 0)%nat && Bool.eqb (snd (fst x)) (nth0 a 1 =? 1)%nat && streq (snd x) text)
              (sw_handoff w)
    else if (tag =? T_INPUT)%nat then
      match sw_must_input w with Some _ => true | None => false end      (* input() only for a delivered line *)
    else true
  | _ => true
  end.

(* ================================================================== C07: one follow-up *)
Definition chk_C07 (quit : option nat) (w : sworld) (e : event) : bool :=
  match sw_follow w with
  | None => true
  | Some (FQuitBack _) => true         (* the quit dialog's own nested loop is running *)
  | Some f =>
    let is_end := match e with EHandlerEnd _ _ _ => true | _ => false end in
    let is_exit := match e with EHandlerEnd _ _ (Some XExit) => true | _ => false end in
    let empty := match sw_stack w with [] => true | _ => false end in
    if empty then is_exit else       (* _get_last_screen raises ExitMainLoop on an empty stack *)
    match f with
    | FEnd => is_end
    | FRedraw 0 => match e with ESigNew _ c _ None => (c =? CLS_RENDER)%nat | _ => false end
    | FRedraw _ => match e with EEnq _ _ | EDropped _ => true | _ => false end
    | FClose => match e with EUser tag a _ => (tag =? T_OP)%nat && (nth0 a 0 =? O_CLOSE)%nat && (nth0 a 1 =? 0)%nat | _ => false end
    | FQuit =>
      match quit with
      | Some qs => match e with EUser tag a _ => (tag =? T_OP)%nat && (nth0 a 0 =? O_PUSH_MODAL)%nat && (nth0 a 1 =? qs)%nat | _ => false end
      | None => is_exit
      end
    | FQuitBack _ => true
    | FAfterQuit => is_exit || match e with ESigNew _ c _ None => (c =? CLS_RENDER)%nat | _ => false end
    | FReprompt =>
      match e with
      | EUser tag a _ =>
        (tag =? T_REQ)%nat && match top_entry w with Some t => (en_scr t =? nth0 a 0)%nat && (en_args t =? nth0 a 1)%nat | None => false end
      | EHandlerEnd _ _ None => true           (* the top screen's prompt() returned None *)
      | _ => false
      end
    end
  end.

(* ================================================================== C18: input requests *)
Definition chk_C18 (w : sworld) (e : event) : bool :=
  match e with
  | EUser tag a text =>
    if (tag =? T_REFUSED)%nat then
      (* refused only when another request is outstanding; the error names them all, oldest first, and the new one *)
      negb (length (sw_istack w) =? 0)%nat && (length a =? S (length (sw_istack w)))%nat &&
      forallb (fun p => (fst p =? snd p)%nat) (combine (removelast a) (rev (sw_istack w)))
    else if (tag =? T_PROMPT)%nat then
      (* a reader thread is started iff none is running *)
      Bool.eqb (nth0 a 1 =? 0)%nat (negb (sw_processing w))
    else if (tag =? T_READY)%nat then
      existsb (fun x => (fst (fst x) =? nth0 a 0)%nat && Bool.eqb (snd (fst x)) (nth0 a 1 =? 1)%nat && streq (snd x) text)
              (sw_handoff w)
    else if (tag =? T_GOT)%nat then mem (nth0 a 1) (sw_received w)      (* the wait returns only after its own answer *)
    else if (tag =? T_WAITED)%nat then
      (* h.wait_on_input() returned: handler n got a ready signal since it last asked, and (input_successful(), value)
         are those of the LAST ready signal delivered to it *)
      match alookup (nth0 a 1) (sw_last w) with
      | Some (Some (ok, v)) =>
        Bool.eqb ok (nth0 a 2 =? 1)%nat && (negb ok || ((nth0 a 3 =? 1)%nat && streq v text))
      | _ => false
      end
    else true
  | _ => true
  end.

(* ================================================================== C17 (separator clause) *)
Definition chk_C17sep (nosep : list bool) (w : sworld) (e : event) : bool :=
  match e with
  | EUser tag a _ =>
    if (tag =? T_SHOW)%nat then
      let scr := nth0 a 1 in
      let prev_is_sep := match sw_prev_user w with Some (t, pa) => (t =? T_SEPARATOR)%nat && (nth0 pa 0 =? scr)%nat | None => false end in
      Bool.eqb prev_is_sep (negb (nth scr nosep false))
    else if (tag =? T_SEPARATOR)%nat then negb (nth (nth0 a 0) nosep false)
    else true
  | _ => true
  end.

(* ---- running a monitor ---- *)
Fixpoint srun_mon (chk : sworld -> event -> bool) (w : sworld) (t : list event) (idx : nat) : option nat :=
  match t with
  | [] => None
  | e :: r => if chk w e then srun_mon chk (sworld_step w e) r (S idx) else Some idx
  end.
Definition sok (chk : sworld -> event -> bool) (typed : list (option str)) (t : list event) : bool :=
  match srun_mon chk (sworld0 typed) t 0 with None => true | Some _ => false end.
