(* KeyPattern.v — simpleline/render/containers.py: KeyPattern and
   Container.process_user_input, line by line.  Callbacks are recorded as
   events (callback id, data id). *)
From Coq Require Import ZArith NArith List Bool.
From SL Require Import PyInt.
Import ListNotations.
Local Open Scope Z_scope.

(* pattern = prefix ++ "{:d}" ++ suffix ; the default is "" / ") " / 1 *)
Record key_pattern := { kp_prefix : str; kp_suffix : str; kp_offset : Z }.
Definition default_pattern : key_pattern :=
  {| kp_prefix := []; kp_suffix := [41; 32]%N; kp_offset := 1 |}.

(* what is displayed as the item's number / the whole label *)
Definition shown_number (kp : key_pattern) (item_id : nat) : str :=
  dec (Z.of_nat item_id + kp_offset kp).
Definition get_widget_label (kp : key_pattern) (item_id : nat) : str :=
  kp_prefix kp ++ shown_number kp item_id ++ kp_suffix kp.

(* try: return int(user_input) - self._offset ; except ValueError: return None *)
Definition translate_input_to_widget_id (kp : key_pattern) (user_input : str) : option Z :=
  match parse_int user_input with
  | Some z => Some (z - kp_offset kp)
  | None => None
  end.

Record item := { it_callback : option nat; it_data : nat }.

Inductive key := KStr (s : str) | KNotStr.

Definition fire (it : item) : list (nat * nat) :=
  match it_callback it with Some c => [(c, it_data it)] | None => [] end.

(* returns (handled?, callbacks fired in order) *)
Definition process_user_input (kp : option key_pattern) (items : list item) (k : key)
  : bool * list (nat * nat) :=
  match kp with
  | None => (false, [])                                 (* if not self._key_pattern *)
  | Some kp =>
    match k with
    | KNotStr => (false, [])                            (* if not isinstance(key, str) *)
    | KStr s =>
      match translate_input_to_widget_id kp s with
      | Some res =>
        if 0 <=? res then
          match nth_error items (Z.to_nat res) with     (* self._items[res] / IndexError *)
          | Some it => (true, fire it)
          | None => (false, [])
          end
        else (false, [])
      | None => (false, [])
      end
    end
  end.
