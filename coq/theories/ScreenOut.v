(* ScreenOut.v — what one draw of a screen writes to standard output, as a list of characters.
   Mirrors, line by line:
     simpleline/render/screen_scheduler.py   ScreenScheduler._spacer, _draw_screen
         _spacer():       "\n".join(2 * [App.get_configuration().width * "="])
         _draw_screen():  if not no_separator: print(self._spacer())
                          active_screen.ui_screen.show_all()
     simpleline/render/screen/__init__.py    UIScreen.show_all, _print_widget  (Paging.v gives the events)
         print(line)  /  print("\n".join(lines))           -> the line(s), each followed by "\n"
         self._ask_user_input_blocking(Prompt("\nPress ENTER to continue"))
     simpleline/input/input_handler.py       InputHandlerRequest._ask_input
         sys.stdout.write(self.text_prompt())               -> Prompt.text_prompt, no newline added
   print(x) writes x followed by "\n"; nothing else is written by the framework during a draw.
   A draw can stop with an exception (ValueError of a render; a width <= 0 for the press-ENTER prompt):
   _draw_screen catches it after what was printed so far; the model returns what was written and the outcome.
   Definitions only; the vocabulary of the C17 statements is at the end. *)
From Coq Require Import ZArith NArith List Bool.
From SL Require Import PyInt Widget TextWrap KeyPattern Containers Prompt Paging.
Import ListNotations.

Definition EQS : char := 61%N.                                      (* "=" *)

(* width * "="   (a negative width gives "") *)
Definition rule (w : Z) : line := repeat EQS (Z.to_nat w).

(* ScreenScheduler._spacer() *)
Definition spacer (w : Z) : list char := join_nl [rule w; rule w].

(* print(s) *)
Definition py_print (s : list char) : list char := s ++ [NL].

(* for line in lines: print(line)      and      print("\n".join(lines)) for lines <> [] *)
Definition emit_lines (ls : list line) : list char := flat_map py_print ls.

(* Prompt.ENTER = "ENTER";  Prompt(_("\nPress %s to continue") % Prompt.ENTER) *)
Definition ENTER : str := [69; 78; 84; 69; 82]%N.
Definition continue_message : str :=
  ([10; 80; 114; 101; 115; 115; 32] ++ ENTER ++ [32; 116; 111; 32; 99; 111; 110; 116; 105; 110; 117; 101])%N.
Definition continue_prompt : prompt := new_prompt (Some continue_message).
(* the TextWidget of str(prompt); the text has no hyphen: the oracle-free chunker is CPython's *)
Definition continue_text : text := simple_text (prompt_str continue_prompt).

(* what the events of _print_widget write.  [echo] is what appears on the terminal between a
   press-ENTER prompt and the next thing the framework prints: nothing in the stream the process
   writes ([]), the echoed line break ([NL]) on a terminal where the user pressed ENTER. *)
Fixpoint events_output (echo : list char) (evs : list pevent) (w : Z) : list char * rres unit :=
  match evs with
  | [] => ([], ROk tt)
  | PPrint l :: r =>
    let '(o, s) := events_output echo r w in (py_print l ++ o, s)
  | PAskContinue :: r =>
    match text_prompt continue_text w with
    | ROk p => let '(o, s) := events_output echo r w in (p ++ echo ++ o, s)
    | RValueError => ([], RValueError)
    | ROutOfModel => ([], ROutOfModel)
    end
  | POutOfFuel :: _ => ([], ROutOfModel)          (* the loop of _print_widget does not end: heights < 3 only *)
  end.

(* UIScreen.show_all() *)
Definition show_all_output (echo : list char) (window : wtree) (w H : Z) : list char * rres unit :=
  match show_all window w H with
  | ROk evs => events_output echo evs w
  | RValueError => ([], RValueError)
  | ROutOfModel => ([], ROutOfModel)
  end.

(* ScreenScheduler._draw_screen(active_screen) *)
Definition draw_output_echo (echo : list char) (no_separator : bool) (window : wtree) (w H : Z)
  : list char * rres unit :=
  let sep := if no_separator then [] else py_print (spacer w) in
  let '(o, s) := show_all_output echo window w H in
  (sep ++ o, s).

(* the characters the process writes during one draw *)
Definition draw_output := draw_output_echo [].
(* what a terminal shows when the user answers every press-ENTER prompt with ENTER *)
Definition draw_terminal := draw_output_echo [NL].

(* the prompt written after a draw (InputManager.get_input -> InputHandlerRequest._ask_input) and by
   InputThreadManager._print_new_prompt (print(prompt, end="")): text_prompt of the prompt, nothing added.
   [chunks] is the chunk oracle of str(prompt) *)
Definition prompt_output (p : prompt) (chunks : list (list str)) (w : Z) : rres (list char) :=
  text_prompt {| t_text := prompt_str p; t_chunks := chunks |} w.

(* ---- vocabulary of the statements ------------------------------------------------------ *)

(* the characters that rewrite or erase what is already on a terminal line, or move the cursor:
   BS, TAB, VT, FF, CR, ESC (start of every cursor / erase sequence), DEL *)
Definition forbidden (c : char) : bool :=
  ((c =? 8) || (c =? 9) || (c =? 11) || (c =? 12) || (c =? 13) || (c =? 27) || (c =? 127))%N.

(* a line without its trailing blanks: line.rstrip(" ") *)
Fixpoint lstrip_sp (l : line) : line :=
  match l with
  | c :: r => if (c =? SP)%N then lstrip_sp r else l
  | [] => []
  end.
Definition rstrip_sp (l : line) : line := rev (lstrip_sp (rev l)).

(* the application's strings in a widget tree: every text (titles and checkbox parts included) ... *)
Fixpoint texts_of_tree (t : wtree) : list text :=
  match t with
  | WText x => [x]
  | WSep _ => []
  | WCenter c => texts_of_tree c
  | WColumn cols _ => flat_map (fun c => flat_map texts_of_tree (snd c)) cols
  | WCheckbox box data => box :: data
  | WList _ _ items _ _ _ => flat_map texts_of_tree items
  | WWindow title items => match title with Some x => [x] | None => [] end ++ flat_map texts_of_tree items
  end.

(* ... and what the labels "prefix{:d}suffix" of a numbered list are made of *)
Definition pattern_chars (kp : key_pattern) : list char :=
  kp_prefix kp ++ kp_suffix kp ++ [45; 48; 49; 50; 51; 52; 53; 54; 55; 56; 57]%N.

Fixpoint chars_of_tree (t : wtree) : list char :=
  match t with
  | WText x => t_text x
  | WSep _ => []
  | WCenter c => chars_of_tree c
  | WColumn cols _ => flat_map (fun c => flat_map chars_of_tree (snd c)) cols
  | WCheckbox box data => t_text box ++ flat_map t_text data
  | WList _ _ items _ _ kp =>
    match kp with Some k => pattern_chars k | None => [] end ++ flat_map chars_of_tree items
  | WWindow title items =>
    match title with Some x => t_text x | None => [] end ++ flat_map chars_of_tree items
  end.

(* every text of the tree carries the chunks CPython's splitter gives for it (TextWrap.chunks_ok) *)
Definition tree_texts_ok (t : wtree) : Prop := Forall (fun x => chunks_ok x = true) (texts_of_tree t).

(* the widget trees for which the width clause is proved: texts, separators, centred widgets, checkboxes that
   have a title or a text, list containers WITHOUT forced column width and with spacing >= 0, windows — nested
   in any way.  Not in the class, because they can be wider than the screen by construction (fixed-width
   columns): ColumnWidget, list containers with columns_width, and a checkbox with neither title nor text
   (its box "[x]" is a fixed column of 3). *)
Inductive fitting_tree : wtree -> Prop :=
| fitting_text t : fitting_tree (WText t)
| fitting_sep n : fitting_tree (WSep n)
| fitting_center c : fitting_tree c -> fitting_tree (WCenter c)
| fitting_checkbox box data : Exists (fun d => t_text d <> []) data -> fitting_tree (WCheckbox box data)
| fitting_list kind columns items spacing kp :
    (0 <= spacing)%Z -> Forall fitting_tree items -> fitting_tree (WList kind columns items None spacing kp)
| fitting_window title items : Forall fitting_tree items -> fitting_tree (WWindow title items).

(* the application's strings in a prompt: message, keys, descriptions *)
Definition prompt_app_chars (p : prompt) : list char :=
  match p_message p with Some m => m | None => [] end ++ flat_map (fun kd => fst kd ++ snd kd) (p_options p).

(* the literals Prompt.__str__ adds: "[" "]" "'" " " "," ":" *)
Definition prompt_literals : list char := [91; 93; 39; 32; 44; 58]%N.

(* everything the framework itself can contribute to a draw: line ends, blanks, the rule of the
   separator, and the press-ENTER prompt *)
Definition own_chars : list char := NL :: SP :: EQS :: prompt_str continue_prompt.
