(* LoopSem.v — simpleline/event_loop: EventQueue, TicketMachine, AbstractEventLoop and MainLoop as an
   interpreter.  One fuel-indexed [exec] covers all mutually recursive Python methods ([call]
   enumerates them).  Handler code is user code: a handler body is a [prog], a small effect language
   over the loop's public API with arbitrary (Gallina) control flow over a user state [U] — the
   theorems quantify over every [code : handler id -> signal -> data -> prog].
   Python exceptions are outcomes; a queue.get() on an empty queue delivers the next external
   submission ([ext], what other threads will submit) or is the outcome [OBlocked].
   Modelled, not verified: queue.PriorityQueue returns the least entry under tuple comparison
   (entries are (priority, arrival counter, signal): keys are unique, so the least entry is unique). *)
From Coq Require Import ZArith NArith List Bool.
From RecordUpdate Require Import RecordUpdate.
Import ListNotations.

(* ------------------------------------------------------------------ signals *)
Definition CLS_EXCEPTION : nat := 0.     (* ExceptionSignal; user classes are >= 1 *)

Record signal := {
  sg_id : nat;            (* identity: creation order *)
  sg_cls : nat;           (* type(signal) *)
  sg_prio : Z;
  sg_src : option nat;    (* signal.source: an object id; None = an object never registered as a source *)
  sg_a : nat; sg_b : bool; sg_data : list N   (* payload, used by the input signals of the screen layer *)
}.

(* a signal about to be created: everything but the identity *)
Record sigspec := { sp_cls : nat; sp_prio : Z; sp_src : option nat; sp_a : nat; sp_b : bool; sp_data : list N }.
Definition mk_signal (id : nat) (sp : sigspec) : signal :=
  {| sg_id := id; sg_cls := sp_cls sp; sg_prio := sp_prio sp; sg_src := sp_src sp;
     sg_a := sp_a sp; sg_b := sp_b sp; sg_data := sp_data sp |}.
Definition exception_spec : sigspec :=
  {| sp_cls := CLS_EXCEPTION; sp_prio := (-20)%Z; sp_src := None; sp_a := 0; sp_b := false; sp_data := [] |}.

(* ------------------------------------------------------------------ EventQueue (event_queue.py) *)
Definition entry := (Z * nat * signal)%type.        (* (signal.priority, next(self._counter), signal) *)
Record equeue := { eq_entries : list entry; eq_counter : nat; eq_sources : list nat }.
#[export] Instance eta_equeue : Settable _ := settable! Build_equeue <eq_entries; eq_counter; eq_sources>.
Definition empty_queue : equeue := {| eq_entries := []; eq_counter := 0; eq_sources := [] |}.

(* tuple comparison on (priority, counter) *)
Definition entry_lt (a b : entry) : bool :=
  let '(pa, ca, _) := a in let '(pb, cb, _) := b in
  (pa <? pb)%Z || ((pa =? pb)%Z && (ca <? cb)%nat).

(* PriorityQueue.get(): the least entry, removed *)
Fixpoint min_entry (m : entry) (l : list entry) : entry :=
  match l with [] => m | e :: r => min_entry (if entry_lt e m then e else m) r end.
Fixpoint remove_entry (c : nat) (l : list entry) : list entry :=     (* by arrival counter: unique *)
  match l with
  | [] => []
  | e :: r => if (snd (fst e) =? c)%nat then r else e :: remove_entry c r
  end.
Definition q_pop (q : equeue) : option (entry * equeue) :=
  match eq_entries q with
  | [] => None
  | e :: r => let m := min_entry e r in
              Some (m, q <| eq_entries := remove_entry (snd (fst m)) (eq_entries q) |>)
  end.
(* self._queue.put((signal.priority, next(self._counter), signal)) *)
Definition q_put (q : equeue) (s : signal) : equeue :=
  q <| eq_entries := eq_entries q ++ [(sg_prio s, eq_counter q, s)] |> <| eq_counter := S (eq_counter q) |>.
(* self._queue.put(entry): the same entry goes back *)
Definition q_put_entry (q : equeue) (e : entry) : equeue := q <| eq_entries := eq_entries q ++ [e] |>.
Definition q_empty (q : equeue) : bool := match eq_entries q with [] => true | _ => false end.
Definition q_contains_source (q : equeue) (src : option nat) : bool :=
  match src with Some o => existsb (Nat.eqb o) (eq_sources q) | None => false end.
Definition q_add_source (q : equeue) (o : nat) : equeue :=
  if existsb (Nat.eqb o) (eq_sources q) then q else q <| eq_sources := eq_sources q ++ [o] |>.

(* ------------------------------------------------------------------ TicketMachine (ticket_machine.py) *)
Record tmachine := { tm_lines : list (nat * list (nat * bool)); tm_counter : nat }.
#[export] Instance eta_tm : Settable _ := settable! Build_tmachine <tm_lines; tm_counter>.
Definition tm_empty : tmachine := {| tm_lines := []; tm_counter := 0 |}.

Fixpoint line_update (lines : list (nat * list (nat * bool))) (line : nat)
         (f : list (nat * bool) -> list (nat * bool)) (create : bool) : list (nat * list (nat * bool)) :=
  match lines with
  | [] => if create then [(line, f [])] else []
  | (l, ts) :: r => if (l =? line)%nat then (l, f ts) :: r else (l, ts) :: line_update r line f create
  end.
Definition line_get (lines : list (nat * list (nat * bool))) (line : nat) : option (list (nat * bool)) :=
  option_map snd (find (fun p => (fst p =? line)%nat) lines).

Definition take_ticket (t : tmachine) (line : nat) : nat * tmachine :=
  let id := tm_counter t in
  (id, t <| tm_lines := line_update (tm_lines t) line (fun ts => ts ++ [(id, false)]) true |>
         <| tm_counter := S id |>).
(* if self._lines[line][unique_id]: return self._lines[line].pop(unique_id) ; return False
   (KeyError when the line or ticket is unknown: None) *)
Definition check_ticket (t : tmachine) (line id : nat) : option (bool * tmachine) :=
  match line_get (tm_lines t) line with
  | None => None
  | Some ts =>
    match find (fun p => (fst p =? id)%nat) ts with
    | None => None
    | Some (_, true) =>
      Some (true, t <| tm_lines := line_update (tm_lines t) line
                                     (filter (fun p => negb (fst p =? id)%nat)) false |>)
    | Some (_, false) => Some (false, t)
    end
  end.
Definition mark_line_to_go (t : tmachine) (line : nat) : tmachine :=
  t <| tm_lines := line_update (tm_lines t) line (map (fun p => (fst p, true))) false |>.

(* ------------------------------------------------------------------ events (ghost trace) *)
Inductive exn := XExit | XError | XSysExit.      (* ExitMainLoop | an ordinary Exception | SystemExit(1) *)

Inductive event :=
| ESigNew (sid cls : nat) (prio : Z) (src : option nat)   (* a signal object was created *)
| ERegHandler (cls hid data : nat)           (* register_signal_handler *)
| ERegSource (o : nat) (q : nat)             (* register_signal_source: o added to queue object q *)
| ESetQuitCb (arg : nat)
| EEnq (sid : nat) (q : nat)                 (* signal put into queue object q *)
| EDropped (sid : nat)                       (* enqueue_signal after force_quit: discarded *)
| EDispatch (sid : nat) (q : nat) (depth : nat)   (* signal taken from queue q for processing; depth = open levels *)
| ERequeue (sid : nat) (q : nat)             (* get_top_event_if_priority put the entry back *)
| EHandler (hid : nat) (sid : nat) (data : nat)
| EHandlerEnd (hid : nat) (sid : nat) (how : option exn)
| EDispatchEnd (sid : nat)
| ENewLoopEnter (q : nat)
| ENewLoopReturn (q : nat)
| EClosePop (q : nat)                        (* close_loop popped level q *)
| EProcEnter (wait : option nat) (ticket : nat)
| EProcReturn (wait : option nat) (ticket : nat)
| EForceQuit
| EQuitCb (arg : nat)
| ERunEnter
| ERunReturn
| EKill                                       (* kill_app_with_traceback: excepthook + stack dump + exit(1) *)
| EExt (sid : nat)                            (* a signal submitted by another thread arrived *)
| EMark (tag : nat)
| ETop                                        (* a new call from outside any handler begins (emitted by the session driver) *)
| EUser (tag : nat) (args : list nat) (text : list N).   (* events of upper layers *)

(* ------------------------------------------------------------------ programs *)
Inductive api :=
| AEnqueue (sp : sigspec)                 (* loop.enqueue_signal(Signal(...)) *)
| AForceQuit                              (* loop.force_quit() *)
| ANewLoop (sp : sigspec)                 (* loop.execute_new_loop(Signal(...)) *)
| ACloseLoop                              (* loop.close_loop() *)
| AProcess (return_after : option nat)    (* loop.process_signals(return_after) *)
| ARegSource (o : nat)                    (* loop.register_signal_source(o) *)
| ARegHandler (cls hid data : nat)        (* loop.register_signal_handler(cls, h, data) *)
| ASetQuitCb (arg : nat)                  (* loop.set_quit_callback(cb, arg) *)
| AExtAdd (sp : sigspec).                 (* another thread will submit this signal (ghost) *)

Section Loop.
  Context {U : Type}.

  Inductive prog :=
  | PRet
  | PThrow (e : exn)
  | PSeq (p q : prog)
  | PTry (p h : prog)                    (* try: p  except Exception: h   (ExitMainLoop, SystemExit pass) *)
  | PApi (c : api)
  | PSt (f : U -> U * prog)              (* read / update the handlers' own state, choose how to go on *)
  | PWhile (c : U -> bool) (b : prog)    (* while c(state): b *)
  | PEmit (e : event).

  Record lstate := {
    qstore : list equeue;                 (* every EventQueue object ever created; id = index *)
    levels : list nat;                    (* _event_queues, bottom .. top *)
    active : nat;                         (* _active_queue: an id, not "last of levels" *)
    handlers : list (nat * list (nat * nat));   (* _handlers: class -> [(handler, data)] *)
    tickets : tmachine;                   (* _processed_signals *)
    run_loop : bool;                      (* _run_loop *)
    force_quit : bool;                    (* _force_quit *)
    quit_cb : option nat;                 (* _quit_callback (its args) *)
    next_sig : nat;
    ext : list sigspec;                   (* what other threads will submit, in order *)
    trace : list event;                   (* ghost, newest first *)
    ust : U }.
  #[export] Instance eta_lstate : Settable _ :=
    settable! Build_lstate <qstore; levels; active; handlers; tickets; run_loop; force_quit; quit_cb;
                            next_sig; ext; trace; ust>.

  Definition init_state (u : U) : lstate :=
    {| qstore := [empty_queue]; levels := [0]; active := 0; handlers := []; tickets := tm_empty;
       run_loop := true; force_quit := false; quit_cb := None; next_sig := 0; ext := [];
       trace := []; ust := u |}.

  Definition emit (e : event) (s : lstate) : lstate := s <| trace := e :: trace s |>.

  (* handler code can only log marks and upper-layer events, never forge the loop's own events *)
  Definition user_event (e : event) : event :=
    match e with EMark _ | EUser _ _ _ => e | _ => EMark 0 end.

  Definition get_q (s : lstate) (q : nat) : equeue := nth q (qstore s) empty_queue.
  Fixpoint set_nth {A} (l : list A) (n : nat) (x : A) : list A :=
    match l, n with
    | [], _ => []
    | _ :: r, O => x :: r
    | a :: r, S k => a :: set_nth r k x
    end.
  Definition set_q (s : lstate) (q : nat) (v : equeue) : lstate := s <| qstore := set_nth (qstore s) q v |>.

  Definition handlers_of (s : lstate) (cls : nat) : option (list (nat * nat)) :=
    option_map snd (find (fun p => (fst p =? cls)%nat) (handlers s)).
  Fixpoint add_handler (hs : list (nat * list (nat * nat))) (cls hid data : nat) :=
    match hs with
    | [] => [(cls, [(hid, data)])]
    | (c, l) :: r => if (c =? cls)%nat then (c, l ++ [(hid, data)]) :: r else (c, l) :: add_handler r cls hid data
    end.

  Inductive outcome := ONormal | OThrow (e : exn) | OBlocked | OFuel.

  Inductive call :=
  | CRun                                  (* AbstractEventLoop.run *)
  | CMainloop                             (* MainLoop._mainloop *)
  | CProcLoop                             (* MainLoop._process_signals_loop *)
  | CProcWait (cls ticket : nat)          (* the while loop of _process_signals_with_return *)
  | CProcIter (prio : option Z)           (* the while loop of _process_signals_iteration *)
  | CProcessSignal (sg : signal) (idx : nat)   (* _process_signal: the handler loop from index idx *)
  | CApi (c : api)
  | CProg (p : prog).

  (* for queue in reversed(self._event_queues): if queue.enqueue_if_source_belongs(signal, source) *)
  Fixpoint route (s : lstate) (rev_levels : list nat) (src : option nat) : option nat :=
    match rev_levels with
    | [] => None
    | q :: r => if q_contains_source (get_q s q) src then Some q else route s r src
    end.

  (* MainLoop.enqueue_signal(signal) for an already created signal *)
  Definition do_enqueue (s : lstate) (sg : signal) : lstate :=
    if force_quit s then emit (EDropped (sg_id sg)) s
    else
      let q := match route s (rev (levels s)) (sg_src sg) with Some q => q | None => active s end in
      emit (EEnq (sg_id sg) q) (set_q s q (q_put (get_q s q) sg)).

  Definition new_signal (s : lstate) (sp : sigspec) : signal * lstate :=
    (mk_signal (next_sig s) sp,
     emit (ESigNew (next_sig s) (sp_cls sp) (sp_prio sp) (sp_src sp)) (s <| next_sig := S (next_sig s) |>)).

  (* self._active_queue.get(): Some (signal, state) | None = would block for ever *)
  Definition do_get (s : lstate) : option (signal * lstate) + lstate :=
    match q_pop (get_q s (active s)) with
    | Some ((_, _, sg), q') => inl (Some (sg, set_q s (active s) q'))
    | None =>
      match ext s with
      | sp :: r =>                          (* another thread's enqueue_signal arrives while we wait *)
        let '(sg, s1) := new_signal (s <| ext := r |>) sp in
        inr (do_enqueue (emit (EExt (sg_id sg)) s1) sg)
      | [] => inl None
      end
    end.

  Variable code : nat -> signal -> nat -> prog.     (* handler id -> signal -> registered data -> body *)

  Fixpoint exec (fuel : nat) (c : call) (s : lstate) {struct fuel} : outcome * lstate :=
    match fuel with
    | O => (OFuel, s)
    | S f =>
      match c with
      (* ---- run(): _force_quit = False; _run(); quit callback ---- *)
      | CRun =>
        let s0 := emit ERunEnter (s <| force_quit := false |> <| run_loop := true |>) in
        let '(o, s1) := exec f CMainloop s0 in
        match o with
        | ONormal | OThrow XExit =>           (* except ExitMainLoop: pass *)
          let s2 := match quit_cb s1 with Some a => emit (EQuitCb a) s1 | None => s1 end in
          (ONormal, emit ERunReturn s2)
        | _ => (o, s1)
        end
      (* ---- _mainloop: while self._run_loop: self._process_signals_loop() ---- *)
      | CMainloop =>
        if run_loop s then
          let '(o, s1) := exec f CProcLoop s in
          match o with
          | ONormal => exec f CMainloop s1
          | _ => (o, s1)
          end
        else (ONormal, if force_quit s then s else s <| run_loop := true |>)
      (* ---- _process_signals_loop: while self._run_loop: signal = get(); _process_signal ---- *)
      | CProcLoop =>
        if run_loop s then
          match do_get s with
          | inl None => (OBlocked, s)
          | inr s1 => exec f CProcLoop s1
          | inl (Some (sg, s1)) =>
            let s2 := emit (EDispatch (sg_id sg) (active s) (length (levels s))) s1 in
            let '(o, s3) := exec f (CProcessSignal sg 0) s2 in
            match o with
            | ONormal => exec f CProcLoop s3
            | _ => (o, s3)
            end
          end
        else (ONormal, s)
      (* ---- _process_signals_with_return: while self._run_loop: get; process; check ticket ---- *)
      | CProcWait cls ticket =>
        if run_loop s then
          match do_get s with
          | inl None => (OBlocked, s)
          | inr s1 => exec f (CProcWait cls ticket) s1
          | inl (Some (sg, s1)) =>
            let s2 := emit (EDispatch (sg_id sg) (active s) (length (levels s))) s1 in
            let '(o, s3) := exec f (CProcessSignal sg 0) s2 in
            match o with
            | ONormal =>
              match check_ticket (tickets s3) cls ticket with
              | Some (true, t') => (ONormal, s3 <| tickets := t' |>)
              | Some (false, _) => exec f (CProcWait cls ticket) s3
              | None => (OThrow XError, s3)            (* KeyError *)
              end
            | _ => (o, s3)
            end
          end
        else (ONormal, s)
      (* ---- _process_signals_iteration ---- *)
      | CProcIter prio =>
        if negb (q_empty (get_q s (active s))) && run_loop s then
          match q_pop (get_q s (active s)) with
          | None => (ONormal, s)                        (* unreachable: not empty *)
          | Some ((p, cnt, sg), q') =>
            (* NOTE: written as a function of unit so that the extracted (strict) OCaml does not run the dispatch before it
               knows whether the entry is taken (a [let go := <dispatch> in if ... then go else requeue] is evaluated eagerly
               there: nested partial batches then cost exponential time for the same result) *)
            let go (_ : unit) :=
              let s1 := set_q s (active s) q' in
              let s2 := emit (EDispatch (sg_id sg) (active s) (length (levels s))) s1 in
              let '(o, s3) := exec f (CProcessSignal sg 0) s2 in
              match o with
              | ONormal => exec f (CProcIter (Some p)) s3
              | _ => (o, s3)
              end in
            match prio with
            | None => go tt
            | Some p0 =>
              if (p =? p0)%Z then go tt
              else (* self._queue.put(entry); return None *)
                (ONormal, emit (ERequeue (sg_id sg) (active s))
                               (set_q s (active s) (q_put_entry q' (p, cnt, sg))))
            end
          end
        else (ONormal, s)
      (* ---- _process_signal ---- *)
      | CProcessSignal sg idx =>
        let s0 := if (idx =? 0)%nat then s <| tickets := mark_line_to_go (tickets s) (sg_cls sg) |> else s in
        match handlers_of s0 (sg_cls sg) with
        | Some hs =>
          if force_quit s0 then (ONormal, emit (EDispatchEnd (sg_id sg)) s0)      (* if self._force_quit: break *)
          else
          match nth_error hs idx with
          | None => (ONormal, emit (EDispatchEnd (sg_id sg)) s0)
          | Some (hid, data) =>
            let s1 := emit (EHandler hid (sg_id sg) data) s0 in
            let '(o, s2) := exec f (CProg (code hid sg data)) s1 in
            match o with
            | ONormal => exec f (CProcessSignal sg (S idx)) (emit (EHandlerEnd hid (sg_id sg) None) s2)
            | OThrow XError =>
              (* except Exception: self.enqueue_signal(ExceptionSignal(self)) *)
              let s3 := emit (EHandlerEnd hid (sg_id sg) (Some XError)) s2 in
              let '(xs, s4) := new_signal s3 exception_spec in
              exec f (CProcessSignal sg (S idx)) (do_enqueue s4 xs)
            | OThrow e => (o, emit (EHandlerEnd hid (sg_id sg) (Some e)) s2)
            | _ => (o, s2)
            end
          end
        | None =>
          if (sg_cls sg =? CLS_EXCEPTION)%nat then (OThrow XSysExit, emit EKill s0)   (* kill_app_with_traceback *)
          else (ONormal, emit (EDispatchEnd (sg_id sg)) s0)
        end
      (* ---- the public API ---- *)
      | CApi a =>
        match a with
        | AEnqueue sp => let '(sg, s1) := new_signal s sp in (ONormal, do_enqueue s1 sg)
        | AForceQuit =>
          (ONormal, emit EForceQuit (s <| force_quit := true |> <| levels := [] |> <| run_loop := false |>))
        | ANewLoop sp =>
          let '(sg, s1) := new_signal s sp in
          if force_quit s1 then (ONormal, s1)
          else
            let q := length (qstore s1) in
            let s2 := s1 <| qstore := qstore s1 ++ [empty_queue] |> <| active := q |>
                         <| levels := levels s1 ++ [q] |> in
            let s3 := do_enqueue (emit (ENewLoopEnter q) s2) sg in
            let '(o, s4) := exec f CMainloop s3 in
            match o with
            | ONormal => (ONormal, emit (ENewLoopReturn q) s4)
            | _ => (o, s4)
            end
        | ACloseLoop =>
          (* self.process_signals() *)
          let '(o, s0) := exec f (CProcIter None) (emit (EProcEnter None 0) s) in
          match o with
          | ONormal =>
            let s1 := emit (EProcReturn None 0) s0 in
            match rev (levels s1) with
            | [] => (OThrow XError, s1)                       (* self._event_queues.pop(): IndexError *)
            | top :: rest_rev =>
              let s2 := emit (EClosePop top) (s1 <| levels := rev rest_rev |>) in
              match rest_rev with
              | [] => (OThrow XExit, s2)                      (* IndexError -> raise ExitMainLoop() *)
              | q :: _ => (ONormal, s2 <| active := q |> <| run_loop := false |>)
              end
            end
          | _ => (o, s0)
          end
        | AProcess None =>
          let '(o, s1) := exec f (CProcIter None) (emit (EProcEnter None 0) s) in
          match o with
          | ONormal => (ONormal, emit (EProcReturn None 0) s1)
          | _ => (o, s1)
          end
        | AProcess (Some cls) =>
          let '(t, tm) := take_ticket (tickets s) cls in
          let s1 := emit (EProcEnter (Some cls) t) (s <| tickets := tm |>) in
          let '(o, s2) := exec f (CProcWait cls t) s1 in
          match o with
          | ONormal => (ONormal, emit (EProcReturn (Some cls) t) s2)
          | _ => (o, s2)
          end
        | ARegSource o =>
          (ONormal, emit (ERegSource o (active s)) (set_q s (active s) (q_add_source (get_q s (active s)) o)))
        | ARegHandler cls hid data =>
          (ONormal, emit (ERegHandler cls hid data) (s <| handlers := add_handler (handlers s) cls hid data |>))
        | ASetQuitCb arg => (ONormal, emit (ESetQuitCb arg) (s <| quit_cb := Some arg |>))
        | AExtAdd sp => (ONormal, s <| ext := ext s ++ [sp] |>)
        end
      (* ---- handler bodies ---- *)
      | CProg p =>
        match p with
        | PRet => (ONormal, s)
        | PThrow e => (OThrow e, s)
        | PSeq p1 p2 =>
          let '(o, s1) := exec f (CProg p1) s in
          match o with ONormal => exec f (CProg p2) s1 | _ => (o, s1) end
        | PTry p1 h =>
          let '(o, s1) := exec f (CProg p1) s in
          match o with OThrow XError => exec f (CProg h) s1 | _ => (o, s1) end
        | PApi a => exec f (CApi a) s
        | PSt g => let '(u', p') := g (ust s) in exec f (CProg p') (s <| ust := u' |>)
        | PWhile c b =>
          if c (ust s) then
            let '(o, s1) := exec f (CProg b) s in
            match o with ONormal => exec f (CProg (PWhile c b)) s1 | _ => (o, s1) end
          else (ONormal, s)
        | PEmit e => (ONormal, emit (user_event e) s)
        end
      end
    end.

  (* ---- a session: calls made from outside any handler, one after the other ---- *)
  Inductive top := TRun | TProg (p : prog).

  Fixpoint run_session (fuel : nat) (acts : list top) (s : lstate) : list outcome * lstate :=
    match acts with
    | [] => ([], s)
    | a :: r =>
      let '(o, s1) := exec fuel (match a with TRun => CRun | TProg p => CProg p end) (emit ETop s) in
      match o with
      | OBlocked | OFuel | OThrow XSysExit => ([o], s1)      (* the session ends here *)
      | _ => let '(os, s2) := run_session fuel r s1 in (o :: os, s2)
      end
    end.
End Loop.

Arguments prog : clear implicits.
Arguments lstate : clear implicits.
Arguments call : clear implicits.
Arguments top : clear implicits.
