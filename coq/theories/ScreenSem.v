(* ScreenSem.v — the screen layer on top of the event loop, as programs [prog sstate]:
     render/screen_scheduler.py  ScreenScheduler (schedule/replace/push/push_modal/close/redraw,
                                 _process_screen, _draw_screen, process_input_result)
     render/screen_stack.py      ScreenStack / ScreenData
     render/screen/__init__.py   UIScreen (setup, show_all + paging prompts, get_user_input)
     render/screen/input_manager.py  InputManager (get_input, get_input_blocking, process_input, _process_input)
     input/input_handler.py      InputHandler (registers an InputReadySignal handler at creation, one-shot callback,
                                 wait_on_input)
     input/input_threading.py    InputThreadManager (request stack, concurrency check, hand-off) and the reader thread
   Each Python method is one definition below, same name, same order of effects.  The application's
   screens are data: a [screen_spec] per screen id says what its callbacks do (commands [scmd]) and answer.
   The reader thread is modelled by the loop's [ext] mechanism: when a thread is started it takes the next
   typed line and its InputReceivedSignal arrives when the loop next finds its active queue empty
   (the canonical timing; other timings are the subject of C19). *)
From Coq Require Import ZArith NArith List Bool.
From RecordUpdate Require Import RecordUpdate.
From SL Require Import PyInt LoopSem.
Import ListNotations.

Definition CLS_RENDER : nat := 1.       (* RenderScreenSignal *)
Definition CLS_CLOSE : nat := 2.        (* CloseScreenSignal *)
Definition CLS_RECEIVED : nat := 3.     (* InputReceivedSignal *)
Definition CLS_READY : nat := 4.        (* InputReadySignal *)
Definition H_RENDER : nat := 0.         (* ScreenScheduler._process_screen_callback *)
Definition H_CLOSE : nat := 1.          (* ScreenScheduler._close_screen_callback *)
Definition H_RECEIVED : nat := 2.       (* InputThreadManager._input_received_handler *)
Definition H_READY (n : nat) : nat := 10 + n.   (* InputHandler n ._input_received_handler *)
(* application-defined signals (SignalHandler.connect / create_signal / emit of a UIScreen): class c, callback k *)
(* class number 99 stands for ExceptionSignal itself: an application may connect its own callback to ExceptionSignal
   (which replaces the loop's kill-the-application handling of failures) *)
Definition CLS_CUSTOM (c : nat) : nat := if (c =? 99)%nat then CLS_EXCEPTION else 5 + c.
Definition H_CUSTOM (k : nat) : nat := 3 + k.     (* k < 7: handler ids 3..9 *)

(* ---- what the application's screens do ---- *)
Inductive ret_val := RProcessed | RRedraw | RClose | RDiscarded | RKey (s : str) | RNone.
Inductive action := ANoop | ARedraw | AClose | AQuit | AError.      (* UserInputAction *)
Inductive answer := AnsNoAttr | AnsTrue | AnsOther.                  (* quit_screen.answer: missing / True / else *)

Inductive scmd :=
| SPush (s args : nat) | SPushModal (s args : nat) | SReplace (s args : nat) | SSchedule (s args : nat)
| SCloseSig            (* self.close(): enqueue CloseScreenSignal(self) *)
| SCloseNow            (* scheduler.close_screen() *)
| SRedrawSig           (* self.redraw(): enqueue RenderScreenSignal(self) *)
| SSchedRedraw         (* scheduler.redraw() *)
| SRaise | SExit | SForceQuit
| SSysExit             (* sys.exit(1) from a callback (ErrorDialog.input does it) *)
| SRedrawOther (s : nat)   (* screens[s].redraw(): a render signal whose source is ANOTHER screen *)
| SCloseOther (s : nat)    (* screens[s].close(): a close signal whose source is another screen *)
| SConnect (c k : nat)     (* self.connect(Custom_c, self.callback_k): register_signal_handler(Custom_c, callback_k, data=None) *)
| SEmit (c : nat) (prio : Z)   (* self.emit(self.create_signal(Custom_c, prio)): a signal of class c whose source is this screen *)
| SProcess             (* App.get_event_loop().process_signals(): dispatch the most urgent batch now, from inside this callback *)
| SGetUserInput        (* self.get_user_input(...): blocking *)
| SSetTypeAhead (b : bool)     (* from now on the user has (b = true) / has not typed ahead: with type-ahead a reader thread
                                  returns at once and its InputReceivedSignal is enqueued before start_input_thread returns *)
| SHandlerAsk (h : nat) (skip : bool)   (* the application's own InputHandler object h (created on first use, source None):
                                           h.skip_concurrency_check = skip; h.get_input(prompt) *)
| SHandlerWait (h : nat)       (* h.wait_on_input(); then look at (h.input_successful(), h.value) *)
| SSetInputRequired (b : bool)
| SSetAnswer (a : answer)
| SMark (n : nat)
| SIfCount (k : nat) (t e : list scmd).     (* earlier invocations of this callback of this screen < k *)

Record screen_spec := {
  sc_setup : list bool;            (* result of the i-th setup() call (last repeats; [] = True); True = calls the base setup *)
  sc_refresh : list scmd;
  sc_show : list scmd;             (* run at the end of show_all() *)
  sc_closed : list scmd;
  sc_input : list (str * (list scmd * ret_val));
  sc_input_default : list scmd * option ret_val;    (* None = return the key itself *)
  sc_prompt_none : bool;           (* prompt() returns None *)
  sc_input_required : bool;
  sc_no_separator : bool;
  sc_skip_check : bool;            (* input_manager.skip_concurrency_check *)
  sc_pages : nat;                  (* "press ENTER to continue" prompts its content needs *)
  sc_answer0 : answer;             (* the screen's `answer` attribute before any callback ran (quit dialogs) *)
  sc_custom : list (list scmd);    (* the screen's own signal callbacks: what callback k does when its signal is dispatched *)
  sc_setup_cmds : list scmd        (* what setup(args) itself does BEFORE it reports its result (and, when that is True, calls the
                                      base setup): `def setup(self, args): <commands>; return super().setup(args) if ok else False` *)
}.
Definition default_spec : screen_spec :=
  {| sc_setup := []; sc_refresh := []; sc_show := []; sc_closed := []; sc_input := [];
     sc_input_default := ([], None); sc_prompt_none := false; sc_input_required := true;
     sc_no_separator := false; sc_skip_check := false; sc_pages := 0; sc_answer0 := AnsNoAttr;
     sc_custom := []; sc_setup_cmds := [] |}.

(* ---- state of the screen layer ---- *)
Record sdata := { sd_id : nat; sd_scr : nat; sd_args : nat; sd_modal : bool }.     (* ScreenData; args: an id, 0 = None *)

Record scrst := {
  ss_ready : bool; ss_input_required : bool; ss_err : nat; ss_input_args : nat; ss_answer : answer;
  ss_n_setup : nat; ss_n_refresh : nat; ss_n_show : nat; ss_n_input : nat; ss_n_closed : nat }.
#[export] Instance eta_scrst : Settable _ :=
  settable! Build_scrst <ss_ready; ss_input_required; ss_err; ss_input_args; ss_answer;
                         ss_n_setup; ss_n_refresh; ss_n_show; ss_n_input; ss_n_closed>.

Record ihandler := {
  ih_src : option nat;      (* handler.source if it is a screen (a registered source); None = an InputManager *)
  ih_owner : nat;           (* the screen whose InputManager created it *)
  ih_cb : bool;             (* one-shot callback (InputManager.process_input of the owner) still set *)
  ih_received : bool; ih_success : bool; ih_value : option str;
  ih_args : nat }.          (* the arguments bound into the callback: those of the request this handler carries *)
#[export] Instance eta_ih : Settable _ := settable! Build_ihandler <ih_src; ih_owner; ih_cb; ih_received; ih_success; ih_value; ih_args>.

Record sstate := {
  st_stack : list sdata;            (* ScreenStack._screens, TOP FIRST *)
  st_first : bool;                  (* _first_screen_scheduled *)
  st_quit : option nat;             (* quit_screen *)
  st_scr : list scrst;              (* per screen id *)
  st_ih : list ihandler;            (* every InputHandler ever created; id = index *)
  st_istack : list nat;             (* InputThreadManager._input_stack, MOST RECENT FIRST *)
  st_processing : bool;             (* _processing_input *)
  st_typed : list (option str);     (* what the user will type: Some line | None = end of file *)
  st_next_sd : nat;
  st_rb : bool;                     (* registers for results of callbacks *)
  st_rv : ret_val;
  st_run_empty : bool;              (* configuration: should_run_with_empty_stack *)
  st_typeahead : bool;              (* the user has typed ahead: the next reader thread gets its line at once *)
  st_hobj : list (nat * nat)        (* the application's own InputHandler objects: name -> index in st_ih *)
}.
#[export] Instance eta_sstate : Settable _ :=
  settable! Build_sstate <st_stack; st_first; st_quit; st_scr; st_ih; st_istack; st_processing; st_typed;
                          st_next_sd; st_rb; st_rv; st_run_empty; st_typeahead; st_hobj>.

Definition scr0 (sp : screen_spec) : scrst :=
  {| ss_ready := false; ss_input_required := sc_input_required sp; ss_err := 0; ss_input_args := 0;
     ss_answer := sc_answer0 sp; ss_n_setup := 0; ss_n_refresh := 0; ss_n_show := 0; ss_n_input := 0; ss_n_closed := 0 |}.

Definition sprog := prog sstate.

(* ---- events of this layer: EUser tag args text ---- *)
Definition T_SETUP := 1.  Definition T_REFRESH := 2.  Definition T_SHOW := 3.  Definition T_SEPARATOR := 4.
Definition T_PROMPT := 5. Definition T_INPUT := 7.    Definition T_CLOSED := 8. Definition T_MODAL_ENTER := 9.
Definition T_MODAL_RETURN := 10. Definition T_REFUSED := 11. Definition T_READY := 12. Definition T_GOT := 13.
Definition T_MARK := 14.  Definition T_STACK := 15.   Definition T_ASK := 16.
Definition T_OP := 17. Definition T_REQ := 18. Definition T_ACTION := 19.
(* T_WAITED [h; n; input_successful(); value is not None] value: what the application sees after h.wait_on_input() *)
Definition T_WAITED := 20.
(* T_CUSTOM [k; scr; 1 + source | 0]: callback k of screen scr is invoked for one of the application's own signals *)
Definition T_CUSTOM := 21.
(* T_SETUP_BEGIN [entry id; scr; args]: a setup() that runs commands of its own is entered (only such setups log it;
   T_SETUP is then logged when setup() returns, with its result) *)
Definition T_SETUP_BEGIN := 22.
(* stack primitives, T_STACK [kind; entry id; screen; args; modal]:  ScreenStack.append / add_first / pop *)
Definition K_APPEND := 0. Definition K_ADD_FIRST := 1. Definition K_POP := 2.
(* scheduler operations, T_OP [kind; screen; args], logged on entry *)
Definition O_SCHEDULE := 0. Definition O_PUSH := 1. Definition O_PUSH_MODAL := 2. Definition O_REPLACE := 3.
Definition O_CLOSE := 4.

Definition ev (tag : nat) (args : list nat) : sprog := PEmit (EUser tag args []).
Definition evt (tag : nat) (args : list nat) (text : str) : sprog := PEmit (EUser tag args text).
Definition b2n (b : bool) : nat := if b then 1 else 0.

Definition rd (f : sstate -> sprog) : sprog := PSt (fun u => (u, f u)).
Definition wr (g : sstate -> sstate) : sprog := PSt (fun u => (g u, PRet)).
Notation "p ;; q" := (PSeq p q) (at level 61, right associativity).

Definition scr_of (u : sstate) (s : nat) : scrst := nth s (st_scr u) (scr0 default_spec).
Fixpoint upd_nth {A} (l : list A) (n : nat) (f : A -> A) : list A :=
  match l, n with
  | [], _ => []
  | a :: r, O => f a :: r
  | a :: r, S k => a :: upd_nth r k f
  end.
Definition upd_scr (s : nat) (f : scrst -> scrst) (u : sstate) : sstate := u <| st_scr := upd_nth (st_scr u) s f |>.
Definition ih_of (u : sstate) (n : nat) : ihandler :=
  nth n (st_ih u) {| ih_src := None; ih_owner := 0; ih_cb := false; ih_received := false; ih_success := false; ih_value := None; ih_args := 0 |}.
Definition upd_ih (n : nat) (f : ihandler -> ihandler) (u : sstate) : sstate := u <| st_ih := upd_nth (st_ih u) n f |>.

Definition render_spec (src : option nat) : sigspec :=
  {| sp_cls := CLS_RENDER; sp_prio := 0%Z; sp_src := src; sp_a := 0; sp_b := false; sp_data := [] |}.
Definition close_spec (scr : nat) : sigspec :=
  {| sp_cls := CLS_CLOSE; sp_prio := 0%Z; sp_src := Some scr; sp_a := 0; sp_b := false; sp_data := [] |}.
Definition received_spec (req : nat) (data : str) : sigspec :=
  {| sp_cls := CLS_RECEIVED; sp_prio := 0%Z; sp_src := None; sp_a := req; sp_b := false; sp_data := data |}.
Definition ready_spec (src : option nat) (handler : nat) (data : str) (ok : bool) : sigspec :=
  {| sp_cls := CLS_READY; sp_prio := 0%Z; sp_src := src; sp_a := handler; sp_b := ok; sp_data := data |}.

Definition raise_exception_signal : sprog := PApi (AEnqueue exception_spec).

Section Screens.
  Variable spec : nat -> screen_spec.

  (* ScreenScheduler.redraw *)
  Definition sched_redraw : sprog := PApi (AEnqueue (render_spec None)).

  Definition new_sd (scr args : nat) (modal : bool) (k : sdata -> sprog) : sprog :=
    rd (fun u => let d := {| sd_id := st_next_sd u; sd_scr := scr; sd_args := args; sd_modal := modal |} in
                 wr (fun u => u <| st_next_sd := S (st_next_sd u) |>) ;; k d).
  Definition ev_stack (kind : nat) (d : sdata) : sprog :=
    ev T_STACK [kind; sd_id d; sd_scr d; sd_args d; b2n (sd_modal d)].

  (* _get_last_screen: raise ExitMainLoop when the stack is empty *)
  Definition with_top (k : sdata -> sprog) : sprog :=
    rd (fun u => match st_stack u with [] => PThrow XExit | top :: _ => k top end).

  (* ---------------- InputThreadManager ---------------- *)
  (* the reader thread: prints the prompt, takes the next typed line, will submit InputReceivedSignal *)
  Definition start_thread (req : nat) : sprog :=
    ev T_PROMPT [req; 0] ;;
    rd (fun u => match st_typed u with
                 | l :: r => wr (fun u => u <| st_typed := r |>) ;;
                             (* the thread's App.get_event_loop().enqueue_signal(InputReceivedSignal(self, data)): with
                                type-ahead it happens before start_thread() returns, else when the loop is idle *)
                             (if st_typeahead u
                              then PApi (AEnqueue (received_spec req (match l with Some s => s | None => [] end)))
                              else PApi (AExtAdd (received_spec req (match l with Some s => s | None => [] end))))
                 | [] => PRet                      (* the user types nothing more: the thread waits for ever *)
                 end).

  (* start_input_thread(request, concurrent_check) *)
  Definition start_input_thread (req : nat) (check : bool) : sprog :=
    wr (fun u => u <| st_istack := req :: st_istack u |>) ;;
    rd (fun u =>
      (if negb (length (st_istack u) =? 1)%nat && check
       then ev T_REFUSED (rev (st_istack u)) ;;
            wr (fun u => u <| st_istack := tl (st_istack u) |>) ;;       (* the refused request is popped *)
            PThrow XError                                               (* KeyError *)
       else PRet) ;;
      rd (fun u => if st_processing u then ev T_PROMPT [req; 1]          (* _print_new_prompt *)
                   else wr (fun u => u <| st_processing := true |>) ;; start_thread req)).

  (* InputRequest.emit_input_ready_signal / emit_failed_input_ready_signal *)
  Definition emit_ready (req : nat) (data : str) (ok : bool) : sprog :=
    rd (fun u => PApi (AEnqueue (ready_spec (ih_src (ih_of u req)) req data ok))).

  Fixpoint emit_failed_all (reqs : list nat) : sprog :=
    match reqs with [] => PRet | r :: rest => emit_ready r [] false ;; emit_failed_all rest end.

  (* InputThreadManager._input_received_handler(signal) *)
  Definition input_received_handler (sg : signal) : sprog :=
    rd (fun u => match st_istack u with
                 | [] => PThrow XError                                   (* pop from empty list *)
                 | top :: rest =>
                   wr (fun u => u <| st_istack := rest |>) ;;
                   emit_ready top (sg_data sg) true ;;
                   emit_failed_all (rev rest) ;;                         (* for t in self._input_stack: oldest first *)
                   wr (fun u => u <| st_istack := [] |> <| st_processing := false |>)
                 end).

  (* InputHandler(source=...): registers its InputReadySignal handler *)
  Definition new_input_handler (src : option nat) (owner : nat) (cb : bool) (k : nat -> sprog) : sprog :=
    rd (fun u => let n := length (st_ih u) in
                 wr (fun u => u <| st_ih := st_ih u ++ [{| ih_src := src; ih_owner := owner; ih_cb := cb;
                                                          ih_received := false; ih_success := false; ih_value := None;
                                                          ih_args := 0 |}] |>) ;;
                 PApi (ARegHandler CLS_READY (H_READY n) 0) ;; k n).

  (* InputHandler.get_input(prompt): _clear_input(); start_input_thread(request, not skip) *)
  Definition handler_get_input (n : nat) (skip : bool) : sprog :=
    wr (upd_ih n (fun h => h <| ih_received := false |> <| ih_value := None |>)) ;;
    start_input_thread n (negb skip).

  (* InputManager.get_input_blocking of screen scr: handler with source = the manager; wait_on_input *)
  Definition get_input_blocking (scr : nat) : sprog :=
    rd (fun u => ev T_ASK [scr; length (st_ih u)]) ;;
    new_input_handler None scr false (fun n =>
      handler_get_input n (sc_skip_check (spec scr)) ;;
      PWhile (fun u => negb (ih_received (ih_of u n))) (PApi (AProcess (Some CLS_READY))) ;;
      ev T_GOT [scr; n]).

  (* the application's own InputHandler objects *)
  Fixpoint hlookup (h : nat) (m : list (nat * nat)) : option nat :=
    match m with [] => None | (k, n) :: r => if (h =? k)%nat then Some n else hlookup h r end.

  Definition handler_ask (self h : nat) (skip : bool) : sprog :=
    rd (fun u => match hlookup h (st_hobj u) with
                 | Some n => handler_get_input n skip
                 | None => new_input_handler None self false (fun n =>
                             wr (fun u => u <| st_hobj := (h, n) :: st_hobj u |>) ;; handler_get_input n skip)
                 end).

  (* InputHandler.wait_on_input(): while not self._input_received: process_signals(InputReadySignal) *)
  Definition handler_wait (h : nat) : sprog :=
    rd (fun u => match hlookup h (st_hobj u) with
                 | Some n =>
                   PWhile (fun u => negb (ih_received (ih_of u n))) (PApi (AProcess (Some CLS_READY))) ;;
                   rd (fun u => evt T_WAITED [h; n; b2n (ih_success (ih_of u n));
                                              b2n (match ih_value (ih_of u n) with Some _ => true | None => false end)]
                                    (match ih_value (ih_of u n) with Some v => v | None => [] end))
                 | None => PRet
                 end).

  (* ---------------- the application's callbacks ---------------- *)
  (* [close_now] = what scheduler.close_screen() means here (see below: the closed() callback runs
     its commands with a dummy, which breaks the recursion closed() -> close_screen() -> closed()) *)
  Fixpoint do_scmd (close_now : sprog) (self count : nat) (c : scmd) {struct c} : sprog :=
    match c with
    | SPush s a =>
      ev T_OP [O_PUSH; s; a] ;;
      new_sd s a false (fun d => wr (fun u => u <| st_stack := d :: st_stack u |>) ;; ev_stack K_APPEND d ;; sched_redraw)
    | SPushModal s a =>
      ev T_OP [O_PUSH_MODAL; s; a] ;;
      new_sd s a true (fun d => wr (fun u => u <| st_stack := d :: st_stack u |>) ;; ev_stack K_APPEND d ;;
                                PApi (ANewLoop (render_spec None)) ;;
                                ev T_MODAL_RETURN [sd_id d; s])
    | SReplace s a =>
      ev T_OP [O_REPLACE; s; a] ;;
      rd (fun u => match st_stack u with
                   | [] => PThrow XError                                 (* ScreenStackEmptyException *)
                   | top :: r => wr (fun u => u <| st_stack := r |>) ;; ev_stack K_POP top ;;
                                 new_sd s a (sd_modal top) (fun d =>
                                   wr (fun u => u <| st_stack := d :: st_stack u |>) ;; ev_stack K_APPEND d ;; sched_redraw)
                   end)
    | SSchedule s a =>
      ev T_OP [O_SCHEDULE; s; a] ;;
      new_sd s a false (fun d => wr (fun u => u <| st_stack := st_stack u ++ [d] |>) ;; ev_stack K_ADD_FIRST d ;;
                                 rd (fun u => if st_first u then PRet
                                              else sched_redraw ;; wr (fun u => u <| st_first := true |>)))
    | SCloseSig => PApi (AEnqueue (close_spec self))
    | SCloseNow => close_now
    | SRedrawSig => PApi (AEnqueue (render_spec (Some self)))
    | SSchedRedraw => sched_redraw
    | SRaise => PThrow XError
    | SExit => PThrow XExit
    | SForceQuit => PApi AForceQuit
    | SSysExit => PThrow XSysExit
    | SRedrawOther s => PApi (AEnqueue (render_spec (Some s)))
    | SCloseOther s => PApi (AEnqueue (close_spec s))
    | SConnect c k => PApi (ARegHandler (CLS_CUSTOM c) (H_CUSTOM k) self)
    | SEmit c p => PApi (AEnqueue {| sp_cls := CLS_CUSTOM c; sp_prio := p; sp_src := Some self; sp_a := 0; sp_b := false;
                                    sp_data := [] |})
    | SProcess => PApi (AProcess None)
    | SGetUserInput => get_input_blocking self
    | SSetTypeAhead b => wr (fun u => u <| st_typeahead := b |>)
    | SHandlerAsk h skip => handler_ask self h skip
    | SHandlerWait h => handler_wait h
    | SSetInputRequired b => wr (upd_scr self (fun s => s <| ss_input_required := b |>))
    | SSetAnswer a => wr (upd_scr self (fun s => s <| ss_answer := a |>))
    | SMark n => ev T_MARK [self; n]
    | SIfCount k t e =>
      let fix seq (l : list scmd) : sprog := match l with [] => PRet | x :: r => do_scmd close_now self count x ;; seq r end in
      if (count <? k)%nat then seq t else seq e
    end.
  Fixpoint do_scmds (close_now : sprog) (self count : nat) (l : list scmd) : sprog :=
    match l with [] => PRet | x :: r => do_scmd close_now self count x ;; do_scmds close_now self count r end.

  (* ---------------- ScreenScheduler.close_screen ---------------- *)
  (* screen.ui_screen.closed(): a closed() callback that itself calls scheduler.close_screen() synchronously
     is outside the model (marked 999) *)
  Definition call_closed (d : sdata) : sprog :=
    rd (fun u => let n := ss_n_closed (scr_of u (sd_scr d)) in
      wr (upd_scr (sd_scr d) (fun s => s <| ss_n_closed := S n |>)) ;;
      ev T_CLOSED [sd_id d; sd_scr d] ;;
      do_scmds (ev T_MARK [sd_scr d; 999]) (sd_scr d) n (sc_closed (spec (sd_scr d)))).

  Definition close_screen (closed_from : option nat) : sprog :=
    ev T_OP [O_CLOSE; match closed_from with Some c => S c | None => 0 end; 0] ;;
    rd (fun u => match st_stack u with
      | [] => PThrow XError                                            (* ScreenStackEmptyException *)
      | top :: r =>
        wr (fun u => u <| st_stack := r |>) ;; ev_stack K_POP top ;;
        call_closed top ;;
        (match closed_from with
         | Some c => if (c =? sd_scr top)%nat then PRet else PThrow XError   (* RenderUnexpectedError *)
         | None => PRet end) ;;
        (if sd_modal top then PApi ACloseLoop else PRet) ;;
        rd (fun u => match st_stack u with
                     | _ :: _ => if sd_modal top then PRet else sched_redraw
                     | [] => PRet end) ;;
        rd (fun u => match st_stack u with [] => PThrow XExit | _ => PRet end)
      end).

  Definition run_cmds (self count : nat) (l : list scmd) : sprog := do_scmds (close_screen None) self count l.

  (* ---------------- UIScreen callbacks ---------------- *)
  Definition nth_last (l : list bool) (n : nat) : bool :=
    match l with [] => true | _ => nth n l (last l true) end.

  (* top_screen.ui_screen.setup(args): result in st_rb; the base setup sets ready and registers the source *)
  Definition call_setup_plain (d : sdata) : sprog :=
    rd (fun u => let scr := sd_scr d in
      let n := ss_n_setup (scr_of u scr) in
      let ok := nth_last (sc_setup (spec scr)) n in
      wr (upd_scr scr (fun s => s <| ss_n_setup := S n |>)) ;;
      ev T_SETUP [sd_id d; scr; sd_args d; b2n ok] ;;
      (if ok then wr (upd_scr scr (fun s => s <| ss_ready := true |>)) ;; PApi (ARegSource scr) else PRet) ;;
      wr (fun u => u <| st_rb := ok |>)).

  (* a setup() that does something itself first (pushes a screen, opens a dialog, emits a signal, raises ...): the commands
     run inside the setup() call, i.e. inside _process_screen and OUTSIDE its try block — an exception leaves the handler *)
  Definition call_setup_cmds (d : sdata) (cmds : list scmd) : sprog :=
    rd (fun u => let scr := sd_scr d in
      let n := ss_n_setup (scr_of u scr) in
      let ok := nth_last (sc_setup (spec scr)) n in
      wr (upd_scr scr (fun s => s <| ss_n_setup := S n |>)) ;;
      ev T_SETUP_BEGIN [sd_id d; scr; sd_args d] ;;
      run_cmds scr n cmds ;;
      ev T_SETUP [sd_id d; scr; sd_args d; b2n ok] ;;
      (if ok then wr (upd_scr scr (fun s => s <| ss_ready := true |>)) ;; PApi (ARegSource scr) else PRet) ;;
      wr (fun u => u <| st_rb := ok |>)).

  Definition call_setup (d : sdata) : sprog :=
    match sc_setup_cmds (spec (sd_scr d)) with
    | [] => call_setup_plain d
    | cmds => call_setup_cmds d cmds
    end.

  Definition call_refresh (d : sdata) : sprog :=
    rd (fun u => let scr := sd_scr d in
      let n := ss_n_refresh (scr_of u scr) in
      wr (upd_scr scr (fun s => s <| ss_n_refresh := S n |>)) ;;
      ev T_REFRESH [sd_id d; scr; sd_args d] ;;
      run_cmds scr n (sc_refresh (spec scr))).

  (* show_all(): window.render + _print_widget (sc_pages continue prompts), then the screen's own commands *)
  Fixpoint ask_pages (scr k : nat) : sprog :=
    match k with O => PRet | S k' => get_input_blocking scr ;; ask_pages scr k' end.
  Definition call_show_all (d : sdata) : sprog :=
    rd (fun u => let scr := sd_scr d in
      let n := ss_n_show (scr_of u scr) in
      wr (upd_scr scr (fun s => s <| ss_n_show := S n |>)) ;;
      ev T_SHOW [sd_id d; scr] ;;
      ask_pages scr (sc_pages (spec scr)) ;;
      run_cmds scr n (sc_show (spec scr))).

  Fixpoint assoc_str (k : str) (l : list (str * (list scmd * ret_val))) : option (list scmd * ret_val) :=
    match l with
    | [] => None
    | (k', v) :: r => if (length k =? length k')%nat && forallb (fun p => (fst p =? snd p)%N) (combine k k') then Some v else assoc_str k r
    end.

  (* self._ui_screen.input(self._input_args, key): the answer goes to st_rv *)
  Definition call_input (scr : nat) (key : str) : sprog :=
    rd (fun u =>
      let n := ss_n_input (scr_of u scr) in
      let '(cmds, rv) := match assoc_str key (sc_input (spec scr)) with
                         | Some (c, r) => (c, r)
                         | None => (fst (sc_input_default (spec scr)),
                                    match snd (sc_input_default (spec scr)) with Some r => r | None => RKey key end)
                         end in
      wr (upd_scr scr (fun s => s <| ss_n_input := S n |>)) ;;
      evt T_INPUT [scr; ss_input_args (scr_of u scr)] key ;;
      run_cmds scr n cmds ;;
      wr (fun u => u <| st_rv := rv |>)).

  (* InputManager._process_input: the table InputState / global keys -> UserInputAction *)
  Definition str1 (c : N) (s : str) : bool := match s with [x] => (x =? c)%N | _ => false end.
  Definition action_of (rv : ret_val) : action :=
    match rv with
    | RProcessed => ANoop | RRedraw => ARedraw | RClose => AClose | RDiscarded => AError
    | RKey k => if str1 114 k then ARedraw            (* Prompt.REFRESH  'r' *)
                else if str1 99 k then AClose         (* Prompt.CONTINUE 'c' *)
                else if str1 113 k then AQuit         (* Prompt.QUIT     'q' *)
                else AError
    | RNone => AError
    end.

  (* ---------------- InputManager.get_input / ScreenScheduler.process_input_result ---------------- *)
  (* InputManager.get_input(args) of screen scr *)
  Definition get_input (scr args : nat) : sprog :=
    if sc_prompt_none (spec scr)
    then wr (upd_scr scr (fun s => s <| ss_err := 0 |>))              (* prompt() returned None *)
    else
      rd (fun u => ev T_REQ [scr; args; length (st_ih u)]) ;;        (* prompt(args) returned a prompt *)
      wr (upd_scr scr (fun s => s <| ss_input_args := args |>)) ;;
      (* handler.set_callback(partial(self._process_request_input, args)): the arguments belong to the request *)
      new_input_handler (Some scr) scr true (fun n =>
        wr (upd_ih n (fun h => h <| ih_args := args |>)) ;; handler_get_input n (sc_skip_check (spec scr))).

  Definition push_screen_modal (s a : nat) : sprog := do_scmd PRet 0 0 (SPushModal s a).

  Definition process_input_result (act : action) (should_redraw : bool) : sprog :=
    with_top (fun active =>
      match act with
      | AError => if should_redraw then sched_redraw else get_input (sd_scr active) (sd_args active)
      | ANoop => PRet
      | ARedraw => sched_redraw
      | AClose => close_screen None
      | AQuit =>
        rd (fun u => match st_quit u with
          | Some qs =>
            push_screen_modal qs 0 ;;
            rd (fun u => match ss_answer (scr_of u qs) with
                         | AnsTrue => PThrow XExit
                         | AnsNoAttr => PThrow XExit          (* AttributeError -> ExitMainLoop *)
                         | AnsOther => sched_redraw end)
          | None => PThrow XExit
          end)
      end).

  (* InputManager.process_input(user_input) of screen scr *)
  Definition process_input (scr : nat) (line : str) : sprog :=
    wr (fun u => u <| st_rb := false |>) ;;
    PTry (call_input scr line ;; wr (fun u => u <| st_rb := true |>))
         (raise_exception_signal ;; wr (fun u => u <| st_rb := false |>)) ;;   (* except Exception: enqueue ExceptionSignal; return *)
    rd (fun u => if st_rb u then
      let act := action_of (st_rv u) in
      ev T_ACTION [scr; match act with ANoop => 0 | ARedraw => 1 | AClose => 2 | AQuit => 3 | AError => 4 end] ;;
      wr (upd_scr scr (fun s => match act with AError => s <| ss_err := S (ss_err s) |> | _ => s <| ss_err := 0 |> end)) ;;
      rd (fun u => process_input_result act (Nat.modulo (ss_err (scr_of u scr)) 5 =? 0)%nat)
    else PRet).

  (* InputHandler n ._input_received_handler(signal, args) *)
  Definition input_ready_handler (n : nat) (sg : signal) : sprog :=
    if negb (sg_a sg =? n)%nat then PRet                  (* signal.input_handler_source != self *)
    else
      wr (upd_ih n (fun h => h <| ih_received := true |> <| ih_success := sg_b sg |>)) ;;
      evt T_READY [n; b2n (sg_b sg)] (sg_data sg) ;;
      if negb (sg_b sg) then PRet
      else
        wr (upd_ih n (fun h => h <| ih_value := Some (sg_data sg) |>)) ;;
        rd (fun u => if ih_cb (ih_of u n)
                     then wr (upd_ih n (fun h => h <| ih_cb := false |>)) ;;
                          (* _process_request_input(args, user_input): self._input_args = args; self.process_input(user_input) *)
                          wr (upd_scr (ih_owner (ih_of u n)) (fun s => s <| ss_input_args := ih_args (ih_of u n) |>)) ;;
                          process_input (ih_owner (ih_of u n)) (sg_data sg)
                     else PRet).

  (* ---------------- ScreenScheduler._process_screen / _draw_screen ---------------- *)
  Definition draw_screen (d : sdata) : sprog :=
    PTry ((if sc_no_separator (spec (sd_scr d)) then PRet else ev T_SEPARATOR [sd_scr d]) ;; call_show_all d)
         raise_exception_signal.

  Definition process_screen : sprog :=
    with_top (fun top =>
      let scr := sd_scr top in
      rd (fun u => if ss_ready (scr_of u scr) then wr (fun u => u <| st_rb := true |>) else call_setup top) ;;
      rd (fun u =>
        if negb (st_rb u) then
          (* self._screen_stack.pop(); modal: close its loop (fix b544e1f), else redraw; return *)
          rd (fun u => match st_stack u with
                       | t :: r => wr (fun u => u <| st_stack := r |>) ;; ev_stack K_POP t
                       | [] => PThrow XError end) ;;
          (if sd_modal top then PApi ACloseLoop else sched_redraw)
        else
          PApi (ARegSource scr) ;;                        (* fix 359cd83 *)
          PTry (call_refresh top ;;
                with_top (fun top' =>
                  if (sd_id top' =? sd_id top)%nat then
                    draw_screen top ;;
                    rd (fun u => if ss_input_required (scr_of u scr) then get_input scr (sd_args top) else PRet)
                  else PRet))                              (* the screen was closed / replaced in refresh() *)
               raise_exception_signal)).

  (* ---------------- the handler table ---------------- *)
  (* a screen's own signal callback k, connected by screen `scr` (the registered data): callback(signal, data) *)
  Definition custom_handler (k : nat) (sg : signal) (scr : nat) : sprog :=
    ev T_CUSTOM [k; scr; match sg_src sg with Some x => S x | None => 0 end] ;;
    run_cmds scr 0 (nth k (sc_custom (spec scr)) []).

  Definition screen_code (hid : nat) (sg : signal) (data : nat) : sprog :=
    if (hid =? H_RENDER)%nat then process_screen
    else if (hid =? H_CLOSE)%nat then close_screen (sg_src sg)       (* close_screen(signal.source) *)
    else if (hid =? H_RECEIVED)%nat then input_received_handler sg
    else if (10 <=? hid)%nat then input_ready_handler (hid - 10) sg
    else if (3 <=? hid)%nat then custom_handler (hid - 3) sg data      (* H_CUSTOM k, registered with data = the screen *)
    else PRet.

  (* App.initialize(): ScreenScheduler registers its two handlers, InputThreadManager its own *)
  Definition app_initialize : sprog :=
    PApi (ARegHandler CLS_RENDER H_RENDER 0) ;; PApi (ARegHandler CLS_CLOSE H_CLOSE 0) ;;
    PApi (ARegHandler CLS_RECEIVED H_RECEIVED 0).
End Screens.

Definition sstate0 (specs : list screen_spec) (typed : list (option str)) (quit : option nat) (run_empty : bool) : sstate :=
  {| st_stack := []; st_first := false; st_quit := quit; st_scr := map scr0 specs; st_ih := []; st_istack := [];
     st_processing := false; st_typed := typed; st_next_sd := 0; st_rb := false; st_rv := RNone;
     st_run_empty := run_empty; st_typeahead := false; st_hobj := [] |}.


(* no screen's setup() does anything but report its result (what the theorems proved before setup() could run commands
   are about; the general case: props/C08.v, section "setup() with commands") *)
Definition plain_setup (specs : nat -> screen_spec) : Prop := forall s, sc_setup_cmds (specs s) = [].

(* ---- a whole application session ---- *)
Inductive saction := SACmds (l : list scmd) | SARun.

(* the application's session: App.initialize(), then the actions; App.run() refuses an empty stack *)
Fixpoint app_session (specs : nat -> screen_spec) (fuel : nat) (acts : list saction) (s : lstate sstate)
  : list outcome * lstate sstate :=
  match acts with
  | [] => ([], s)
  | a :: r =>
    let '(o, s1) :=
      match a with
      | SACmds l => exec (screen_code specs) fuel (CProg (run_cmds specs 0 0 l)) (emit ETop s)
      | SARun =>
        match st_stack (ust s), st_run_empty (ust s) with
        | [], false => (OThrow XError, emit ETop s)                 (* NothingScheduledError *)
        | _, _ => exec (screen_code specs) fuel CRun (emit ETop s)
        end
      end in
    match o with
    | OBlocked | OFuel | OThrow XSysExit => ([o], s1)
    | _ => let '(os, s2) := app_session specs fuel r s1 in (o :: os, s2)
    end
  end.


(* App.initialize() on a fresh loop, then the session *)
Definition app_run_all (specs : nat -> screen_spec) (specl : list screen_spec) (typed : list (option str))
           (quit : option nat) (run_empty : bool) (fuel : nat) (acts : list saction) : list outcome * lstate sstate :=
  let s0 := init_state (sstate0 specl typed quit run_empty) in
  let '(_, s1) := exec (screen_code specs) 20 (CProg app_initialize) s0 in
  app_session specs fuel acts s1.
