(* PyInt.v — Python's int(str) for ASCII text and the "{:d}" formatting of an int.
   Mirrors: int(user_input) in KeyPattern.translate_input_to_widget_id and
   self._pattern.format(item_id + self._offset) in KeyPattern.get_widget_label.
   Modelled, not verified: CPython's int() itself; non-ASCII digits / blanks and
   the 4300-digit limit are outside the model (the harness keeps to ASCII). *)
From Coq Require Import ZArith NArith List Bool.
Import ListNotations.
Local Open Scope N_scope.

Definition str := list N.

Definition is_space (c : N) : bool :=
  ((9 <=? c) && (c <=? 13)) || (c =? 32).
Definition is_digit (c : N) : bool := (48 <=? c) && (c <=? 57).

Fixpoint lstrip (s : str) : str :=
  match s with
  | c :: r => if is_space c then lstrip r else s
  | [] => []
  end.
Definition strip (s : str) : str := rev (lstrip (rev (lstrip s))).

(* digits with single interior underscores; [prev] = the previous char was a digit *)
Fixpoint digits (l : str) (acc : N) (prev : bool) : option N :=
  match l with
  | [] => if prev then Some acc else None
  | c :: r =>
    if is_digit c then digits r (10 * acc + (c - 48)) true
    else if (c =? 95) && prev then digits r acc false
    else None
  end.

Definition parse_int (s : str) : option Z :=
  match strip s with
  | 43 :: r => option_map Z.of_N (digits r 0 false)
  | 45 :: r => option_map (fun n => Z.opp (Z.of_N n)) (digits r 0 false)
  | t => option_map Z.of_N (digits t 0 false)
  end.

(* decimal rendering, most significant digit first *)
Fixpoint dec_fuel (fuel : nat) (n : N) (acc : str) : str :=
  match fuel with
  | O => acc
  | S f =>
    let acc' := (48 + n mod 10) :: acc in
    if n / 10 =? 0 then acc' else dec_fuel f (n / 10) acc'
  end.
Definition dec_N (n : N) : str := dec_fuel (S (N.size_nat n)) n [].
Definition dec (z : Z) : str :=
  match z with
  | Z0 => dec_N 0
  | Zpos p => dec_N (Npos p)
  | Zneg p => 45 :: dec_N (Npos p)
  end.
